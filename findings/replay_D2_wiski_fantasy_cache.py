import torch, gpytorch, warnings
warnings.filterwarnings("ignore")
torch.manual_seed(0)
torch.set_grad_enabled(False)
class M(gpytorch.models.ExactGP):
    def __init__(s, x, y, lik):
        super().__init__(x, y, lik)
        s.mean_module = gpytorch.means.ConstantMean()
        s.covar_module = gpytorch.kernels.GridInterpolationKernel(gpytorch.kernels.RBFKernel(), grid_size=20, num_dims=1, grid_bounds=[(-0.2,1.2)])
    def forward(s, x):
        return gpytorch.distributions.MultivariateNormal(s.mean_module(x), s.covar_module(x))
x = torch.linspace(0,1,30).double(); y = torch.sin(6*x)
xs = torch.linspace(0.05,0.95,7).double()
def fant():
    lik = gpytorch.likelihoods.GaussianLikelihood().double()
    m = M(x,y,lik).double(); m.eval(); lik.eval()
    with gpytorch.settings.fast_pred_var():
        m(xs)
        return m.get_fantasy_model(torch.tensor([0.33,0.66]).double(), torch.tensor([0.1,0.2]).double())
f = fant()
with gpytorch.settings.fast_pred_var(), gpytorch.settings.fast_pred_samples():
    p = f(xs); print("fresh fpv+fps ok", p.variance[:3])
f = fant()
with gpytorch.settings.fast_pred_var():
    p = f(xs); print("fpv ok", p.variance[:3])
try:
    with gpytorch.settings.fast_pred_var(), gpytorch.settings.fast_pred_samples():
        p = f(xs); print("then fpv+fps ok", p.variance[:3])
except Exception as e:
    print("HISTORY CRASH:", type(e).__name__, e)
