# Concerns commit 21f802c ("a non-floating fixed noise is converted to the likelihood's dtype before it is bounded").
# REGRESSION: FixedGaussianNoise.forward now converts an integer call-time noise to the dtype of the *stored* noise
# (self.noise.dtype), not to the dtype of the distribution it is added to. When the two differ - e.g. a
# FixedNoiseGaussianLikelihood whose stored noise came from numpy (float64) used with a float32 model; the stored noise
# is not even used when a call-time noise is given - the marginal gets a float64 covariance with a float32 mean:
# sampling raises "expected m1 and m2 to have the same dtype", and every result changes dtype.
# Before the commit the integer noise went through ordinary dtype promotion (int + float32 -> float32) and all worked.
import sys
import warnings

import numpy as np
import torch

from gpytorch.distributions import MultivariateNormal
from gpytorch.likelihoods import FixedNoiseGaussianLikelihood

warnings.simplefilter("ignore")
torch.manual_seed(0)

lik = FixedNoiseGaussianLikelihood(noise=torch.from_numpy(np.full(3, 0.1)))  # stored noise: float64
K = torch.eye(4) + 0.5
dist = MultivariateNormal(torch.zeros(4), K)  # float32 model output at 4 test points
int_noise = torch.tensor([1, 2, 3, 4])  # known test noise, given as integers
float_noise = int_noise.to(torch.float32)

ref = lik(dist, noise=float_noise)  # the same noise given as float32: never touched by the conversion
got = lik(dist, noise=int_noise)
print("float32 noise : mean", ref.mean.dtype, "covariance", ref.covariance_matrix.dtype)
print("integer noise : mean", got.mean.dtype, "covariance", got.covariance_matrix.dtype)
bad = got.covariance_matrix.dtype != ref.covariance_matrix.dtype
try:
    s = got.rsample()
    print("rsample with integer noise: ok,", s.dtype)
except Exception as e:  # noqa
    print("rsample with integer noise raised:", type(e).__name__, str(e)[:100])
    bad = True
elp = lik.expected_log_prob(torch.zeros(4), dist, noise=int_noise)
print("expected_log_prob dtype with integer noise:", elp.dtype, "(float noise:",
      lik.expected_log_prob(torch.zeros(4), dist, noise=float_noise).dtype, ")")
bad = bad or elp.dtype != torch.float32
if bad:
    print("PROBLEM: an integer call-time noise is cast to the stored noise's dtype instead of being promoted")
    sys.exit(1)
print("ok")
sys.exit(0)
