"""D13 (C18): NNVariationalStrategy keeps the nearest-neighbour structure of the constructor's inducing points after
load_state_dict loaded other inducing points.  Prints prediction differences between the saved model and a freshly
constructed model that loaded its state_dict (0 when correct)."""
import torch
import gpytorch
from gpytorch.models import ApproximateGP
from gpytorch.variational import MeanFieldVariationalDistribution, NNVariationalStrategy

torch.manual_seed(0)


class M(ApproximateGP):
    def __init__(self, Z):
        vd = MeanFieldVariationalDistribution(Z.size(-2))
        vs = NNVariationalStrategy(self, Z, vd, k=3, training_batch_size=4)
        super().__init__(vs)
        self.mean_module = gpytorch.means.ZeroMean()
        self.covar_module = gpytorch.kernels.RBFKernel()

    def forward(self, x):
        return gpytorch.distributions.MultivariateNormal(self.mean_module(x), self.covar_module(x))

    def __call__(self, x, prior=False, **kw):
        return self.variational_strategy(x=x, prior=False, **kw)


a = M(torch.rand(12, 2))
a.train()
a(None)
a.eval()
b = M(torch.rand(12, 2))
b.load_state_dict(a.state_dict())
b.eval()
x = torch.rand(5, 2)
with torch.no_grad():
    pa, pb = a(x), b(x)
print("eval mean diff", (pa.mean - pb.mean).abs().max().item(), "var diff", (pa.variance - pb.variance).abs().max().item())
