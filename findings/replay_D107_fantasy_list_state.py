# Concerns commit 0842861 (LikelihoodList routes marginal, log_marginal and get_fantasy_likelihood to its members).
# get_fantasy_likelihood now builds a FRESH container with self.__class__(*members) instead of copying the list:
# everything that lives on the container itself is lost - the train/eval flag (fantasy of an eval() list is back in
# training mode), registered buffers and plain attributes.  The code before the commit (deepcopy of the list) kept them.
import sys
import torch
from gpytorch.likelihoods import GaussianLikelihood, LikelihoodList

ll = LikelihoodList(GaussianLikelihood(), GaussianLikelihood())
ll.register_buffer("calib", torch.tensor([1.0, 2.0]))
ll.tag = "my-list"
ll.eval()

fant = ll.get_fantasy_likelihood()
bad = False
print("original.training =", ll.training, "| fantasy.training =", fant.training, "| members:", [m.training for m in fant.likelihoods])
if fant.training != ll.training:
    print("PROBLEM: the fantasy of an eval() LikelihoodList is in training mode (its members are not)")
    bad = True
print("original state_dict keys:", sorted(ll.state_dict().keys()))
print("fantasy  state_dict keys:", sorted(fant.state_dict().keys()))
if sorted(ll.state_dict().keys()) != sorted(fant.state_dict().keys()):
    print("PROBLEM: buffers registered on the list are missing in the fantasy (load_state_dict(strict) would fail)")
    bad = True
print("original.tag =", ll.tag, "| fantasy.tag =", getattr(fant, "tag", "<missing>"))
if getattr(fant, "tag", None) != ll.tag:
    print("PROBLEM: attributes of the list are missing in the fantasy")
    bad = True
sys.exit(1 if bad else 0)
