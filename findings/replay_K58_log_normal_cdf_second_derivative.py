"""C19 bug 2: second derivatives through LogNormalCDF are silently ZERO (no error is raised).

LogNormalCDF.backward is decorated with @once_differentiable, which is meant to turn a double-backward into an
error.  The guard only fires when the incoming grad_output requires grad.  For the most common use - a plain sum of
log-likelihood terms, sum_i log Phi(y_i f_i), whose upstream gradient is a constant tensor of ones - the first
derivative comes back as a constant without graph, so
    torch.autograd.functional.hessian / jacobian-of-grad / grad(..., create_graph=True)
deliver a Hessian that is identically 0 (or `None` = "independent of z") instead of
    d^2/dz^2 log Phi(z) = -h(z) (z + h(z)),  h = phi/Phi     (about -0.89 at z=-2).
A Newton / Laplace step for probit GP classification built on gpytorch.functions.log_normal_cdf therefore sees W = 0.
"""
import sys
import warnings

import torch

warnings.filterwarnings("ignore")
from gpytorch.functions import log_normal_cdf  # noqa: E402

torch.manual_seed(0)
dt = torch.float64
bad = False

y = torch.tensor([1.0, -1.0, 1.0, 1.0, -1.0], dtype=dt)
f0 = torch.tensor([-2.0, 0.5, 0.1, 1.0, 3.0], dtype=dt)


def loglik(f):  # probit log-likelihood, labels in {-1,+1}
    return log_normal_cdf(f * y).sum()


def loglik_ref(f):
    return torch.special.log_ndtr(f * y).sum()


H = torch.autograd.functional.hessian(loglik, f0)
H_ref = torch.autograd.functional.hessian(loglik_ref, f0)
# finite differences of the library's own (correct up to bug 1) first derivative
h = 1e-6
H_fd = torch.zeros(5, 5, dtype=dt)
for i in range(5):
    e = torch.zeros(5, dtype=dt)
    e[i] = h
    xp = (f0 + e).requires_grad_()
    xm = (f0 - e).requires_grad_()
    (gp,) = torch.autograd.grad(loglik(xp), xp)
    (gm,) = torch.autograd.grad(loglik(xm), xm)
    H_fd[i] = (gp - gm) / (2 * h)

print("Hessian diagonal of sum_i log Phi(y_i f_i) w.r.t. f")
print("  torch.autograd.functional.hessian via gpytorch log_normal_cdf:", H.diagonal().tolist())
print("  finite differences of the library's first derivative         :", H_fd.diagonal().tolist())
print("  torch.special.log_ndtr reference                             :", H_ref.diagonal().tolist())
err = (H - H_fd).abs().max().item()
print(f"  max |library Hessian - FD| = {err:.4f}   (no exception was raised)")
if err > 1e-3:
    bad = True

# the same thing spelled out with create_graph=True
z = (f0 * y).clone().requires_grad_()
(g,) = torch.autograd.grad(log_normal_cdf(z).sum(), z, create_graph=True)
print("first derivative returned with create_graph=True: requires_grad =", g.requires_grad, " grad_fn =", g.grad_fn)
w = torch.ones(5, dtype=dt, requires_grad=True)  # even with a differentiable upstream gradient:
(g2,) = torch.autograd.grad((log_normal_cdf(z) * w).sum(), z, create_graph=True)
second = torch.autograd.grad(g2.sum(), z, allow_unused=True)[0]
print("d/dz sum(d/dz sum(w*logPhi(z))) with allow_unused=True ->", second, "(should be", H_ref.diagonal().tolist(), ")")
if second is None or (second - H_ref.diagonal()).abs().max() > 1e-3:
    bad = True

print("VIOLATION PRESENT" if bad else "no violation")
sys.exit(1 if bad else 0)
