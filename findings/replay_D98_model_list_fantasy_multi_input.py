"""C04: IndependentModelList.get_fantasy_model fails for a member model that takes more than one input
(e.g. a Hadamard multitask GP: forward(x, task_index)), although IndependentModelList.__call__ and the member's own
get_fantasy_model accept exactly that input (a list [x, i] for the member)."""
import sys, warnings, traceback
import torch, gpytorch
warnings.filterwarnings("ignore")
torch.set_default_dtype(torch.float64)
torch.manual_seed(0)
MVN = gpytorch.distributions.MultivariateNormal


class Plain(gpytorch.models.ExactGP):
    def __init__(self, x, y, lik):
        super().__init__(x, y, lik)
        self.mean_module = gpytorch.means.ConstantMean()
        self.covar_module = gpytorch.kernels.ScaleKernel(gpytorch.kernels.RBFKernel())

    def forward(self, x):
        return MVN(self.mean_module(x), self.covar_module(x))


class Hadamard(gpytorch.models.ExactGP):
    def __init__(self, xs, y, lik):
        super().__init__(xs, y, lik)
        self.mean_module = gpytorch.means.ConstantMean()
        self.k = gpytorch.kernels.RBFKernel()
        self.tk = gpytorch.kernels.IndexKernel(num_tasks=2, rank=1)

    def forward(self, x, i):
        return MVN(self.mean_module(x), self.k(x).mul(self.tk(i)))


n, m, t = 7, 3, 4
X1, Y1 = torch.rand(n, 2), torch.randn(n)
X2, I2, Y2 = torch.rand(n, 2), torch.randint(0, 2, (n, 1)), torch.randn(n)
m1 = Plain(X1, Y1, gpytorch.likelihoods.GaussianLikelihood())
m2 = Hadamard((X2, I2), Y2, gpytorch.likelihoods.GaussianLikelihood())
ml = gpytorch.models.IndependentModelList(m1, m2).eval()

Xt1 = torch.rand(t, 2)
Xt2 = (torch.rand(t, 2), torch.randint(0, 2, (t, 1)))
out = ml(Xt1, Xt2)  # the list model itself handles the two-input member
print("ModelList call with a two-input member works:", [tuple(o.mean.shape) for o in out])

Xf1, Yf1 = torch.rand(m, 2), torch.randn(m)
Xf2, If2, Yf2 = torch.rand(m, 2), torch.randint(0, 2, (m, 1)), torch.randn(m)

# reference: conditioning from scratch
ref2 = Hadamard((torch.cat([X2, Xf2]), torch.cat([I2, If2])), torch.cat([Y2, Yf2]), gpytorch.likelihoods.GaussianLikelihood())
ref2.load_state_dict(m2.state_dict())
ref2.eval()
ref_mean = ref2(*Xt2).mean
member = m2.get_fantasy_model([Xf2, If2], Yf2)(*Xt2).mean
print("member.get_fantasy_model([x, i], y) vs from scratch: max diff", (member - ref_mean).abs().max().item())

bad = False
for name, arg in [("list", [Xf2, If2]), ("tuple", (Xf2, If2))]:
    try:
        fm = ml.get_fantasy_model([Xf1, arg], [Yf1, Yf2])
        got = fm(Xt1, Xt2)[1].mean
        d = (got - ref_mean).abs().max().item()
        print(f"ModelList.get_fantasy_model (member inputs as {name}): max diff to from-scratch", d)
        bad |= d > 1e-8
    except Exception as e:
        print(f"ModelList.get_fantasy_model (member inputs as {name}) RAISED {type(e).__name__}: {e}")
        bad = True
sys.exit(1 if bad else 0)
