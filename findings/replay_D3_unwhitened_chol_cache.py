import torch, gpytorch, warnings
warnings.filterwarnings("ignore")
torch.manual_seed(0)
from gpytorch.variational import *
def mk(strategy_cls):
    class GP(gpytorch.models.ApproximateGP):
        def __init__(s, Z):
            vd = CholeskyVariationalDistribution(Z.size(-2))
            vs = strategy_cls(s, Z, vd, learn_inducing_locations=True)
            super().__init__(vs)
            s.mean_module = gpytorch.means.ConstantMean(); s.covar_module = gpytorch.kernels.ScaleKernel(gpytorch.kernels.RBFKernel())
        def forward(s, x):
            return gpytorch.distributions.MultivariateNormal(s.mean_module(x), s.covar_module(x))
    return GP
Z = torch.rand(5,2).double()
for cls in [VariationalStrategy, UnwhitenedVariationalStrategy]:
    torch.manual_seed(1)
    m = mk(cls)(Z).double()
    m.train(); m(torch.rand(7,2).double()); m.eval()
    sd = m.state_dict()
    xb = torch.rand(3,4,2).double(); x = torch.rand(4,2).double()
    with torch.no_grad():
        m(xb)
        try:
            a = m(x)
            f = mk(cls)(Z).double(); f.load_state_dict(sd); f.eval()
            b = f(x)
            print(cls.__name__, "after batch call:", a.mean.shape, "fresh:", b.mean.shape, "diff", (a.mean-b.mean).abs().max().item() if a.mean.shape==b.mean.shape else None,
                  (a.covariance_matrix-b.covariance_matrix).abs().max().item() if a.mean.shape==b.mean.shape else None)
        except Exception as e:
            print(cls.__name__, "ERR", type(e).__name__, str(e)[:200])
