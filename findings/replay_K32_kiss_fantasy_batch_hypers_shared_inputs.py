import sys, warnings, torch, gpytorch
warnings.filterwarnings("ignore"); torch.set_default_dtype(torch.float64); torch.manual_seed(1)
b, n, m, t = 3, 12, 2, 4
bs = torch.Size([b])
class GP(gpytorch.models.ExactGP):
    def __init__(self, x, y, lik):
        super().__init__(x, y, lik)
        self.mean_module = gpytorch.means.ConstantMean(batch_shape=bs)
        self.covar_module = gpytorch.kernels.ScaleKernel(gpytorch.kernels.GridInterpolationKernel(gpytorch.kernels.RBFKernel(batch_shape=bs), grid_size=16, num_dims=1, grid_bounds=[(-0.2, 1.2)]), batch_shape=bs)
    def forward(self, x):
        return gpytorch.distributions.MultivariateNormal(self.mean_module(x), self.covar_module(x))
X, Y = torch.rand(n, 1), torch.randn(b, n)
lik = gpytorch.likelihoods.GaussianLikelihood(batch_shape=bs)
model = GP(X, Y, lik); model.eval()
Xs, Xf, Yf = torch.rand(t, 1), torch.rand(m, 1), torch.randn(b, m)
bad = False
with torch.no_grad():
    print("source prediction shape:", tuple(model(Xs).mean.shape))
    try:
        fm = model.get_fantasy_model(Xf.expand(b, m, 1), Yf); print("expanded fantasy inputs ok:", tuple(fm(Xs).mean.shape))
    except Exception as e:
        print("expanded inputs RAISED", type(e).__name__, str(e)[:120])
    try:
        fm = model.get_fantasy_model(Xf, Yf); print("shared fantasy inputs ok:", tuple(fm(Xs).mean.shape))
    except Exception as e:
        print("shared fantasy inputs (m x d) RAISED", type(e).__name__, str(e)[:160]); bad = True
print("VIOLATION PRESENT" if bad else "no violation"); sys.exit(1 if bad else 0)
