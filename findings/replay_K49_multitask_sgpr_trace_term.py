"""C09 bug 2: SGPR training objective of a Kronecker multitask model is not the Titsias collapsed bound.

Model (the configuration of test/examples/test_kronecker_multitask_sgpr_regression.py):
    covar_module = MultitaskKernel(InducingPointKernel(base, Z, likelihood), num_tasks=T, rank=r)
    likelihood   = MultitaskGaussianLikelihood(num_tasks=T)
The kernel is (K_XX (x) B), its Nystrom approximation (Q_XX (x) B) with Q = K_XZ K_ZZ^-1 K_ZX, the noise is I_n (x) D.
The collapsed bound is   log N(y | m, Q (x) B + I (x) D)  -  1/2 tr[(I (x) D)^-1 ((K - Q) (x) B)]
                                                          =  ...  -  1/2 sum_i (K-Q)_ii * sum_t B_tt / D_tt .
InducingPointKernelAddedLossTerm computes  - 1/2 sum_i sum_t (K-Q)_ii / D_tt : the task covariance B is dropped."""
import sys
import warnings

import torch

import gpytorch
from gpytorch.distributions import MultitaskMultivariateNormal
from gpytorch.kernels import InducingPointKernel, MultitaskKernel, RBFKernel, ScaleKernel

warnings.simplefilter("ignore")
torch.manual_seed(0)
torch.set_default_dtype(torch.float64)

n, m, T, d = 10, 3, 2, 2
x = torch.rand(n, d)
y = torch.randn(n, T)
Z = torch.rand(m, d)


class Model(gpytorch.models.ExactGP):
    def __init__(self, x, y, lik):
        super().__init__(x, y, lik)
        self.mean_module = gpytorch.means.MultitaskMean(gpytorch.means.ConstantMean(), num_tasks=T)
        self.base = ScaleKernel(RBFKernel())
        self.covar_module = MultitaskKernel(
            InducingPointKernel(self.base, inducing_points=Z.clone(), likelihood=lik), num_tasks=T, rank=1
        )

    def forward(self, x):
        return MultitaskMultivariateNormal(self.mean_module(x), self.covar_module(x))


lik = gpytorch.likelihoods.MultitaskGaussianLikelihood(num_tasks=T)  # rank 0: diagonal task noise + global noise
model = Model(x, y, lik)
model.base.base_kernel.lengthscale = 0.3
model.covar_module.task_covar_module.covar_factor.data = torch.tensor([[1.5], [0.4]])
model.covar_module.task_covar_module.var = torch.tensor([0.7, 2.0])
lik.task_noises = torch.tensor([0.3, 0.9])
lik.noise = 0.1
model.train()
lik.train()
mll = gpytorch.mlls.ExactMarginalLogLikelihood(lik, model)
library = mll(model(x), y) * (n * T)  # ExactMarginalLogLikelihood divides by the number of observed values

with torch.no_grad():
    base = model.base
    Kzz, Kxz, Kxx = base(Z, Z).to_dense(), base(x, Z).to_dense(), base(x, x).to_dense()
    Q = Kxz @ torch.linalg.inv(Kzz) @ Kxz.mT
    F = model.covar_module.task_covar_module.covar_factor
    B = F @ F.mT + torch.diag(model.covar_module.task_covar_module.var)
    D = torch.diag(lik.task_noises) + lik.noise * torch.eye(T)
    Sigma = torch.kron(torch.eye(n), D)  # interleaved layout: data index slow, task index fast
    mean = model.mean_module(x).reshape(-1)
    yy = y.reshape(-1)
    log_q = torch.distributions.MultivariateNormal(mean, torch.kron(Q, B) + Sigma).log_prob(yy)
    trace_true = -0.5 * torch.trace(torch.linalg.solve(Sigma, torch.kron(Kxx - Q, B)))
    trace_noB = -0.5 * ((Kxx - Q).diagonal().unsqueeze(-1) / D.diagonal()).sum()
    titsias = log_q + trace_true
    exact = torch.distributions.MultivariateNormal(mean, torch.kron(Kxx, B) + Sigma).log_prob(yy)

print(f"diag(B)                                   = {B.diagonal().tolist()}")
print(f"library objective (x n*T)                 = {library.item():.6f}")
print(f"Titsias collapsed bound                   = {titsias.item():.6f}")
print(f"  log N(y | m, Q(x)B + Sigma)             = {log_q.item():.6f}")
print(f"  true trace term  -1/2 tr S^-1 (K-Q)(x)B = {trace_true.item():.6f}")
print(f"  trace term without B (what the lib adds)= {trace_noB.item():.6f}")
print(f"library - (log_q + trace term without B)  = {(library - log_q - trace_noB).item():.3e}   (-> this is what is computed)")
print(f"library - Titsias bound                   = {(library - titsias).item():.6f}")
print(f"exact log marginal likelihood             = {exact.item():.6f}")
bad = abs((library - titsias).item()) > 1e-6
print("VIOLATION PRESENT" if bad else "no violation")
sys.exit(1 if bad else 0)
