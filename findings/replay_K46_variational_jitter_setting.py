#!/usr/bin/env python3
"""
C03 violation 1: the Cholesky factor of K_ZZ + jitter*I that a variational strategy caches in eval mode is not keyed
by the jitter, so the value of settings.variational_cholesky_jitter that was active at an EARLIER prediction leaks into
every later prediction.

History:  train a few steps -> eval() -> one prediction under variational_cholesky_jitter(1e-2) -> prediction under the
default settings.  Reference: a freshly constructed model with the same state_dict, called under the default settings.

Exit code 1 if the violation is present, 0 otherwise.
"""
import sys
import warnings

import torch

import gpytorch

warnings.filterwarnings("ignore")
torch.manual_seed(0)
torch.set_default_dtype(torch.float64)


def make_strategy(kind, model, Z):
    M = Z.size(-2)
    V = gpytorch.variational
    if kind == "VariationalStrategy":
        return V.VariationalStrategy(model, Z, V.CholeskyVariationalDistribution(M), learn_inducing_locations=True)
    if kind == "UnwhitenedVariationalStrategy":
        return V.UnwhitenedVariationalStrategy(
            model, Z, V.CholeskyVariationalDistribution(M), learn_inducing_locations=True
        )
    if kind == "BatchDecoupledVariationalStrategy":
        return V.BatchDecoupledVariationalStrategy(
            model, Z, V.CholeskyVariationalDistribution(M), learn_inducing_locations=True
        )
    raise ValueError(kind)


class SVGP(gpytorch.models.ApproximateGP):
    def __init__(self, kind):
        Z = torch.linspace(0, 1, 8).unsqueeze(-1)
        super().__init__(make_strategy(kind, self, Z))
        bs = torch.Size([2]) if kind == "BatchDecoupledVariationalStrategy" else torch.Size([])
        self.mean_module = gpytorch.means.ConstantMean(batch_shape=bs)
        self.covar_module = gpytorch.kernels.ScaleKernel(gpytorch.kernels.RBFKernel(batch_shape=bs), batch_shape=bs)

    def forward(self, x):
        return gpytorch.distributions.MultivariateNormal(self.mean_module(x), self.covar_module(x))


def run(kind):
    torch.manual_seed(0)
    X = torch.rand(20, 1)
    y = torch.sin(6 * X.squeeze(-1))
    model = SVGP(kind)
    lik = gpytorch.likelihoods.GaussianLikelihood()
    mll = gpytorch.mlls.VariationalELBO(lik, model, 20)
    opt = torch.optim.Adam(list(model.parameters()) + list(lik.parameters()), lr=0.1)
    model.train()
    for _ in range(5):
        opt.zero_grad()
        loss = -mll(model(X), y)
        loss.backward()
        opt.step()
    model.eval()

    xt = torch.linspace(0.05, 0.95, 5).unsqueeze(-1)

    # an earlier prediction under a non-default (but perfectly valid) jitter setting
    with gpytorch.settings.variational_cholesky_jitter(float_value=1e-2, double_value=1e-2):
        early = model(xt)
        early.mean, early.covariance_matrix

    # the prediction under test: default settings
    with torch.no_grad():
        pred = model(xt)
        mean, covar = pred.mean.clone(), pred.covariance_matrix.clone()

    # reference 1: fresh model, same parameters, default settings
    fresh = SVGP(kind)
    fresh.load_state_dict(model.state_dict())
    fresh.eval()
    with torch.no_grad():
        ref = fresh(xt)
        ref_mean, ref_covar = ref.mean.clone(), ref.covariance_matrix.clone()

    # reference 2: the same object after a train()/eval() round trip (which drops the cache)
    model.train()
    model.eval()
    with torch.no_grad():
        again = model(xt)
        again_mean = again.mean.clone()

    d_mean = (mean - ref_mean).abs().max().item()
    d_cov = (covar - ref_covar).abs().max().item()
    d_again = (again_mean - ref_mean).abs().max().item()
    print(f"[{kind}]")
    print("  mean after the jitter(1e-2) call :", mean.flatten().tolist())
    print("  mean of a fresh model            :", ref_mean.flatten().tolist())
    print(f"  max |mean - fresh mean|   = {d_mean:.3e}")
    print(f"  max |covar - fresh covar| = {d_cov:.3e}")
    print(f"  same object after train()/eval(): max |mean - fresh mean| = {d_again:.3e}")
    return max(d_mean, d_cov)


if __name__ == "__main__":
    worst = 0.0
    for kind in ["VariationalStrategy", "UnwhitenedVariationalStrategy", "BatchDecoupledVariationalStrategy"]:
        worst = max(worst, run(kind))
    print(f"worst discrepancy = {worst:.3e}  (tolerance 1e-6)")
    if worst > 1e-6:
        print("VIOLATION: an earlier call's variational_cholesky_jitter leaks into later eval-mode predictions")
        sys.exit(1)
    print("no violation")
    sys.exit(0)
