#!/usr/bin/env python3
"""
C06 / bug 2: Kernel.__call__(..., diag=True) decides with a shape heuristic whether the kernel "ate" the diag option
(gpytorch/kernels/kernel.py, Kernel.__call__):

        if res.dim() == x1_.dim() and res.shape[-2:] == torch.Size((x1_.size(-2), x2_.size(-2))):
            res = res.diagonal(dim1=-1, dim2=-2)

The heuristic compares against the dimensionality of x1 only, so it is wrong as soon as the kernel parameters carry
batch dimensions that the inputs lack (a batch-broadcast pattern the full matrix handles fine):

 (i)   false positive: RBFKernel(batch_shape=[3]) on un-batched x1, x2 with n = 3 points. forward(diag=True)
       correctly returns the 3 x 3 (= batch x n) diagonal, the heuristic takes it for an n x n matrix and takes the
       diagonal AGAIN: the result has shape (3,) instead of (3, 3) (with n = 4 the same call is right).
 (ii)  false negative: IndexKernel ignores diag (it relies on the heuristic). IndexKernel(batch_shape=[2]) on
       un-batched index inputs returns the full 2 x n x n matrix for diag=True.
 (iii) consequence of (ii): the batched Hadamard multitask kernel RBFKernel(batch [2]) * IndexKernel(batch [2]) on
       un-batched inputs raises for diag=True and for lazy.diagonal(), although the full matrix is fine.

Reference: the diagonal of the dense full matrix.  Exit code 1 if the violation is present.
"""
import sys
import warnings

import torch

from gpytorch.kernels import IndexKernel, RBFKernel

warnings.filterwarnings("ignore")
torch.manual_seed(0)
torch.set_default_dtype(torch.float64)

bad = 0


def compare(label, fun, ref):
    global bad
    try:
        res = fun()
        res = res.to_dense() if hasattr(res, "to_dense") else res
    except Exception as e:  # noqa
        bad += 1
        print(f"  VIOLATION  {label}: raises {type(e).__name__}: {str(e)[:100]}  (expected shape {tuple(ref.shape)})")
        return
    if res.shape != ref.shape:
        bad += 1
        print(f"  VIOLATION  {label}: shape {tuple(res.shape)}, diagonal of the full matrix has shape {tuple(ref.shape)}")
        return
    err = (res - ref).abs().max().item()
    bad += err > 1e-8
    print(f"  {'VIOLATION' if err > 1e-8 else 'ok       '}  {label}: max abs err {err:.2e}")


# ---------------------------------------------------------------- (i)
print("(i) RBFKernel(batch_shape=[3]), un-batched x1 != x2")
k = RBFKernel(batch_shape=torch.Size([3])).eval()
k.lengthscale = torch.tensor([0.5, 1.0, 2.0]).view(3, 1, 1)
for n in (4, 3):
    x1 = torch.randn(n, 2)
    x2 = torch.randn(n, 2)
    full = k(x1, x2).to_dense()  # 3 x n x n
    ref = full.diagonal(dim1=-1, dim2=-2)  # 3 x n
    compare(f"n = {n}: k(x1, x2, diag=True)", lambda: k(x1, x2, diag=True), ref)
    compare(f"n = {n}: k(x1, x1, diag=True)", lambda: k(x1, diag=True), k(x1).to_dense().diagonal(dim1=-1, dim2=-2))
    compare(f"n = {n}: k(x1, x2).diagonal()  (lazy, control)", lambda: k(x1, x2).diagonal(), ref)

# ---------------------------------------------------------------- (ii)
print("(ii) IndexKernel(num_tasks=4, rank=2, batch_shape=[2]), un-batched index inputs")
ik = IndexKernel(num_tasks=4, rank=2, batch_shape=torch.Size([2])).eval()
ik.covar_factor.data = torch.randn(2, 4, 2)
ik.raw_var.data = torch.randn(2, 4)
i1 = torch.tensor([[0], [3], [1], [1], [2]])
ref = ik(i1).to_dense().diagonal(dim1=-1, dim2=-2)  # 2 x 5
compare("ik(i1, diag=True)", lambda: ik(i1, diag=True), ref)
ik0 = IndexKernel(num_tasks=4, rank=2).eval()
compare(
    "control: un-batched IndexKernel, ik0(i1, diag=True)",
    lambda: ik0(i1, diag=True),
    ik0(i1).to_dense().diagonal(dim1=-1, dim2=-2),
)

# ---------------------------------------------------------------- (iii)
print("(iii) RBFKernel(batch [2], active_dims=(0, 1)) * IndexKernel(batch [2], active_dims=(2,)), un-batched x")
B2 = torch.Size([2])
rbf = RBFKernel(batch_shape=B2, active_dims=(0, 1))
rbf.lengthscale = torch.tensor([0.5, 2.0]).view(2, 1, 1)
ind = IndexKernel(num_tasks=4, rank=2, batch_shape=B2, active_dims=(2,))
ind.covar_factor.data = torch.randn(2, 4, 2)
prod = (rbf * ind).eval()
x = torch.cat([torch.randn(5, 2), i1.double()], -1)
ref = prod(x).to_dense().diagonal(dim1=-1, dim2=-2)  # 2 x 5
compare("prod(x, diag=True)", lambda: prod(x, diag=True), ref)
compare("prod(x).diagonal()", lambda: prod(x).diagonal(), ref)
xb = x.expand(2, 5, 3).contiguous()
compare("control: same kernel, x expanded to the batch shape, prod(xb, diag=True)", lambda: prod(xb, diag=True), ref)

print("violations:", bad)
sys.exit(1 if bad else 0)
