"""
C08 violation 2: a batched ExactGP whose ScaleKernel outputscale (or ConstantMean constant) carries a
SmoothedBoxPrior.  Element b of the batched ExactMarginalLogLikelihood contains the prior log-density of the
outputscales of ALL batch elements, because SmoothedBoxPrior (event_shape [1] for scalar bounds) sums its
log-density over the last dimension of the value - which for `outputscale` (shape = batch_shape, no trailing
singleton) IS the batch dimension.

Reference: un-batched replica models carrying slice b of every parameter and slice b of the data
(same prior), and the same batched model with an element-wise prior (GammaPrior), which is fine.
"""
import sys
import warnings

import torch

import gpytorch
from gpytorch.priors import GammaPrior, SmoothedBoxPrior

warnings.filterwarnings("ignore")
torch.set_default_dtype(torch.float64)


class GP(gpytorch.models.ExactGP):
    def __init__(self, x, y, batch_shape, os_prior=None, c_prior=None):
        super().__init__(x, y, gpytorch.likelihoods.GaussianLikelihood(batch_shape=batch_shape))
        self.mean_module = gpytorch.means.ConstantMean(batch_shape=batch_shape, constant_prior=c_prior)
        self.covar_module = gpytorch.kernels.ScaleKernel(
            gpytorch.kernels.RBFKernel(batch_shape=batch_shape), batch_shape=batch_shape, outputscale_prior=os_prior
        )

    def forward(self, x):
        return gpytorch.distributions.MultivariateNormal(self.mean_module(x), self.covar_module(x))


torch.manual_seed(0)
B, n = 2, 6
x = torch.randn(B, n, 1)
y = torch.randn(B, n)
outputscale = torch.tensor([0.5, 5.0])  # element 1 lies outside the box [0.1, 2.0], element 0 inside
constant = torch.tensor([0.2, -4.0])  # element 1 lies outside the box [-1, 1]


def mll_of(model, xx, yy):
    model.train()
    mll = gpytorch.mlls.ExactMarginalLogLikelihood(model.likelihood, model)
    with torch.no_grad():
        return mll(model(xx), yy)


failed = False
cases = {
    "outputscale_prior=SmoothedBoxPrior(0.1, 2.0)": dict(os_prior=lambda: SmoothedBoxPrior(0.1, 2.0, sigma=0.1)),
    "constant_prior=SmoothedBoxPrior(-1, 1)": dict(c_prior=lambda: SmoothedBoxPrior(-1.0, 1.0, sigma=0.1)),
    "outputscale_prior=GammaPrior(2, 1) (control)": dict(os_prior=lambda: GammaPrior(2.0, 1.0)),
}
for label, kw in cases.items():
    batched = GP(x, y, torch.Size([B]), **{k: v() for k, v in kw.items()})
    batched.covar_module.outputscale = outputscale
    batched.mean_module.constant = constant
    got = mll_of(batched, x, y)
    ref = []
    for b in range(B):
        rep = GP(x[b], y[b], torch.Size([]), **{k: v() for k, v in kw.items()})
        rep.covar_module.outputscale = outputscale[b]
        rep.mean_module.constant = constant[b]
        ref.append(mll_of(rep, x[b], y[b]))
    ref = torch.stack(ref)
    err = (got - ref).abs().max().item()
    print(label)
    print("   batched MLL            :", got.tolist())
    print("   independent replicas   :", ref.tolist())
    print(f"   max |difference|       : {err:.3e}")
    if "control" in label:
        assert err < 1e-8, "control is expected to agree"
    elif err > 1e-6:
        failed = True

# the prior itself: a batch of two outputscales gives ONE number
p = SmoothedBoxPrior(0.1, 2.0, sigma=0.1)
print("SmoothedBoxPrior.log_prob(outputscale of shape [2]) ->", p.log_prob(outputscale).shape,
      " element-wise values:", [p.log_prob(v).item() for v in outputscale])

print("VIOLATION PRESENT" if failed else "no violation")
sys.exit(1 if failed else 0)
