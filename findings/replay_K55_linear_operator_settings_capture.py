"""K55: the settings re-exported from linear_operator read the previous value in their constructor.
An instance created before an enclosing block of the same setting is entered restores past that block."""
import sys
import gpytorch

bad = 0
for name, outer_arg, inner_arg in [("max_cg_iterations", 5, 100), ("max_cholesky_size", 5, 100), ("cg_tolerance", 0.5, 0.25)]:
    S = getattr(gpytorch.settings, name)
    default = S.value()
    inner = S(inner_arg)
    with S(outer_arg):
        with inner:
            pass
        got = S.value()
    print("%s: inside the outer block after the inner one exited: %r (expected %r, default %r)" % (name, got, outer_arg, default))
    bad += got != outer_arg
print("%d violation(s)" % bad)
sys.exit(1 if bad else 0)
