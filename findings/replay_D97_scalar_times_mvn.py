"""C10 / scalar arithmetic: s * mvn raises TypeError for every scalar s although mvn * s and s + mvn work
(MultivariateNormal defines __radd__ but no __rmul__)."""
import sys
import warnings

import torch

from gpytorch.distributions import MultivariateNormal
from linear_operator import to_linear_operator

warnings.simplefilter("ignore")
torch.manual_seed(0)
torch.set_default_dtype(torch.float64)

A = torch.randn(3, 4, 4)
C = A @ A.transpose(-1, -2) + 4 * torch.eye(4)
mean = torch.randn(3, 4)
failures = 0
for lazy in (False, True):
    d = MultivariateNormal(mean, to_linear_operator(C) if lazy else C)
    for s in (2, 2.5, -3.0):
        right = d * s  # works: mean * s, covariance * s^2
        assert torch.allclose(right.mean, mean * s) and torch.allclose(right.covariance_matrix, C * s * s)
        radd = s + d  # the reflected addition works too
        assert torch.allclose(radd.mean, mean + s) and torch.allclose(radd.covariance_matrix, C)
        try:
            left = s * d
            err = max((left.mean - mean * s).abs().max().item(), (left.covariance_matrix - C * s * s).abs().max().item())
            print(f"{'lazy ' if lazy else 'dense'} {s} * mvn: ok, error {err:.1e}")
            failures += err > 1e-10
        except Exception as e:
            failures += 1
            print(f"{'lazy ' if lazy else 'dense'} mvn * {s} and {s} + mvn work, but {s} * mvn RAISED {type(e).__name__}: {e}")

print("violations:", failures)
sys.exit(1 if failures else 0)
