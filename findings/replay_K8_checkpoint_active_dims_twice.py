"""K8 (C06): kernel checkpointing applies active_dims twice."""
import warnings

import torch
import gpytorch
from gpytorch.kernels import RBFKernel

warnings.filterwarnings("ignore")
torch.manual_seed(0)
x, rhs = torch.rand(6, 2), torch.rand(6, 2)
k = RBFKernel(active_dims=(1, 0), ard_num_dims=2)
k.lengthscale = torch.tensor([[0.2, 2.0]])
dense = k(x).to_dense() @ rhs
with gpytorch.beta_features.checkpoint_kernel(2):
    res = k(x).matmul(rhs)
print("max |checkpointed matmul - dense|:", (res - dense).abs().max().item())
