# Concerns commit ce5fe19 ("unwhitened pseudo_points evaluates the prior mean instead of reading the memoised prior").
# INCOMPLETE REPAIR: pseudo_points still reads the *other* memoised property, self.variational_distribution, on the
# same line. It runs under torch.no_grad() inside amortized_exact_gp, so a graph-free q(u) is left in the memo
# ("variational_distribution_memo"); eval mode never clears the memo, so every later eval-mode kl_divergence() (and
# every later eval-mode model call) has no gradient w.r.t. the variational parameters - the same defect the commit
# repaired for the prior. (The code before the commit had this too, plus the prior; the commit fixes only the prior.)
import sys
import warnings

import torch

import gpytorch
from gpytorch.variational import CholeskyVariationalDistribution, UnwhitenedVariationalStrategy

warnings.simplefilter("ignore")
torch.manual_seed(0)


class M(gpytorch.models.ApproximateGP):
    def __init__(self, Z):
        vd = CholeskyVariationalDistribution(Z.size(-2))
        vs = UnwhitenedVariationalStrategy(self, Z, vd, learn_inducing_locations=True)
        super().__init__(vs)
        self.mean_module = gpytorch.means.ConstantMean()
        self.covar_module = gpytorch.kernels.ScaleKernel(gpytorch.kernels.RBFKernel())
        self.likelihood = gpytorch.likelihoods.GaussianLikelihood()

    def forward(self, x):
        return gpytorch.distributions.MultivariateNormal(self.mean_module(x), self.covar_module(x))


def kl_grads(call_fantasy):
    torch.manual_seed(0)
    m = M(torch.linspace(0, 1, 5).unsqueeze(-1))
    m.mean_module.constant.data.fill_(0.7)
    m.variational_strategy.variational_params_initialized.fill_(1)
    m.eval()
    if call_fantasy:
        m.variational_strategy.get_fantasy_model(torch.rand(3, 1), torch.rand(3))
    kl = m.variational_strategy.kl_divergence()
    kl.backward()
    vd = m.variational_strategy._variational_distribution
    out = m(torch.linspace(0.1, 0.9, 4).unsqueeze(-1))  # (fixed inputs: get_fantasy_model consumes random numbers)
    g_out = torch.autograd.grad(out.mean.sum(), vd.variational_mean, allow_unused=True)[0]
    return {
        "d KL / d variational_mean": vd.variational_mean.grad,
        "d KL / d chol_variational_covar": vd.chol_variational_covar.grad,
        "d KL / d mean constant (prior, repaired)": m.mean_module.raw_constant.grad,
        "d eval-mode predictive mean / d variational_mean": g_out,
    }


ref = kl_grads(call_fantasy=False)
got = kl_grads(call_fantasy=True)
bad = False
for k in ref:
    r, g = ref[k], got[k]
    print(f"{k}:\n   without get_fantasy_model: {None if r is None else r.flatten()[:3].tolist()}"
          f"\n   after get_fantasy_model:   {None if g is None else g.flatten()[:3].tolist()}")
    if r is not None and (g is None or not torch.allclose(r, g, rtol=1e-4, atol=1e-6)):
        bad = True
if bad:
    print("PROBLEM: after an eval-mode get_fantasy_model the KL term / predictions lost the gradient w.r.t. q(u)")
    sys.exit(1)
print("ok")
sys.exit(0)
