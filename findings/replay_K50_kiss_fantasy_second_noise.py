"""C09 bug 3: the KISS-GP fantasy update (InterpolatedPredictionStrategy.get_fantasy_strategy and its caches) ignores the
learned additional noise of FixedNoiseGaussianLikelihood(learn_additional_noise=True).

A KISS-GP model is conditioned on extra observations through get_fantasy_model.  The result must equal the dense GP
conditional for the same (interpolated) kernel matrix on the concatenated data with noise  diag([noise, new_noise]) + second_noise*I
(this is what the model itself returns before the update, and what DefaultPredictionStrategy returns after the update for a
non-KISS kernel).  The fantasy mean - and with fast_pred_var also the fantasy covariance - come out as if second_noise were 0."""
import sys
import warnings

import torch

import gpytorch
from gpytorch.kernels import GridInterpolationKernel, RBFKernel, ScaleKernel

warnings.simplefilter("ignore")
torch.set_default_dtype(torch.float64)


class Model(gpytorch.models.ExactGP):
    def __init__(self, x, y, lik, kernel):
        super().__init__(x, y, lik)
        self.mean_module = gpytorch.means.ConstantMean()
        self.covar_module = kernel

    def forward(self, x):
        return gpytorch.distributions.MultivariateNormal(self.mean_module(x), self.covar_module(x))


def dense_conditional(model, x, y, xs, noise_diag):
    k = model.covar_module
    Kxx, Ksx, Kss = k(x, x).to_dense(), k(xs, x).to_dense(), k(xs, xs).to_dense()
    A_inv = torch.linalg.inv(Kxx + torch.diag(noise_diag))
    mean = model.mean_module(xs) + Ksx @ A_inv @ (y - model.mean_module(x))
    return mean, Kss - Ksx @ A_inv @ Ksx.mT


SECOND = 0.4
bad = False
for kind in ("KISS-GP", "dense RBF (control)"):
    for fast_pred_var in (False, True):
        torch.manual_seed(0)
        n, d = 14, 2
        x, y, noise = torch.rand(n, d), torch.randn(n), torch.rand(n) * 0.5 + 0.05
        xs = torch.rand(4, d)
        xf, yf, noise_f = torch.rand(3, d), torch.randn(3), torch.rand(3) * 0.5 + 0.05
        if kind == "KISS-GP":
            kernel = ScaleKernel(GridInterpolationKernel(RBFKernel(), grid_size=8, num_dims=d, grid_bounds=[(-0.1, 1.1)] * d))
        else:
            kernel = ScaleKernel(RBFKernel())
        lik = gpytorch.likelihoods.FixedNoiseGaussianLikelihood(noise, learn_additional_noise=True)
        lik.second_noise = SECOND
        model = Model(x, y, lik, kernel).double()
        model.eval()
        with torch.no_grad(), gpytorch.settings.fast_pred_var(fast_pred_var):
            p0 = model(xs)  # prediction before the update (also fills the caches get_fantasy_model needs)
            m0, c0 = dense_conditional(model, x, y, xs, noise + SECOND)
            e0 = max((p0.mean - m0).abs().max().item(), (p0.covariance_matrix - c0).abs().max().item())

            fant = model.get_fantasy_model(xf, yf, noise=noise_f)
            pf = fant(xs)
            X, Y = torch.cat([x, xf]), torch.cat([y, yf])
            m_ref, c_ref = dense_conditional(model, X, Y, xs, torch.cat([noise, noise_f]) + SECOND)
            m_no2, c_no2 = dense_conditional(model, X, Y, xs, torch.cat([noise, noise_f]))
        em, ec = (pf.mean - m_ref).abs().max().item(), (pf.covariance_matrix - c_ref).abs().max().item()
        em2, ec2 = (pf.mean - m_no2).abs().max().item(), (pf.covariance_matrix - c_no2).abs().max().item()
        print(f"{kind:20s} fast_pred_var={fast_pred_var!s:5s} before update: err={e0:.1e} | after fantasy update: "
              f"|mean-ref|={em:.2e} |cov-ref|={ec:.2e}   (vs. conditional with second_noise=0: {em2:.1e} / {ec2:.1e})")
        if kind == "KISS-GP":
            bad = bad or em > 1e-4 or ec > 1e-4
        else:
            assert em < 1e-8 and ec < 1e-8

print("VIOLATION PRESENT" if bad else "no violation")
sys.exit(1 if bad else 0)
