"""D12: log_prob of a non-interleaved MultitaskMultivariateNormal vs the sum of independent member log_probs (0 when correct)."""
import torch
from gpytorch.distributions import MultitaskMultivariateNormal as MT, MultivariateNormal as MVN

torch.manual_seed(0)
n = 4


def mk():
    A = torch.randn(n, n, dtype=torch.double)
    return MVN(torch.randn(n, dtype=torch.double), A @ A.T + torch.eye(n, dtype=torch.double))


ms = [mk(), mk(), mk()]
d = MT.from_independent_mvns(ms)
v = torch.randn(n, 3, dtype=torch.double)
print("interleaved:", d._interleaved, "difference:", (d.log_prob(v) - sum(m.log_prob(v[:, i]) for i, m in enumerate(ms))).abs().item())
