"""C18 / variational GP + get_fantasy_model: copy.deepcopy of the (ExactGP) model returned by
ApproximateGP.get_fantasy_model predicts something else than the model it was copied from.

The fantasy model of a variational GP is an ExactGP over (inducing points + new points) whose prediction-relevant
state - the full pseudo-observation covariance of the inducing values, see
_VariationalStrategy.amortized_exact_gp / get_fantasy_model (gpytorch/variational/_variational_strategy.py:171-330) - is
stored ONLY in model.prediction_strategy (lik_train_train_covar and the hand-made "mean_cache").
DefaultPredictionStrategy.__deepcopy__ (gpytorch/models/exact_prediction_strategies.py:73) returns None, so a deep copy
comes back with prediction_strategy=None and rebuilds it from the plain homoskedastic likelihood:
a different posterior.  pickle keeps the strategy and is exact.

Reference: the fantasy model itself (and its pickle round trip).
"""
import copy
import pickle
import sys
import warnings

import torch

import gpytorch

warnings.filterwarnings("ignore")
torch.set_default_dtype(torch.float64)
torch.manual_seed(0)

X = torch.rand(40, 1)
Y = torch.sin(6 * X.squeeze(-1)) + 0.1 * torch.randn(40)
X_NEW = torch.tensor([[0.15], [0.55], [0.9]])
Y_NEW = torch.sin(6 * X_NEW.squeeze(-1))
X_TEST = torch.linspace(0, 1, 7).unsqueeze(-1)


class SVGP(gpytorch.models.ApproximateGP):
    def __init__(self):
        dist = gpytorch.variational.CholeskyVariationalDistribution(8)
        strategy = gpytorch.variational.VariationalStrategy(
            self, torch.linspace(0, 1, 8).unsqueeze(-1), dist, learn_inducing_locations=True
        )
        super().__init__(strategy)
        self.mean_module = gpytorch.means.ConstantMean()
        self.covar_module = gpytorch.kernels.ScaleKernel(gpytorch.kernels.RBFKernel())
        self.likelihood = gpytorch.likelihoods.GaussianLikelihood()

    def forward(self, x):
        return gpytorch.distributions.MultivariateNormal(self.mean_module(x), self.covar_module(x))


model = SVGP()
model.covar_module.base_kernel.lengthscale = 0.2
model.likelihood.noise = 0.02
mll = gpytorch.mlls.VariationalELBO(model.likelihood, model, num_data=40)
opt = torch.optim.Adam(model.parameters(), lr=0.05)
model.train()
for _ in range(400):
    opt.zero_grad()
    (-mll(model(X), Y)).backward()
    opt.step()

model.eval()
with torch.no_grad():
    model(X_TEST)
fantasy = model.get_fantasy_model(X_NEW, Y_NEW)


def predict(m):
    m.eval()  # (already in eval mode: does not clear anything)
    with torch.no_grad():
        out = m(X_TEST)
    return out.mean.clone(), out.variance.clone()


ref = predict(fantasy)
clone = copy.deepcopy(fantasy)
pickled = pickle.loads(pickle.dumps(fantasy))
got, pk = predict(clone), predict(pickled)

d_mean = (ref[0] - got[0]).abs().max().item()
d_var = (ref[1] - got[1]).abs().max().item()
with torch.no_grad():
    print("posterior mean  variational GP (before conditioning, for orientation):", model(X_TEST).mean.numpy().round(4))
print("posterior mean  fantasy model:", ref[0].numpy().round(4))
print("posterior mean  deep copy    :", got[0].numpy().round(4))
print(f"max |diff| mean {d_mean:.3e}   max |diff| variance {d_var:.3e}")
print(f"pickle round trip: max |diff| mean {(ref[0] - pk[0]).abs().max():.1e}  variance {(ref[1] - pk[1]).abs().max():.1e}")

bad = max(d_mean, d_var) > 1e-6
print("VIOLATION" if bad else "ok")
sys.exit(1 if bad else 0)
