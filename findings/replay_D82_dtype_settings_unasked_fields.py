#!/usr/bin/env python3
"""C20 bug 2: per-dtype settings (min_fixed_noise, min_variance, variational_cholesky_jitter) overwrite the fields they
were NOT asked to change.  _dtype_value_context.__init__ replaces every omitted field by the value visible at
construction time and __enter__ writes all three fields, so INSIDE the block a field that an enclosing block had set is
silently reset ("the innermost active block determines the value" fails for the untouched fields), and on exit all three
fields are reset to the construction-time snapshot ("the previously visible value is restored" fails).

Reference: stack model per field: a block that passes only float_value must leave double/half exactly as the
enclosing block set them, inside and after.
"""
import sys
import warnings

import torch

import gpytorch
from gpytorch import settings as S

warnings.simplefilter("ignore")
torch.manual_seed(0)

n_bad = 0
for cls in (S.min_fixed_noise, S.min_variance, S.variational_cholesky_jitter):
    read = lambda: tuple(cls.value(d) for d in (torch.float, torch.double, torch.half))
    default = read()
    only_float = cls(float_value=0.125)  # asks for a change of the float field ONLY
    with cls(double_value=0.5, half_value=0.25):  # enclosing block sets the two other fields
        exp_inside = (0.125, 0.5, 0.25)
        exp_after = (default[0], 0.5, 0.25)
        with only_float:
            inside = read()
        after = read()
    outside = read()
    ok = inside == exp_inside and after == exp_after and outside == default
    n_bad += not ok
    print(f"{cls.__name__}")
    print(f"   inside inner block (float, double, half): got {inside}  expected {exp_inside}")
    print(f"   after inner exit, still in outer block  : got {after}  expected {exp_after}")
    print(f"   outside all blocks                      : got {outside}  expected {default}")
    if inside != exp_inside:
        print(f"   |double discrepancy inside| = {abs(inside[1] - exp_inside[1]):.3g}")

print(f"\n{n_bad} violations")
sys.exit(1 if n_bad else 0)
