#!/usr/bin/env python3
"""
C13 bug 1: BetaLikelihood's conditional distribution does not have the documented parameters.

Documented (class docstring of gpytorch.likelihoods.BetaLikelihood):
    alpha = m s,  beta = (1 - m) s,   m = sigmoid(f)
    p(y | f) = Beta( sigmoid(f) s, (1 - sigmoid(f)) s )
Implemented (BetaLikelihood.forward):
    alpha = m s + 1,  beta = (1 - m) s + 1

Consequently the conditional mean is not sigmoid(f) ("mixture"), and expected_log_prob / log_marginal are the
integrals of a different density than the documented one.
"""
import math
import sys
import warnings

import numpy as np
import torch
from scipy import integrate
from scipy.stats import beta as sp_beta

warnings.simplefilter("ignore")
import gpytorch  # noqa: E402
from gpytorch.distributions import MultivariateNormal  # noqa: E402
from gpytorch.likelihoods import BetaLikelihood  # noqa: E402
from linear_operator.operators import DiagLinearOperator  # noqa: E402

torch.manual_seed(0)
torch.set_default_dtype(torch.float64)

lik = BetaLikelihood().double()
lik.scale = 3.0
s = lik.scale.item()

f = torch.tensor([-2.0, -0.5, 0.0, 0.7, 1.5])
cond = lik(f)  # conditional p(y | f)
m = torch.sigmoid(f)
doc_alpha, doc_beta = m * s, (1 - m) * s

print("scale s =", s)
print("f                       ", f.tolist())
print("documented alpha = m s  ", doc_alpha.tolist())
print("library concentration1  ", cond.concentration1.detach().tolist())
print("documented beta=(1-m)s  ", doc_beta.tolist())
print("library concentration0  ", cond.concentration0.detach().tolist())
print("documented mean sigmoid(f)", m.tolist())
print("library conditional mean  ", cond.mean.detach().tolist())

err_alpha = (cond.concentration1.detach() - doc_alpha).abs().max().item()
err_beta = (cond.concentration0.detach() - doc_beta).abs().max().item()
err_mean = (cond.mean.detach() - m).abs().max().item()
print("max |alpha_lib - alpha_doc| = %.3e, max |beta_lib - beta_doc| = %.3e, max |mean_lib - sigmoid(f)| = %.3e"
      % (err_alpha, err_beta, err_mean))

# Effect on the integrals: expected_log_prob against N(mu, v) compared with adaptive quadrature of the DOCUMENTED density
mu = torch.tensor([0.3, -1.0])
v = torch.tensor([0.5, 0.2])
y = torch.tensor([0.8, 0.35])
fd = MultivariateNormal(mu, DiagLinearOperator(v))
elp = lik.expected_log_prob(y, fd).detach()
lm = lik.log_marginal(y, fd).detach()


def sig(x):
    return 1.0 / (1.0 + math.exp(-x))


def ref(i, shift, log):
    mi, vi, yi = mu[i].item(), v[i].item(), y[i].item()

    def integrand(x):
        a = sig(x) * s + shift
        b = (1 - sig(x)) * s + shift
        lp = sp_beta.logpdf(yi, a, b)
        val = lp if log else math.exp(lp)
        return val * math.exp(-0.5 * (x - mi) ** 2 / vi) / math.sqrt(2 * math.pi * vi)

    sd = math.sqrt(vi)
    return integrate.quad(integrand, mi - 12 * sd, mi + 12 * sd, epsabs=1e-13, epsrel=1e-13, limit=400)[0]


ref_doc_elp = torch.tensor([ref(i, 0.0, True) for i in range(2)])
ref_p1_elp = torch.tensor([ref(i, 1.0, True) for i in range(2)])
ref_doc_lm = torch.tensor([math.log(ref(i, 0.0, False)) for i in range(2)])
ref_p1_lm = torch.tensor([math.log(ref(i, 1.0, False)) for i in range(2)])
print("expected_log_prob (library)          ", elp.tolist())
print("  reference, documented Beta(ms,(1-m)s)", ref_doc_elp.tolist())
print("  reference, Beta(ms+1,(1-m)s+1)       ", ref_p1_elp.tolist())
print("log_marginal (library)               ", lm.tolist())
print("  reference, documented Beta(ms,(1-m)s)", ref_doc_lm.tolist())
print("  reference, Beta(ms+1,(1-m)s+1)       ", ref_p1_lm.tolist())
d_elp = (elp - ref_doc_elp).abs().max().item()
d_lm = (lm - ref_doc_lm).abs().max().item()
print("max |elp - documented| = %.3e   (vs %.3e against the +1 parametrisation)"
      % (d_elp, (elp - ref_p1_elp).abs().max().item()))
print("max |log_marginal - documented| = %.3e   (vs %.3e against the +1 parametrisation)"
      % (d_lm, (lm - ref_p1_lm).abs().max().item()))

bad = err_alpha > 1e-6 or err_beta > 1e-6 or d_elp > 1e-3 or d_lm > 1e-3
print("VIOLATION PRESENT" if bad else "ok")
sys.exit(1 if bad else 0)
