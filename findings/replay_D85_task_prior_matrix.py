#!/usr/bin/env python3
"""
C17 violation: MultitaskGaussianLikelihood(num_tasks=t, rank>0, batch_shape=b, task_prior=...) evaluates its registered
prior ("MultitaskErrorCovariancePrior") on the wrong matrix.

The closure of the prior, MultitaskGaussianLikelihood._eval_covar_matrix, builds

    D = noise * torch.eye(num_tasks)          # noise has shape  *batch_shape x 1

without a trailing unsqueeze, so the (b, 1) noise is broadcast against the (t, t) identity as if it were a matrix:
  * b == t : silently D = diag(noise_0 .. noise_{b-1}) (one t x t matrix shared by all batch members), i.e. the prior is
             evaluated on  F_i F_i^T + diag(noise_0 .. noise_{b-1})  instead of  F_i F_i^T + noise_i * I
             -> wrong prior log density in the MLL
  * b != t : RuntimeError (shape mismatch) as soon as the prior is evaluated (every MLL call)
The noise covariance the likelihood actually uses (_shaped_noise_covar / marginal) is F_i F_i^T + noise_i I.
"""
import sys
import warnings

import torch

import gpytorch
from gpytorch.distributions import MultitaskMultivariateNormal
from gpytorch.likelihoods import MultitaskGaussianLikelihood
from gpytorch.priors import GammaPrior, LKJCovariancePrior

warnings.filterwarnings("ignore")
torch.set_default_dtype(torch.float64)
torch.manual_seed(0)

bad = False
t = 3


def make(b):
    lik = MultitaskGaussianLikelihood(
        num_tasks=t, rank=1, batch_shape=torch.Size([b]), task_prior=LKJCovariancePrior(t, 1.5, GammaPrior(2.0, 3.0))
    )
    lik.noise = torch.linspace(0.1, 1.0, b).unsqueeze(-1)
    return lik


# ---- batch_shape == num_tasks : silently wrong
b = 3
lik = make(b)
name, module, prior, closure, _ = next(iter(lik.named_priors()))
used = closure(module)  # what the prior is evaluated on
# the task noise covariance the likelihood really applies: marginal of ONE data point with function covariance I,
# minus that I
base = MultitaskMultivariateNormal(torch.zeros(b, 1, t), torch.eye(t).expand(b, t, t))
actual = lik.marginal(base).covariance_matrix - torch.eye(t)
F = lik.task_noise_covar_factor
formula = F @ F.transpose(-1, -2) + lik.noise.unsqueeze(-1) * torch.eye(t)
print("batch_shape = (3,), num_tasks = 3, rank = 1")
print("  |actual noise covariance - (F F^T + noise_i I)|  =", (actual - formula).abs().max().item())
print("  |matrix given to the prior - actual covariance|  =", (used - actual).abs().max().item())
lp_used = prior.log_prob(used)
lp_ref = prior.log_prob(actual)
print("  prior log density used     :", lp_used.tolist())
print("  prior log density reference:", lp_ref.tolist())
print("  max abs difference         :", (lp_used - lp_ref).abs().max().item())
if (used - actual).abs().max().item() > 1e-8 or (lp_used - lp_ref).abs().max().item() > 1e-8:
    bad = True

# ---- batch_shape != num_tasks : exception when the prior is evaluated (every MLL call)
b = 2
lik = make(b)
name, module, prior, closure, _ = next(iter(lik.named_priors()))
try:
    val = prior.log_prob(closure(module))
    print("batch_shape = (2,): prior log density", val.tolist())
except Exception as e:
    print(f"batch_shape = (2,), num_tasks = 3: evaluating the registered prior raised {type(e).__name__}: {e}")
    bad = True

print("VIOLATION PRESENT" if bad else "no violation")
sys.exit(1 if bad else 0)
