"""D14 (C16): ExactMarginalLogLikelihood under observation_nan_policy('mask') vs the MLL of the model trained on the data
with the NaN observations deleted.  Ratio must be 1 (was n_observed / n_total)."""
import torch
import gpytorch

torch.manual_seed(0)


class GP(gpytorch.models.ExactGP):
    def __init__(self, x, y, lik):
        super().__init__(x, y, lik)
        self.m = gpytorch.means.ConstantMean()
        self.k = gpytorch.kernels.ScaleKernel(gpytorch.kernels.RBFKernel())

    def forward(self, x):
        return gpytorch.distributions.MultivariateNormal(self.m(x), self.k(x))


x = torch.rand(8, 1).double()
y = torch.sin(6 * x).squeeze(-1).double()
y[2] = float("nan")
y[5] = float("nan")
lik = gpytorch.likelihoods.GaussianLikelihood().double()
m = GP(x, y, lik).double()
m.train()
with gpytorch.settings.observation_nan_policy("mask"):
    v = gpytorch.mlls.ExactMarginalLogLikelihood(lik, m)(m(x), y)
obs = ~torch.isnan(y)
lik2 = gpytorch.likelihoods.GaussianLikelihood().double()
m2 = GP(x[obs], y[obs], lik2).double()
m2.train()
v2 = gpytorch.mlls.ExactMarginalLogLikelihood(lik2, m2)(m2(x[obs]), y[obs])
print("mask", v.item(), "deleted", v2.item(), "ratio", (v / v2).item())
