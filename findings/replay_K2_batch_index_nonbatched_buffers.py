# K2 (C06): Kernel.__getitem__ batch-indexes buffers/parameters that have no batch dimensions.
import torch, gpytorch, warnings
warnings.filterwarnings("ignore")
from gpytorch.kernels import GridInterpolationKernel, InducingPointKernel, RBFKernel
B = torch.Size([2]); x = torch.rand(2, 5, 1).double()
def t(name, k):
    try:
        full = k(x).to_dense(); r = k[1](x[1]).to_dense()
        print(name, "kernel[1] max err vs dense[1]:", (r - full[1]).abs().max().item())
    except Exception as e:
        print(name, "ERR", type(e).__name__, str(e)[:120])
t("GridInterpolationKernel", GridInterpolationKernel(RBFKernel(batch_shape=B), grid_size=8, grid_bounds=[(0.0, 1.0)]).double())
t("InducingPointKernel", InducingPointKernel(RBFKernel(batch_shape=B), inducing_points=torch.rand(4, 1).double(),
                                              likelihood=gpytorch.likelihoods.GaussianLikelihood()).double())
