import torch, gpytorch
torch.manual_seed(0); torch.set_default_dtype(torch.float64)
class M(gpytorch.models.ApproximateGP):
    def __init__(s, Z, bs):
        vd = gpytorch.variational.CholeskyVariationalDistribution(Z.size(-2), batch_shape=bs)
        vs = gpytorch.variational.VariationalStrategy(s, Z, vd, learn_inducing_locations=False)
        super().__init__(vs)
        s.mean_module = gpytorch.means.ZeroMean()
        s.covar_module = gpytorch.kernels.RBFKernel(batch_shape=bs, lengthscale_prior=gpytorch.priors.GammaPrior(2.0, 3.0))
    def forward(s, x): return gpytorch.distributions.MultivariateNormal(s.mean_module(x), s.covar_module(x))
x = torch.linspace(0,1,8).unsqueeze(-1); y = torch.stack([torch.sin(6*x).squeeze(-1), torch.cos(4*x).squeeze(-1)])
Z = torch.linspace(0,1,4).unsqueeze(-1)
ls = torch.tensor([0.3, 1.2])
def elbo(bs, ls_val, yy):
    m = M(Z.expand(*bs, 4, 1).clone() if bs else Z.clone(), torch.Size(bs)); lik = gpytorch.likelihoods.GaussianLikelihood(batch_shape=torch.Size(bs))
    m.covar_module.lengthscale = ls_val
    mll = gpytorch.mlls.VariationalELBO(lik, m, num_data=8)
    m.train(); lik.train()
    return mll(m(x), yy).detach()
batched = elbo([2], ls.view(2,1,1), y)
reps = torch.stack([elbo([], ls[b].view(1,1), y[b]) for b in range(2)])
print("batched ELBO :", batched.tolist()); print("replica ELBOs:", reps.tolist()); print("max diff:", (batched-reps).abs().max().item())
