"""D15 (C14/C08): IndependentMultitaskVariationalStrategy(task_dim=-2) summed the KL over the last batch axis instead of the task
axis.  Prints the shape of the wrapper KL and the shape it must have (base KL summed over the task axis)."""
import torch
import gpytorch
from gpytorch.variational import CholeskyVariationalDistribution, IndependentMultitaskVariationalStrategy, VariationalStrategy

torch.manual_seed(0)


class M(gpytorch.models.ApproximateGP):
    def __init__(self, task_dim, bs):
        Z = torch.rand(*bs, 5, 1)
        vd = CholeskyVariationalDistribution(5, batch_shape=torch.Size(bs))
        vs = IndependentMultitaskVariationalStrategy(VariationalStrategy(self, Z, vd, learn_inducing_locations=True), num_tasks=2, task_dim=task_dim)
        super().__init__(vs)
        self.mean_module = gpytorch.means.ConstantMean(batch_shape=torch.Size(bs))
        self.covar_module = gpytorch.kernels.RBFKernel(batch_shape=torch.Size(bs))

    def forward(self, x):
        return gpytorch.distributions.MultivariateNormal(self.mean_module(x), self.covar_module(x))


m = M(-2, [2, 3])
m.train()
x = torch.rand(7, 1)
with gpytorch.settings.lazily_evaluate_kernels(False):
    out = m(x)
kl = m.variational_strategy.kl_divergence()
base = m.variational_strategy.base_variational_strategy.kl_divergence()
print("output batch shape", tuple(out.batch_shape), "wrapper KL shape", tuple(kl.shape), "expected", tuple(base.sum(-2).shape),
      "max diff", (kl - base.sum(-2)).abs().max().item() if kl.shape == base.sum(-2).shape else "shape mismatch")
mll = gpytorch.mlls.VariationalELBO(gpytorch.likelihoods.MultitaskGaussianLikelihood(num_tasks=2), m, num_data=7)
print("ELBO shape", tuple(mll(out, torch.rand(3, 7, 2)).shape))
