import torch, gpytorch
torch.manual_seed(0); torch.set_default_dtype(torch.float64)
x = torch.rand(30, 2) * torch.tensor([1.0, 3.0])
def err(grid_size, bounds, ard_ls):
    base = gpytorch.kernels.RBFKernel(ard_num_dims=2); base.lengthscale = torch.tensor(ard_ls)
    k = gpytorch.kernels.GridInterpolationKernel(base, grid_size=grid_size, num_dims=2, grid_bounds=bounds).eval()
    with torch.no_grad():
        return (k(x).to_dense() - base(x).to_dense()).abs().max().item()
print("same size/bounds/ls :", err(60, [(-0.1,3.1),(-0.1,3.1)], [0.8,0.8]))
print("different ARD ls    :", err(60, [(-0.1,3.1),(-0.1,3.1)], [0.3,1.5]))
print("different bounds    :", err(60, [(-0.1,1.1),(-0.1,3.1)], [0.8,0.8]))
print("different grid sizes:", err([40,80], [(-0.1,3.1),(-0.1,3.1)], [0.8,0.8]))
