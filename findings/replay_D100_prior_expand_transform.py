"""Prior.expand drops the prior's `transform`: the expanded prior evaluates a different log density.

Every torch-based prior (Normal, LogNormal, Gamma, HalfCauchy, HalfNormal, Uniform) and HorseshoePrior build the
expanded prior from the distribution parameters only.  `expand` is what Module.pyro_sample_from_prior calls on every
registered prior before handing it to pyro.sample, so the density that is scored is that of the raw value instead of
the transformed one.  Reference: expanding a distribution must not change log_prob (only its batch shape).
"""
import sys
import warnings

import torch

warnings.filterwarnings("ignore")
torch.manual_seed(0)
torch.set_default_dtype(torch.float64)

from gpytorch.priors import GammaPrior, HalfCauchyPrior, HorseshoePrior, LogNormalPrior, NormalPrior  # noqa: E402

x = torch.tensor([0.5, 2.0])
bad = False
for prior in [
    NormalPrior(0.0, 1.0, transform=torch.log),  # a log-normal prior written through `transform`
    LogNormalPrior(0.0, 1.0, transform=torch.exp),
    GammaPrior(2.0, 1.0, transform=torch.exp),
    HalfCauchyPrior(1.0, transform=torch.exp),
    HorseshoePrior(0.5, transform=torch.exp),
]:
    ref = prior.log_prob(x)  # batch shape () broadcasts against x
    expanded = prior.expand(torch.Size([2]))
    got = expanded.log_prob(x)
    err = (got - ref).abs().max().item()
    print(f"{type(prior).__name__:16s} log_prob={ref.tolist()}  expand([2]).log_prob={got.tolist()}  max diff={err:.4f}")
    bad |= err > 1e-8

sys.exit(1 if bad else 0)
