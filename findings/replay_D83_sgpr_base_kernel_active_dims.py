"""
C09 / SGPR predictions: InducingPointKernel whose base kernel carries active_dims.

SGPRPredictionStrategy.exact_prediction swaps the test-test block of the joint covariance for a
LazyEvaluatedKernelTensor built directly on `kernel.base_kernel`.  LazyEvaluatedKernelTensor assumes that its
x1/x2 were ALREADY restricted to the kernel's active_dims and switches `kernel.active_dims` off while it
evaluates - so the base kernel's own active_dims are silently dropped and K(X*, X*) is computed on ALL input
columns, while K(X*, Z), K(Z, Z), K(X, Z) (computed through base_kernel.__call__) use the active columns only.

Reference 1: the same model on manually column-sliced data (x[:, dims], Z[:, dims], RBF without active_dims).
Reference 2: the SGPR predictive equations written out densely.
"""
import math
import sys
import warnings

import torch

import gpytorch
from gpytorch.kernels import InducingPointKernel, PolynomialKernel, RBFKernel

warnings.simplefilter("ignore")
torch.set_default_dtype(torch.float64)
torch.manual_seed(0)


class SGPR(gpytorch.models.ExactGP):
    def __init__(self, x, y, lik, kern):
        super().__init__(x, y, lik)
        self.mean_module = gpytorch.means.ZeroMean()
        self.covar_module = kern

    def forward(self, x):
        return gpytorch.distributions.MultivariateNormal(self.mean_module(x), self.covar_module(x))


n, ns, m, d = 25, 6, 7, 3
dims = [2, 0]  # the columns the base kernel looks at
x = torch.rand(n, d)
y = torch.sin(4 * x[:, 2]) + x[:, 0] + 0.1 * torch.randn(n)
xs = torch.rand(ns, d)
Z = torch.rand(m, d)
noise, ls = 0.05, 0.4


def predict(x, xs, Z, active_dims, corr=False, poly=False):
    lik = gpytorch.likelihoods.GaussianLikelihood()
    lik.noise = noise
    if poly:
        base = PolynomialKernel(power=2, active_dims=active_dims)
    else:
        base = RBFKernel(active_dims=active_dims)
        base.lengthscale = ls
    model = SGPR(x, y, lik, InducingPointKernel(base, Z.clone(), lik))
    model.eval()
    lik.eval()
    with torch.no_grad(), gpytorch.settings.sgpr_diagonal_correction(corr):
        out = model(xs)
        return out.mean, out.covariance_matrix, out.variance


# the library, base kernel with active_dims on the full 3-column data
mean_a, cov_a, var_a = predict(x, xs, Z, dims)
# reference 1: identical model on the manually sliced columns
mean_b, cov_b, var_b = predict(x[:, dims], xs[:, dims], Z[:, dims], None)


# reference 2: SGPR predictive equations, dense
def rbf(a, b):
    return torch.exp(-0.5 * torch.cdist(a[:, dims], b[:, dims]).pow(2) / ls**2)


Kzz, Kxz, Ksz, Kss = rbf(Z, Z), rbf(x, Z), rbf(xs, Z), rbf(xs, xs)
Sigma = torch.linalg.inv(Kzz + Kxz.T @ Kxz / noise)
mean_c = Ksz @ Sigma @ Kxz.T @ y / noise
cov_c = Kss - Ksz @ torch.linalg.solve(Kzz, Ksz.T) + Ksz @ Sigma @ Ksz.T

print("SGPR, InducingPointKernel(RBFKernel(active_dims=[2, 0]), Z) on 3-column inputs, sgpr_diagonal_correction off")
print(f"  mean: |lib - sliced replica| = {(mean_a - mean_b).abs().max():.2e}   |lib - SGPR eq| = {(mean_a - mean_c).abs().max():.2e}")
print(f"  cov : |lib - sliced replica| = {(cov_a - cov_b).abs().max():.2e}   |lib - SGPR eq| = {(cov_a - cov_c).abs().max():.2e}")
print(f"        |sliced replica - SGPR eq| = {(cov_b - cov_c).abs().max():.2e}  (the two references agree)")
print(f"  var : |lib - sliced replica| = {(var_a - var_b).abs().max():.2e}")
K_all = torch.exp(-0.5 * torch.cdist(xs, xs).pow(2) / ls**2)
print(f"  lib cov - [K_alldims(X*,X*) - K_activedims(X*,X*)] - SGPR eq = {(cov_a - (K_all - Kss) - cov_c).abs().max():.2e}"
      "  (the test-test block was evaluated on all columns)")

# default settings (sgpr_diagonal_correction on): same comparison against the sliced replica
_, cov_d, _ = predict(x, xs, Z, dims, corr=True)
_, cov_e, _ = predict(x[:, dims], xs[:, dims], Z[:, dims], None, corr=True)
print(f"  default settings (diagonal correction on): cov |lib - sliced replica| = {(cov_d - cov_e).abs().max():.2e}")

# a non-stationary base kernel: the predictive VARIANCES are wrong as well (k(x*, x*) depends on the columns used)
_, cov_f, var_f = predict(x, xs, Z, dims, corr=True, poly=True)
_, cov_g, var_g = predict(x[:, dims], xs[:, dims], Z[:, dims], None, corr=True, poly=True)
print("PolynomialKernel(power=2, active_dims=[2, 0]) as base kernel, default settings:")
print(f"  var : lib {[round(v, 4) for v in var_f.tolist()[:3]]} ...  sliced replica {[round(v, 4) for v in var_g.tolist()[:3]]} ...")
print(f"        |lib - sliced replica| = {(var_f - var_g).abs().max():.2e}")

err = max((cov_a - cov_b).abs().max().item(), (cov_a - cov_c).abs().max().item())
tol = 1e-6
if err > tol:
    print(f"VIOLATION: predictive covariance off by {err:.3e} (scale of the covariance {cov_c.abs().max():.3e})")
    sys.exit(1)
print("no violation")
sys.exit(0)
