import sys, warnings, torch, gpytorch
warnings.filterwarnings("ignore"); torch.set_default_dtype(torch.float64); torch.manual_seed(1)
b, n = 3, 7
bs = torch.Size([b])
class GP(gpytorch.models.ExactGP):
    def __init__(self, x, y, lik, bs):
        super().__init__(x, y, lik)
        self.mean_module = gpytorch.means.ConstantMean(batch_shape=bs)
        self.covar_module = gpytorch.kernels.ScaleKernel(gpytorch.kernels.RBFKernel(batch_shape=bs), batch_shape=bs)
    def forward(self, x):
        return gpytorch.distributions.MultivariateNormal(self.mean_module(x), self.covar_module(x))
X, y = torch.rand(n, 2), torch.randn(n)
lik = gpytorch.likelihoods.GaussianLikelihood(batch_shape=bs)
model = GP(X, y, lik, bs)
ls = torch.tensor([0.3, 0.7, 1.5]).view(b, 1, 1); model.covar_module.base_kernel.lengthscale = ls
model.train(); lik.train()
bad = False
out = model(X)
mll = gpytorch.mlls.ExactMarginalLogLikelihood(lik, model)
print("exact MLL (shared targets broadcast against the hyper-parameter batch):", mll(out, y).detach().tolist())
loo = gpytorch.mlls.LeaveOneOutPseudoLikelihood(lik, model)
ref = []
for i in range(b):
    li = gpytorch.likelihoods.GaussianLikelihood(); mi = GP(X, y, li, torch.Size([])); mi.covar_module.base_kernel.lengthscale = ls[i]; mi.train(); li.train()
    ref.append(gpytorch.mlls.LeaveOneOutPseudoLikelihood(li, mi)(mi(X), y).item())
print("LOO of the replicas:", ref)
try:
    val = loo(out, y)
    err = (val.detach() - torch.tensor(ref)).abs().max().item(); print("batched LOO:", val.detach().tolist(), "max err", err); bad = err > 1e-8
except Exception as e:
    print("batched LOO RAISED", type(e).__name__, str(e)[:160]); bad = True
print("VIOLATION PRESENT" if bad else "no violation"); sys.exit(1 if bad else 0)
