import torch, gpytorch, copy
torch.manual_seed(0); torch.set_default_dtype(torch.float64)
class M(gpytorch.models.ExactGP):
    def __init__(s, x, y, lik):
        super().__init__(x, y, lik); s.mean_module = gpytorch.means.ConstantMean(); s.covar_module = gpytorch.kernels.ScaleKernel(gpytorch.kernels.RBFKernel())
    def forward(s, x): return gpytorch.distributions.MultivariateNormal(s.mean_module(x), s.covar_module(x))
x = torch.linspace(0,1,12).unsqueeze(-1); y = torch.sin(6*x).squeeze(-1)
xs = torch.linspace(0,1,5).unsqueeze(-1)
xf = torch.tensor([[0.33],[0.77]]); yf = torch.tensor([0.2,-0.4])
def make():
    m = M(x,y,gpytorch.likelihoods.GaussianLikelihood()).eval(); m(xs); return m
src1 = make(); f1 = src1.get_fantasy_model(xf, yf); p1 = f1(xs).mean.detach().clone()
src2 = make(); f2 = src2.get_fantasy_model(xf, yf)
# the source changes AFTER the fantasy model was created (e.g. it is trained further)
src2.covar_module.base_kernel.lengthscale = 0.05
p2 = f2(xs).mean.detach()
print("fantasy hyperparameters equal:", all(torch.equal(a,b) for a,b in zip(f1.state_dict().values(), f2.state_dict().values())))
print("max |mean diff| between two identically created fantasy models, one whose SOURCE was modified afterwards:", (p1-p2).abs().max().item())
