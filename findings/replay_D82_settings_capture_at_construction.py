#!/usr/bin/env python3
"""C20 bug 1: a settings context-manager object restores the value that was visible when the OBJECT WAS CONSTRUCTED,
not the value that was visible when its with-block was ENTERED.  If the object is built before an enclosing block is
entered (stored in a variable / list / config, or simply re-used), leaving the inner block clobbers the enclosing
block's value: "on exit the previously visible value is restored" and "innermost active block wins" both fail.

Reference: a plain stack model (value inside a block = the block's argument, value after the block = value before it).
"""
import sys
import warnings

import torch

import gpytorch
from gpytorch import beta_features as B, settings as S

warnings.simplefilter("ignore")
torch.manual_seed(0)

# (class, reader, outer-argument, inner-argument)   -- only classes defined in gpytorch itself
flag = lambda c: (lambda: c.on())
val = lambda c: (lambda: c.value())
CASES = [
    (S.debug, flag(S.debug), False, True),
    (S.detach_test_caches, flag(S.detach_test_caches), False, True),
    (S.fast_pred_samples, flag(S.fast_pred_samples), True, False),
    (S.lazily_evaluate_kernels, flag(S.lazily_evaluate_kernels), False, True),
    (S.memory_efficient, flag(S.memory_efficient), True, False),
    (S.prior_mode, flag(S.prior_mode), True, False),
    (S.sgpr_diagonal_correction, flag(S.sgpr_diagonal_correction), False, True),
    (S.skip_posterior_variances, flag(S.skip_posterior_variances), True, False),
    (S.trace_mode, flag(S.trace_mode), True, False),
    (S.use_keops, flag(S.use_keops), False, True),
    (B.default_preconditioner, flag(B.default_preconditioner), True, False),
    (S.eval_cg_tolerance, val(S.eval_cg_tolerance), 0.5, 0.25),
    (S.max_eager_kernel_size, val(S.max_eager_kernel_size), 5, 100),
    (S.num_gauss_hermite_locs, val(S.num_gauss_hermite_locs), 7, 3),
    (S.num_likelihood_samples, val(S.num_likelihood_samples), 50, 3),
    (S.observation_nan_policy, val(S.observation_nan_policy), "mask", "fill"),
]

n_bad = 0
for cls, read, outer_arg, inner_arg in CASES:
    default = read()
    inner = cls(inner_arg)  # built up-front, outside every block
    with cls(outer_arg):
        expected_after_inner = read()  # == outer_arg
        with inner:
            inside = read()
        after_inner = read()  # still inside the outer block: must be outer_arg again
    after_all = read()
    ok = inside == inner_arg and after_inner == expected_after_inner and after_all == default
    n_bad += not ok
    print(
        f"{cls.__name__:28s} inside inner={inside!r:6}  after inner exit: got {after_inner!r:8} "
        f"expected {expected_after_inner!r:8}  outside: {after_all!r}  {'ok' if ok else 'VIOLATION'}"
    )

# fast_pred_var has two fields (flag + num_probe_vectors); both are clobbered
inner = S.fast_pred_var(True, num_probe_vectors=4)
with S.fast_pred_var(True, num_probe_vectors=9):
    with inner:
        pass
    got = (S.fast_pred_var.on(), S.fast_pred_var.num_probe_vectors())
print(f"fast_pred_var                after inner exit: got {got} expected (True, 9)")
n_bad += got != (True, 9)

# same thing with ONE object that is simply used twice (second time inside another block)
cm = S.num_likelihood_samples(3)
with cm:
    pass
with S.num_likelihood_samples(50):
    with cm:
        pass
    got = S.num_likelihood_samples.value()
print(f"re-used num_likelihood_samples(3): enclosing block value after inner exit: got {got} expected 50")
n_bad += got != 50

print(f"\n{n_bad} violations")
sys.exit(1 if n_bad else 0)
