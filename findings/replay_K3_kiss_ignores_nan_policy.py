# K3 (C16): InterpolatedPredictionStrategy overrides the mean path without handling observation_nan_policy.
import torch, gpytorch, warnings
warnings.filterwarnings("ignore")
class M(gpytorch.models.ExactGP):
    def __init__(s, x, y, lik, kiss):
        super().__init__(x, y, lik)
        s.mean_module = gpytorch.means.ConstantMean()
        base = gpytorch.kernels.RBFKernel()
        s.covar_module = gpytorch.kernels.GridInterpolationKernel(base, grid_size=20, num_dims=1, grid_bounds=[(-0.2, 1.2)]) if kiss else base
    def forward(s, x):
        return gpytorch.distributions.MultivariateNormal(s.mean_module(x), s.covar_module(x))
x = torch.linspace(0, 1, 30).double(); y = torch.sin(6 * x); y[::4] = float("nan")
xs = torch.linspace(0.05, 0.95, 7).double()
for kiss in (False, True):
    m = M(x, y, gpytorch.likelihoods.GaussianLikelihood().double(), kiss).double(); m.eval()
    with torch.no_grad(), gpytorch.settings.observation_nan_policy("mask"):
        print("KISS-GP" if kiss else "dense  ", "posterior mean contains NaN:", torch.isnan(m(xs).mean).any().item())
