import torch, gpytorch, math
torch.manual_seed(0); torch.set_default_dtype(torch.float64)
n, t = 4, 2
A = torch.randn(n*t, n*t); C = A @ A.T + torch.eye(n*t)          # covariance in TASK-major order (non-interleaved)
mean = torch.randn(n, t)
y = torch.randn(n, t); y[1, 0] = float('nan'); y[3, 1] = float('nan')
lik = gpytorch.likelihoods.MultitaskGaussianLikelihood(num_tasks=t, has_task_noise=False)
with torch.no_grad():
    d = gpytorch.distributions.MultitaskMultivariateNormal(mean, C, interleaved=False)
    with gpytorch.settings.observation_nan_policy("mask"):
        got = lik.log_marginal(y, d).sum()
    # reference: delete the missing (point, task) pairs from the joint Gaussian
    noise = lik.noise.item()
    flat_mean = mean.T.reshape(-1); flat_y = y.T.reshape(-1); keep = ~torch.isnan(flat_y)
    Cn = C + noise*torch.eye(n*t)
    ref_full = torch.distributions.MultivariateNormal(flat_mean[keep], Cn[keep][:, keep])
    # log_marginal is elementwise with the marginal variances: sum of univariate normal log densities of observed entries
    var = torch.diagonal(Cn)[keep]
    ref = (-0.5*math.log(2*math.pi) - 0.5*var.log() - 0.5*(flat_y[keep]-flat_mean[keep])**2/var).sum()
print("log_marginal under mask:", got.item(), " reference (entries deleted):", ref.item(), " diff:", abs(got.item()-ref.item()))
d2 = gpytorch.distributions.MultitaskMultivariateNormal(mean, C, interleaved=True)
