"""K42 (C11-6): MultitaskMultivariateNormal.__getitem__ with index tensors over a batch dimension AND pairs of (point, task) index
tensors: the mean is mean[bt, rt, ct] (zipped: element i comes from batch member bt[i]); the covariance is
cov[bt, flat][..., flat], i.e. entry (i, j) = cov[bt[i]][flat_i, flat_j] - non-zero also between elements of DIFFERENT
(independent) batch members, and not symmetric.  exit 1 while the defect is present."""
import sys
import torch
from gpytorch.distributions import MultitaskMultivariateNormal

torch.manual_seed(0)
torch.set_default_dtype(torch.float64)
b, n, t = 2, 3, 2
mean = torch.randn(b, n, t)
A = torch.randn(b, n * t, n * t)
cov = A @ A.transpose(-1, -2) + torch.eye(n * t)
d = MultitaskMultivariateNormal(mean, cov)
bt, rt, ct = torch.tensor([1, 0, 1]), torch.tensor([0, 1, 2]), torch.tensor([0, 1, 0])
sub = d[bt, rt, ct]
flat = rt * t + ct
ref = torch.zeros(3, 3)
for i in range(3):
    for j in range(3):
        if bt[i] == bt[j]:
            ref[i, j] = cov[bt[i], flat[i], flat[j]]
got = sub.covariance_matrix
print("mean error", (sub.mean - mean[bt, rt, ct]).abs().max().item())
print("covariance error vs the joint covariance of the selected elements", (got - ref).abs().max().item(), " asymmetry", (got - got.T).abs().max().item())
sys.exit(1 if (got - ref).abs().max() > 1e-8 else 0)
