"""C09 bug 1: GridKernel / GridInterpolationKernel build K_UU as a Kronecker product of 1-d kernel matrices, i.e. they
silently replace the base kernel k(x, x') by prod_i k(x_i, x'_i).  For every stationary kernel that is not a product over the
input dimensions (Matern, RQ, Cosine -- Matern is named as supported in both docstrings -- or any ScaleKernel / AdditiveKernel
wrapped *inside* the grid kernel) the structured matrix is not the dense matrix it abbreviates, the kernel is inconsistent with
itself (same pair of points, different value depending on whether the call hits the grid path), and the KISS-GP kernel does not
converge to the base kernel when the grid is refined."""
import sys
import warnings

import torch

import gpytorch
from gpytorch.kernels import GridInterpolationKernel, GridKernel, MaternKernel, RBFKernel, ScaleKernel
from gpytorch.utils.grid import create_data_from_grid

warnings.simplefilter("ignore")
torch.manual_seed(0)
torch.set_default_dtype(torch.float64)
bad = False

# ---- (a) GridKernel on its own grid versus the dense base kernel on the same points
grid = [torch.linspace(0, 1, 5), torch.linspace(0, 2, 5)]
X = create_data_from_grid(grid)  # 25 x 2, exactly the points GridKernel is built for
for name, base in [
    ("RBF (control)", RBFKernel()),
    ("Matern-1.5", MaternKernel(nu=1.5)),
    ("Matern-2.5 ARD", MaternKernel(nu=2.5, ard_num_dims=2)),
    ("ScaleKernel(RBF), outputscale=2", ScaleKernel(RBFKernel())),
]:
    if isinstance(base, ScaleKernel):
        base.outputscale = 2.0
    for toeplitz in (True, False):
        kern = GridKernel(base, grid)
        with gpytorch.settings.use_toeplitz(toeplitz):
            K_struct = kern(X, X).to_dense()  # Kronecker (Toeplitz) path
        K_dense = base(X, X).to_dense()  # the explicit formula
        err = (K_struct - K_dense).abs().max().item()
        # same kernel object, same pairs of points, but x1 is only part of the grid -> falls back to base_kernel.forward
        K_rows = kern(X[:7], X).to_dense()
        self_err = (K_struct[:7] - K_rows).abs().max().item()
        print(f"GridKernel[{name:32s}] use_toeplitz={toeplitz!s:5s} max|K_kron - K_dense| = {err:.3e}   "
              f"max|K(X,X)[:7] - K(X[:7],X)| = {self_err:.3e}")
        if "control" in name:
            assert err < 1e-12 and self_err < 1e-12
        elif err > 1e-3 or self_err > 1e-3:
            bad = True

# ---- (b) KISS-GP: the interpolated kernel must converge to the base kernel as the grid is refined
x1 = 0.1 + 0.8 * torch.rand(40, 2)
x2 = 0.1 + 0.8 * torch.rand(30, 2)
for name, mk in [("RBF (control)", lambda: RBFKernel()), ("Matern-1.5", lambda: MaternKernel(nu=1.5))]:
    errs = []
    for gs in (16, 32, 64, 128):
        base = mk()
        base.lengthscale = 0.5
        kern = GridInterpolationKernel(base, grid_size=gs, num_dims=2, grid_bounds=[(0.0, 1.0), (0.0, 1.0)]).double()
        errs.append((kern(x1, x2).to_dense() - base(x1, x2).to_dense()).abs().max().item())
    print(f"GridInterpolationKernel[{name:14s}] max|K_ski - K_base| for grid sizes 16/32/64/128: "
          + "  ".join(f"{e:.2e}" for e in errs))
    if "control" in name:
        assert errs[-1] < 1e-4 and errs[-1] < errs[0] / 10
    elif errs[-1] > 1e-2:
        bad = True

print("VIOLATION PRESENT" if bad else "no violation")
sys.exit(1 if bad else 0)
