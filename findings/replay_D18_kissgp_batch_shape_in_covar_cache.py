import torch, gpytorch
torch.manual_seed(0); torch.set_default_dtype(torch.float64)
class M(gpytorch.models.ExactGP):
    def __init__(s, x, y, lik):
        super().__init__(x, y, lik); s.mean_module = gpytorch.means.ConstantMean()
        s.covar_module = gpytorch.kernels.ScaleKernel(gpytorch.kernels.GridInterpolationKernel(gpytorch.kernels.RBFKernel(), grid_size=20, num_dims=1))
    def forward(s, x): return gpytorch.distributions.MultivariateNormal(s.mean_module(x), s.covar_module(x))
x = torch.linspace(0,1,30).unsqueeze(-1); y = torch.sin(6*x).squeeze(-1)
def make(): return M(x,y,gpytorch.likelihoods.GaussianLikelihood()).eval()
xs = torch.linspace(0.1,0.9,4).unsqueeze(-1)
xb = xs.expand(3,4,1).clone()
with gpytorch.settings.fast_pred_var():
    fresh = make()(xs)
    m = make(); m(xb); hist = m(xs)
print("fresh  mean", tuple(fresh.mean.shape), "cov", tuple(fresh.covariance_matrix.shape))
print("history mean", tuple(hist.mean.shape), "cov", tuple(hist.covariance_matrix.shape))
# values: history vs fresh (un-batched), and batched call vs per-element
with gpytorch.settings.fast_pred_var():
    torch.manual_seed(1); a = make()(xs); torch.manual_seed(1); m2 = make(); m2(xb); b = m2(xs)
    print("max |cov diff| fresh vs history:", (a.covariance_matrix - b.covariance_matrix.reshape(-1,4,4)[0]).abs().max().item() if b.covariance_matrix.dim()==3 else (a.covariance_matrix-b.covariance_matrix).abs().max().item())
