import torch, gpytorch
torch.manual_seed(0)
for cls in (gpytorch.means.LinearMeanGrad, gpytorch.means.LinearMeanGradGrad):
    m = cls(input_size=2, batch_shape=torch.Size([3]))
    m.weights.data.normal_(); 
    x = torch.randn(1, 5, 2)   # data with a size-1 batch dimension, broadcast against the 3 parameter sets
    try:
        out = m(x)
        ref = torch.stack([cls(input_size=2).initialize(weights=m.weights[b], bias=m.bias[b] if m.bias is not None else None)(x[0]) for b in range(3)])
        print(cls.__name__, tuple(out.shape), 'max diff to replicas', (out-ref).abs().max().item())
    except Exception as e:
        print(cls.__name__, 'RAISES', type(e).__name__, str(e)[:100])
m = gpytorch.means.LinearMean(input_size=2, batch_shape=torch.Size([3]))
print('LinearMean', tuple(m(torch.randn(1,5,2)).shape))
# replicas comparison after the fix, several broadcast patterns
import itertools
bad=0
for cls in (gpytorch.means.LinearMeanGrad, gpytorch.means.LinearMeanGradGrad):
    for pb, xb in [((3,),()), ((3,),(1,)), ((3,),(3,)), ((),(4,)), ((2,3),(1,3)), ((3,),(2,1))]:
        m = cls(input_size=2, batch_shape=torch.Size(pb)); m.weights.data.normal_(); m.bias.data.normal_()
        x = torch.randn(*xb, 5, 2)
        out = m(x)
        bs = torch.broadcast_shapes(torch.Size(pb), torch.Size(xb))
        W = m.weights.expand(*bs, 2, 1); B = m.bias.expand(*bs, 1); X = x.expand(*bs, 5, 2)
        for ix in itertools.product(*[range(s) for s in bs]):
            r = cls(input_size=2); r.weights.data.copy_(W[ix]); r.bias.data.copy_(B[ix])
            if not torch.allclose(out[ix], r(X[ix])): bad+=1
        assert out.shape[:-2]==bs, (out.shape, bs)
print('replica mismatches after fix:', bad)
