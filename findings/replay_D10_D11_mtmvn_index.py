"""D10: negative entries of index tensors; D11: slice bounds outside the dimension.  Prints max covariance error vs the dense
sub-matrix for both layouts (0 on the repaired tree; > 0 or a shape mismatch before)."""
import torch
from gpytorch.distributions import MultitaskMultivariateNormal as MT

torch.manual_seed(0)
n, t = 4, 3
A = torch.randn(n * t, n * t, dtype=torch.double)
K = A @ A.T + torch.eye(n * t, dtype=torch.double)
mean = torch.arange(n * t, dtype=torch.double).view(n, t)
for inter in (True, False):
    d = MT(mean, K, interleaved=inter)
    fm = torch.arange(n * t).view(n, t) if inter else torch.arange(n * t).view(t, n).T
    for idx in [(torch.tensor([1]), torch.tensor([-1])), (slice(None), torch.tensor([-1, 1])), (torch.tensor([1]), -1),
                (1, slice(0, 10)), (1, slice(-10, None)), (slice(0, 10), 1), (1, slice(0, 10, 2))]:
        r = d[idx]
        sel = fm[idx]
        flat = sel.reshape(-1) if (inter or sel.dim() < 2 or not isinstance(r, MT)) else sel.T.reshape(-1)
        c = K[flat][:, flat]
        ok = r.covariance_matrix.shape == c.shape
        print("interleaved=%s idx=%s: %s" % (inter, idx, (r.covariance_matrix - c).abs().max().item() if ok else "shape %s vs %s" % (tuple(r.covariance_matrix.shape), tuple(c.shape))))
