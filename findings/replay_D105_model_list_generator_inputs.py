# Concerns commit 8916eb6 (IndependentModelList.get_fantasy_model hands each member its inputs as one argument).
# Regression (minor): the per-member entry of `inputs` used to be star-unpacked (`*inputs_`), so ANY iterable was
# accepted (a generator / map object over a member's train_inputs).  The new code calls len(inputs_) and raises
# "TypeError: object of type 'generator' has no len()".  The code before the commit handled this input.
import sys
import warnings

import torch

import gpytorch

warnings.simplefilter("ignore")
torch.manual_seed(0)


class G(gpytorch.models.ExactGP):
    def __init__(self, x, y):
        super().__init__(x, y, gpytorch.likelihoods.GaussianLikelihood())
        self.mean_module = gpytorch.means.ConstantMean()
        self.covar_module = gpytorch.kernels.ScaleKernel(gpytorch.kernels.RBFKernel())

    def forward(self, x):
        return gpytorch.distributions.MultivariateNormal(self.mean_module(x), self.covar_module(x))


x, y = torch.rand(6, 2), torch.randn(6)
ml = gpytorch.models.IndependentModelList(G(x, y), G(x, y)).eval()
xt = torch.rand(3, 2)
new_y = torch.randn(2)
bad = False
with torch.no_grad():
    ml(xt, xt)
    # reference: per-member inputs as tuples (what model.train_inputs looks like)
    ref = ml.get_fantasy_model([tuple(t[:2] for t in m.train_inputs) for m in ml.models], [new_y, new_y])
    ref_mean = [o.mean for o in ref(xt, xt)]
    print("tuple entries      : OK, fantasy train size", ref.train_inputs[0][0].shape[0])
    # same thing, the per-member entry being a generator (any iterable was accepted before the commit)
    try:
        fm = ml.get_fantasy_model([(t[:2] for t in m.train_inputs) for m in ml.models], [new_y, new_y])
        same = all(torch.allclose(a.mean, b) for a, b in zip(fm(xt, xt), ref_mean))
        print("generator entries  : OK, same predictions as tuple entries:", same)
        bad = not same
    except TypeError as e:
        print("generator entries  : TypeError:", e)
        bad = True
    try:
        fm = ml.get_fantasy_model([map(lambda t: t[:2], m.train_inputs) for m in ml.models], [new_y, new_y])
        print("map-object entries : OK")
    except TypeError as e:
        print("map-object entries : TypeError:", e)
        bad = True
print("PROBLEM PRESENT" if bad else "no problem")
sys.exit(1 if bad else 0)
