"""K11 (C04): ExactGP.get_fantasy_model with a multitask likelihood and m >= 2 fantasy points raises: the bordered-system
residual subtracts the flat (m*t) cross term from (m, t)-shaped targets/means.  (The only existing test uses m = 1, where the
shapes broadcast by accident.)  With the shapes repaired the cached-root covariance under fast_pred_var still differs by 0.11
from a model conditioned from scratch, so this is recorded rather than patched."""
import torch, gpytorch, traceback
torch.manual_seed(0); torch.set_default_dtype(torch.float64)
class MT(gpytorch.models.ExactGP):
    def __init__(s, x, y, lik):
        super().__init__(x, y, lik)
        s.mean_module = gpytorch.means.MultitaskMean(gpytorch.means.ConstantMean(), num_tasks=2)
        s.covar_module = gpytorch.kernels.MultitaskKernel(gpytorch.kernels.RBFKernel(), num_tasks=2, rank=1)
    def forward(s, x): return gpytorch.distributions.MultitaskMultivariateNormal(s.mean_module(x), s.covar_module(x))
x = torch.linspace(0,1,10).unsqueeze(-1); y = torch.stack([torch.sin(6*x).squeeze(-1), torch.cos(6*x).squeeze(-1)], -1)
lik = gpytorch.likelihoods.MultitaskGaussianLikelihood(num_tasks=2)
m = MT(x, y, lik).eval(); lik.eval()
xs = torch.linspace(0,1,5).unsqueeze(-1)
m(xs)
xf = torch.tensor([[0.33],[0.77]]); yf = torch.tensor([[0.2,-0.4],[0.1,0.3]])
try:
    f = m.get_fantasy_model(xf, yf)
    pf = f(xs).mean
    ref = MT(torch.cat([x,xf]), torch.cat([y,yf]), lik).eval()
    ref.load_state_dict(m.state_dict())
    print("fantasy vs from scratch, max |mean diff|:", (pf - ref(xs).mean).abs().max().item())
    print("covariance diff:", (f(xs).covariance_matrix - ref(xs).covariance_matrix).abs().max().item())
    with gpytorch.settings.fast_pred_var():
        m2 = MT(x, y, lik).eval(); m2(xs); f2 = m2.get_fantasy_model(xf, yf)
        print("fast_pred_var covariance diff:", (f2(xs).covariance_matrix - ref(xs).covariance_matrix).abs().max().item())
except Exception as e:
    print('RAISES', type(e).__name__, str(e)[:200])
