"""K6 (C16): the posterior covariance under observation_nan_policy('mask'/'fill') still conditions on the inputs whose
targets are NaN, so it differs from the covariance of the model trained on the data with those observations deleted.
Shown for the default strategy and for the kernel-specific strategies (KISS-GP, SGPR, RFF)."""
import warnings

import torch
import gpytorch

warnings.filterwarnings("ignore")
torch.manual_seed(0)


def make(kind):
    class GP(gpytorch.models.ExactGP):
        def __init__(self, x, y, lik):
            super().__init__(x, y, lik)
            self.m = gpytorch.means.ConstantMean()
            base = gpytorch.kernels.RBFKernel()
            if kind == "default":
                self.k = gpytorch.kernels.ScaleKernel(base)
            elif kind == "kiss":
                self.k = gpytorch.kernels.GridInterpolationKernel(base, grid_size=30, grid_bounds=[(-0.2, 1.2)])
            elif kind == "sgpr":
                self.k = gpytorch.kernels.InducingPointKernel(base, inducing_points=torch.linspace(0, 1, 6).unsqueeze(-1).double(), likelihood=lik)
            elif kind == "rff":
                self.k = gpytorch.kernels.RFFKernel(num_samples=20, num_dims=1)

        def forward(self, x):
            return gpytorch.distributions.MultivariateNormal(self.m(x), self.k(x))

    return GP


x = torch.rand(10, 1).double()
y = torch.sin(6 * x).squeeze(-1).double()
y[2] = float("nan")
y[5] = float("nan")
xs = torch.rand(4, 1).double()
obs = ~torch.isnan(y)
for kind in ("default", "kiss", "sgpr", "rff"):
    for pol in ("mask",):
        torch.manual_seed(1)
        lik = gpytorch.likelihoods.GaussianLikelihood().double()
        m = make(kind)(x, y, lik).double().eval()
        torch.manual_seed(1)
        lik2 = gpytorch.likelihoods.GaussianLikelihood().double()
        m2 = make(kind)(x[obs], y[obs], lik2).double().eval()
        try:
            with torch.no_grad(), gpytorch.settings.observation_nan_policy(pol):
                p = m(xs)
                pm, pc = p.mean, p.covariance_matrix
            with torch.no_grad():
                q = m2(xs)
            print(kind, pol, "mean diff", (pm - q.mean).abs().max().item(), "covariance diff", (pc - q.covariance_matrix).abs().max().item())
        except Exception as e:
            print(kind, pol, "ERROR", type(e).__name__, str(e)[:100])
