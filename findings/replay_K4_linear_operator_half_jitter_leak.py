# K4 (C20): third-party linear_operator.settings.cholesky_jitter (re-exported by gpytorch.settings) leaks half_value.
import torch, gpytorch
s = gpytorch.settings
print("before:", s.cholesky_jitter.value(torch.half))
with s.cholesky_jitter(half_value=0.5):
    pass
print("after :", s.cholesky_jitter.value(torch.half), "(expected None)")
