"""SoftmaxLikelihood.forward transposes the latent values whenever num_data == num_features.

p(y | f) is documented as Softmax(W f) for f of shape (num_data x num_features), the layout of a
MultitaskMultivariateNormal.  With exactly num_features data points the "legacy mode" heuristic fires and
the likelihood silently computes Softmax(W f^T) instead.
"""
import sys
import warnings

import torch

import gpytorch
from gpytorch.distributions import MultitaskMultivariateNormal
from gpytorch.likelihoods import SoftmaxLikelihood
from linear_operator.operators import DiagLinearOperator

warnings.simplefilter("ignore")
torch.manual_seed(0)
torch.set_default_dtype(torch.float64)

t, C = 4, 3
lik = SoftmaxLikelihood(num_features=t, num_classes=C)
W = lik.mixing_weights.detach()
worst = 0.0
for n in (3, 4, 5):
    f = torch.randn(n, t)  # n data points, t latent functions
    got = lik(f).probs
    ref = torch.softmax(f @ W.t(), dim=-1)  # documented conditional: Softmax(W f) per data point
    err = (got - ref).abs().max().item()
    print(f"conditional probs, n={n} t={t}: max |lik(f).probs - softmax(f W^T)| = {err:.3e}")
    worst = max(worst, err)

    # same through expected_log_prob with an (almost) deterministic MultitaskMultivariateNormal
    mean = torch.randn(n, t)
    q = MultitaskMultivariateNormal(mean, DiagLinearOperator(torch.full((n * t,), 1e-14)))
    y = torch.randint(0, C, (n,))
    elp = lik.expected_log_prob(y, q)
    ref = torch.distributions.Categorical(logits=mean @ W.t()).log_prob(y)
    err = (elp - ref).abs().max().item()
    print(f"expected_log_prob, n={n} t={t}: max error vs Categorical(logits=mean W^T).log_prob = {err:.3e}")
    worst = max(worst, err)

# without mixing weights (W = I, num_features = num_classes)
lik2 = SoftmaxLikelihood(num_classes=C, mixing_weights=False)
f = torch.randn(C, C)
err = (lik2(f).probs - torch.softmax(f, -1)).abs().max().item()
print(f"mixing_weights=False, n={C} classes={C}: max |probs - softmax(f)| = {err:.3e}")
worst = max(worst, err)

print("largest discrepancy:", worst)
sys.exit(1 if worst > 1e-4 else 0)
