"""C08 violation: MultitaskGaussianLikelihood(rank>0, batch_shape=[b], task_prior=...) mixes the global noise of
different batch elements into the task-noise covariance that the task prior is evaluated on.

_eval_covar_matrix() computes   noise * eye(num_tasks)   with noise of shape (b, 1):
  * b == num_tasks: broadcasts to ONE (T x T) matrix diag(noise[0], ..., noise[b-1]) that is added to every batch
    element -> the prior term (and the batched exact MLL) of element i depends on the noise of the other elements;
  * b != num_tasks: RuntimeError, the batched MLL cannot be evaluated at all.
Reference: independent un-batched replicas carrying the i-th slice of the parameters / data.
"""
import sys
import warnings

import torch

import gpytorch
from gpytorch.distributions import MultitaskMultivariateNormal
from gpytorch.kernels import MultitaskKernel, RBFKernel
from gpytorch.likelihoods import MultitaskGaussianLikelihood
from gpytorch.means import ConstantMean, MultitaskMean
from gpytorch.priors import GammaPrior, LKJCovariancePrior

warnings.filterwarnings("ignore")
torch.set_default_dtype(torch.float64)
n, d = 5, 2


class MTGP(gpytorch.models.ExactGP):
    def __init__(self, x, y, lik, T, bs):
        super().__init__(x, y, lik)
        bs = torch.Size(bs)
        self.mean_module = MultitaskMean(ConstantMean(batch_shape=bs), num_tasks=T)
        self.covar_module = MultitaskKernel(RBFKernel(batch_shape=bs), num_tasks=T, rank=1, batch_shape=bs)

    def forward(self, x):
        return MultitaskMultivariateNormal(self.mean_module(x), self.covar_module(x))


def make_lik(T, bs):
    prior = LKJCovariancePrior(T, 1.5, GammaPrior(2.0, 1.0))
    return MultitaskGaussianLikelihood(num_tasks=T, rank=1, batch_shape=torch.Size(bs), task_prior=prior)


def run(T, B):
    torch.manual_seed(0)
    x = torch.randn(B, n, d)
    y = torch.randn(B, n, T)
    lik = make_lik(T, (B,))
    model = MTGP(x, y, lik, T, (B,))
    for p in model.parameters():
        p.data = torch.randn_like(p) * 0.5
    lik.raw_noise.data = torch.linspace(-2.0, 3.0, B).unsqueeze(-1)  # clearly different global noises
    model.train()

    # independent replicas
    ref_mll, ref_prior = [], []
    for b in range(B):
        li = make_lik(T, ())
        r = MTGP(x[b], y[b], li, T, ())
        for pb, pr in zip(model.parameters(), r.parameters()):
            pr.data = pb.data[b].clone()
        r.train()
        with torch.no_grad():
            ref_mll.append(gpytorch.mlls.ExactMarginalLogLikelihood(li, r)(r(x[b]), y[b]))
            (_, mod, prior, closure, _), = list(li.named_priors())
            ref_prior.append(prior.log_prob(closure(mod)))
    ref_mll, ref_prior = torch.stack(ref_mll), torch.stack(ref_prior)

    print(f"--- num_tasks={T}, batch_shape=[{B}]")
    print("replica prior terms :", ref_prior.tolist())
    print("replica MLLs        :", ref_mll.tolist())
    try:
        with torch.no_grad():
            (_, mod, prior, closure, _), = list(lik.named_priors())
            bat_prior = prior.log_prob(closure(mod))
            bat_mll = gpytorch.mlls.ExactMarginalLogLikelihood(lik, model)(model(x), y)
    except Exception as e:
        print("batched model RAISED:", type(e).__name__, str(e)[:110])
        return True
    e1 = (bat_prior - ref_prior).abs().max().item()
    e2 = (bat_mll - ref_mll).abs().max().item()
    print("batched prior terms :", bat_prior.tolist(), " max |diff| =", e1)
    print("batched MLLs        :", bat_mll.tolist(), " max |diff| =", e2)
    return e1 > 1e-8 or e2 > 1e-8


bad = [run(2, 2), run(3, 3), run(3, 2)]
if any(bad):
    print("VIOLATION: batched task-prior term / MLL differs from independent replicas (or raises)")
    sys.exit(1)
print("ok")
sys.exit(0)
