"""C08 violation: cross-talk between batch elements when a lazily evaluated batched kernel matrix has its batch
dimensions permuted (LazyEvaluatedKernelTensor inherits LinearOperator._permute_batch, which permutes the inputs x1, x2
but leaves the kernel - and hence its batched hyper-parameters - in the old batch order).

Public paths that hit it:
  (a) IndependentMultitaskVariationalStrategy(task_dim=-2) / LMCVariationalStrategy(latent_dim=-2) on a batch of models
      (variational batch shape  L x b): element b of the batched q(f) has a covariance computed with the
      hyper-parameters of the wrong (latent, batch) pair when L == b, and raises when L != b.
  (b) directly: kernel(x).permute(1, 0, 2, 3) / MultitaskMultivariateNormal.from_batch_mvn(mvn, task_dim=-2).
Reference: independent un-batched replicas with the b-th parameter slice; the dense matrix permuted by torch.
"""
import sys
import warnings

import torch

import gpytorch
from gpytorch.variational import (
    CholeskyVariationalDistribution,
    IndependentMultitaskVariationalStrategy,
    LMCVariationalStrategy,
    VariationalStrategy,
)

warnings.filterwarnings("ignore")
torch.set_default_dtype(torch.float64)
n, M, d, T = 5, 4, 2, 3


class GP(gpytorch.models.ApproximateGP):
    def __init__(self, Z, vb, dim, kind, L):
        vb = torch.Size(vb)
        base = VariationalStrategy(self, Z, CholeskyVariationalDistribution(M, batch_shape=vb))
        if kind == "lmc":
            vs = LMCVariationalStrategy(base, num_tasks=T, num_latents=L, latent_dim=dim)
        else:
            vs = IndependentMultitaskVariationalStrategy(base, num_tasks=L, task_dim=dim)
        super().__init__(vs)
        self.mean_module = gpytorch.means.ConstantMean(batch_shape=vb)
        self.covar_module = gpytorch.kernels.ScaleKernel(
            gpytorch.kernels.RBFKernel(batch_shape=vb), batch_shape=vb
        )

    def forward(self, x):
        return gpytorch.distributions.MultivariateNormal(self.mean_module(x), self.covar_module(x))


def init(m):
    m.variational_strategy.base_variational_strategy.variational_params_initialized.fill_(1)
    for name, p in m.named_parameters():
        p.data = torch.randn_like(p) * 0.5
        if "chol_variational_covar" in name:
            p.data = p.data.tril() + 2 * torch.eye(M)


def strategy_case(kind, L, b):
    """batch of b models, each with L latent GPs / tasks; latent (task) dimension is batch dim -2: shape L x b"""
    torch.manual_seed(0)
    Z = torch.randn(L, b, M, d)
    x = torch.randn(n, d)  # shared inputs
    model = GP(Z, (L, b), -2, kind, L)
    init(model)
    refs = []
    for i in range(b):  # replica i: un-batched model (latent dim is its only batch dim) with the [:, i] parameter slice
        r = GP(Z[:, i], (L,), -1, kind, L)
        init(r)
        for pb, pr in zip(model.parameters(), r.parameters()):
            pr.data = pb.data[:, i].clone()
        with torch.no_grad():
            o = r(x)
            refs.append((o.mean, o.covariance_matrix))
    try:
        with torch.no_grad():
            out = model(x)
            mean, cov = out.mean, out.covariance_matrix
    except Exception as e:
        print(f"[{kind} dim=-2, L={L}, b={b}] batched model RAISED {type(e).__name__}: {str(e)[:100]}")
        return True
    em = max((mean[i] - refs[i][0]).abs().max().item() for i in range(b))
    ec = max((cov[i] - refs[i][1]).abs().max().item() for i in range(b))
    print(f"[{kind} dim=-2, L={L}, b={b}] max |mean - replica| = {em:.2e}   max |covar - replica| = {ec:.4f}")
    return em > 1e-8 or ec > 1e-8


bad = []
for kind in ["imt", "lmc"]:
    bad.append(strategy_case(kind, 2, 2))  # silently wrong
    bad.append(strategy_case(kind, 3, 2))  # raises

# (b) the root cause in isolation
torch.manual_seed(1)
k = gpytorch.kernels.RBFKernel(batch_shape=torch.Size([2, 2]))
k.raw_lengthscale.data = torch.randn(2, 2, 1, 1)
x = torch.randn(2, 2, n, d)
with torch.no_grad():
    ref = k(x).to_dense().permute(1, 0, 2, 3)
    got = k(x).permute(1, 0, 2, 3).to_dense()
    err = (got - ref).abs().max().item()
    print(f"[kernel(x).permute(1,0,2,3)] max |lazy-permuted - dense-permuted| = {err:.4f}")
    bad.append(err > 1e-8)
    mvn = gpytorch.distributions.MultivariateNormal(torch.zeros(2, 2, n), k(x))
    mt = gpytorch.distributions.MultitaskMultivariateNormal.from_batch_mvn(mvn, task_dim=-2)
    mt_ref = gpytorch.distributions.MultitaskMultivariateNormal.from_batch_mvn(
        gpytorch.distributions.MultivariateNormal(torch.zeros(2, 2, n), k(x).to_dense()), task_dim=-2
    )
    err = (mt.covariance_matrix - mt_ref.covariance_matrix).abs().max().item()
    print(f"[from_batch_mvn(task_dim=-2)] max |lazy covar - dense covar| = {err:.4f}")
    bad.append(err > 1e-8)

if any(bad):
    print("VIOLATION: batch elements computed with the hyper-parameters of other batch elements (or raise)")
    sys.exit(1)
print("ok")
sys.exit(0)
