"""C08 violation: element [i, j] of a batched AdditiveKernel / ProductKernel output cannot be taken when the component
kernels (batch_shape [2]) are broadcast against data with a larger batch shape (3 x 2).

(k1 + k2)(x)[i, j]  (and k1 * k2, and MultivariateNormal.__getitem__ of a GP prior built on such a kernel) raises
"The expected shape of the kernel was torch.Size([3, 2, n, n]), but got torch.Size([n, n])", whereas
  * the dense batched matrix to_dense()[i, j] is fine and equals the independent replica, and
  * the same index on a single (non-composite) kernel works.
"""
import sys
import warnings

import torch

import gpytorch
from gpytorch.kernels import MaternKernel, RBFKernel, ScaleKernel

warnings.filterwarnings("ignore")
torch.set_default_dtype(torch.float64)
torch.manual_seed(0)
n, d = 4, 2
B = torch.Size([2])


def make(bs, kind):
    k1, k2 = RBFKernel(batch_shape=bs), ScaleKernel(MaternKernel(nu=1.5, batch_shape=bs), batch_shape=bs)
    return k1 + k2 if kind == "sum" else k1 * k2


x = torch.randn(3, 2, n, d)  # data batch 3 x 2, parameters batch 2 (broadcast against the last data batch dim)
violations = 0
for kind in ["sum", "prod"]:
    k = make(B, kind)
    for p in k.parameters():
        p.data = torch.randn_like(p)
    for idx in [(2, 1), (0, 0)]:
        # reference 1: dense batched matrix; reference 2: independent un-batched replica with the idx[-1]-th parameter slice
        with torch.no_grad():
            dense = k(x).to_dense()[idx]
            r = make(torch.Size([]), kind)
            for pb, pr in zip(k.parameters(), r.parameters()):
                pr.data = pb.data[idx[-1]].clone()
            replica = r(x[idx]).to_dense()
        print(f"[{kind}] idx={idx}: |dense batched element - replica| = {(dense - replica).abs().max().item():.2e}")
        try:
            with torch.no_grad():
                elem = k(x)[idx].to_dense()
            err = (elem - replica).abs().max().item()
            print(f"[{kind}] idx={idx}: lazily indexed element, error against replica {err:.2e}")
            violations += err > 1e-8
        except Exception as e:
            print(f"[{kind}] idx={idx}: k(x)[idx].to_dense() RAISED {type(e).__name__}: {str(e)[:120]}")
            violations += 1

    # the same through a GP prior: MultivariateNormal.__getitem__
    mvn = gpytorch.distributions.MultivariateNormal(torch.zeros(3, 2, n), k(x))
    try:
        with torch.no_grad():
            cov = mvn[2, 1].covariance_matrix
        print(f"[{kind}] mvn[2, 1].covariance_matrix ok, error {(cov - k(x).to_dense()[2, 1]).abs().max().item():.2e}")
    except Exception as e:
        print(f"[{kind}] mvn[2, 1].covariance_matrix RAISED {type(e).__name__}: {str(e)[:120]}")
        violations += 1

# control: a single (non-composite) kernel handles the same index
k = RBFKernel(batch_shape=B)
with torch.no_grad():
    print("control single RBFKernel:", (k(x)[2, 1].to_dense() - k(x).to_dense()[2, 1]).abs().max().item())

if violations:
    print("VIOLATION: batch element of a composite kernel is not retrievable / differs from the replica")
    sys.exit(1)
print("ok")
sys.exit(0)
