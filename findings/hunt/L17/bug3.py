#!/usr/bin/env python3
"""
C17 violation: Interval.intersect - and therefore Module.register_constraint(name, constraint, replace=False) - raises
for EVERY pair of constraints, also for two plain Interval constraints with the very same (default sigmoid) transform.

Interval.intersect compares `self.transform != other.transform`: `transform` is the bound METHOD Interval.transform,
and bound methods of two different objects never compare equal, so the "conflicting transforms" branch is always taken
(the attribute that holds the transform function is `_transform`).
Expected: Interval(0, 1) n Interval(0.5, 2) = Interval(0.5, 1); register_constraint(replace=False) narrows the bounds and
the parameter keeps reading inside them.
"""
import sys
import warnings

import torch

import gpytorch
from gpytorch.constraints import GreaterThan, Interval, Positive

warnings.filterwarnings("ignore")
torch.set_default_dtype(torch.float64)
torch.manual_seed(0)

bad = False

a, b = Interval(0.0, 1.0), Interval(0.5, 2.0)
print("same transform function:", a._transform is b._transform)
try:
    c = a.intersect(b)
    print("Interval(0,1).intersect(Interval(0.5,2)) ->", c, "expected Interval(0.5, 1)")
    if abs(c.lower_bound.item() - 0.5) > 1e-12 or abs(c.upper_bound.item() - 1.0) > 1e-12:
        bad = True
except Exception as e:
    print(f"Interval(0,1).intersect(Interval(0.5,2)) raised {type(e).__name__}: {e}")
    bad = True

try:
    c = a.intersect(Interval(0.0, 1.0))
    print("Interval(0,1).intersect(Interval(0,1)) ->", c)
except Exception as e:
    print(f"Interval(0,1).intersect(Interval(0,1)) raised {type(e).__name__}: {e}")
    bad = True

# the public entry point
k = gpytorch.kernels.RBFKernel(lengthscale_constraint=Interval(0.1, 10.0))
k.lengthscale = 2.0
try:
    k.register_constraint("raw_lengthscale", Interval(1.0, 3.0), replace=False)
    con = k.raw_lengthscale_constraint
    print("register_constraint(replace=False) ->", con, " lengthscale reads", k.lengthscale.item())
    if not (1.0 <= k.lengthscale.item() <= 3.0):
        bad = True
except Exception as e:
    print(f"RBFKernel.register_constraint('raw_lengthscale', Interval(1, 3), replace=False) raised {type(e).__name__}: {e}")
    bad = True

# default (Positive / GreaterThan) constraints of every kernel and likelihood: same failure
lik = gpytorch.likelihoods.GaussianLikelihood()  # GreaterThan(1e-4)
try:
    lik.noise_covar.register_constraint("raw_noise", GreaterThan(1e-2), replace=False)
    print("GaussianLikelihood: register_constraint(GreaterThan(1e-2), replace=False) ->", lik.noise_covar.raw_noise_constraint)
except Exception as e:
    print(f"GaussianLikelihood noise: register_constraint(GreaterThan(1e-2), replace=False) raised {type(e).__name__}: {e}")
    bad = True

print("VIOLATION PRESENT" if bad else "no violation")
sys.exit(1 if bad else 0)
