#!/usr/bin/env python3
"""
Extra (confirmed) - MultitaskGaussianLikelihood(num_tasks=3, noise_prior=SmoothedBoxPrior(a, b)).task_noises = 0.5
raises ValueError although 0.5 is inside the constraint AND inside the box of the prior - and the value has already been
written when the exception is raised.

Module.initialize finishes with `prior._validate_sample(closure(self))` for a prior registered under the name
"<parameter>_prior" (here "raw_task_noises_prior").  torch's _validate_sample insists that the trailing dimension of the
value equals the event_shape of the distribution; a scalar SmoothedBoxPrior has event_shape (1,) (it is meant to be
broadcast over the elements of the parameter: its log_prob does `.sum(-1)`, and that is how the MLL uses it), the task
noises have shape (3,).  The same prior on RBFKernel(ard_num_dims=3) is fine because that prior is not called
"raw_lengthscale_prior", so the check never runs there.
"""
import sys
import warnings

import torch

import gpytorch
from gpytorch.priors import SmoothedBoxPrior

warnings.filterwarnings("ignore")
torch.set_default_dtype(torch.float64)

bad = False
lik = gpytorch.likelihoods.MultitaskGaussianLikelihood(num_tasks=3, noise_prior=SmoothedBoxPrior(0.01, 5.0, 0.1))
before = lik.task_noises.detach().clone()
print("prior log density of the current task noises (works, shape", tuple(lik.raw_task_noises_prior.log_prob(lik.task_noises).shape), ")")
try:
    lik.task_noises = 0.5
    print("task_noises = 0.5 -> reads", lik.task_noises.tolist())
    if (lik.task_noises - 0.5).abs().max().item() > 1e-8:
        bad = True
except Exception as e:
    print(f"task_noises = 0.5 raised {type(e).__name__}: {str(e).splitlines()[0]} ...")
    print("   value before:", before.tolist(), " value after the 'rejected' assignment:", lik.task_noises.tolist())
    bad = True

# control: same prior, same shape of parameter, no exception
k = gpytorch.kernels.RBFKernel(ard_num_dims=3, lengthscale_prior=SmoothedBoxPrior(0.01, 5.0, 0.1))
k.lengthscale = 0.5
print("control RBFKernel(ard_num_dims=3, lengthscale_prior=SmoothedBoxPrior).lengthscale = 0.5 ->", k.lengthscale.tolist())

print("VIOLATION PRESENT" if bad else "no violation")
sys.exit(1 if bad else 0)
