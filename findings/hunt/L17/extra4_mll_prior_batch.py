#!/usr/bin/env python3
"""
Extra (confirmed) - prior terms in ExactMarginalLogLikelihood are aligned with the WRONG end of the batch shape.

ExactMarginalLogLikelihood._add_other_terms does
    prior_term = prior.log_prob(closure(module))
    res.add_(prior_term.view(*prior_term.shape[:res.ndim], -1).sum(dim=-1))
i.e. it keeps the LEADING res.ndim dimensions of the prior term as "batch" dimensions.  That is right only if the
parameter carries the full batch shape of the model (or a leading singleton).  For a batch model (MLL of shape b) whose
registered prior sits on a parameter of shape (k,) that does not carry the batch shape - e.g. the task noises (t,) of a
shared MultitaskGaussianLikelihood(num_tasks=t, noise_prior=...) - the k per-element log densities are added to the b
batch members one by one (b == k, silently wrong) or the call raises (b != k), instead of adding their SUM to every batch
member (which is what happens for the shared global noise of shape (1,)).
Reference: MLL of the same model without priors + sum(log p(theta)) / num_data.
"""
import sys
import warnings

import torch

import gpytorch
from gpytorch.priors import GammaPrior

warnings.filterwarnings("ignore")
torch.set_default_dtype(torch.float64)

n, d = 6, 2


def build(b, t, prior, X, Y):
    class M(gpytorch.models.ExactGP):
        def __init__(self, X, Y, lik):
            super().__init__(X, Y, lik)
            bs = torch.Size([b])
            self.mean_module = gpytorch.means.MultitaskMean(gpytorch.means.ConstantMean(batch_shape=bs), num_tasks=t)
            self.covar_module = gpytorch.kernels.MultitaskKernel(
                gpytorch.kernels.RBFKernel(batch_shape=bs), num_tasks=t, rank=1, batch_shape=bs
            )

        def forward(self, x):
            return gpytorch.distributions.MultitaskMultivariateNormal(self.mean_module(x), self.covar_module(x))

    lik = gpytorch.likelihoods.MultitaskGaussianLikelihood(num_tasks=t, noise_prior=prior)  # shared by the batch
    lik.task_noises = torch.linspace(0.2, 0.9, t)
    lik.noise = 0.3
    return M(X, Y, lik), lik


bad = False
for b, t in [(2, 2), (3, 3), (2, 3)]:
    torch.manual_seed(0)
    X, Y = torch.rand(b, n, d), torch.randn(b, n, t)
    m, lik = build(b, t, GammaPrior(2.0, 3.0), X, Y)
    m0, lik0 = build(b, t, None, X, Y)
    m0.load_state_dict({k: v for k, v in m.state_dict().items() if "prior" not in k})
    out0 = gpytorch.mlls.ExactMarginalLogLikelihood(lik0, m0)(m0(X), Y)
    g = torch.distributions.Gamma(2.0, 3.0)
    total_log_prior = g.log_prob(lik.task_noises).sum() + g.log_prob(lik.noise).sum()
    ref = out0 + total_log_prior / (n * t)
    try:
        out = gpytorch.mlls.ExactMarginalLogLikelihood(lik, m)(m(X), Y)
        err = (out - ref).abs().max().item()
        print(f"batch {b}, tasks {t}: mll = {out.tolist()}  reference = {ref.tolist()}  max err = {err:.3e}")
        if err > 1e-8:
            bad = True
    except Exception as e:
        print(f"batch {b}, tasks {t}: mll raised {type(e).__name__}: {e}   (reference = {ref.tolist()})")
        bad = True

print("VIOLATION PRESENT" if bad else "no violation")
sys.exit(1 if bad else 0)
