"""
C11 bug 2: indexing a batch member of MultitaskMultivariateNormal.from_independent_mvns([...batch MVNs...]) with an int
raises:  d[0], d[0, :, :], d[0, 1:, 0], d[-1, 0, 0] ...  ->  RuntimeError "base_linear_op must be a batch of square matrices".
mean[idx] is valid for all of these, the same distribution held with a dense covariance answers all of them, and
d[0:1] / d[torch.tensor([0])] work.
"""
import sys
import warnings

import torch

from gpytorch.distributions import MultitaskMultivariateNormal, MultivariateNormal

warnings.filterwarnings("ignore")
torch.manual_seed(0)
torch.set_default_dtype(torch.float64)

B, n, T = 2, 3, 2


def spd(*shape):
    a = torch.randn(*shape, shape[-1])
    return a @ a.transpose(-1, -2) + torch.eye(shape[-1])


means = [torch.randn(B, n) for _ in range(T)]
covs = [spd(B, n) for _ in range(T)]
d = MultitaskMultivariateNormal.from_independent_mvns([MultivariateNormal(m, c) for m, c in zip(means, covs)])

# reference: the joint covariance in (point, task) order, and the same distribution held densely (interleaved)
mean = torch.stack(means, -1)  # B x n x T
S5 = torch.zeros(B, n, T, n, T)
for a in range(T):
    S5[:, :, a, :, a] = covs[a]
S = S5.reshape(B, n * T, n * T)
control = MultitaskMultivariateNormal(mean, S)
print("batch_shape", tuple(d.batch_shape), "event_shape", tuple(d.event_shape), "interleaved", d._interleaved)
print("log_prob agrees with the dense control:", torch.allclose(d.log_prob(mean + 0.1), control.log_prob(mean + 0.1)))

ids = torch.arange(n * T).view(n, T)


def joint(r):
    c = r.covariance_matrix
    if not isinstance(r, MultitaskMultivariateNormal) or r._interleaved:
        return c
    nn, tt = r.mean.shape[-2:]
    b = c.shape[:-2]
    nd = len(b)
    return c.reshape(*b, tt, nn, tt, nn).permute(*range(nd), nd + 1, nd, nd + 3, nd + 2).reshape(*b, nn * tt, nn * tt)


indices = [
    (0,),
    (-1,),
    (0, slice(None), slice(None)),
    (1, slice(1, None), 0),
    (0, 0, slice(None)),
    (0, slice(None), slice(1, None)),
    (1, torch.tensor([2, 0]), torch.tensor([1, 0])),
    (slice(0, 1),),  # works
    (torch.tensor([0]),),  # works
]
n_fail = 0
for idx in indices:
    ev = (idx + (slice(None), slice(None)))[1:3]
    flat = ids[ev].reshape(-1)
    ref_mean = mean[idx]
    ref_cov = S[idx[0]][..., flat, :][..., :, flat]
    line = f"d[{', '.join(str(i) for i in idx)}]: mean[idx] has shape {tuple(ref_mean.shape)};"
    for name, dist in (("from_independent_mvns", d), ("dense control", control)):
        try:
            r = dist[idx]
            err = max((r.mean - ref_mean).abs().max().item(), (joint(r) - ref_cov).abs().max().item())
            line += f"  {name}: max error {err:.2g};"
            if err > 1e-10 and dist is d:
                n_fail += 1
        except Exception as e:
            line += f"  {name}: RAISED {type(e).__name__}: {str(e)[:90]};"
            if dist is d:
                n_fail += 1
    print(line)

print("failing index expressions on the from_independent_mvns distribution:", n_fail)
print("VIOLATION" if n_fail else "ok")
sys.exit(1 if n_fail else 0)
