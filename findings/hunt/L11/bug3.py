"""
C11 bug 3: from_independent_mvns / from_repeated_mvn raise for batch MVNs whose covariance is a lazily evaluated kernel
(MultivariateNormal(mean, kernel(x)) with a kernel of batch_shape [2] - what a batch ExactGP returns in training mode).
The same members with an evaluated covariance work and give the block-diagonal joint distribution.
"""
import sys
import warnings

import torch

import gpytorch
from gpytorch.distributions import MultitaskMultivariateNormal, MultivariateNormal

warnings.filterwarnings("ignore")
torch.manual_seed(0)
torch.set_default_dtype(torch.float64)

B, n, T = 2, 4, 3


def make_kernel(seed):
    g = torch.Generator().manual_seed(seed)
    k = gpytorch.kernels.ScaleKernel(gpytorch.kernels.RBFKernel(batch_shape=torch.Size([B])), batch_shape=torch.Size([B]))
    k.base_kernel.lengthscale = (torch.rand(B, 1, 1, generator=g) + 0.5)
    k.outputscale = torch.rand(B, generator=g) + 0.5
    return k


x = torch.randn(n, 2)  # inputs shared by the batch members
kernels = [make_kernel(s) for s in range(T)]
means = [torch.randn(B, n) for _ in range(T)]
dense = [k(x).to_dense().detach() for k in kernels]  # each B x n x n

ref = torch.zeros(B, n, T, n, T)
for a in range(T):
    ref[:, :, a, :, a] = dense[a]
ref = ref.reshape(B, n * T, n * T)
ref_mean = torch.stack(means, -1)


def joint(d):
    """covariance in (point, task) order"""
    c = d.covariance_matrix
    if d._interleaved:
        return c
    nn, tt = d.mean.shape[-2:]
    return c.reshape(B, tt, nn, tt, nn).permute(0, 2, 1, 4, 3).reshape(B, nn * tt, nn * tt)


failures = []


def attempt(name, build, reference, reference_mean):
    try:
        with torch.no_grad():
            d = build()
            err = max((joint(d) - reference).abs().max().item(), (d.mean - reference_mean).abs().max().item())
        print(f"{name}: built, max error vs block-diagonal reference = {err:.3g}")
        if err > 1e-8:
            failures.append(name)
    except Exception as e:
        print(f"{name}: RAISED {type(e).__name__}: {str(e)[:170]}")
        failures.append(name)


# control: evaluated covariances
attempt(
    "from_independent_mvns, dense covariances",
    lambda: MultitaskMultivariateNormal.from_independent_mvns([MultivariateNormal(m, c) for m, c in zip(means, dense)]),
    ref,
    ref_mean,
)
n_control = len(failures)

# lazily evaluated kernels, inputs shared across the batch
attempt(
    "from_independent_mvns, covariances = kernel(x), x of shape n x d",
    lambda: MultitaskMultivariateNormal.from_independent_mvns([MultivariateNormal(m, k(x)) for m, k in zip(means, kernels)]),
    ref,
    ref_mean,
)
# lazily evaluated kernels, inputs carrying the batch dimension
xb = x.expand(B, n, 2).contiguous()
attempt(
    "from_independent_mvns, covariances = kernel(x), x of shape B x n x d",
    lambda: MultitaskMultivariateNormal.from_independent_mvns([MultivariateNormal(m, k(xb)) for m, k in zip(means, kernels)]),
    ref,
    ref_mean,
)

# from_repeated_mvn
rep_ref = torch.zeros(B, n, T, n, T)
for a in range(T):
    rep_ref[:, :, a, :, a] = dense[0]
rep_ref = rep_ref.reshape(B, n * T, n * T)
rep_mean = means[0].unsqueeze(-1).expand(B, n, T)
attempt(
    "from_repeated_mvn, dense covariance",
    lambda: MultitaskMultivariateNormal.from_repeated_mvn(MultivariateNormal(means[0], dense[0]), T),
    rep_ref,
    rep_mean,
)
attempt(
    "from_repeated_mvn, covariance = kernel(x)",
    lambda: MultitaskMultivariateNormal.from_repeated_mvn(MultivariateNormal(means[0], kernels[0](x)), T),
    rep_ref,
    rep_mean,
)

print("failing:", failures)
bad = len(failures) > 0
print("VIOLATION" if bad else "ok")
sys.exit(1 if bad else 0)
