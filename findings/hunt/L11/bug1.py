"""
C11 bug 1: MultitaskMultivariateNormal.from_batch_mvn(mvn, task_dim=0) on a batch MVN with two batch dimensions whose
covariance is a lazily evaluated kernel (MultivariateNormal(mean, kernel(x)), what ExactGP.forward returns) gives the
WRONG joint covariance: task a / batch member b gets the kernel hyper-parameters of batch entry [b, a] instead of [a, b].
With task_dim=-1 (default) or with an evaluated (dense) covariance the result is right.
"""
import sys
import warnings

import torch

import gpytorch
from gpytorch.distributions import MultitaskMultivariateNormal, MultivariateNormal

warnings.filterwarnings("ignore")
torch.manual_seed(0)
torch.set_default_dtype(torch.float64)

T, B, n = 2, 2, 4  # tasks (batch dim 0), remaining batch dim, points
kernel = gpytorch.kernels.ScaleKernel(
    gpytorch.kernels.RBFKernel(batch_shape=torch.Size([T, B])), batch_shape=torch.Size([T, B])
)
ls = torch.tensor([[0.5, 1.0], [2.0, 4.0]])
os_ = torch.tensor([[1.0, 2.0], [3.0, 4.0]])
kernel.base_kernel.lengthscale = ls.view(T, B, 1, 1)
kernel.outputscale = os_
x = torch.randn(n, 1)
mean = torch.randn(T, B, n)

# from-scratch reference: K[a, b] = os[a, b] * exp(-0.5 (x - x')^2 / ls[a, b]^2)
sq = (x - x.T) ** 2
K = os_.view(T, B, 1, 1) * torch.exp(-0.5 * sq / ls.view(T, B, 1, 1) ** 2)
assert torch.allclose(kernel(x).to_dense(), K)

# joint covariance of independent tasks, (point, task) interleaved: cov[b, (i, a), (j, a')] = delta_{aa'} K[a, b, i, j]
ref = torch.zeros(B, n, T, n, T)
for a in range(T):
    ref[:, :, a, :, a] = K[a]
ref = ref.reshape(B, n * T, n * T)
ref_mean = mean.movedim(0, -1)  # B x n x T

with torch.no_grad():
    batch_mvn = MultivariateNormal(mean, kernel(x))  # lazily evaluated kernel
    d = MultitaskMultivariateNormal.from_batch_mvn(batch_mvn, task_dim=0)
    d_dense = MultitaskMultivariateNormal.from_batch_mvn(MultivariateNormal(mean, K), task_dim=0)

    print("mean error (lazy kernel covar):", (d.mean - ref_mean).abs().max().item())
    err_cov = (d.covariance_matrix - ref).abs().max().item()
    err_cov_dense = (d_dense.covariance_matrix - ref).abs().max().item()
    print("joint covariance error, covariance = kernel(x) (lazy):", err_cov)
    print("joint covariance error, covariance = dense tensor    :", err_cov_dense)

    ref_var = torch.stack([K[a].diagonal(dim1=-1, dim2=-2) for a in range(T)], -1)  # B x n x T
    err_var = (d.variance - ref_var).abs().max().item()
    print("variance error (lazy):", err_var, " e.g. variance[0, 0] =", d.variance[0, 0].tolist(), "expected", ref_var[0, 0].tolist())

    # what it actually holds: the kernels of batch entry [b, a] instead of [a, b]
    swapped = torch.zeros(B, n, T, n, T)
    for a in range(T):
        for b in range(B):
            swapped[b, :, a, :, a] = K[b, a]
    print("distance to the covariance built from K[b, a] (swapped):", (d.covariance_matrix - swapped.reshape(B, n * T, n * T)).abs().max().item())

    # log_prob against the sum of the independent members
    v = torch.randn(B, n, T)
    jit = 1e-6 * torch.eye(n)
    ref_lp = sum(torch.distributions.MultivariateNormal(mean[a], K[a] + jit).log_prob(v[..., a]) for a in range(T))
    lp = MultitaskMultivariateNormal.from_batch_mvn(
        MultivariateNormal(mean, kernel(x).add_jitter(1e-6)), task_dim=0
    ).log_prob(v)
    err_lp = (lp - ref_lp).abs().max().item()
    print("log_prob error (lazy):", err_lp)

bad = err_cov > 1e-6 or err_var > 1e-6 or err_lp > 1e-4
print("VIOLATION" if bad else "ok")
sys.exit(1 if bad else 0)
