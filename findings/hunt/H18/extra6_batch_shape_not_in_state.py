#!/usr/bin/env python3
"""
Extra finding (C18, state outside the state_dict): Kernel.local_load_samples (pyro_load_from_samples) turns a model into
a batch model by changing the parameters AND the plain attribute kernel._batch_shape.  The documented way to reload such
a model (examples/01_Exact_GPs/GP_Regression_Fully_Bayesian.ipynb: fresh model, load_strict_shapes(False),
load_state_dict) restores the parameter shapes only.  Kernels that read self.batch_shape in forward
(PolynomialKernel, PolynomialKernelGrad, CylindricalKernel) or that are checked against it (RFFKernel) then fail,
whereas the original batch model, its deepcopy and kernels that merely broadcast (RBF, Matern, ...) work.
pyro is not needed: pyro_load_from_samples only consumes a dict of samples.
"""
import copy
import sys
import warnings

import torch

import gpytorch
from gpytorch import kernels as K, priors as P

warnings.filterwarnings("ignore")
torch.manual_seed(0)
torch.set_default_dtype(torch.float64)
X = torch.rand(12, 2)
y = torch.sin(4 * X[:, 0]) + 0.1 * torch.randn(12)
Xs = torch.rand(5, 2)
S = 3
G = lambda: P.GammaPrior(3.0, 6.0)  # noqa


class Model(gpytorch.models.ExactGP):
    def __init__(self, kern):
        super().__init__(X, y, gpytorch.likelihoods.GaussianLikelihood(noise_prior=G()))
        self.mean_module = gpytorch.means.ConstantMean()
        self.covar_module = kern

    def forward(self, x):
        return gpytorch.distributions.MultivariateNormal(self.mean_module(x), self.covar_module(x))


kernels = {
    "RBF [control]": lambda: K.ScaleKernel(K.RBFKernel(lengthscale_prior=G()), outputscale_prior=G()),
    "Polynomial": lambda: K.ScaleKernel(K.PolynomialKernel(power=2, offset_prior=G()), outputscale_prior=G()),
    "RFF": lambda: K.ScaleKernel(K.RFFKernel(num_samples=8, num_dims=2, lengthscale_prior=G())),
}
failed = False
for name, kf in kernels.items():
    torch.manual_seed(1)
    model = Model(kf())
    samples = {n: prior.expand(closure(mod).shape).sample(torch.Size([S])) for n, mod, prior, closure, _ in model.named_priors()}
    model.pyro_load_from_samples(samples)
    model.eval()
    xs = Xs.unsqueeze(0).repeat(S, 1, 1)
    with torch.no_grad():
        ref = model.likelihood(model(xs)).mean
        cp = copy.deepcopy(model)
        d_cp = (cp.likelihood(cp(xs)).mean - ref).abs().max().item()
    state = copy.deepcopy(model.state_dict())
    torch.manual_seed(1)
    fresh = Model(kf())
    fresh.load_strict_shapes(False)
    fresh.load_state_dict(state)
    fresh.eval()
    try:
        with torch.no_grad():
            d = (fresh.likelihood(fresh(xs)).mean - ref).abs().max().item()
        print("%-14s deepcopy diff %.1e | reloaded diff %.1e" % (name, d_cp, d))
        failed |= d > 1e-8
    except Exception as e:  # noqa
        print("%-14s deepcopy diff %.1e | reloaded model RAISES %s: %s" % (name, d_cp, type(e).__name__, str(e)[:110]))
        failed = True
sys.exit(1 if failed else 0)
