#!/usr/bin/env python3
"""
Extra finding (C18, prior parameters carried by the state_dict):
(1) LogNormalPrior / HalfNormalPrior / HalfCauchyPrior (torch TransformedDistributions) expose their parameters as
    `_transformed_*` buffers that merely alias base_dist's tensors.  As soon as the model went through Module._apply
    (.double(), .float(), .to(device), .cuda()) the buffers are new tensors; a subsequent model.load_state_dict()
    fills the buffers but never reaches base_dist (only Prior.load_state_dict - not used for sub-modules - calls
    _load_transformed_to_base_dist).  log_prob / the MAP objective keep using the constructor's parameters.
(2) MultivariateNormalPrior: covariance_matrix / precision_matrix / scale_tril given to the constructor stay behind
    as plain attributes; after load_state_dict they still show the old values while log_prob/rsample use the loaded
    `_unbroadcasted_scale_tril` (a stale cache of the previous state; minor).
Reference: torch.distributions objects with the saved parameters.
"""
import sys
import warnings

import torch

import gpytorch
from gpytorch import priors as P

warnings.filterwarnings("ignore")
torch.manual_seed(0)
x = torch.tensor([0.3, 1.2], dtype=torch.float64)
failed = False


def model(prior):
    return gpytorch.kernels.RBFKernel(lengthscale_prior=prior)


import torch.distributions as D

for name, saved, fresh, ref in [
    ("LogNormalPrior", lambda: P.LogNormalPrior(2.0, 0.5), lambda: P.LogNormalPrior(0.0, 1.0), D.LogNormal(torch.tensor(2.0).double(), torch.tensor(0.5).double())),
    ("HalfNormalPrior", lambda: P.HalfNormalPrior(0.5), lambda: P.HalfNormalPrior(1.0), D.HalfNormal(torch.tensor(0.5).double())),
    ("HalfCauchyPrior", lambda: P.HalfCauchyPrior(0.5), lambda: P.HalfCauchyPrior(1.0), D.HalfCauchy(torch.tensor(0.5).double())),
    ("GammaPrior [control]", lambda: P.GammaPrior(2.0, 0.5), lambda: P.GammaPrior(1.0, 1.0), D.Gamma(torch.tensor(2.0).double(), torch.tensor(0.5).double())),
]:
    src = model(saved()).double()
    state = {k: v.clone() for k, v in src.state_dict().items()}
    for cast in (False, True):
        dst = model(fresh())
        if cast:
            dst = dst.double()  # the usual  model = Model(...).double()/.cuda();  model.load_state_dict(...)
        dst.load_state_dict(state)
        got = dst.lengthscale_prior.log_prob(x)
        err = (got.double() - ref.log_prob(x)).abs().max().item()
        print("%-22s cast before load=%-5s  max|log_prob - reference| = %.3e" % (name, cast, err))
        if err > 1e-5 and "control" not in name:
            failed = True

torch.set_default_dtype(torch.float64)
A = torch.tensor([[2.0, 0.3], [0.3, 1.0]])
B = torch.tensor([[1.0, -0.2], [-0.2, 3.0]])
src = P.MultivariateNormalPrior(torch.ones(2), scale_tril=torch.linalg.cholesky(B))
dst = P.MultivariateNormalPrior(torch.zeros(2), scale_tril=torch.linalg.cholesky(A))
dst.load_state_dict(src.state_dict())
ref = D.MultivariateNormal(torch.ones(2), covariance_matrix=B)
print("MVN prior after load: |log_prob - ref| = %.3e" % (dst.log_prob(x) - ref.log_prob(x)).abs().item())
e1 = (dst.scale_tril - torch.linalg.cholesky(B)).abs().max().item()
print("MVN prior after load: |prior.scale_tril - saved scale_tril| = %.3e  (log_prob uses the loaded one)" % e1)
if e1 > 1e-8:
    failed = True
sys.exit(1 if failed else 0)
