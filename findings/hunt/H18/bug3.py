#!/usr/bin/env python3
"""
C18 violation 3: copy.deepcopy of a variational GP raises at the most common save point of a training history -
right after an optimisation step (e.g. "best_model = copy.deepcopy(model)" inside the training loop).

_VariationalStrategy memoises prior_distribution / variational_distribution / the Cholesky factor of K_ZZ in
`self._memoize_cache`; after a forward pass in training mode (or an eval-mode pass without torch.no_grad) these are
non-leaf autograd tensors, which torch refuses to deep-copy.  The cache is only dropped at the *next* call / train() /
load_state_dict, so the model is not copyable between two iterations.  ExactGP protects itself against exactly this
error (DefaultPredictionStrategy.__deepcopy__), the variational strategies (and GridKernel._cached_kernel_mat) do not.
Reference: pickle and state_dict round trips taken at the same save point work and reproduce the ELBO and the
predictive distribution to 0.0, so there is nothing un-copyable in the model state itself.
"""
import copy
import pickle
import sys
import warnings

import torch

import gpytorch

warnings.filterwarnings("ignore")
torch.manual_seed(0)
torch.set_default_dtype(torch.float64)

X = torch.rand(40, 2)
y = torch.sin(6 * X[:, 0]) + X[:, 1] + 0.1 * torch.randn(40)
Xs = torch.rand(6, 2)


class SVGP(gpytorch.models.ApproximateGP):
    def __init__(self, Z):
        vd = gpytorch.variational.CholeskyVariationalDistribution(Z.size(0))
        vs = gpytorch.variational.VariationalStrategy(self, Z, vd, learn_inducing_locations=True)
        super().__init__(vs)
        self.mean_module = gpytorch.means.ConstantMean()
        self.covar_module = gpytorch.kernels.ScaleKernel(gpytorch.kernels.RBFKernel())
        self.likelihood = gpytorch.likelihoods.GaussianLikelihood()

    def forward(self, x):
        return gpytorch.distributions.MultivariateNormal(self.mean_module(x), self.covar_module(x))


def make():
    return SVGP(X[:8].clone())


def elbo(model):
    model.train()
    return gpytorch.mlls.VariationalELBO(model.likelihood, model, num_data=40)(model(X), y)


def predict(model):
    model.eval()
    with torch.no_grad():
        out = model.likelihood(model(Xs))
    return torch.cat([out.mean, out.variance])


def trained_model(steps=3):
    torch.manual_seed(1)
    model = make()
    opt = torch.optim.Adam(model.parameters(), lr=0.05)
    model.train()
    for _ in range(steps):
        opt.zero_grad()
        (-elbo(model)).backward()
        opt.step()
    return model  # <- save point: training mode, directly after optimizer.step()


failed = False
replicas = {}

model = trained_model()
replicas["pickle"] = pickle.loads(pickle.dumps(model))
fresh = make()
fresh.load_state_dict(copy.deepcopy(model.state_dict()))
replicas["state_dict"] = fresh
try:
    replicas["deepcopy"] = copy.deepcopy(model)
except Exception as e:  # noqa
    print("VIOLATION: copy.deepcopy(model) after a training step raises %s: %s" % (type(e).__name__, str(e).split(".")[0]))
    print("           cached entries of the strategy:", sorted({k[0] if isinstance(k, tuple) else k for k in model.variational_strategy._memoize_cache.keys()}))
    failed = True

ref_elbo, ref_pred = elbo(model).item(), predict(model)
for name, rep in replicas.items():
    d1 = abs(elbo(rep).item() - ref_elbo)
    d2 = (predict(rep) - ref_pred).abs().max().item()
    print("%-10s replica: |d ELBO| = %.3e   max|d predictive| = %.3e" % (name, d1, d2))
    if max(d1, d2) > 1e-8:
        failed = True

# same thing for an eval-mode model that predicted with autograd enabled (no torch.no_grad)
model = trained_model()
model.eval()
model.likelihood(model(Xs))
try:
    copy.deepcopy(model)
    print("eval-mode model after a grad-enabled prediction: deepcopy ok")
except Exception as e:  # noqa
    print("VIOLATION: copy.deepcopy(model) after an eval-mode prediction (grad enabled) raises %s" % type(e).__name__)
    failed = True

# root cause check: once the memoize cache is cleared the copy works and is exact
model = trained_model()
model.train()  # Module.train() calls _clear_cache()
cp = copy.deepcopy(model)
print("after model.train() (cache cleared): deepcopy ok, |d ELBO| = %.3e" % abs(elbo(cp).item() - elbo(model).item()))

sys.exit(1 if failed else 0)
