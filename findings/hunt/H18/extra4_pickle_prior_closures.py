#!/usr/bin/env python3
"""
Extra finding (C18, pickling): every module that registers a prior through a lambda / through the string form of
Module.register_prior cannot be pickled (torch.save(model) included).  Kernel.lengthscale_prior, ScaleKernel,
ConstantMean and the homoskedastic noise use bound methods exactly to be picklable; the modules below do not.
Exit 1 if at least one of these valid configurations cannot be pickled.
"""
import pickle
import sys
import warnings

import torch

import gpytorch
from gpytorch import kernels as K, likelihoods as L, means as M, priors as P

warnings.filterwarnings("ignore")
torch.set_default_dtype(torch.float64)
G = lambda: P.GammaPrior(2.0, 3.0)  # noqa

configs = {
    "RBFKernel(lengthscale_prior)  [control]": lambda: K.RBFKernel(lengthscale_prior=G()),
    "ScaleKernel(outputscale_prior) [control]": lambda: K.ScaleKernel(K.RBFKernel(), outputscale_prior=G()),
    "ConstantMean(constant_prior)   [control]": lambda: M.ConstantMean(constant_prior=P.NormalPrior(0.0, 1.0)),
    "GaussianLikelihood(noise_prior) [control]": lambda: L.GaussianLikelihood(noise_prior=G()),
    "PeriodicKernel(period_length_prior)": lambda: K.PeriodicKernel(period_length_prior=G()),
    "CosineKernel(period_length_prior)": lambda: K.CosineKernel(period_length_prior=G()),
    "LinearKernel(variance_prior)": lambda: K.LinearKernel(variance_prior=G()),
    "PolynomialKernel(offset_prior)": lambda: K.PolynomialKernel(power=2, offset_prior=G()),
    "ConstantKernel(constant_prior)": lambda: K.ConstantKernel(constant_prior=G()),
    "IndexKernel(prior)": lambda: K.IndexKernel(num_tasks=2, prior=P.LKJCovariancePrior(2, 1.0, G())),
    "MultitaskKernel(task_covar_prior)": lambda: K.MultitaskKernel(K.RBFKernel(), 2, task_covar_prior=P.LKJCovariancePrior(2, 1.0, G())),
    "StudentTLikelihood(noise_prior)": lambda: L.StudentTLikelihood(noise_prior=G()),
    "LaplaceLikelihood(noise_prior)": lambda: L.LaplaceLikelihood(noise_prior=G()),
    "BetaLikelihood(scale_prior)": lambda: L.BetaLikelihood(scale_prior=G()),
    "MultitaskGaussianLikelihood(noise_prior)": lambda: L.MultitaskGaussianLikelihood(num_tasks=2, noise_prior=G()),
    "ConstantMeanGrad(prior)": lambda: M.ConstantMeanGrad(prior=P.NormalPrior(0.0, 1.0)),
    "user: mean.register_prior('p', prior, 'constant')": lambda: _user(),
}


def _user():
    m = M.ConstantMean()
    m.register_prior("mean_prior", P.NormalPrior(0.0, 1.0), "constant")  # the form used in the fully Bayesian example
    return m


bad = 0
for name, mk in configs.items():
    mod = mk()
    try:
        mod2 = pickle.loads(pickle.dumps(mod))
        print("ok      ", name)
    except Exception as e:  # noqa
        bad += "control" not in name
        print("RAISES  ", name, "->", type(e).__name__, str(e)[:90])
sys.exit(1 if bad else 0)
