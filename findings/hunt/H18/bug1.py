#!/usr/bin/env python3
"""
C18 violation 1: copy.deepcopy of an SGPR model (ExactGP + InducingPointKernel) is not a faithful replica.

InducingPointKernel.__deepcopy__ builds a *new* kernel through the constructor:
  (a) the copy is always in training mode, also when the model that is copied is in eval mode
      -> the eval-mode copy cannot predict ("x1 should equal x2 in training mode"),
  (b) the copy keeps a reference to the ORIGINAL likelihood (likelihood=self.likelihood), not to the likelihood
      of the copied model -> the SGPR training objective (added trace term ~ 1/noise) of the copy is computed with
      the noise of the model it was copied from.
Reference: an independent replica obtained by constructing a fresh model and load_state_dict (and pickle), which agree
with the original to 0.0.
"""
import copy
import pickle
import sys
import warnings

import torch

import gpytorch

warnings.filterwarnings("ignore")
torch.manual_seed(0)
torch.set_default_dtype(torch.float64)

X = torch.rand(40, 2)
y = torch.sin(6 * X[:, 0]) + X[:, 1] + 0.1 * torch.randn(40)
Xs = torch.rand(7, 2)


class SGPR(gpytorch.models.ExactGP):
    def __init__(self, X, y, lik):
        super().__init__(X, y, lik)
        self.mean_module = gpytorch.means.ConstantMean()
        base = gpytorch.kernels.ScaleKernel(gpytorch.kernels.RBFKernel())
        self.covar_module = gpytorch.kernels.InducingPointKernel(base, inducing_points=X[:4].clone(), likelihood=lik)

    def forward(self, x):
        return gpytorch.distributions.MultivariateNormal(self.mean_module(x), self.covar_module(x))


def make():
    return SGPR(X, y, gpytorch.likelihoods.GaussianLikelihood())


def loss(model):
    model.train()
    mll = gpytorch.mlls.ExactMarginalLogLikelihood(model.likelihood, model)
    return -mll(model(X), y).item()


model = make()
model.covar_module.base_kernel.base_kernel.lengthscale = 0.15
mll = gpytorch.mlls.ExactMarginalLogLikelihood(model.likelihood, model)
opt = torch.optim.Adam(model.parameters(), lr=0.05)
model.train()
for _ in range(5):
    opt.zero_grad()
    (-mll(model(X), y)).backward()
    opt.step()

failed = False

# ---------------------------------------------------------------- (a) save point: eval mode, after a prediction
model.eval()
with torch.no_grad():
    ref = model(Xs)
    ref_mean, ref_var = ref.mean.clone(), ref.variance.clone()

replica = make()
replica.load_state_dict(copy.deepcopy(model.state_dict()))
replica.eval()
with torch.no_grad():
    r = replica(Xs)
print("state_dict replica : max|d mean| = %.3e  max|d var| = %.3e" % ((r.mean - ref_mean).abs().max(), (r.variance - ref_var).abs().max()))
pk = pickle.loads(pickle.dumps(model))
with torch.no_grad():
    r = pk(Xs)
print("pickle replica     : max|d mean| = %.3e  max|d var| = %.3e" % ((r.mean - ref_mean).abs().max(), (r.variance - ref_var).abs().max()))

cp = copy.deepcopy(model)
print("original: model.training=%s covar_module.training=%s" % (model.training, model.covar_module.training))
print("deepcopy: model.training=%s covar_module.training=%s" % (cp.training, cp.covar_module.training))
if cp.covar_module.training != model.covar_module.training:
    print("VIOLATION (a1): the deep copy of an eval-mode model has its InducingPointKernel in training mode")
    failed = True
try:
    with torch.no_grad():
        r = cp(Xs)
    d = max((r.mean - ref_mean).abs().max().item(), (r.variance - ref_var).abs().max().item())
    print("deepcopy replica   : max discrepancy = %.3e" % d)
    if d > 1e-8:
        print("VIOLATION (a2): deep copy predicts differently")
        failed = True
except Exception as e:  # noqa
    print("VIOLATION (a2): deep copy of the eval-mode model cannot predict: %s: %s" % (type(e).__name__, e))
    failed = True

# ---------------------------------------------------------------- (b) the copy's kernel points at the ORIGINAL likelihood
cp = copy.deepcopy(model)
print("copy.covar_module.likelihood is copy.likelihood     :", cp.covar_module.likelihood is cp.likelihood)
print("copy.covar_module.likelihood is original.likelihood :", cp.covar_module.likelihood is model.likelihood)
# Same modification on the deep copy and on an independent replica (fresh model + state_dict): set the noise to 2.0
replica = make()
replica.load_state_dict(copy.deepcopy(model.state_dict()))
print("loss before the change: original %.10f  deepcopy %.10f  replica %.10f" % (loss(model), loss(cp), loss(replica)))
cp.likelihood.noise = 2.0
replica.likelihood.noise = 2.0
l_cp, l_rep = loss(cp), loss(replica)
print("after setting noise=2.0 on both: deepcopy loss %.10f   independent replica loss %.10f   |diff| = %.3e" % (l_cp, l_rep, abs(l_cp - l_rep)))
if cp.covar_module.likelihood is not cp.likelihood or abs(l_cp - l_rep) > 1e-8:
    print("VIOLATION (b): the SGPR objective of the deep copy uses the noise of the model it was copied from")
    failed = True

sys.exit(1 if failed else 0)
