#!/usr/bin/env python3
"""
C18 violation 2: RFFKernel(num_samples=D) with the default num_dims=None registers its random frequencies
(`randn_weights`, a buffer) lazily at the first forward call.  A trained model therefore has a key in its state_dict
that a freshly constructed model of the same architecture does not know:
  * load_state_dict(strict=True)  -> RuntimeError (unexpected key ...randn_weights),
  * load_state_dict(strict=False) -> the saved frequencies are silently dropped, the fresh model draws new ones at its
    first call and predicts something else.
pickle / deepcopy of the very same model reproduce the predictions exactly, so the state itself is serialisable.
"""
import copy
import pickle
import sys
import warnings

import torch

import gpytorch

warnings.filterwarnings("ignore")
torch.manual_seed(0)
torch.set_default_dtype(torch.float64)

X = torch.rand(30, 2)
y = torch.sin(6 * X[:, 0]) + 0.05 * torch.randn(30)
Xs = torch.rand(5, 2)


class Model(gpytorch.models.ExactGP):
    def __init__(self, X, y, lik):
        super().__init__(X, y, lik)
        self.mean_module = gpytorch.means.ConstantMean()
        self.covar_module = gpytorch.kernels.ScaleKernel(gpytorch.kernels.RFFKernel(num_samples=20))  # num_dims=None

    def forward(self, x):
        return gpytorch.distributions.MultivariateNormal(self.mean_module(x), self.covar_module(x))


def make():
    return Model(X, y, gpytorch.likelihoods.GaussianLikelihood())


model = make()
mll = gpytorch.mlls.ExactMarginalLogLikelihood(model.likelihood, model)
opt = torch.optim.Adam(model.parameters(), lr=0.1)
model.train()
for _ in range(5):
    opt.zero_grad()
    (-mll(model(X), y)).backward()
    opt.step()
state = copy.deepcopy(model.state_dict())
model.eval()
with torch.no_grad():
    ref = model.likelihood(model(Xs))

failed = False
for name, replica in (("pickle", pickle.loads(pickle.dumps(model))), ("deepcopy", copy.deepcopy(model))):
    with torch.no_grad():
        out = replica.likelihood(replica(Xs))
    print("%-9s replica: max|d mean| = %.3e  max|d var| = %.3e" % (name, (out.mean - ref.mean).abs().max(), (out.variance - ref.variance).abs().max()))

fresh = make()
print("keys only in the saved state:", sorted(set(state) - set(fresh.state_dict())))
try:
    fresh.load_state_dict(state)
    print("strict load: ok")
except RuntimeError as e:
    print("VIOLATION: strict load_state_dict into a fresh model of the same architecture raises:\n   ", str(e).replace("\n", " "))
    failed = True

fresh = make()
fresh.load_state_dict(state, strict=False)
fresh.eval()
with torch.no_grad():
    out = fresh.likelihood(fresh(Xs))
d_mean = (out.mean - ref.mean).abs().max().item()
d_var = (out.variance - ref.variance).abs().max().item()
print("strict=False replica: max|d mean| = %.3e  max|d var| = %.3e" % (d_mean, d_var))
if max(d_mean, d_var) > 1e-8:
    print("VIOLATION: the non-strict load silently drops the random frequencies; the loaded model predicts differently")
    failed = True

# control: with num_dims given the buffer exists at construction and the round trip is exact
class Model2(Model):
    def __init__(self, X, y, lik):
        super().__init__(X, y, lik)
        self.covar_module = gpytorch.kernels.ScaleKernel(gpytorch.kernels.RFFKernel(num_samples=20, num_dims=2))


m2 = Model2(X, y, gpytorch.likelihoods.GaussianLikelihood())
f2 = Model2(X, y, gpytorch.likelihoods.GaussianLikelihood())
f2.load_state_dict(copy.deepcopy(m2.state_dict()))
m2.eval(), f2.eval()
with torch.no_grad():
    print("control (num_dims=2 given): max|d mean| = %.3e" % (m2(Xs).mean - f2(Xs).mean).abs().max())

sys.exit(1 if failed else 0)
