#!/usr/bin/env python3
"""
C03 violation #3: the SGPR prediction strategy bakes the settings of the FIRST evaluation-mode call into its caches.

(a) gpytorch.settings.sgpr_diagonal_correction: the train/train covariance (with or without the diagonal
    correction) is evaluated once, under the setting of the first call, and kept. A later prediction under the other
    setting returns the posterior mean of the first setting.
(b) gpytorch.settings.lazily_evaluate_kernels(False) at the first call makes `prediction_strategy()` pick
    DefaultPredictionStrategy instead of SGPRPredictionStrategy; the choice is kept, and every later prediction under
    default settings has another predictive covariance than a fresh model (and the other way round the cached
    SGPRPredictionStrategy raises a ValueError under lazily_evaluate_kernels(False) where a fresh model works).

Reference: a freshly constructed model with the same parameters/data under the same settings, and a dense formula.
"""
import sys
import warnings

import torch

import gpytorch
from gpytorch import settings

warnings.simplefilter("ignore")
torch.manual_seed(0)
torch.set_default_dtype(torch.float64)


class SGPR(gpytorch.models.ExactGP):
    def __init__(self, train_x, train_y, likelihood):
        super().__init__(train_x, train_y, likelihood)
        self.mean_module = gpytorch.means.ConstantMean()
        self.base = gpytorch.kernels.ScaleKernel(gpytorch.kernels.RBFKernel())
        self.covar_module = gpytorch.kernels.InducingPointKernel(
            self.base, inducing_points=torch.linspace(0, 1, 6).unsqueeze(-1), likelihood=likelihood
        )

    def forward(self, x):
        return gpytorch.distributions.MultivariateNormal(self.mean_module(x), self.covar_module(x))


train_x = torch.rand(15, 1)
train_y = torch.sin(6 * train_x.squeeze(-1)) + 0.1 * torch.randn(15)
test_x = torch.rand(4, 1)


def build():
    model = SGPR(train_x, train_y, gpytorch.likelihoods.GaussianLikelihood())
    model.base.base_kernel.lengthscale = 0.08
    model.likelihood.noise = 0.05
    model.mean_module.constant.data.fill_(0.3)
    return model.eval()


def predict(model, **ctx):
    with settings.sgpr_diagonal_correction(ctx.get("diag", True)), settings.lazily_evaluate_kernels(ctx.get("lazy", True)):
        p = model(test_x)
        return p.mean.detach().clone(), p.covariance_matrix.detach().clone()


def dense_mean(diag_correction):
    with torch.no_grad():
        m = build()
        Z = m.covar_module.inducing_points
        k = m.base
        Kzz = k(Z).to_dense()
        Kxz = k(train_x, Z).to_dense()
        Ksz = k(test_x, Z).to_dense()
        Qxx = Kxz @ torch.linalg.solve(Kzz, Kxz.T)
        Qsx = Ksz @ torch.linalg.solve(Kzz, Kxz.T)
        A = Qxx + m.likelihood.noise * torch.eye(15)
        if diag_correction:
            A = A + torch.diag((k(train_x, diag=True) - Qxx.diagonal()).clamp_min(0))
        return 0.3 + Qsx @ torch.linalg.solve(A, train_y - 0.3)


violated = False

# ---------------------------------------------------------------- (a) sgpr_diagonal_correction
print("(a) sgpr_diagonal_correction")
for first, second in [(True, False), (False, True)]:
    model = build()
    predict(model, diag=first)  # history: one prediction under the other setting
    got_mean, got_covar = predict(model, diag=second)
    ref_mean, ref_covar = predict(build(), diag=second)
    d_ref = (got_mean - ref_mean).abs().max().item()
    d_dense_second = (got_mean - dense_mean(second)).abs().max().item()
    d_dense_first = (got_mean - dense_mean(first)).abs().max().item()
    print(f"  first call diag={first}, then diag={second}: max|mean - fresh model mean| = {d_ref:.3e}; "
          f"|mean - dense formula(diag={second})| = {d_dense_second:.3e}; |mean - dense formula(diag={first})| = {d_dense_first:.3e}")
    print(f"      fresh  : {ref_mean.tolist()}\n      history: {got_mean.tolist()}")
    violated = violated or d_ref > 1e-6

# ---------------------------------------------------------------- (b) lazily_evaluate_kernels
print("(b) lazily_evaluate_kernels")
model = build()
predict(model, lazy=False)  # history: one prediction with eager kernels
print("  strategy kept after the eager call:", type(model.prediction_strategy).__name__,
      "| fresh model uses:", end=" ")
fresh = build()
ref_mean, ref_covar = predict(fresh)
print(type(fresh.prediction_strategy).__name__)
got_mean, got_covar = predict(model)
d_mean = (got_mean - ref_mean).abs().max().item()
d_cov = (got_covar - ref_covar).abs().max().item()
print(f"  default-settings prediction: max|mean - fresh| = {d_mean:.3e}, max|covar - fresh| = {d_cov:.3e}")
violated = violated or max(d_mean, d_cov) > 1e-6

model = build()
predict(model)  # history: an ordinary prediction
try:
    predict(build(), lazy=False)
    fresh_ok = True
except Exception:
    fresh_ok = False
try:
    predict(model, lazy=False)
    print("  ordinary call, then eager call: works")
except Exception as e:  # noqa
    print(f"  ordinary call, then eager call: raised {type(e).__name__}: {str(e)[:80]} (fresh model works: {fresh_ok})")
    violated = violated or fresh_ok

print("VIOLATION" if violated else "ok")
sys.exit(1 if violated else 0)
