#!/usr/bin/env python3
"""
C03 violation #2: after ONE backward pass through an evaluation-mode prediction of an SGPR model
(InducingPointKernel) the next prediction can no longer be differentiated - under DEFAULT settings.

History:   model.eval()
           p = model(x1); p.mean.sum().backward()        -> fine, gives d mean / d x1
           p = model(x2); p.mean.sum().backward()        -> RuntimeError "backward through the graph a second time"
Reference: a freshly constructed model with the same parameters and data differentiates the prediction at x2
           without any problem; so does the history model after a train()/eval() round trip.
The same happens for the predictive variance of KISS-GP (GridInterpolationKernel) and of a GridKernel model.
"""
import sys
import warnings

import torch

import gpytorch

warnings.simplefilter("ignore")
torch.manual_seed(0)
torch.set_default_dtype(torch.float64)


class GP(gpytorch.models.ExactGP):
    def __init__(self, train_x, train_y, likelihood, kind):
        super().__init__(train_x, train_y, likelihood)
        self.mean_module = gpytorch.means.ConstantMean()
        base = gpytorch.kernels.ScaleKernel(gpytorch.kernels.RBFKernel())
        if kind == "sgpr":
            self.covar_module = gpytorch.kernels.InducingPointKernel(
                base, inducing_points=torch.linspace(0, 1, 8).unsqueeze(-1), likelihood=likelihood
            )
        elif kind == "kiss":
            self.covar_module = gpytorch.kernels.GridInterpolationKernel(
                base, grid_size=32, num_dims=1, grid_bounds=[(-0.5, 1.5)]
            )
        else:
            self.covar_module = base

    def forward(self, x):
        return gpytorch.distributions.MultivariateNormal(self.mean_module(x), self.covar_module(x))


train_x = torch.linspace(0, 1, 20).unsqueeze(-1)
train_y = torch.sin(6 * train_x.squeeze(-1)) + 0.05 * torch.randn(20)
x1 = torch.tensor([[0.11], [0.37], [0.52]])
x2 = torch.tensor([[0.23], [0.66], [0.93]])


def build(kind):
    model = GP(train_x, train_y, gpytorch.likelihoods.GaussianLikelihood(), kind)
    return model.eval()


def input_gradient(model, x, what):
    x = x.clone().requires_grad_(True)
    pred = model(x)
    (pred.mean if what == "mean" else pred.variance).sum().backward()
    return x.grad.clone()


violated = False
for kind, what in [("sgpr", "mean"), ("sgpr", "variance"), ("kiss", "variance"), ("exact", "mean"), ("exact", "variance")]:
    fresh = build(kind)
    ref = input_gradient(fresh, x2, what)  # first-ever prediction of a fresh model: always works

    model = build(kind)
    input_gradient(model, x1, what)  # history: one differentiated prediction
    try:
        got = input_gradient(model, x2, what)
        msg = f"ok, max |grad - fresh grad| = {(got - ref).abs().max().item():.2e}"
        bad = (got - ref).abs().max().item() > 1e-8
    except RuntimeError as e:
        msg = f"RAISED RuntimeError: {str(e)[:70]}..."
        bad = True
    # the round trip train()/eval() drops the caches and repairs the model -> it IS a stale-cache effect
    model.train(); model.eval()
    again = input_gradient(model, x2, what)
    print(f"{kind:5s} d {what:8s}/dx at x2 | fresh: {[round(v, 5) for v in ref.flatten().tolist()]} | 2nd differentiated "
          f"prediction of the same eval model: {msg} | after train()/eval(): max diff {(again - ref).abs().max().item():.1e}")
    if kind != "exact":
        violated = violated or bad
    elif bad:
        print("   (unexpected: the plain exact GP failed too)")

print("VIOLATION" if violated else "ok")
sys.exit(1 if violated else 0)
