#!/usr/bin/env python3
"""
C03 violation #1: a failed fantasy-model creation on a KISS-GP strips the source model of its training
data and likelihood; the next evaluation-mode "posterior" silently is the PRIOR.

History:   model.eval(); model(x_test)  [ordinary prediction, autograd enabled]
           model.get_fantasy_model(x_new, y_new)   -> RuntimeError (deepcopy of a non-leaf cached tensor)
           model(x_test)                           -> prior mean / prior covariance, no error
Reference: a freshly constructed model with the same parameters and the same training data.
"""
import sys
import warnings

import torch

import gpytorch

warnings.simplefilter("ignore")
torch.manual_seed(0)
torch.set_default_dtype(torch.float64)


class KissGP(gpytorch.models.ExactGP):
    def __init__(self, train_x, train_y, likelihood):
        super().__init__(train_x, train_y, likelihood)
        self.mean_module = gpytorch.means.ConstantMean()
        self.covar_module = gpytorch.kernels.GridInterpolationKernel(
            gpytorch.kernels.ScaleKernel(gpytorch.kernels.RBFKernel()),
            grid_size=32,
            num_dims=1,
            grid_bounds=[(-0.5, 1.5)],
        )

    def forward(self, x):
        return gpytorch.distributions.MultivariateNormal(self.mean_module(x), self.covar_module(x))


train_x = torch.linspace(0, 1, 20).unsqueeze(-1)
train_y = torch.sin(6 * train_x.squeeze(-1)) + 0.05 * torch.randn(20)
test_x = torch.tensor([[0.11], [0.37], [0.52], [0.93]])
new_x = torch.tensor([[0.25], [0.75]])
new_y = torch.tensor([0.3, -0.4])


def build():
    model = KissGP(train_x, train_y, gpytorch.likelihoods.GaussianLikelihood())
    model.covar_module.base_kernel.base_kernel.lengthscale = 0.2
    model.likelihood.noise = 0.01
    return model.eval()


# ---- model with a history
model = build()
first = model(test_x)
first_mean, first_covar = first.mean.detach().clone(), first.covariance_matrix.detach().clone()

fantasy_error = None
try:
    model.get_fantasy_model(new_x, new_y)
except Exception as e:  # noqa
    fantasy_error = e
print("get_fantasy_model raised:", None if fantasy_error is None else f"{type(fantasy_error).__name__}: {str(fantasy_error)[:90]}")
print("after the call: train_inputs is None:", model.train_inputs is None,
      "| train_targets is None:", model.train_targets is None,
      "| likelihood is None:", model.likelihood is None)

after = model(test_x)  # no error: silently the prior
after_mean, after_covar = after.mean.detach(), after.covariance_matrix.detach()

# ---- reference: fresh model, same parameters, same data
fresh = build()
fresh.load_state_dict({k: v for k, v in model.state_dict().items()}, strict=False)
ref = fresh(test_x)
ref_mean, ref_covar = ref.mean.detach(), ref.covariance_matrix.detach()

print("posterior mean, fresh model      :", ref_mean.tolist())
print("posterior mean, before fantasy   :", first_mean.tolist())
print("'posterior' mean, after fantasy  :", after_mean.tolist())
print("posterior variance, fresh model  :", ref_covar.diagonal().tolist())
print("'posterior' variance after       :", after_covar.diagonal().tolist())

err_before = max((first_mean - ref_mean).abs().max().item(), (first_covar - ref_covar).abs().max().item())
err_after = max((after_mean - ref_mean).abs().max().item(), (after_covar - ref_covar).abs().max().item())
print(f"max |history - fresh| before the fantasy call: {err_before:.3e}")
print(f"max |history - fresh| after  the fantasy call: {err_after:.3e}")

# The same sequence works when the first prediction was made under torch.no_grad() (as the unit tests do),
# i.e. whether fantasy creation works at all depends on how the eval caches were filled.
model2 = build()
with torch.no_grad():
    model2(test_x)
try:
    model2.get_fantasy_model(new_x, new_y)
    print("control (first prediction under no_grad): get_fantasy_model works")
except Exception as e:  # noqa
    print("control (first prediction under no_grad): raised", type(e).__name__)

violated = fantasy_error is not None or err_after > 1e-6
print("VIOLATION" if violated else "ok")
sys.exit(1 if violated else 0)
