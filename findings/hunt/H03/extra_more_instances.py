#!/usr/bin/env python3
"""Further confirmed history effects of the same families as bug2/bug3 (not counted as separate bugs). Exit 1 if any shows."""
import sys
import warnings

import torch

import gpytorch
from gpytorch import settings

warnings.simplefilter("ignore")
torch.manual_seed(0)
torch.set_default_dtype(torch.float64)


class GP(gpytorch.models.ExactGP):
    def __init__(self, x, y, lik):
        super().__init__(x, y, lik)
        self.mean_module = gpytorch.means.ConstantMean()
        self.covar_module = gpytorch.kernels.ScaleKernel(gpytorch.kernels.RBFKernel())

    def forward(self, x):
        return gpytorch.distributions.MultivariateNormal(self.mean_module(x), self.covar_module(x))


class SVGP(gpytorch.models.ApproximateGP):
    def __init__(self, Z):
        vd = gpytorch.variational.CholeskyVariationalDistribution(Z.size(-2))
        super().__init__(gpytorch.variational.VariationalStrategy(self, Z, vd, learn_inducing_locations=True))
        self.mean_module = gpytorch.means.ConstantMean()
        self.covar_module = gpytorch.kernels.ScaleKernel(gpytorch.kernels.RBFKernel())

    def forward(self, x):
        return gpytorch.distributions.MultivariateNormal(self.mean_module(x), self.covar_module(x))


x = torch.rand(40, 2); y = torch.sin(4 * x.sum(-1)) + 0.1 * torch.randn(40); xt = torch.rand(4, 2)
def build():
    m = GP(x, y, gpytorch.likelihoods.GaussianLikelihood()); m.covar_module.base_kernel.lengthscale = 0.2
    return m.eval()
bad = False

# 1. variational GP, eval mode, default settings: second backward through a prediction raises
m = SVGP(torch.rand(6, 2)); m.train(); m(x); m.eval()
try:
    for i in range(2):
        xx = xt.clone().requires_grad_(True); m(xx).mean.sum().backward()
    print("1. SVGP eval: two differentiated predictions: ok")
except RuntimeError as e:
    print("1. SVGP eval: second differentiated prediction RAISED:", str(e)[:60]); bad = True

# 2. exact GP with detach_test_caches(False): second backward raises (the clear_cache_hook only empties the strategy's
#    own memo dict, not the evaluated train/train kernel and the factorisation cached on lik_train_train_covar)
m = build()
try:
    with settings.detach_test_caches(False):
        for i in range(2):
            m.zero_grad(); m(xt).mean.sum().backward()
    print("2. exact GP, detach_test_caches(False): ok")
except RuntimeError as e:
    print("2. exact GP, detach_test_caches(False): second differentiated prediction RAISED:", str(e)[:60]); bad = True

# 3. exact GP: caches filled under detach_test_caches(True) are reused under detach_test_caches(False):
#    the hyper-parameter gradient of the prediction differs from the one of a fresh model
def hyper_grad(model):
    model.zero_grad()
    with settings.detach_test_caches(False):
        model(xt).mean.sum().backward()
    return model.covar_module.base_kernel.raw_lengthscale.grad.clone()
m = build(); m(xt).mean  # history: an ordinary prediction (detached caches)
g_hist, g_fresh = hyper_grad(m), hyper_grad(build())
print("3. d mean/d raw_lengthscale under detach_test_caches(False): history", g_hist.item(), "fresh", g_fresh.item())
bad = bad or (g_hist - g_fresh).abs().item() > 1e-6

# 4. fast_pred_var: the low-rank root of the first call survives a change of max_root_decomposition_size / max_cholesky_size
m = build()
with settings.fast_pred_var(True), settings.max_cholesky_size(0), settings.max_root_decomposition_size(5):
    m(xt).variance
with settings.fast_pred_var(True):
    v_hist = m(xt).variance.detach(); v_fresh = build()(xt).variance.detach()
print("4. fast_pred_var variance: history", v_hist.tolist(), "fresh", v_fresh.tolist())
bad = bad or (v_hist - v_fresh).abs().max().item() > 1e-3

# 5. variational GP: the cached Cholesky factor of K_ZZ (+ jitter) ignores a change of settings.variational_cholesky_jitter
import copy
for cls in (gpytorch.variational.VariationalStrategy, gpytorch.variational.UnwhitenedVariationalStrategy):
    class V(gpytorch.models.ApproximateGP):
        def __init__(self, Z):
            vd = gpytorch.variational.CholeskyVariationalDistribution(Z.size(-2))
            super().__init__(cls(self, Z, vd, learn_inducing_locations=True))
            self.mean_module = gpytorch.means.ConstantMean()
            self.covar_module = gpytorch.kernels.ScaleKernel(gpytorch.kernels.RBFKernel())
        def forward(self, x):
            return gpytorch.distributions.MultivariateNormal(self.mean_module(x), self.covar_module(x))
    g = torch.Generator().manual_seed(3)
    Z = torch.rand(6, 2, generator=g)
    m = V(Z); m.train(); m(x)
    for p_ in m.parameters():
        p_.data.add_(0.1 * torch.randn(p_.shape, generator=g))
    m.eval(); m(xt).mean  # history: prediction under the default jitter
    fresh = V(Z); fresh.load_state_dict(copy.deepcopy(m.state_dict())); fresh.eval()
    with settings.variational_cholesky_jitter(double_value=1e-2):
        a, b = m(xt), fresh(xt)
        d = max((a.mean - b.mean).abs().max().item(), (a.covariance_matrix - b.covariance_matrix).abs().max().item())
    print(f"5. {cls.__name__}: prediction under variational_cholesky_jitter(1e-2) after one under the default: max diff to fresh = {d:.3e}")
    bad = bad or d > 1e-4

sys.exit(1 if bad else 0)
