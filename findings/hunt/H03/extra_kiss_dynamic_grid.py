#!/usr/bin/env python3
"""
Side finding (NOT a C03 violation in the strict sense - a fresh model gives the same wrong numbers - but it is a stale
prediction cache): GridInterpolationKernel with the default dynamic grid (grid_bounds=None) never sets
`has_initialized_grid`, so EVERY forward call re-fits the grid to the data of that call. In eval mode the mean cache of
InterpolatedPredictionStrategy lives on the grid fitted to the training inputs, while the test/train covariance of a
call with test points outside the training range is interpolated on another grid -> wrong posterior mean.
"""
import sys
import warnings

import torch

import gpytorch

warnings.simplefilter("ignore")
torch.manual_seed(0)
torch.set_default_dtype(torch.float64)


class K(gpytorch.models.ExactGP):
    def __init__(self, x, y, lik, grid_bounds=None):
        super().__init__(x, y, lik)
        self.mean_module = gpytorch.means.ConstantMean()
        self.covar_module = gpytorch.kernels.GridInterpolationKernel(
            gpytorch.kernels.ScaleKernel(gpytorch.kernels.RBFKernel()), grid_size=30, num_dims=1, grid_bounds=grid_bounds
        )

    def forward(self, x):
        return gpytorch.distributions.MultivariateNormal(self.mean_module(x), self.covar_module(x))


x = torch.linspace(0, 1, 25).unsqueeze(-1)
y = torch.sin(6 * x.squeeze())
x_far = torch.tensor([[1.5], [2.0]])
dyn = K(x, y, gpytorch.likelihoods.GaussianLikelihood()).eval()
static = K(x, y, gpytorch.likelihoods.GaussianLikelihood(), grid_bounds=[(-0.16, 2.16)]).eval()
a, b = dyn(x_far).mean.detach(), static(x_far).mean.detach()
print("has_initialized_grid after a call:", dyn.covar_module.has_initialized_grid.item())
print("dynamic grid (default):", a.tolist(), " static grid covering the test points:", b.tolist())
sys.exit(1 if (a - b).abs().max() > 1e-2 else 0)
