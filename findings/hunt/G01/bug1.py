#!/usr/bin/env python3
"""
C01 violation: KISS-GP exact GP (GridInterpolationKernel with its DEFAULT dynamic grid) returns a posterior mean that is
not the Gaussian conditional of any prior, as soon as a test point lies outside the range of the training inputs.

History:  train-mode marginal likelihood evaluation (initialises the grid on the training inputs) -> model.eval()
          -> model(test_x) with some test_x > max(train_x).

During the test call the kernel silently re-creates its interpolation grid (new bounds), while the prediction strategy keeps
the train/train covariance (interpolation indices + K_UU) that was evaluated on the OLD grid; the mean cache K_UU W' alpha of
the old grid is then read through interpolation indices of the NEW grid.

Reference: dense closed form  m* + K*x (Kxx + s2 I)^-1 (y - mx)  with K evaluated by a frozen deep copy of the model's own
kernel in the state the call left it in (i.e. "whatever the model's kernel evaluates to").  An exact RBF GP is printed as well.
"""
import copy
import sys
import warnings

import torch

import gpytorch

warnings.filterwarnings("ignore")
torch.set_default_dtype(torch.float64)
torch.manual_seed(0)


class KissGP(gpytorch.models.ExactGP):
    def __init__(self, x, y, lik):
        super().__init__(x, y, lik)
        self.mean_module = gpytorch.means.ConstantMean()
        self.covar_module = gpytorch.kernels.ScaleKernel(
            gpytorch.kernels.GridInterpolationKernel(gpytorch.kernels.RBFKernel(), grid_size=20, num_dims=1)
        )

    def forward(self, x):
        return gpytorch.distributions.MultivariateNormal(self.mean_module(x), self.covar_module(x))


n = 30
X = torch.linspace(0, 1, n).unsqueeze(-1)
y = torch.sin(6 * X.squeeze(-1)) + 0.05 * torch.randn(n)
Xs = torch.linspace(0.5, 1.6, 7).unsqueeze(-1)  # 0.5 ... 1.0 inside the training range, the rest beyond it

lik = gpytorch.likelihoods.GaussianLikelihood()
lik.noise = 0.01
model = KissGP(X, y, lik)
model.covar_module.base_kernel.base_kernel.lengthscale = 0.3

# the usual workflow: (at least) one evaluation of the marginal log likelihood in training mode
model.train()
gpytorch.mlls.ExactMarginalLogLikelihood(lik, model)(model(X), y)
model.eval()
print("grid bounds before the test call:", model.covar_module.base_kernel.grid_bounds)
with torch.no_grad():
    out = model(Xs)
    mean, cov = out.mean, out.covariance_matrix
print("grid bounds after the test call: ", model.covar_module.base_kernel.grid_bounds)


def dense_conditional(kernel, mean_module, noise):
    with torch.no_grad(), gpytorch.settings.lazily_evaluate_kernels(False):
        Kxx = kernel(X).to_dense()
        Ksx = kernel(Xs, X).to_dense()
        Kss = kernel(Xs).to_dense()
        mx, ms = mean_module(X), mean_module(Xs)
        A = Kxx + noise * torch.eye(n)
        m = ms + Ksx @ torch.linalg.solve(A, y - mx)
        c = Kss - Ksx @ torch.linalg.solve(A, Ksx.T)
    return m, c


# the model's own kernel, frozen in the state the call left it in
frozen = copy.deepcopy(model.covar_module)
frozen.base_kernel.grid_is_dynamic = False
ref_mean, ref_cov = dense_conditional(frozen, model.mean_module, lik.noise.detach())

# for orientation: the exact RBF GP that KISS-GP approximates
rbf = gpytorch.kernels.ScaleKernel(gpytorch.kernels.RBFKernel())
rbf.base_kernel.lengthscale = 0.3
rbf.outputscale = model.covar_module.outputscale.detach()
ex_mean, _ = dense_conditional(rbf, model.mean_module, lik.noise.detach())

print("test inputs              :", Xs.squeeze(-1).tolist())
print("model(test_x).mean       :", [round(v, 4) for v in mean.tolist()])
print("closed form, own kernel  :", [round(v, 4) for v in ref_mean.tolist()])
print("closed form, exact RBF   :", [round(v, 4) for v in ex_mean.tolist()])
err_mean = (mean - ref_mean).abs().max().item()
err_cov = (cov - ref_cov).abs().max().item()
print("max |mean - closed form| = %.3e   max |cov - closed form| = %.3e" % (err_mean, err_cov))

# a second call does not repair it (the stale caches stay)
with torch.no_grad():
    err_mean2 = (model(Xs).mean - ref_mean).abs().max().item()
print("second call: max |mean - closed form| = %.3e" % err_mean2)

if err_mean > 1e-2 or err_mean2 > 1e-2:
    print("VIOLATION: posterior mean is not the Gaussian conditional of the model's prior")
    sys.exit(1)
print("ok")
sys.exit(0)
