#!/usr/bin/env python3
"""
C01 violation: with lazily evaluated kernels (the default) an exact multi-output GP whose prior is built with
MultitaskMultivariateNormal.from_repeated_mvn / from_batch_mvn(task_dim=0) from a kernel that has a batch of hyper-parameters
and SHARED (un-batched) inputs returns a posterior that is not the Gaussian conditional of the prior its kernel/mean define.
With settings.lazily_evaluate_kernels(False) the very same model returns the correct conditional, so the result depends on
the lazy/eager path.

Model: 2 hyper-parameter settings (kernel / mean batch_shape [2]), 2 outputs that share the latent prior
("each task shares the same mean and covariance", docstring of from_repeated_mvn), homoskedastic multitask noise.
Closed form: for hyper-parameter setting b and task k an ordinary GP regression with kernel matrix K_b = covar_module(X)[b],
mean m_b and noise task_noises[k] + noise.

Root cause: BlockInterleavedLinearOperator(base, block_dim=0) calls base._permute_batch(1, 0); LazyEvaluatedKernelTensor
inherits the generic _permute_batch, which permutes x1 / x2 only - the batch dimension that lives in the kernel's
hyper-parameters stays where it was, so the hyper-parameter batch ends up indexed by the TASK dimension.
"""
import sys
import warnings

import torch

import gpytorch

warnings.filterwarnings("ignore")
torch.set_default_dtype(torch.float64)
torch.manual_seed(0)

MTMVN = gpytorch.distributions.MultitaskMultivariateNormal
B, T, n, ns, d = 2, 2, 6, 4, 2


class RepeatedGP(gpytorch.models.ExactGP):
    def __init__(self, x, y, lik):
        super().__init__(x, y, lik)
        bs = torch.Size([B])
        self.mean_module = gpytorch.means.ConstantMean(batch_shape=bs)
        self.covar_module = gpytorch.kernels.ScaleKernel(gpytorch.kernels.RBFKernel(batch_shape=bs), batch_shape=bs)

    def forward(self, x):
        latent = gpytorch.distributions.MultivariateNormal(self.mean_module(x), self.covar_module(x))  # batch [B]
        return MTMVN.from_repeated_mvn(latent, num_tasks=T)  # batch [B], event [n, T]


X = torch.randn(n, d)
Y = torch.randn(B, n, T)
Xs = torch.randn(ns, d)


def build():
    lik = gpytorch.likelihoods.MultitaskGaussianLikelihood(num_tasks=T)
    lik.noise = 0.05
    lik.task_noises = torch.tensor([0.1, 0.3])
    model = RepeatedGP(X, Y, lik)
    model.covar_module.base_kernel.lengthscale = torch.tensor([0.4, 2.5]).view(B, 1, 1)
    model.covar_module.outputscale = torch.tensor([1.5, 0.5])
    model.mean_module.constant.data = torch.tensor([0.3, -0.7])
    return model.eval(), lik.eval()


# ---- dense closed form from the model's own kernel / mean / likelihood -------------------------------------------------
model, lik = build()
with torch.no_grad(), gpytorch.settings.lazily_evaluate_kernels(False):
    Kxx = model.covar_module(X).to_dense()  # B x n x n
    Ksx = model.covar_module(Xs, X).to_dense()  # B x ns x n
    Kss = model.covar_module(Xs).to_dense()  # B x ns x ns
    mx, ms = model.mean_module(X), model.mean_module(Xs)  # B x n, B x ns
    noise = (lik.task_noises + lik.noise).detach()  # T
ref_mean = torch.empty(B, ns, T)
ref_var = torch.empty(B, ns, T)
for b in range(B):
    for k in range(T):
        A = Kxx[b] + noise[k] * torch.eye(n)
        ref_mean[b, :, k] = ms[b] + Ksx[b] @ torch.linalg.solve(A, Y[b, :, k] - mx[b])
        ref_var[b, :, k] = (Kss[b] - Ksx[b] @ torch.linalg.solve(A, Ksx[b].T)).diagonal()

# ---- the library, lazy (default) and eager kernel evaluation -----------------------------------------------------------
errs = {}
for name, ctx in [("lazily_evaluate_kernels(True) [default]", True), ("lazily_evaluate_kernels(False)", False)]:
    model, lik = build()
    with torch.no_grad(), gpytorch.settings.lazily_evaluate_kernels(ctx):
        out = model(Xs)
        mean, var = out.mean, out.variance
        prior_cov = model.forward(X).covariance_matrix.reshape(B, n, T, n, T)
    e_prior = max((prior_cov[:, :, k, :, k] - Kxx).abs().max().item() for k in range(T))
    e_mean = (mean - ref_mean).abs().max().item()
    e_var = (var - ref_var).abs().max().item()
    errs[name] = max(e_mean, e_var)
    print(f"{name:42s} max|prior block - K_b| = {e_prior:.3e}   max|mean - closed form| = {e_mean:.3e}   "
          f"max|var - closed form| = {e_var:.3e}")

bad = errs["lazily_evaluate_kernels(True) [default]"] > 1e-6
if bad:
    print("VIOLATION: the default (lazy) path does not return the closed-form conditional; the eager path does"
          if errs["lazily_evaluate_kernels(False)"] < 1e-6 else "VIOLATION")
    sys.exit(1)
print("ok")
sys.exit(0)
