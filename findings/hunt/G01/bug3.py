#!/usr/bin/env python3
"""
C01 violation (call history): the evaluation-mode caches of an ExactGP (ExactGP.prediction_strategy: cached train prior,
(Kxx+S)^-1 (y-mx), inverse root) survive changes of the model state that are made while the model stays in eval mode.

  (a) eval -> predict -> assign a hyper-parameter (kernel lengthscale / likelihood noise, via the public setters, or
      sub-module .load_state_dict) -> predict:
      the second prediction combines the NEW K*x, K** and m* with the OLD (Kxx+S)^-1 (y-mx) and OLD Kxx+S, i.e. it is the
      Gaussian conditional of neither the old nor the new prior.  No error, no warning.
  (b) eval -> predict -> model.double() (or .to(device)) -> predict:  ExactGP._apply converts train_inputs / train_targets but
      leaves the float32 caches in place -> RuntimeError (dtype mismatch) on a perfectly valid call.

Reference: dense closed form m* + K*x (Kxx+S)^-1 (y-mx),  K** - K*x (Kxx+S)^-1 Kx*  with K, m, S taken from the model's own
kernel / mean / likelihood as they evaluate at the time of the call; a freshly built model with the same state is shown too.
"""
import sys
import warnings

import torch

import gpytorch

warnings.filterwarnings("ignore")
torch.manual_seed(0)


class GP(gpytorch.models.ExactGP):
    def __init__(self, x, y, lik):
        super().__init__(x, y, lik)
        self.mean_module = gpytorch.means.ConstantMean()
        self.covar_module = gpytorch.kernels.ScaleKernel(gpytorch.kernels.RBFKernel())

    def forward(self, x):
        return gpytorch.distributions.MultivariateNormal(self.mean_module(x), self.covar_module(x))


def closed_form(model, X, y, Xs):
    with torch.no_grad(), gpytorch.settings.lazily_evaluate_kernels(False):
        n = X.shape[-2]
        Kxx = model.covar_module(X).to_dense()
        Ksx = model.covar_module(Xs, X).to_dense()
        Kss = model.covar_module(Xs).to_dense()
        A = Kxx + model.likelihood.noise * torch.eye(n, dtype=X.dtype)
        mean = model.mean_module(Xs) + Ksx @ torch.linalg.solve(A, y - model.mean_module(X))
        cov = Kss - Ksx @ torch.linalg.solve(A, Ksx.T)
    return mean, cov


def build(dtype, lengthscale, noise):
    lik = gpytorch.likelihoods.GaussianLikelihood()
    model = GP(X.to(dtype), y.to(dtype), lik).to(dtype)
    model.covar_module.base_kernel.lengthscale = lengthscale
    model.likelihood.noise = noise
    return model.eval()


n, ns, d = 8, 4, 1
X = torch.rand(n, d, dtype=torch.float64) * 4
y = torch.sin(2 * X.squeeze(-1)) + 0.1 * torch.randn(n, dtype=torch.float64)
Xs = torch.rand(ns, d, dtype=torch.float64) * 4
violations = 0

# ---------------------------------------------------------------------------------------------------------------- (a)
print("(a) hyper-parameter assignment in eval mode after a prediction")
model = build(torch.float64, lengthscale=0.3, noise=0.01)
with torch.no_grad():
    out0 = model(Xs)
    ref0 = closed_form(model, X, y, Xs)
    print("    first prediction            : max|mean - closed form| = %.2e   max|cov - closed form| = %.2e"
          % ((out0.mean - ref0[0]).abs().max(), (out0.covariance_matrix - ref0[1]).abs().max()))
    model.covar_module.base_kernel.lengthscale = 1.5  # public setter
    model.likelihood.noise = 0.5  # public setter
    out1 = model(Xs)
    ref1 = closed_form(model, X, y, Xs)
    fresh = build(torch.float64, lengthscale=1.5, noise=0.5)
    outf = fresh(Xs)
e_mean = (out1.mean - ref1[0]).abs().max().item()
e_cov = (out1.covariance_matrix - ref1[1]).abs().max().item()
print("    after lengthscale/noise set : max|mean - closed form| = %.2e   max|cov - closed form| = %.2e" % (e_mean, e_cov))
print("    (distance to the OLD posterior: %.2e;  a fresh model with the same state: max|mean - closed form| = %.2e)"
      % ((out1.mean - ref0[0]).abs().max(), (outf.mean - ref1[0]).abs().max()))
print("    model mean :", [round(v, 4) for v in out1.mean.tolist()])
print("    closed form:", [round(v, 4) for v in ref1[0].tolist()])
if e_mean > 1e-6 or e_cov > 1e-6:
    violations += 1
    print("    VIOLATION: stale caches, the result is the conditional of neither the old nor the new prior")

# ---------------------------------------------------------------------------------------------------------------- (b)
print("(b) model.double() in eval mode after a prediction")
model = build(torch.float32, lengthscale=0.7, noise=0.05)
with torch.no_grad():
    model(Xs.float())
    model.double()
    print("    after .double(): train_inputs", model.train_inputs[0].dtype, " parameters",
          model.covar_module.raw_outputscale.dtype)
    try:
        out = model(Xs)
        ref = closed_form(model, X, y, Xs)
        e = max((out.mean - ref[0]).abs().max().item(), (out.covariance_matrix - ref[1]).abs().max().item())
        print("    prediction dtype", out.mean.dtype, " max error vs float64 closed form = %.2e" % e)
        if out.mean.dtype != torch.float64 or e > 1e-6:
            violations += 1
            print("    VIOLATION")
    except RuntimeError as ex:
        violations += 1
        print("    VIOLATION: RuntimeError:", str(ex)[:120])

sys.exit(1 if violations else 0)
