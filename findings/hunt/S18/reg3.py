# Concerns commit 600cc01 (DeepPredictiveLogLikelihood reshapes model.quad_weights to (q, 1, ..., 1)).
#
# Input: a DSPP subclass overriding the `quad_weights` property to give each data batch its own mixture weights,
# shape (q, b), trained on batched data (x: b x n x d, y: b x n).  The old expression quad_weights.unsqueeze(-1) only
# appended the data dimension: (q, b, 1) + (q, b, n) - correct.  The new view(-1, 1, 1) flattens the weights to
# (q * b, 1, 1), which cannot be added to the (q, b, n) log marginals (RuntimeError; when b == 1 nothing changes).
import sys

import torch

import gpytorch
from gpytorch.distributions import MultivariateNormal
from gpytorch.models.deep_gps.dspp import DSPP, DSPPLayer
from gpytorch.variational import MeanFieldVariationalDistribution, VariationalStrategy

torch.manual_seed(0)
Q, B, N, D = 3, 4, 5, 2


class Layer(DSPPLayer):
    def __init__(self, input_dims, output_dims):
        bs = torch.Size([output_dims]) if output_dims is not None else torch.Size([])
        vd = MeanFieldVariationalDistribution(6, batch_shape=bs)
        vs = VariationalStrategy(self, torch.randn(*bs, 6, input_dims), vd, learn_inducing_locations=True)
        super().__init__(vs, input_dims, output_dims, Q)
        self.mean_module = gpytorch.means.ConstantMean(batch_shape=bs)
        self.covar_module = gpytorch.kernels.ScaleKernel(gpytorch.kernels.RBFKernel(batch_shape=bs), batch_shape=bs)

    def forward(self, x):
        return MultivariateNormal(self.mean_module(x), self.covar_module(x))


class PerBatchWeightsDSPP(DSPP):
    def __init__(self):
        super().__init__(Q)
        self.hidden = Layer(D, 2)
        self.last = Layer(2, None)
        self.register_parameter("raw_batch_quad_weights", torch.nn.Parameter(torch.randn(Q, B)))

    @property
    def quad_weights(self):  # one set of mixture weights per data batch: q x b
        w = self.raw_batch_quad_weights
        return w - w.logsumexp(dim=0)

    def forward(self, x):
        return self.last(self.hidden(x))


model = PerBatchWeightsDSPP()
likelihood = gpytorch.likelihoods.GaussianLikelihood()
model.train()
likelihood.train()
x = torch.rand(B, N, D)
y = torch.randn(B, N)
out = model(x)
base = likelihood.log_marginal(y, out)
print("log marginals:", tuple(base.shape), " quad_weights:", tuple(model.quad_weights.shape))
expected = (model.quad_weights.unsqueeze(-1) + base).logsumexp(0).sum(-1)
print("expected log likelihood term per batch:", expected.tolist())

mll = gpytorch.mlls.DeepPredictiveLogLikelihood(likelihood, model, num_data=N)
try:
    got = mll._log_likelihood_term(out, y)
except RuntimeError as e:
    print("PROBLEM: RuntimeError:", str(e).splitlines()[0])
    sys.exit(1)
print("got:", got.tolist())
if got.shape != expected.shape or not torch.allclose(got, expected):
    print("PROBLEM: values differ")
    sys.exit(1)
print("ok")
sys.exit(0)
