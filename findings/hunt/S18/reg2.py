# Concerns commit ba8410a (_OneDimensionalLikelihood.log_marginal forwards *args / **kwargs of the call to forward()).
#
# Input: a LikelihoodList mixing a Gaussian likelihood (which consumes the per-member `noise` keyword) and a user
# one-dimensional likelihood whose forward() has the minimal signature forward(self, function_samples).
# LikelihoodList.log_marginal hands EVERY member its entry of `noise` (None for members without one).  Before the commit
# the quadrature-based log_marginal ignored keywords it had no use for and returned the right values; now the keyword
# reaches forward() and the call dies with TypeError.  (expected_log_prob always behaved like the new code; the in-tree
# one-dimensional likelihoods all declare *args, **kwargs and are unaffected.)
import sys

import torch

import gpytorch
from gpytorch.distributions import MultivariateNormal
from gpytorch.likelihoods import GaussianLikelihood, LikelihoodList
from gpytorch.likelihoods.likelihood import _OneDimensionalLikelihood

torch.manual_seed(0)


class PoissonLikelihood(_OneDimensionalLikelihood):
    def forward(self, function_samples):  # minimal signature, as in the "implementing a custom likelihood" docs
        return torch.distributions.Poisson(rate=function_samples.exp())


n = 5
d1 = MultivariateNormal(torch.randn(n), torch.eye(n))
d2 = MultivariateNormal(0.3 * torch.randn(n), 0.2 * torch.eye(n))
y1 = torch.randn(n)
y2 = torch.tensor([0.0, 1.0, 2.0, 1.0, 0.0])

poisson = PoissonLikelihood()
lik = LikelihoodList(GaussianLikelihood(), poisson)
reference = poisson.log_marginal(y2, d2)  # no extra arguments: identical before and after the commit
print("Poisson member alone:          ", reference.tolist())
try:
    res = lik.log_marginal((y1, d1), (y2, d2), noise=[torch.full((n,), 0.1), None])
except TypeError as e:
    print("PROBLEM: LikelihoodList.log_marginal(..., noise=[...]) raises TypeError:", e)
    sys.exit(1)
print("Poisson member through the list:", res[1].tolist())
if not torch.allclose(res[1], reference):
    print("PROBLEM: values differ")
    sys.exit(1)
print("ok")
sys.exit(0)
