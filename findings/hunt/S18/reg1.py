# Concerns commit 7673ddc (AdditiveGridInterpolationVariationalStrategy.kl_divergence sums over the components).
#
# History: the additive strategy is given ONE variational distribution q(u) shared by all components
# (batch_shape == [] or [1]) and its parameters are already initialised (variational_params_initialized == 1,
# as after load_state_dict of a trained model - the lazy initialisation itself cannot broadcast the repeated prior
# into a batch-less distribution, before and after the commit).  forward() works: every component interpolates the
# same u.  There is a single q(u) and a single p(u), so the KL term of the ELBO is KL(q(u) || p(u)) once.
# The prior is repeated num_dim times, so the inherited KL is a vector of num_dim IDENTICAL values (every element of the
# old ELBO vector was the exact objective); the new code sums them: the KL is counted num_dim times.
import sys

import torch

import gpytorch
from gpytorch.distributions import MultivariateNormal
from gpytorch.variational import (
    AdditiveGridInterpolationVariationalStrategy,
    CholeskyVariationalDistribution,
    GridInterpolationVariationalStrategy,
)

torch.manual_seed(0)
NUM_DIM, N = 3, 10


class Model(gpytorch.models.ApproximateGP):
    def __init__(self):
        vd = CholeskyVariationalDistribution(16)  # shared by the components: no batch shape
        vs = AdditiveGridInterpolationVariationalStrategy(
            self, grid_size=16, grid_bounds=[(-1, 1)], num_dim=NUM_DIM, variational_distribution=vd
        )
        super().__init__(vs)
        self.mean_module = gpytorch.means.ConstantMean()
        self.covar_module = gpytorch.kernels.ScaleKernel(gpytorch.kernels.RBFKernel())

    def forward(self, x):
        return MultivariateNormal(self.mean_module(x), self.covar_module(x))


model = Model().double()
likelihood = gpytorch.likelihoods.GaussianLikelihood().double()
model.train()
likelihood.train()
vs = model.variational_strategy
vs.variational_params_initialized.fill_(1)  # parameters come from elsewhere (state dict / set by hand)
with torch.no_grad():
    vs._variational_distribution.variational_mean.copy_(torch.linspace(-0.5, 0.5, 16))
    vs._variational_distribution.chol_variational_covar.copy_(0.7 * torch.eye(16, dtype=torch.float64))

x = torch.rand(N, NUM_DIM, dtype=torch.float64) * 2 - 1
y = torch.randn(N, dtype=torch.float64)
out = model(x)
print("q(f) batch/event shape:", tuple(out.batch_shape), tuple(out.event_shape))

# reference: one q(u), one p(u) (the un-repeated prior of the grid strategy)
single_prior = GridInterpolationVariationalStrategy.prior_distribution.fget(vs)
kl_true = torch.distributions.kl.kl_divergence(vs.variational_distribution, single_prior)
kl_got = vs.kl_divergence()
print("KL(q(u)||p(u)) (single shared u):", kl_true.item())
print("strategy.kl_divergence():        ", kl_got.detach().tolist())

mll = gpytorch.mlls.VariationalELBO(likelihood, model, num_data=N)
elbo = mll(out, y)
elbo_true = likelihood.expected_log_prob(y, out).sum(-1) / N - kl_true / N
print("ELBO returned:", elbo.detach().tolist())
print("ELBO expected:", elbo_true.item())

bad = (elbo - elbo_true).abs().max().item() > 1e-8 * max(1.0, abs(elbo_true.item()))
if bad:
    print("PROBLEM: the KL of the single shared q(u) is counted %d times in the objective" % NUM_DIM)
    sys.exit(1)
print("ok: (every element of) the objective is the ELBO")
sys.exit(0)
