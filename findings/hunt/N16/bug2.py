"""C16: observation_nan_policy('fill') + iterative (CG) solves: the posterior mean is far from the one of the
data-deleted model, although 'mask' and the data-deleted model themselves reach the CG tolerance.

DefaultPredictionStrategy._mean_cache ('fill' branch) decouples the missing rows / columns of the kernel
matrix but puts the dummy value -999 into the right-hand side of the solve (train_labels_offset is filled with
settings.observation_nan_policy._fill_value).  With a Cholesky solve that is harmless, but above
max_cholesky_size the solve is linear CG, whose stopping rule is relative to the norm of the right-hand side:
the -999 entries dominate that norm (999 * sqrt(n_missing) against O(1) * sqrt(n_observed)), so CG stops while
the components of the observed points are still wrong by several orders of magnitude more than the tolerance.
"""
import sys
import warnings

import torch

import gpytorch
from gpytorch import settings
from gpytorch.distributions import MultivariateNormal

warnings.filterwarnings("ignore")
torch.manual_seed(0)
torch.set_default_dtype(torch.float64)


class GP(gpytorch.models.ExactGP):
    def __init__(self, x, y):
        super().__init__(x, y, gpytorch.likelihoods.GaussianLikelihood())
        self.mean_module = gpytorch.means.ConstantMean()
        self.covar_module = gpytorch.kernels.ScaleKernel(gpytorch.kernels.RBFKernel())
        self.likelihood.noise = 0.01
        self.covar_module.base_kernel.lengthscale = 0.3
        self.eval()

    def forward(self, x):
        return MultivariateNormal(self.mean_module(x), self.covar_module(x))


n = 400
X = torch.rand(n, 2)
Y = torch.sin(3 * X.sum(-1)) + 0.05 * torch.randn(n)
Y_nan = Y.clone()
Y_nan[::5] = float("nan")
keep = ~torch.isnan(Y_nan)
xt = torch.rand(6, 2)

with torch.no_grad():
    ref = GP(X[keep], Y[keep])(xt).mean  # Cholesky, data deleted
    print("reference (Cholesky, NaN observations deleted):", ref.numpy().round(4))

    worst = {}
    for tol in (None, 1e-4):  # None: the library's defaults (cg_tolerance 1, eval_cg_tolerance 0.01)
        ctx = [settings.max_cholesky_size(10)]  # forces the CG path (the default switch is at n > 800)
        if tol is not None:
            ctx += [settings.cg_tolerance(tol), settings.eval_cg_tolerance(tol)]
        for c in ctx:
            c.__enter__()
        res = {"deleted": GP(X[keep], Y[keep])(xt).mean}
        for policy in ("mask", "fill"):
            with settings.observation_nan_policy(policy):
                res[policy] = GP(X, Y_nan)(xt).mean
        for c in reversed(ctx):
            c.__exit__(None, None, None)
        for k, v in res.items():
            err = (v - ref).abs().max().item()
            worst[(tol, k)] = err
            print(f"CG tolerance {tol or 'default'}: {k:8s} max |mean - reference| = {err:.3e}")
    print("'fill' posterior mean (default tolerance):", res["fill"].numpy().round(4))

bad = False
for tol in (None, 1e-4):
    base = max(worst[(tol, "deleted")], worst[(tol, "mask")], 1e-12)
    if worst[(tol, "fill")] > 20 * base and worst[(tol, "fill")] > 1e-2:
        bad = True
print("VIOLATION" if bad else "ok")
sys.exit(1 if bad else 0)
