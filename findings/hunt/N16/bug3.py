"""C16: GammaRobustVariationalELBO ignores observation_nan_policy: one NaN target makes the objective NaN.

GammaRobustVariationalELBO._log_likelihood_term computes the per-point gamma-divergence factors directly from
`target` (it does not go through GaussianLikelihood.expected_log_prob, which handles the policy), so with
'mask' or 'fill' the NaN targets propagate into the sum, whereas VariationalELBO / PredictiveLogLikelihood on
the same model and data return a finite value that only contains the observed points.
"""
import sys
import warnings

import torch

import gpytorch
from gpytorch import settings
from gpytorch.distributions import MultivariateNormal

warnings.filterwarnings("ignore")
torch.manual_seed(0)
torch.set_default_dtype(torch.float64)


class SVGP(gpytorch.models.ApproximateGP):
    def __init__(self, Z):
        vd = gpytorch.variational.CholeskyVariationalDistribution(Z.size(0))
        vs = gpytorch.variational.VariationalStrategy(self, Z, vd, learn_inducing_locations=False)
        super().__init__(vs)
        self.mean_module = gpytorch.means.ConstantMean()
        self.covar_module = gpytorch.kernels.ScaleKernel(gpytorch.kernels.RBFKernel())

    def forward(self, x):
        return MultivariateNormal(self.mean_module(x), self.covar_module(x))


n = 8
x = torch.rand(n, 2)
y = torch.sin(3 * x.sum(-1))
y_nan = y.clone()
y_nan[[1, 5]] = float("nan")
keep = ~torch.isnan(y_nan)
n_obs = int(keep.sum())

model = SVGP(torch.rand(4, 2))
lik = gpytorch.likelihoods.GaussianLikelihood()
model(x)  # initialises the variational parameters
model.variational_strategy._variational_distribution.variational_mean.data = torch.tensor([0.3, -0.5, 0.8, 0.1])

obj = gpytorch.mlls.GammaRobustVariationalELBO(lik, model, num_data=n_obs, gamma=1.03)
bad = False
with torch.no_grad():
    # sum of the per-point terms of the observed points only (the objective divides the sum by the batch size)
    ref_sum = obj._log_likelihood_term(model(x[keep]), y[keep]).item()
    ref = obj(model(x[keep]), y[keep]).item()
    print(f"data deleted: objective {ref:.6f}  (sum of the per-point terms {ref_sum:.6f})")
    for policy in ("mask", "fill"):
        with settings.observation_nan_policy(policy):
            val = obj(model(x), y_nan).item()
            term = obj._log_likelihood_term(model(x), y_nan).item()
        print(f"policy={policy:4s}: objective {val}   sum of the per-point terms {term}")
        if val != val or abs(term - ref_sum) > 1e-8:
            bad = True
print("VIOLATION" if bad else "ok")
sys.exit(1 if bad else 0)
