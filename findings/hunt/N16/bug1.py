"""C16: VariationalELBO / PredictiveLogLikelihood under observation_nan_policy('mask' / 'fill').

The likelihood term of an approximate MLL is the sum of the per-point terms divided by the size of the
mini-batch.  With NaN targets the masked / filled sum only contains the observed points, but
_ApproximateMarginalLogLikelihood.forward still divides by approximate_dist_f.event_shape[0], i.e. by the
number of points INCLUDING the missing ones.  The objective therefore is not the one of the data set with the
missing observations deleted: its likelihood term is (n_observed / n_total) times too small (the same defect
that was repaired in ExactMarginalLogLikelihood).
"""
import sys
import warnings

import torch

import gpytorch
from gpytorch import settings
from gpytorch.distributions import MultivariateNormal

warnings.filterwarnings("ignore")
torch.manual_seed(0)
torch.set_default_dtype(torch.float64)


class SVGP(gpytorch.models.ApproximateGP):
    def __init__(self, Z):
        vd = gpytorch.variational.CholeskyVariationalDistribution(Z.size(0))
        vs = gpytorch.variational.VariationalStrategy(self, Z, vd, learn_inducing_locations=False)
        super().__init__(vs)
        self.mean_module = gpytorch.means.ConstantMean()
        self.covar_module = gpytorch.kernels.ScaleKernel(gpytorch.kernels.RBFKernel())

    def forward(self, x):
        return MultivariateNormal(self.mean_module(x), self.covar_module(x))


n = 8
x = torch.rand(n, 2)
y = torch.sin(3 * x.sum(-1))
y_nan = y.clone()
y_nan[[1, 5]] = float("nan")
keep = ~torch.isnan(y_nan)
n_obs = int(keep.sum())

model = SVGP(torch.rand(4, 2))
lik = gpytorch.likelihoods.GaussianLikelihood()
model(x)  # initialises the variational parameters
vd = model.variational_strategy._variational_distribution
vd.variational_mean.data = torch.tensor([0.3, -0.5, 0.8, 0.1])
vd.chol_variational_covar.data = torch.eye(4) * 0.7 + torch.tril(torch.full((4, 4), 0.1), -1)

bad = False
for cls in (gpytorch.mlls.VariationalELBO, gpytorch.mlls.PredictiveLogLikelihood):
    obj = cls(lik, model, num_data=n_obs)
    with torch.no_grad():
        ref = obj(model(x[keep]), y[keep]).item()  # the missing observations deleted
        kl = (model.variational_strategy.kl_divergence() / n_obs).item()
        for policy in ("mask", "fill"):
            with settings.observation_nan_policy(policy):
                val = obj(model(x), y_nan).item()
            ratio = (val + kl) / (ref + kl)
            print(
                f"{cls.__name__:26s} policy={policy:4s}: value {val:.6f}   data deleted {ref:.6f}   "
                f"|diff| {abs(val - ref):.3e}   likelihood-term ratio {ratio:.4f} (n_obs/n = {n_obs / n:.4f})"
            )
            if not abs(val - ref) < 1e-8:
                bad = True

print("VIOLATION" if bad else "ok")
sys.exit(1 if bad else 0)
