# Concerns commit f5c2850 (ConstantKernel with a batch shape on inputs that lack it).
#
# Incomplete repair: the commit message says a ConstantKernel(batch_shape=[b]) can now be evaluated on un-batched
# inputs "also with diag=True".  forward(diag=True) indeed returns b x n now, but through Kernel.__call__ the result
# passes the "did this kernel eat the diag option?" test
#     res.dim() == x1_.dim() and res.shape[-2:] == (n1, n2)
# which a b x n diagonal satisfies whenever n == b: the diagonal of the diagonal is taken and kernel(x, diag=True)
# silently returns shape (b,) holding [c_0, c_1, ...] instead of the b x n tensor [[c_0]*n, [c_1]*n, ...].
# The same happens with last_dim_is_batch=True for x of batch shape (1,) when n == d.
# Before the commit these calls raised in expand; now they return a wrongly shaped result without an error.
import sys
import warnings

import torch

from gpytorch.kernels import ConstantKernel

warnings.filterwarnings("ignore")
bad = False
for b, n in [(2, 2), (3, 3), (2, 3), (1, 1)]:
    kernel = ConstantKernel(batch_shape=torch.Size([b]))
    kernel.constant = torch.arange(1.0, b + 1.0).view(b, 1)
    x = torch.rand(n, 2)
    with torch.no_grad():
        expected = kernel.constant.detach().expand(b, n)  # b x n: member j has the constant diagonal c_j
        try:
            got = kernel(x, diag=True)
        except Exception as e:  # the behaviour before the commit
            print(f"batch_shape=[{b}], n={n}: kernel(x, diag=True) raised {type(e).__name__} (defect the commit repairs)")
            continue
    ok = got.shape == expected.shape and torch.equal(got, expected)
    print(f"batch_shape=[{b}], n={n}: kernel(x, diag=True) -> {tuple(got.shape)}, expected "
          f"{tuple(expected.shape)}: {'ok' if ok else 'PROBLEM'}")
    bad = bad or not ok

# last_dim_is_batch variant: x is 1 x n x d with n == d
kernel = ConstantKernel(batch_shape=torch.Size([2]))
kernel.constant = torch.tensor([[1.0], [2.0]])
x = torch.rand(1, 2, 2)
with torch.no_grad():
    expected = kernel.constant.detach().view(2, 1, 1).expand(2, 2, 2)  # batch x d x n
    try:
        got = kernel(x, diag=True, last_dim_is_batch=True)
        ok = got.shape == expected.shape and torch.equal(got, expected)
        print(f"last_dim_is_batch, x 1 x 2 x 2: diag -> {tuple(got.shape)}, expected {tuple(expected.shape)}: "
              f"{'ok' if ok else 'PROBLEM'}")
        bad = bad or not ok
    except Exception as e:
        print(f"last_dim_is_batch: raised {type(e).__name__}")
sys.exit(1 if bad else 0)
