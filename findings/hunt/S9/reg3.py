# Concerns commit 07cefc5 (RQKernel aligns alpha with the trailing dimensions of the distance matrix).
#
# No regression of RQKernel itself was found.  This program shows a SIBLING with the same defect that the commit
# leaves untouched: PolynomialKernel aligns its batch-shaped `offset` (batch_shape x 1) without accounting for
# last_dim_is_batch.  With last_dim_is_batch=True the result is batch x d x n x n (resp. batch x d x n for diag), but
# the offset is viewed as batch x 1 x 1 (resp. used as batch x 1), so offset[j] lines up with the input-dimension
# axis d instead of the kernel batch axis: wrong values when d == batch size, an exception otherwise.
import sys
import warnings

import torch

from gpytorch.kernels import PolynomialKernel, RQKernel

warnings.filterwarnings("ignore")
torch.manual_seed(0)
b, n, d = 2, 4, 2
x = torch.rand(b, n, d)
bad = False


def check(name, kernel, **kw):
    """compare the batch kernel against its b single members (Kernel.__getitem__)"""
    global bad
    with torch.no_grad():
        try:
            res = kernel(x, **kw)
            res = res if torch.is_tensor(res) else res.to_dense()
            ref = []
            for j in range(b):
                r = kernel[j](x[j], **kw)
                ref.append(r if torch.is_tensor(r) else r.to_dense())
            ref = torch.stack(ref)
            err = float((res - ref).abs().max()) if res.shape == ref.shape else float("nan")
            ok = res.shape == ref.shape and err < 1e-5
            print(f"{name} {kw}: shape {tuple(res.shape)} vs members {tuple(ref.shape)}, max abs error {err:.4f}: "
                  f"{'ok' if ok else 'PROBLEM'}")
        except Exception as e:
            ok = False
            print(f"{name} {kw}: raised {type(e).__name__}: {str(e)[:80]}: PROBLEM")
    bad = bad or not ok


rq = RQKernel(batch_shape=torch.Size([b]))
rq.alpha = torch.tensor([[0.3], [3.0]])
check("RQKernel        ", rq, last_dim_is_batch=True)
check("RQKernel        ", rq, last_dim_is_batch=True, diag=True)

poly = PolynomialKernel(power=2, batch_shape=torch.Size([b]))
poly.offset = torch.tensor([[0.1], [2.0]])
check("PolynomialKernel", poly)
check("PolynomialKernel", poly, last_dim_is_batch=True)
check("PolynomialKernel", poly, last_dim_is_batch=True, diag=True)
sys.exit(1 if bad else 0)
