# Concerns commit 9986a29 (MultitaskKernel broadcasts task and data covariance instead of tiling).
#
# Regression: forward now calls covar_x.expand(...) / covar_i.expand(...) UNCONDITIONALLY, also when both factors
# already have the same batch shape.  For a data kernel whose forward returns a SumBatchLinearOperator over a
# LazyEvaluatedKernelTensor with last_dim_is_batch=True (AdditiveStructureKernel under the default lazy
# evaluation), the "no-op" expand is not a no-op: it prepends singleton batch dimensions.  On plain un-batched
# inputs MultitaskKernel.forward returns 1 x 1 x nt x nt and kernel(x, diag=True) returns 1 x 1 x nt, where the
# code before the commit (which left covar_x alone and only repeated covar_i for batched inputs) returned
# nt x nt and nt.
import sys
import warnings

import torch

import gpytorch
from gpytorch.kernels import AdditiveStructureKernel, MultitaskKernel, RBFKernel

warnings.filterwarnings("ignore")
torch.manual_seed(0)
n, t = 5, 2
x = torch.rand(n, 2)
kernel = MultitaskKernel(AdditiveStructureKernel(RBFKernel(), num_dims=2), num_tasks=t)
with torch.no_grad():
    full = kernel(x).to_dense()  # reference: the lazily evaluated full matrix
    diag = kernel(x, diag=True)
    fwd = kernel.forward(x, x)

bad = False
print("kernel(x).to_dense() shape      :", tuple(full.shape), "(expected", (n * t, n * t), ")")
print("kernel(x, diag=True) shape      :", tuple(diag.shape), "(expected", (n * t,), ")")
print("kernel.forward(x, x) shape      :", tuple(fwd.shape), "(expected", (n * t, n * t), ")")
if tuple(diag.shape) != (n * t,):
    print("PROBLEM: diag=True result has spurious leading batch dimensions")
    bad = True
elif not torch.allclose(diag, full.diagonal(dim1=-1, dim2=-2), atol=1e-5):
    print("PROBLEM: diag=True values differ from the diagonal of the full matrix")
    bad = True
if tuple(fwd.shape) != (n * t, n * t):
    print("PROBLEM: forward result has spurious leading batch dimensions")
    bad = True
sys.exit(1 if bad else 0)
