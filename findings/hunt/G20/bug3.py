"""C20 / bug 3: settings.num_gauss_hermite_locs is frozen into every one-dimensional likelihood at construction.

_OneDimensionalLikelihood.__init__ builds GaussHermiteQuadrature1D(), which reads num_gauss_hermite_locs.value()
once.  Consequences for the scoping property:
 (a) a likelihood constructed inside `with num_gauss_hermite_locs(n)` keeps using n nodes after the block exited
     (the effect of the block outlives its dynamic extent, although the global value reads 20 again);
 (b) a `with num_gauss_hermite_locs(n)` block around expected_log_prob / the ELBO - which is where the docstring
     ("The number of samples to draw ... when computing a likelihood. This is used in variational inference and
     training") says the value is used - is ignored.
Reference: n-point Gauss-Hermite rule (nodes from numpy) for E_{f~N(m,s^2)} log Laplace(y | f, b).
"""
import math
import sys
import warnings

import numpy as np
import torch

import gpytorch
from gpytorch import settings

warnings.simplefilter("ignore")
torch.manual_seed(0)
torch.set_default_dtype(torch.float64)

m = torch.tensor([0.3, -1.2, 1.0])
s2 = torch.tensor([0.5, 1.0, 2.0])
y = torch.tensor([1.0, 0.0, -0.5])
B = 0.7


def make_likelihood():
    lik = gpytorch.likelihoods.LaplaceLikelihood()
    lik.noise = B**2  # Laplace scale b = sqrt(noise)
    return lik

qf = gpytorch.distributions.MultivariateNormal(m, torch.diag(s2))


def reference(n):
    locs, w = np.polynomial.hermite.hermgauss(n)
    locs, w = torch.from_numpy(locs), torch.from_numpy(w)
    f = m.unsqueeze(0) + torch.sqrt(2 * s2).unsqueeze(0) * locs.unsqueeze(-1)
    logp = -math.log(2 * B) - (y - f).abs() / B  # log Laplace(y | f, B): the integrand does not depend on the setting
    return (w.unsqueeze(-1) * logp).sum(0) / math.sqrt(math.pi)


ref20, ref3 = reference(20), reference(3)
print("default num_gauss_hermite_locs:", settings.num_gauss_hermite_locs.value())
print("reference 20 nodes:", ref20.tolist())
print("reference  3 nodes:", ref3.tolist())

# (a) construction inside the block, use outside every block
with settings.num_gauss_hermite_locs(3):
    lik_a = make_likelihood()
assert settings.num_gauss_hermite_locs.value() == 20
out_a = lik_a.expected_log_prob(y, qf).detach()
err_a_default = (out_a - ref20).abs().max().item()
err_a_stale = (out_a - ref3).abs().max().item()
print(f"(a) built inside num_gauss_hermite_locs(3), evaluated outside: |out - ref20| = {err_a_default:.3e}, "
      f"|out - ref3| = {err_a_stale:.3e}")

# (b) construction outside, use inside the block
lik_b = make_likelihood()
with settings.num_gauss_hermite_locs(3):
    out_b = lik_b.expected_log_prob(y, qf).detach()
err_b_active = (out_b - ref3).abs().max().item()
err_b_default = (out_b - ref20).abs().max().item()
print(f"(b) built outside, evaluated inside num_gauss_hermite_locs(3): |out - ref3| = {err_b_active:.3e}, "
      f"|out - ref20| = {err_b_default:.3e}")

bad_a = err_a_default > 1e-6 and err_a_stale < 1e-10
bad_b = err_b_active > 1e-6 and err_b_default < 1e-10
if bad_a or bad_b:
    print("VIOLATION: value of an exited block still in use:", bad_a, "| active block ignored:", bad_b)
    sys.exit(1)
print("no violation")
sys.exit(0)
