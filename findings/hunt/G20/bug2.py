"""C20 / bug 2: gpytorch.settings.{debug, trace_mode, memory_efficient} are private copies, not the flags
that the linear-algebra layer reads.

All other linear-algebra settings exported by gpytorch.settings are re-exports of the linear_operator classes
(same object, same global).  debug / trace_mode / memory_efficient are re-DEFINED in gpytorch/settings.py with the
same name and the same docstring, so there are two globals per name.  A `with gpytorch.settings.X(...)` block
changes only gpytorch's copy: inside the block the flag that linear_operator consults still reports the
default, i.e. the innermost active block does not determine the value seen by the code the docstring talks about.
gpytorch.settings.memory_efficient is read by nobody at all (a no-op setting).
"""
import sys
import warnings

import torch

import gpytorch
import linear_operator
from linear_operator.utils.cholesky import psd_safe_cholesky
from linear_operator.utils.errors import NotPSDError

warnings.simplefilter("ignore")
torch.manual_seed(0)

GS, LS = gpytorch.settings, linear_operator.settings
shared = [n for n in GS.__all__ if hasattr(LS, n) and getattr(GS, n) is getattr(LS, n)]
split = [n for n in GS.__all__ if hasattr(LS, n) and getattr(GS, n) is not getattr(LS, n)]
print(f"{len(shared)} names of gpytorch.settings are the linear_operator objects; separate copies: {split}")

violations = []

# 1. flag values inside a gpytorch block
for name, state in [("debug", False), ("trace_mode", True), ("memory_efficient", True)]:
    with getattr(GS, name)(state):
        g, l = getattr(GS, name).on(), getattr(LS, name).on()
    print(f"with gpytorch.settings.{name}({state}):  gpytorch copy on()={g}   linear_operator flag on()={l}")
    if g != l:
        violations.append(name)

# 2. behaviour: trace_mode.  In trace mode psd_safe_cholesky must not branch on the data (returns the factor as is)
A = torch.tensor([[1.0, 2.0], [2.0, 1.0]], dtype=torch.float64)  # indefinite


def chol_outcome():
    try:
        L = psd_safe_cholesky(A)
        return "returned without data-dependent check"
    except NotPSDError:
        return "NotPSDError after data-dependent jitter retries"


with LS.trace_mode(True):
    ref = chol_outcome()
with GS.trace_mode(True):
    got = chol_outcome()
print(f"psd_safe_cholesky(indefinite) under linear_operator.settings.trace_mode(True): {ref}")
print(f"psd_safe_cholesky(indefinite) under gpytorch.settings.trace_mode(True):        {got}")
if ref != got:
    violations.append("trace_mode behaviour")

# 3. behaviour: debug(False) is documented to switch the safety checks off
def check_outcome():
    try:
        linear_operator.operators.DenseLinearOperator(torch.randn(3))  # not a matrix: only the debug check rejects it
        return "no check"
    except Exception as e:
        return f"check ran ({type(e).__name__})"


with LS.debug(False):
    ref = check_outcome()
with GS.debug(False):
    got = check_outcome()
print(f"argument check of a LinearOperator under linear_operator.settings.debug(False): {ref}")
print(f"argument check of a LinearOperator under gpytorch.settings.debug(False):        {got}")
if ref != got:
    violations.append("debug behaviour")

# 4. memory_efficient: nobody reads gpytorch's copy
import pathlib, re

pkg = pathlib.Path(gpytorch.__file__).parent
readers = [
    str(p.relative_to(pkg))
    for p in pkg.rglob("*.py")
    if p.name != "settings.py" and re.search(r"memory_efficient", p.read_text())
]
print("modules of gpytorch that read settings.memory_efficient:", readers)

if violations:
    print("VIOLATION:", violations)
    sys.exit(1)
print("no violation")
sys.exit(0)
