"""C20 / bug 1: LMCVariationalStrategy freezes settings.variational_cholesky_jitter at construction time.

The value of the setting that is active while the strategy object is *built* keeps being used after the
with-block has exited (the effect of the block outlives its dynamic extent), and a with-block that is
active around the *call* is ignored by the LMC layer (the innermost active block does not determine the
value) although the base VariationalStrategy of the very same model does follow it.

Reference: covar(q(f)) = sum_l  S_l (x) a_l a_l^T  +  jitter * I   (lmc_variational_strategy.py, __call__),
with jitter = variational_cholesky_jitter.value(dtype) as visible at the time of the call.
"""
import sys
import warnings

import torch

import gpytorch
from gpytorch import settings

warnings.simplefilter("ignore")
torch.manual_seed(0)
torch.set_default_dtype(torch.float64)


class LMCModel(gpytorch.models.ApproximateGP):
    def __init__(self):
        Z = torch.linspace(0, 1, 5).view(1, 5, 1).repeat(2, 1, 1)
        vd = gpytorch.variational.CholeskyVariationalDistribution(5, batch_shape=torch.Size([2]))
        vs = gpytorch.variational.LMCVariationalStrategy(
            gpytorch.variational.VariationalStrategy(self, Z, vd, learn_inducing_locations=False),
            num_tasks=3,
            num_latents=2,
            latent_dim=-1,
        )
        super().__init__(vs)
        self.mean_module = gpytorch.means.ZeroMean(batch_shape=torch.Size([2]))
        self.covar_module = gpytorch.kernels.RBFKernel(batch_shape=torch.Size([2]))

    def forward(self, x):
        return gpytorch.distributions.MultivariateNormal(self.mean_module(x), self.covar_module(x))


def build():
    torch.manual_seed(1)
    return LMCModel().double().eval()


x = torch.linspace(0, 1, 4).view(-1, 1)
BIG = 0.5
default = settings.variational_cholesky_jitter.value(torch.double)
print("documented default jitter for double:", default)

# reference model: built and called outside all blocks
ref = build()
cov_ref = ref(x).covariance_matrix.detach()

# ---- (a) block around CONSTRUCTION only; the call happens outside every block
with settings.variational_cholesky_jitter(double_value=BIG):
    m_a = build()
assert settings.variational_cholesky_jitter.value(torch.double) == default  # global value itself is restored
m_a.load_state_dict(ref.state_dict())
cov_a = m_a(x).covariance_matrix.detach()
extra_a = (cov_a - cov_ref).diagonal().mean().item()
off_a = (cov_a - cov_ref - torch.eye(cov_ref.size(-1)) * extra_a).abs().max().item()
print(f"(a) model built inside variational_cholesky_jitter(double_value={BIG}), called OUTSIDE all blocks:")
print(f"    extra diagonal w.r.t. a model built outside = {extra_a:.6f}   (expected 0; off-diagonal diff {off_a:.1e})")

# ---- (b) block around the CALL only: the LMC layer must add BIG on top of what the latent layer produces
with settings.variational_cholesky_jitter(double_value=BIG):
    cov_b = ref(x).covariance_matrix.detach()
    latent = ref.variational_strategy.base_variational_strategy(x)
    lat_cov = latent.covariance_matrix.detach()  # 2 x 4 x 4, computed with the block's jitter
A = ref.variational_strategy.lmc_coefficients.detach()  # 2 x 3
expected_no_jit = sum(torch.kron(lat_cov[l], torch.outer(A[l], A[l])) for l in range(2))
lmc_jitter_used = (cov_b - expected_no_jit).diagonal().mean().item()
resid = (cov_b - expected_no_jit - torch.eye(12) * lmc_jitter_used).abs().max().item()
print(f"(b) model built outside, called INSIDE variational_cholesky_jitter(double_value={BIG}):")
print(f"    jitter added by the LMC layer = {lmc_jitter_used:.6e}   (expected {BIG}; residual {resid:.1e})")

# ---- (c) no block at all: float64 model built from a float32 default uses the float32 default
torch.set_default_dtype(torch.float32)
torch.manual_seed(1)
m_c = LMCModel()
m_c = m_c.double().eval()
torch.set_default_dtype(torch.float64)
m_c.load_state_dict(ref.state_dict())
cov_c = m_c(x.double()).covariance_matrix.detach()
extra_c = (cov_c - cov_ref).diagonal().mean().item()
print(f"(c) model built in float32 and converted with .double(), no block anywhere: jitter used = default + {extra_c:.3e}")
print(f"    (documented default for double is {default}, for float {settings.variational_cholesky_jitter.value(torch.float)})")

bad_a = abs(extra_a) > 1e-3
bad_b = abs(lmc_jitter_used - BIG) > 1e-3
if bad_a or bad_b:
    print("VIOLATION: effect of the with-block outlives it:", bad_a, "| active block ignored at call time:", bad_b)
    sys.exit(1)
print("no violation")
sys.exit(0)
