#!/usr/bin/env python3
"""
sum_interaction_terms(covars) with its documented default `max_degree=None`
("If not provided, this will default to `D`") raises a TypeError instead of
returning the sum of all interaction terms up to degree D.

Reference: brute-force sum of the elementary symmetric polynomials e_1 .. e_D of the
D covariance matrices (elementwise products over all index subsets).
"""
import itertools
import sys
import warnings

import torch

warnings.filterwarnings("ignore")

from gpytorch.kernels import RBFKernel  # noqa: E402
from gpytorch.utils.sum_interaction_terms import sum_interaction_terms  # noqa: E402

torch.manual_seed(0)
torch.set_default_dtype(torch.float64)

D, N = 3, 5
x = torch.randn(N, D)
base = RBFKernel()
# D one-dimensional kernel matrices, D x N x N (the documented use of the function)
with torch.no_grad():
    covars = torch.stack([base(x[:, i : i + 1]).to_dense() for i in range(D)])


def brute_force(covars, max_degree):
    total = torch.zeros_like(covars[0])
    for m in range(1, max_degree + 1):
        for idx in itertools.combinations(range(covars.shape[0]), m):
            term = torch.ones_like(covars[0])
            for i in idx:
                term = term * covars[i]
            total = total + term
    return total


ref = brute_force(covars, D)
explicit = sum_interaction_terms(covars, max_degree=D)
print("explicit max_degree=D  vs brute force: max abs err = %.3e" % (explicit - ref).abs().max().item())

bad = False
try:
    default = sum_interaction_terms(covars)  # documented: max_degree defaults to D
    err = (default - ref).abs().max().item()
    print("default  max_degree=None vs brute force: max abs err = %.3e" % err)
    bad = not err < 1e-10
except Exception as e:  # noqa: BLE001
    print("default  max_degree=None raised %s: %s" % (type(e).__name__, str(e).splitlines()[0][:150]))
    bad = True

if bad:
    print("VIOLATION: sum_interaction_terms does not honour its documented default max_degree (= D)")
    sys.exit(1)
print("no violation")
sys.exit(0)
