#!/usr/bin/env python3
"""
Kernel.expand_batch on a sum / product of kernels does not expand the component kernels.

(k1 + k2).expand_batch(B) must be a kernel with batch shape B whose value is the (broadcast) sum of its parts.
Instead, the expanded copies of the components are attached under the bogus attribute names "kernels.0", "kernels.1"
and the real components (`.kernels[i]`) stay un-expanded; the new kernel reports batch_shape B but evaluates to an
un-batched matrix, so evaluation raises "The expected shape of the kernel was ..., but got ... This is likely a bug
in GPyTorch.".  The same code path is used by batch-indexing a lazily evaluated sum kernel whose inputs carry more
batch dimensions than the kernel: k(x)[i, j] raises IndexError for k1 + k2 although it works for k1 alone.

Reference: the same operations on a single (non-composite) kernel, and the dense sum / product of the parts.
"""
import sys
import warnings

import torch

warnings.filterwarnings("ignore")

from gpytorch.kernels import MaternKernel, RBFKernel  # noqa: E402

torch.manual_seed(0)
torch.set_default_dtype(torch.float64)

x = torch.randn(4, 2)
new_shape = torch.Size([2])
bad = False


def check_expand(name, kernel, parts, op):
    global bad
    with torch.no_grad():
        ref = op(*[p(x).to_dense() for p in parts]).expand(*new_shape, 4, 4)
    expanded = kernel.expand_batch(new_shape)
    sub_shapes = [tuple(k.batch_shape) for k in getattr(expanded, "kernels", [])]
    print("%-8s expand_batch(%s): batch_shape=%s, component batch shapes=%s" % (
        name, tuple(new_shape), tuple(expanded.batch_shape), sub_shapes))
    try:
        with torch.no_grad():
            out = expanded(x).to_dense()
        if out.shape != ref.shape:
            print("   -> wrong shape %s (expected %s)" % (tuple(out.shape), tuple(ref.shape)))
            bad = True
        else:
            err = (out - ref).abs().max().item()
            print("   -> max abs err vs sum/product of the parts = %.3e" % err)
            bad = bad or not err < 1e-10
    except Exception as e:  # noqa: BLE001
        print("   -> evaluation raised %s: %s" % (type(e).__name__, str(e)[:140]))
        bad = True


k1, k2 = RBFKernel(), MaternKernel(nu=1.5)
k1.lengthscale, k2.lengthscale = 0.7, 1.3
check_expand("single", k1, [k1], lambda a: a)
check_expand("sum", k1 + k2, [k1, k2], lambda a, b: a + b)
check_expand("product", k1 * k2, [k1, k2], lambda a, b: a * b)

# The same defect through lazy indexing: inputs with batch shape (3, 2), kernels with batch shape (2,)
B = torch.Size([2])
xb = torch.randn(3, 2, 4, 2)
kb1, kb2 = RBFKernel(batch_shape=B), MaternKernel(nu=1.5, batch_shape=B)
kb1.lengthscale = torch.tensor([0.6, 1.1]).view(2, 1, 1)
kb2.lengthscale = torch.tensor([0.9, 1.7]).view(2, 1, 1)
for name, kernel in [("single", kb1), ("sum", kb1 + kb2), ("product", kb1 * kb2)]:
    with torch.no_grad():
        full = kernel(xb).to_dense()
        try:
            out = kernel(xb)[2, 1].to_dense()
            err = (out - full[2, 1]).abs().max().item()
            print("%-8s k(x)[2, 1] vs dense[2, 1]: max abs err = %.3e" % (name, err))
            bad = bad or not err < 1e-10
        except Exception as e:  # noqa: BLE001
            print("%-8s k(x)[2, 1] raised %s: %s" % (name, type(e).__name__, str(e)[:100]))
            bad = True

if bad:
    print("VIOLATION: expand_batch / batch indexing of a sum or product kernel does not give the sum / product of the parts")
    sys.exit(1)
print("no violation")
sys.exit(0)
