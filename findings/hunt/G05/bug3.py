#!/usr/bin/env python3
"""
AdditiveKernel: k_a + k_b evaluated on x1 == x2 raises NotPSDError when k_b returns a low-rank root
(LinearKernel, RFFKernel, SpectralDeltaKernel) and the partial sum before it is not numerically positive definite.

AdditiveKernel.forward accumulates with `res = res + to_linear_operator(next_term)`.  If next_term is a
RootLinearOperator, LinearOperator.__add__ dispatches to add_low_rank(), which eagerly computes a Cholesky
factorisation of the partial sum `res` - just to *add two matrices*.  The sum therefore depends on the order of the
summands and fails for perfectly valid kernels / inputs:
  (a) CosineKernel() + LinearKernel() on 2-d inputs (the cosine kernel matrix is indefinite for d >= 2),
  (b) PolynomialKernel(2) + LinearKernel() (both PSD) on inputs of magnitude 1e3 (rank-deficient Gram matrix whose
      rounding noise exceeds the maximal jitter).
The reversed order (LinearKernel first) and the x1 != x2 code path return exactly the sum of the parts.

Reference: dense sum of the component kernel matrices.
"""
import sys
import warnings

import torch

warnings.filterwarnings("ignore")

from gpytorch.kernels import CosineKernel, LinearKernel, PolynomialKernel  # noqa: E402

torch.manual_seed(0)
torch.set_default_dtype(torch.float64)

bad = False


def run(name, kernel, parts, x):
    global bad
    with torch.no_grad():
        ref = sum(p(x).to_dense() for p in parts)
        try:
            out = kernel(x).to_dense()
            err = ((out - ref).abs().max() / ref.abs().max()).item()
            print("%-42s max rel err vs sum of parts = %.3e" % (name, err))
            if not err < 1e-10:
                bad = True
        except Exception as e:  # noqa: BLE001
            print("%-42s raised %s: %s" % (name, type(e).__name__, str(e)[:90]))
            bad = True


x = torch.randn(30, 2)
cos, lin = CosineKernel(), LinearKernel()
run("LinearKernel + CosineKernel   (k(x, x))", lin + cos, [lin, cos], x)
run("CosineKernel + LinearKernel   (k(x, x))", cos + lin, [cos, lin], x)

xl = torch.randn(30, 2) * 1000.0
poly, lin2 = PolynomialKernel(power=2), LinearKernel()
run("LinearKernel + PolynomialKernel(2), |x|~1e3", lin2 + poly, [lin2, poly], xl)
run("PolynomialKernel(2) + LinearKernel, |x|~1e3", poly + lin2, [poly, lin2], xl)

# cross-covariance path (x1 != x2) of the same kernels for comparison
with torch.no_grad():
    x2 = torch.randn(7, 2)
    out = (cos + lin)(x, x2).to_dense()
    ref = cos(x, x2).to_dense() + lin(x, x2).to_dense()
    print("%-42s max abs err vs sum of parts = %.3e" % ("CosineKernel + LinearKernel   (k(x, x2))", (out - ref).abs().max().item()))

if bad:
    print("VIOLATION: a sum of kernels does not evaluate to the sum of its parts (exception, order dependent)")
    sys.exit(1)
print("no violation")
sys.exit(0)
