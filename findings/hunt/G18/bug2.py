"""
C18 violation 2: copy.deepcopy of the model returned by ApproximateGP.get_fantasy_model (online variational
conditioning, VariationalStrategy / UnwhitenedVariationalStrategy) silently changes the posterior mean.

The returned ExactGP keeps prediction-relevant state (the pseudo-observation covariance of the inducing values, folded
into lik_train_train_covar and the mean cache) ONLY inside model.prediction_strategy.  DefaultPredictionStrategy.__deepcopy__
returns None, so the copy rebuilds the strategy from (train_inputs, train_targets, likelihood) - i.e. it treats the
pseudo targets as ordinary observations with homoskedastic noise - and predicts something else.  pickle (which carries
the strategy) reproduces the original exactly; so does a second call of the original.
"""
import copy
import pickle
import sys
import warnings

import torch

import gpytorch
from gpytorch import kernels as K, likelihoods as L, means as M, variational as V

warnings.filterwarnings("ignore")
torch.set_default_dtype(torch.float64)
torch.manual_seed(0)

N = 40
X = torch.rand(N, 1)
Y = torch.sin(6 * X.squeeze(-1)) + 0.05 * torch.randn(N)


class SVGP(gpytorch.models.ApproximateGP):
    def __init__(self):
        vd = V.CholeskyVariationalDistribution(8)
        vs = V.VariationalStrategy(self, torch.linspace(0, 1, 8).unsqueeze(-1), vd, learn_inducing_locations=True)
        super().__init__(vs)
        self.mean_module = M.ConstantMean()
        self.covar_module = K.ScaleKernel(K.RBFKernel())
        self.likelihood = L.GaussianLikelihood()

    def forward(self, x):
        return gpytorch.distributions.MultivariateNormal(self.mean_module(x), self.covar_module(x))


model = SVGP()
mll = gpytorch.mlls.VariationalELBO(model.likelihood, model, num_data=N)
opt = torch.optim.Adam(model.parameters(), lr=0.05)
model.train()
for _ in range(400):
    opt.zero_grad()
    (-mll(model(X), Y)).backward()
    opt.step()
model.eval()

Xt = torch.linspace(0, 1.2, 9).unsqueeze(-1)
with torch.no_grad():
    svgp_mean = model(Xt).mean.clone()
    fantasy = model.get_fantasy_model(torch.tensor([[1.10], [1.15]]), torch.tensor([1.0, 1.2]))
    ref = fantasy(Xt)
    ref_mean, ref_var = ref.mean.clone(), ref.variance.clone()
    again = fantasy(Xt)
    print("original, second call      : max |d mean| =", (again.mean - ref_mean).abs().max().item())

    pk = pickle.loads(pickle.dumps(fantasy))
    out = pk(Xt)
    d_pickle = (out.mean - ref_mean).abs().max().item()
    print("pickle round trip          : max |d mean| =", d_pickle)

    cp = copy.deepcopy(fantasy)
    cp.eval()
    out = cp(Xt)
    d_copy = (out.mean - ref_mean).abs().max().item()
    print("copy.deepcopy              : max |d mean| =", d_copy, "  max |d var| =", (out.variance - ref_var).abs().max().item())
    print("   (SVGP mean before conditioning:", [round(v, 4) for v in svgp_mean.tolist()], ")")
    print("   original mean:", [round(v, 4) for v in ref_mean.tolist()])
    print("   deepcopy mean:", [round(v, 4) for v in out.mean.tolist()])
    print("   prediction_strategy of the copy before its first call was None:", copy.deepcopy(fantasy).prediction_strategy is None)

sys.exit(1 if d_copy > 1e-6 else 0)
