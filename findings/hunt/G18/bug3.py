"""
C18 violation 3: load_state_dict(partial_state_dict, strict=False) on a model that uses VariationalStrategy.

Loading a SUBSET of a model's own state dict back into (a copy of) the model must be a no-op.  Instead
 (a) if the subset contains no key of the variational strategy (e.g. only the kernel / mean hyper-parameters),
     load_state_dict raises IndexError from the strategy's load pre-hook;
 (b) if the subset contains some but not all strategy keys (e.g. hyper-parameters + inducing point locations),
     the pre-hook injects `updated_strategy = False` ("state dict from an old GPyTorch version"), and the next call
     re-whitens the - already whitened - variational parameters: the trained q(u) is overwritten and the predictive
     distribution changes, although every loaded value was identical to the value already in the model.
"""
import copy
import sys
import warnings

import torch

import gpytorch
from gpytorch import kernels as K, likelihoods as L, means as M, variational as V

warnings.filterwarnings("ignore")
torch.set_default_dtype(torch.float64)
torch.manual_seed(0)

N = 30
X = torch.rand(N, 1)
Y = torch.sin(6 * X.squeeze(-1)) + 0.05 * torch.randn(N)


class SVGP(gpytorch.models.ApproximateGP):
    def __init__(self):
        vd = V.CholeskyVariationalDistribution(8)
        vs = V.VariationalStrategy(self, torch.linspace(0, 1, 8).unsqueeze(-1), vd, learn_inducing_locations=True)
        super().__init__(vs)
        self.mean_module = M.ConstantMean()
        self.covar_module = K.ScaleKernel(K.RBFKernel())

    def forward(self, x):
        return gpytorch.distributions.MultivariateNormal(self.mean_module(x), self.covar_module(x))


model, lik = SVGP(), L.GaussianLikelihood()
mll = gpytorch.mlls.VariationalELBO(lik, model, num_data=N)
opt = torch.optim.Adam(list(model.parameters()) + list(lik.parameters()), lr=0.05)
model.train()
for _ in range(100):
    opt.zero_grad()
    (-mll(model(X), Y)).backward()
    opt.step()

Xt = torch.linspace(0, 1, 9).unsqueeze(-1)
model.eval()
with torch.no_grad():
    ref = model(Xt)
    ref_mean, ref_var = ref.mean.clone(), ref.variance.clone()
full = model.state_dict()
var_mean_before = full["variational_strategy._variational_distribution.variational_mean"].clone()

bad = False

# (a) hyper-parameters only
hyper = {k: v.clone() for k, v in full.items() if k.startswith(("mean_module.", "covar_module."))}
m_a = copy.deepcopy(model)
try:
    print("(a) load hyper-parameters only, strict=False ->", m_a.load_state_dict(hyper, strict=False))
except Exception as e:  # noqa
    print(f"(a) load hyper-parameters only, strict=False -> raises {type(e).__name__}: {e}")
    bad = True

# (b) hyper-parameters + inducing point locations
part = dict(hyper)
part["variational_strategy.inducing_points"] = full["variational_strategy.inducing_points"].clone()
m_b = copy.deepcopy(model)
print("(b) load hyper-parameters + inducing points, strict=False ->", m_b.load_state_dict(part, strict=False))
same = all(torch.equal(v, m_b.state_dict()[k]) for k, v in part.items())
print("    every loaded value equals the value the model already had:", same)
m_b.eval()
with torch.no_grad():
    out = m_b(Xt)
d_mean = (out.mean - ref_mean).abs().max().item()
d_var = (out.variance - ref_var).abs().max().item()
d_param = (m_b.variational_strategy._variational_distribution.variational_mean - var_mean_before).abs().max().item()
print(f"    predictive mean changed by {d_mean:.3e}, predictive variance by {d_var:.3e}")
print(f"    variational_mean parameter (not part of the loaded dict) changed by {d_param:.3e}")
print("    reference mean:", [round(v, 3) for v in ref_mean.tolist()])
print("    after no-op load:", [round(v, 3) for v in out.mean.tolist()])
bad = bad or d_mean > 1e-6 or d_var > 1e-6

sys.exit(1 if bad else 0)
