"""
C18 violation 1: after model.double() / .float() / .to(...), load_state_dict no longer carries the parameters of
LogNormalPrior / HalfCauchyPrior / HalfNormalPrior (TransformedDistribution priors) into the prior that is actually
evaluated.  The state_dict of the loaded model reports the saved values, but log_prob (hence the training objective
ExactMarginalLogLikelihood, which adds the log prior) still uses the constructor values.
"""
import sys
import warnings

import torch

import gpytorch
from gpytorch.priors import HalfCauchyPrior, HalfNormalPrior, LogNormalPrior

warnings.filterwarnings("ignore")
torch.manual_seed(0)

x = torch.linspace(0, 1, 12)
y = torch.sin(6 * x) + 0.05 * torch.randn(12)


class GP(gpytorch.models.ExactGP):
    def __init__(self, loc, scale, hc_scale, hn_scale):
        lik = gpytorch.likelihoods.GaussianLikelihood(noise_prior=HalfNormalPrior(hn_scale))
        super().__init__(x, y, lik)
        self.mean_module = gpytorch.means.ConstantMean()
        self.covar_module = gpytorch.kernels.ScaleKernel(
            gpytorch.kernels.RBFKernel(lengthscale_prior=LogNormalPrior(loc, scale)),
            outputscale_prior=HalfCauchyPrior(hc_scale),
        )

    def forward(self, x):
        return gpytorch.distributions.MultivariateNormal(self.mean_module(x), self.covar_module(x))


def objective(m):
    m.train()
    mll = gpytorch.mlls.ExactMarginalLogLikelihood(m.likelihood, m)
    with torch.no_grad():
        return mll(m(*m.train_inputs), m.train_targets).item()


# the usual workflow: build in the default dtype (float32), then switch the whole model to float64
saved = GP(1.5, 0.3, 0.2, 0.05).double()
fresh = GP(0.0, 1.0, 1.0, 1.0).double()  # same architecture, default-ish prior parameters
print("load_state_dict:", fresh.load_state_dict(saved.state_dict()))

obj_saved, obj_fresh = objective(saved), objective(fresh)
print(f"training objective  saved model: {obj_saved:.10f}   loaded model: {obj_fresh:.10f}")

ls = fresh.covar_module.base_kernel.lengthscale.detach()
prior = fresh.covar_module.base_kernel.lengthscale_prior
sd = fresh.state_dict()
loc_sd = sd["covar_module.base_kernel.lengthscale_prior._transformed_loc"]
scale_sd = sd["covar_module.base_kernel.lengthscale_prior._transformed_scale"]
ref = torch.distributions.LogNormal(loc_sd, scale_sd).log_prob(ls).sum().item()  # what the state dict says
got = prior.log_prob(ls).sum().item()
print(f"state_dict of loaded model says LogNormal(loc={loc_sd.item()}, scale={scale_sd.item():.3f}),")
print(f"   but the prior evaluates with loc={prior.loc.item()}, scale={prior.scale.item()}")
print(f"lengthscale log prior: reference (torch LogNormal with the loaded parameters) {ref:.6f}   loaded model {got:.6f}")

# control: without the dtype change the very same round trip is exact
a, b = GP(1.5, 0.3, 0.2, 0.05), GP(0.0, 1.0, 1.0, 1.0)
b.load_state_dict(a.state_dict())
print(f"control without .double(): |objective difference| = {abs(objective(a) - objective(b)):.2e}")

err = max(abs(obj_saved - obj_fresh), abs(ref - got))
print(f"discrepancy: {err:.3e}")
sys.exit(1 if err > 1e-6 else 0)
