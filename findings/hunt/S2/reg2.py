# Concerns commit 77b2666 (slice start scaled by num_cols in MultitaskMultivariateNormal.__getitem__).
# Incomplete repair / sibling path (present before the commit as well): the repaired branch is only taken for a python
# `int` task index.  The same index given as a numpy integer or a 0-d tensor (both accepted by Tensor indexing, so
# d.mean[1:, i] works) falls through to the meshgrid branch and raises.
import sys
import warnings

import numpy as np
import torch

from gpytorch.distributions import MultitaskMultivariateNormal

warnings.simplefilter("ignore")
torch.manual_seed(0)
n, t = 4, 3
A = torch.randn(n * t, n * t)
C = A @ A.T + torch.eye(n * t)
d = MultitaskMultivariateNormal(torch.randn(n, t), C)
ref = d[1:, 0]
bad = False
for name, i in (("np.int64(0)", np.int64(0)), ("torch.tensor(0)", torch.tensor(0))):
    for idx_name, idx in ((f"[1:, {name}]", (slice(1, None), i)), (f"[{name}, :2]", (i, slice(None, 2)))):
        want = d[tuple(int(j) if not isinstance(j, slice) else j for j in idx)]
        try:
            got = d[idx]
            ok = got.mean.shape == want.mean.shape and torch.allclose(got.covariance_matrix, want.covariance_matrix)
            print(f"d{idx_name}: mean {tuple(got.mean.shape)} cov {tuple(got.covariance_matrix.shape)} ok={ok}")
        except Exception as e:  # noqa
            ok = False
            print(f"d{idx_name}: raised {type(e).__name__}: {str(e)[:120]} (mean[idx] has shape {tuple(d.mean[idx].shape)})")
        bad |= not ok
print("PROBLEM PRESENT" if bad else "ok")
sys.exit(1 if bad else 0)
