# Concerns commit 28c2439 (do not batch-index / batch-expand the active_dims buffer of a kernel).
# Incomplete repair: active_dims is not the only buffer without batch dimensions.  GridKernel registers grid_0.., full_grid
# and GridInterpolationKernel additionally the 0-d flag has_initialized_grid; Kernel.__getitem__ / expand_batch still
# index / expand them as if they were batch-leading (same behaviour before the commit).
import sys
import warnings

import torch

from gpytorch.kernels import GridInterpolationKernel, GridKernel, RBFKernel

warnings.simplefilter("ignore")
torch.manual_seed(0)
x = torch.rand(3, 2)
grid = [torch.linspace(0, 1, 5), torch.linspace(0, 1, 5)]
bad = False


def check(name, fn):
    global bad
    try:
        ok, msg = fn()
    except Exception as e:  # noqa
        ok, msg = False, f"raised {type(e).__name__}: {str(e)[:120]}"
    print(f"{name}: {msg} ok={ok}")
    bad |= not ok


def gi_getitem():
    k = GridInterpolationKernel(RBFKernel(batch_shape=torch.Size([2])), grid_size=5, num_dims=2, grid_bounds=[(0, 1)] * 2)
    k.base_kernel.lengthscale = torch.tensor([[[0.3]], [[0.7]]])
    full = k(x).to_dense()
    err = (k[0](x).to_dense() - full[0]).abs().max().item()
    return err < 1e-5, f"max err {err:.2e}"


def gi_expand():
    k = GridInterpolationKernel(RBFKernel(), grid_size=5, num_dims=2, grid_bounds=[(0, 1)] * 2)
    full = k(x).to_dense()
    k2 = k.expand_batch(torch.Size([2]))
    shapes = {n: tuple(b.shape) for n, b in k2.named_buffers(recurse=False)}
    out = k2(x).to_dense()
    err = (out - full).abs().max().item()
    return out.shape == (2, 3, 3) and err < 1e-5, f"buffers {shapes} max err {err:.2e}"


def g_getitem():
    k = GridKernel(RBFKernel(batch_shape=torch.Size([2])), grid=grid)
    k0 = k[0]
    shapes = {n: tuple(b.shape) for n, b in k0.named_buffers(recurse=False)}
    want = {n: tuple(b.shape) for n, b in k.named_buffers(recurse=False)}
    return shapes == want, f"grid buffers of kernel[0] {shapes}, of kernel {want}"


check("GridInterpolationKernel[0]", gi_getitem)
check("GridInterpolationKernel.expand_batch", gi_expand)
check("GridKernel[0]", g_getitem)
print("PROBLEM PRESENT" if bad else "ok")
sys.exit(1 if bad else 0)
