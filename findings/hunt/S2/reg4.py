# Concerns commit aa4781b (MultitaskKernel applies the active_dims of its data kernel).
# forward now reads self.data_covar_module.active_dims unconditionally.  A data covariance module that is not a Kernel
# (any gpytorch/torch Module with a forward(x1, x2) - forward is the only thing MultitaskKernel ever used of it)
# worked before the commit and now raises AttributeError.
import sys
import warnings

import torch

import gpytorch
from gpytorch.kernels import MultitaskKernel

warnings.simplefilter("ignore")
torch.manual_seed(0)


class SqExp(gpytorch.Module):
    def forward(self, x1, x2, **params):
        return torch.exp(-0.5 * (x1.unsqueeze(-2) - x2.unsqueeze(-3)).pow(2).sum(-1))


x = torch.rand(5, 3)
mk = MultitaskKernel(SqExp(), num_tasks=2)
want = torch.kron(SqExp().forward(x, x), mk.task_covar_module.covar_matrix.to_dense())
try:
    got = mk(x).to_dense()
    ok = torch.allclose(got, want, atol=1e-5)
    print(f"MultitaskKernel(custom module): shape {tuple(got.shape)} max err {(got - want).abs().max().item():.2e}")
except Exception as e:  # noqa
    ok = False
    print(f"MultitaskKernel(custom module): raised {type(e).__name__}: {e}")
print("ok" if ok else "PROBLEM PRESENT")
sys.exit(0 if ok else 1)
