# Concerns commit b8afe7a (call-time noise replaces only the fixed noise of FixedNoiseGaussianLikelihood).
# With learn_additional_noise=True, a MultitaskMultivariateNormal and a call-time `noise` of n*t entries, the code
# before the commit returned a marginal of the right shape (both noise models returned DiagLinearOperator(noise)).
# Now the learned noise is built by HomoskedasticNoise from shape = mean.shape = (n, t) (or from the n x d inputs),
# i.e. as an n x (t x t) batch (or an n x n matrix), and adding it to the (n*t) x (n*t) fixed noise raises.
import sys
import warnings

import torch

from gpytorch.distributions import MultitaskMultivariateNormal
from gpytorch.likelihoods import FixedNoiseGaussianLikelihood
from linear_operator.operators import DiagLinearOperator

warnings.simplefilter("ignore")
n, t = 3, 2
bad = False
for with_inputs in (False, True):
    lik = FixedNoiseGaussianLikelihood(torch.full((n * t,), 0.1), learn_additional_noise=True)
    f = MultitaskMultivariateNormal(torch.zeros(n, t), DiagLinearOperator(torch.ones(n * t)))
    noise = torch.full((n * t,), 0.2)
    expected = (1.0 + 0.2 + lik.second_noise.item()) * torch.ones(n, t)
    args = (torch.randn(n, 4),) if with_inputs else ()
    try:
        got = lik(f, *args, noise=noise).variance.detach()
        ok = got.shape == expected.shape and torch.allclose(got, expected, atol=1e-5)
        print(f"with_inputs={with_inputs}: variance {got.flatten().tolist()} expected {expected.flatten().tolist()} ok={ok}")
    except Exception as e:  # noqa
        ok = False
        print(f"with_inputs={with_inputs}: raised {type(e).__name__}: {str(e)[:160]}")
    bad |= not ok
print("PROBLEM PRESENT" if bad else "ok")
sys.exit(1 if bad else 0)
