# Concerns commit c56cd51 (LikelihoodList.expected_log_prob / pyro_sample_output pass a noise tensor whole).
# A noise tensor whose leading dimension is the number of members (one row per member) is iterated row-wise by
# LikelihoodList.__call__ / marginal / forward / log_marginal, and was by expected_log_prob before the commit.
# Now expected_log_prob hands the whole (2 x n) tensor to every member: each result silently becomes a 2 x n batch
# (member 1 evaluated with member 2's noise as well) and disagrees with __call__ and with the list form.
import sys, warnings
import torch
from gpytorch.likelihoods import FixedNoiseGaussianLikelihood, LikelihoodList
from gpytorch.distributions import MultivariateNormal

warnings.simplefilter("ignore")
torch.manual_seed(0)
n = 4
l1 = FixedNoiseGaussianLikelihood(noise=torch.full((n,), 0.1))
l2 = FixedNoiseGaussianLikelihood(noise=torch.full((n,), 0.2))
ll = LikelihoodList(l1, l2)
f1 = MultivariateNormal(torch.zeros(n), torch.eye(n))
f2 = MultivariateNormal(torch.ones(n), 2 * torch.eye(n))
y1, y2 = torch.randn(n), torch.randn(n)
N = torch.stack([torch.full((n,), 0.5), torch.full((n,), 3.0)])  # row i = noise of member i
ref = ll.expected_log_prob((y1, f1), (y2, f2), noise=[N[0], N[1]])
called = ll(f1, f2, noise=N)
print("__call__(noise=2xn tensor) variances:", [c.variance.tolist() for c in called], "(row-wise)")
bad = False
try:
    got = ll.expected_log_prob((y1, f1), (y2, f2), noise=N)
    print("expected_log_prob(noise=2xn tensor) shapes:", [tuple(g.shape) for g in got], "list form:", [tuple(r.shape) for r in ref])
    bad = any(g.shape != r.shape or not torch.allclose(g, r) for g, r in zip(got, ref))
except Exception as e:
    print("raised", repr(e))
    bad = True
print("PROBLEM PRESENT" if bad else "ok")
sys.exit(1 if bad else 0)
