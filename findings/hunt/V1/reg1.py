# Concerns commit 47e6945 (variational fantasy model: mean cache filed under 'mask'/'fill' only for complete targets).
# With a missing (NaN) fantasy target, the 'mask' / 'fill' readers now rebuild the mean cache from the plain
# likelihood (sigma^2 I), which drops the pseudo-observation covariance of the inducing points: the fantasy model
# returns finite but WRONG predictions (before the commit they were NaN, i.e. visibly unusable).
# Reference: masking a missing target == conditioning on the observed targets only.
import sys, warnings
import torch, gpytorch
from gpytorch.models import ApproximateGP
from gpytorch.variational import CholeskyVariationalDistribution, VariationalStrategy, UnwhitenedVariationalStrategy

warnings.simplefilter("ignore")


class M(ApproximateGP):
    def __init__(self, Z, strat):
        vd = CholeskyVariationalDistribution(Z.size(-2))
        super().__init__(strat(self, Z, vd, learn_inducing_locations=True))
        self.mean_module = gpytorch.means.ConstantMean()
        self.covar_module = gpytorch.kernels.ScaleKernel(gpytorch.kernels.RBFKernel())
        self.likelihood = gpytorch.likelihoods.GaussianLikelihood()

    def forward(self, x):
        return gpytorch.distributions.MultivariateNormal(self.mean_module(x), self.covar_module(x))


def make(strat):
    torch.manual_seed(0)
    X = torch.linspace(0, 1, 40).unsqueeze(-1)
    y = torch.sin(6 * X.squeeze()) + 0.05 * torch.randn(40)
    m = M(X[::4].clone(), strat)
    mll = gpytorch.mlls.VariationalELBO(m.likelihood, m, 40)
    opt = torch.optim.Adam(m.parameters(), lr=0.05)
    m.train()
    for _ in range(100):
        opt.zero_grad()
        (-mll(m(X), y)).backward()
        opt.step()
    return m.eval()


bad = False
xn = torch.tensor([[0.33], [0.52], [0.71]])
yn = torch.tensor([0.9, float("nan"), -0.9])
obs = ~torch.isnan(yn)
xt = torch.linspace(0, 1, 7).unsqueeze(-1)
for strat in (VariationalStrategy, UnwhitenedVariationalStrategy):
    m = make(strat)
    for pol in ("mask", "fill"):
        with gpytorch.settings.observation_nan_policy(pol), torch.no_grad():
            m.variational_strategy._memoize_cache = {}
            got = m.get_fantasy_model(xn, yn)(xt).mean
            m.variational_strategy._memoize_cache = {}
            ref = m.get_fantasy_model(xn[obs], yn[obs])(xt).mean
        err = (got - ref).abs().max().item()
        finite = bool(torch.isfinite(got).all())
        print(f"{strat.__name__:32s} policy={pol}: finite={finite} max|fantasy(NaN target) - fantasy(observed only)| = {err:.4f}")
        if finite and err > 1e-2:  # finite but wrong: silent error (NaN output = the old, visible, failure)
            bad = True
print("PROBLEM PRESENT" if bad else "ok")
sys.exit(1 if bad else 0)
