# Concerns commit c0fe1b9 (integer call-time fixed noise converted to torch.get_default_dtype()).
# With default dtype float64 and a float32 model (float32 stored noise, float32 distribution) the integer noise is
# now made float64: the marginal gets a float32 mean and a float64 covariance / variance, and rsample raises -
# exactly the defect the commit repairs, mirrored. Before the commit (conversion to the stored noise's dtype) this worked.
import sys, warnings
import torch
from gpytorch.likelihoods import FixedNoiseGaussianLikelihood
from gpytorch.distributions import MultivariateNormal

warnings.simplefilter("ignore")
torch.manual_seed(0)
torch.set_default_dtype(torch.float64)
n = 5
A = torch.randn(n, n)
K = (A @ A.T + torch.eye(n)).float()
lik = FixedNoiseGaussianLikelihood(noise=torch.full((n,), 0.1, dtype=torch.float32))
f = MultivariateNormal(torch.zeros(n, dtype=torch.float32), K)
m = lik(f, noise=torch.tensor([1, 1, 2, 1, 1]))
bad = False
print("mean dtype", m.mean.dtype, "| covariance dtype", m.covariance_matrix.dtype, "| variance dtype", m.variance.dtype)
if m.covariance_matrix.dtype != m.mean.dtype or m.variance.dtype != m.mean.dtype:
    bad = True
try:
    print("rsample dtype", m.rsample().dtype)
except RuntimeError as e:
    print("rsample raised:", e)
    bad = True
print("PROBLEM PRESENT" if bad else "ok")
sys.exit(1 if bad else 0)
