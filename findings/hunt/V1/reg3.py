# Concerns commit c0fe1b9 (integer call-time fixed noise converted to torch.get_default_dtype()).
# In a float64 model (default dtype float32) an integer noise of 0 is now lower-bounded with the float32 minimum
# (1e-4) instead of the float64 one (1e-6): the same zero noise gives a 100x larger noise when given as integers
# than when given as float64 zeros. Before the commit both gave 1e-6.
import sys, warnings
import torch
from gpytorch.likelihoods import FixedNoiseGaussianLikelihood
from gpytorch.distributions import MultivariateNormal

warnings.simplefilter("ignore")
n = 4
lik = FixedNoiseGaussianLikelihood(noise=torch.full((n,), 0.1, dtype=torch.float64))
f = MultivariateNormal(torch.zeros(n, dtype=torch.float64), torch.eye(n, dtype=torch.float64))
v_int = lik(f, noise=torch.zeros(n, dtype=torch.long)).variance - 1
v_flt = lik(f, noise=torch.zeros(n, dtype=torch.float64)).variance - 1
print("added noise, integer zeros :", v_int.tolist())
print("added noise, float64 zeros :", v_flt.tolist())
bad = not torch.allclose(v_int, v_flt, rtol=1e-3, atol=0)
print("PROBLEM PRESENT" if bad else "ok")
sys.exit(1 if bad else 0)
