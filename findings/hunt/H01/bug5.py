"""C01 / bug 5 (extra, silent wrong values): with settings.observation_nan_policy('mask') or ('fill') the posterior
MEAN conditions on the observed targets only, but the posterior COVARIANCE still conditions on all n training
inputs, including those whose target is missing (NaN).

Reference: the same model trained on the observed subset only (independent replica) and the dense closed form
on that subset.  The missing observations carry no information, so the Gaussian conditional is the one on the
observed subset; the library's covariance is too small (over-confident) on every path.
"""
import sys
import warnings

import torch

import gpytorch

warnings.simplefilter("ignore")
torch.manual_seed(0)
torch.set_default_dtype(torch.float64)
S = gpytorch.settings


class GP(gpytorch.models.ExactGP):
    def __init__(self, x, y, lik):
        super().__init__(x, y, lik)
        self.mean_module = gpytorch.means.ConstantMean()
        self.covar_module = gpytorch.kernels.ScaleKernel(gpytorch.kernels.RBFKernel())

    def forward(self, x):
        return gpytorch.distributions.MultivariateNormal(self.mean_module(x), self.covar_module(x))


n, t, d = 8, 4, 2
X, y, xs = torch.randn(n, d), torch.randn(n), torch.randn(t, d)
y_nan = y.clone()
y_nan[[1, 5]] = float("nan")
obs = ~torch.isnan(y_nan)
c, ls, os_, noise = 0.4, 0.8, 1.3, 0.2


def build(X_, y_):
    lik = gpytorch.likelihoods.GaussianLikelihood()
    lik.noise = noise
    model = GP(X_, y_, lik)
    model.mean_module.constant.data.fill_(c)
    model.covar_module.base_kernel.lengthscale = ls
    model.covar_module.outputscale = os_
    return model.eval(), lik.eval()


def k(a, b):
    return os_ * torch.exp(-0.5 * torch.cdist(a, b).pow(2) / ls**2)


Xo, yo = X[obs], y[obs]
A = k(Xo, Xo) + noise * torch.eye(int(obs.sum()))
Ksx = k(xs, Xo)
ref_mean = c + Ksx @ torch.linalg.solve(A, yo - c)
ref_cov = k(xs, xs) - Ksx @ torch.linalg.solve(A, Ksx.T)
with torch.no_grad():
    rep = build(Xo, yo)[0](xs)
print("replica on observed subset vs dense: |mean| %.2e  |cov| %.2e" % (
    (rep.mean - ref_mean).abs().max(), (rep.covariance_matrix - ref_cov).abs().max()))

violation = False
for policy in ["mask", "fill"]:
    for pname, ctx in [("default", lambda: S.fast_pred_var(False)), ("fast_pred_var", lambda: S.fast_pred_var(True)),
                       ("max_eager_kernel_size(0)", lambda: S.max_eager_kernel_size(0))]:
        model, lik = build(X, y_nan)
        with torch.no_grad(), S.observation_nan_policy(policy), ctx():
            out = model(xs)
            em = (out.mean - ref_mean).abs().max().item()
            ec = (out.covariance_matrix - ref_cov).abs().max().item()
            ev = (ref_cov.diagonal() - out.variance).min().item()
        print("policy %-5s %-26s |mean - ref| = %.2e   |cov - ref| = %.3e   min(ref var - var) = %.3e" % (
            policy, pname, em, ec, ev))
        violation |= max(em, ec) > 1e-8

print("VIOLATION" if violation else "ok")
sys.exit(1 if violation else 0)
