"""C01 / bug 3: a batch dimension that is carried only by the training targets (or only by the likelihood noise)
is lost when ExactGP shapes its output.

Model: X (n x d) shared, y (3 x n) = three target vectors, unbatched kernel / mean / GaussianLikelihood.
This is a batch of 3 GPs with shared hyper-parameters; X, y, kernel broadcast.  Reference: three independent
single-output ExactGP replicas (one per row of y) and the dense closed form.  Second scenario: the noise of the
likelihood is the only batched thing (GaussianLikelihood(batch_shape=[3])).
"""
import sys
import warnings

import torch

import gpytorch

warnings.simplefilter("ignore")
torch.manual_seed(0)
torch.set_default_dtype(torch.float64)


class GP(gpytorch.models.ExactGP):
    def __init__(self, x, y, lik):
        super().__init__(x, y, lik)
        self.mean_module = gpytorch.means.ConstantMean()
        self.covar_module = gpytorch.kernels.ScaleKernel(gpytorch.kernels.RBFKernel())

    def forward(self, x):
        return gpytorch.distributions.MultivariateNormal(self.mean_module(x), self.covar_module(x))


n, t, d = 6, 4, 2
X, Y, xs = torch.randn(n, d), torch.randn(3, n), torch.randn(t, d)
c, ls, os_ = 0.4, 0.8, 1.7


def build(y, noise, lik_batch=torch.Size()):
    lik = gpytorch.likelihoods.GaussianLikelihood(batch_shape=lik_batch)
    lik.noise = noise
    model = GP(X, y, lik)
    model.mean_module.constant.data.fill_(c)
    model.covar_module.base_kernel.lengthscale = ls
    model.covar_module.outputscale = os_
    return model.eval(), lik.eval()


def k(a, b):
    return os_ * torch.exp(-0.5 * torch.cdist(a, b).pow(2) / ls**2)


def dense(y, noise):  # y: 3 x n, noise: 3
    A = k(X, X) + noise[:, None, None] * torch.eye(n)
    Ksx = k(xs, X)
    mean = c + (Ksx @ torch.linalg.solve(A, (y - c).unsqueeze(-1))).squeeze(-1)
    cov = k(xs, xs) - Ksx @ torch.linalg.solve(A, Ksx.T.expand(3, n, t))
    return mean, cov


def check(name, y, noise, lik_batch, ctx):
    noise_vec = noise.reshape(-1).expand(3)
    ref_mean, ref_cov = dense(y.expand(3, n), noise_vec)
    # independent replicas
    rep = []
    for i in range(3):
        m_i, _ = build(y.expand(3, n)[i], noise_vec[i : i + 1])
        with torch.no_grad():
            rep.append(m_i(xs))
    rep_mean = torch.stack([r.mean for r in rep])
    rep_cov = torch.stack([r.covariance_matrix for r in rep])
    print("%-46s replicas vs dense: %.2e / %.2e" % (
        name, (rep_mean - ref_mean).abs().max(), (rep_cov - ref_cov).abs().max()))
    model, _ = build(y, noise, lik_batch)
    try:
        with torch.no_grad(), ctx():
            out = model(xs)
            em = (out.mean - ref_mean).abs().max().item()
            ec = (out.covariance_matrix - ref_cov).abs().max().item()
        print("%-46s batched model vs dense: %.2e / %.2e" % ("", em, ec))
        return max(em, ec) > 1e-8
    except Exception as e:  # noqa: BLE001
        print("%-46s batched model(test_x) raised %s: %s" % ("", type(e).__name__, str(e).splitlines()[0]))
        return True


S = gpytorch.settings
violation = False
for pname, ctx in [("fast_pred_var(True)", lambda: S.fast_pred_var(True)),
                   ("max_eager_kernel_size(0)", lambda: S.max_eager_kernel_size(0)),
                   ("default settings", lambda: S.fast_pred_var(False))]:
    violation |= check("y (3 x n), shared X      [%s]" % pname, Y, torch.tensor([0.25]), torch.Size(), ctx)
    violation |= check("noise batch (3), y (n)   [%s]" % pname, Y[0], torch.tensor([[0.1], [0.25], [0.5]]),
                       torch.Size([3]), ctx)

print("VIOLATION" if violation else "ok")
sys.exit(1 if violation else 0)
