"""C01 / bug 4 (extra, silent wrong values): an exact GP whose prior is a MultitaskMultivariateNormal with
interleaved=False (task-major covariance layout) returns a posterior that is NOT the Gaussian conditional.

Model: two independent outputs with different kernels/means.  forward() returns
MultitaskMultivariateNormal(mean, blockdiag(K1, K2), interleaved=False) -- the layout that the library's own
MultitaskMultivariateNormal.from_independent_mvns produces.  Reference: two independent single-output ExactGP
replicas (the exact conditional of this prior, since the tasks are independent) and the interleaved=True version
of the same prior, which the library handles correctly.
(With from_independent_mvns itself the same call raises inside the block-diagonal operator, see part 3.)
"""
import sys
import warnings

import torch

import gpytorch
from gpytorch.distributions import MultitaskMultivariateNormal, MultivariateNormal

warnings.simplefilter("ignore")
torch.manual_seed(0)
torch.set_default_dtype(torch.float64)
K, M, L = gpytorch.kernels, gpytorch.means, gpytorch.likelihoods


class IndepMT(gpytorch.models.ExactGP):
    def __init__(self, X, Y, lik, mode):
        super().__init__(X, Y, lik)
        self.m1, self.m2 = M.ConstantMean(), M.ConstantMean()
        self.k1, self.k2 = K.RBFKernel(), K.ScaleKernel(K.MaternKernel(nu=1.5))
        self.m1.constant.data.fill_(0.5)
        self.m2.constant.data.fill_(-1.0)
        self.k1.lengthscale = 0.7
        self.k2.outputscale = 2.0
        self.mode = mode

    def forward(self, x):
        mean = torch.stack([self.m1(x), self.m2(x)], -1)  # N x 2
        K1, K2 = self.k1(x).to_dense(), self.k2(x).to_dense()
        N = x.shape[-2]
        if self.mode == "task_major":  # [task1 block, task2 block]
            return MultitaskMultivariateNormal(mean, torch.block_diag(K1, K2), interleaved=False)
        if self.mode == "from_independent_mvns":
            return MultitaskMultivariateNormal.from_independent_mvns(
                [MultivariateNormal(self.m1(x), self.k1(x)), MultivariateNormal(self.m2(x), self.k2(x))]
            )
        cov = torch.zeros(2 * N, 2 * N)  # interleaved layout
        cov[0::2, 0::2] = K1
        cov[1::2, 1::2] = K2
        return MultitaskMultivariateNormal(mean, cov, interleaved=True)


class GP(gpytorch.models.ExactGP):
    def __init__(self, x, y, lik, mean, kern):
        super().__init__(x, y, lik)
        self.mean_module, self.covar_module = mean, kern

    def forward(self, x):
        return MultivariateNormal(self.mean_module(x), self.covar_module(x))


n, t, d = 6, 4, 2
X, Y, xs = torch.randn(n, d), torch.randn(n, 2), torch.randn(t, d)
task_noises, noise = [0.2, 0.4], 0.1


def mt_model(mode):
    lik = L.MultitaskGaussianLikelihood(num_tasks=2)
    lik.noise = noise
    lik.task_noises = torch.tensor(task_noises)
    return IndepMT(X, Y, lik, mode).eval(), lik.eval()


base, _ = mt_model("interleaved")
refs = []
for i, (mm, kk) in enumerate([(base.m1, base.k1), (base.m2, base.k2)]):
    lik_i = L.GaussianLikelihood()
    lik_i.noise = noise + task_noises[i]
    with torch.no_grad():
        refs.append(GP(X, Y[:, i], lik_i, mm, kk).eval()(xs))
ref_mean = torch.stack([r.mean for r in refs], -1)
ref_var = torch.stack([r.variance for r in refs], -1)

violation = False
for mode in ["interleaved", "task_major", "from_independent_mvns"]:
    model, lik = mt_model(mode)
    try:
        with torch.no_grad():
            out = model(xs)
            em = (out.mean - ref_mean).abs().max().item()
            ev = (out.variance - ref_var).abs().max().item()
        print("%-24s |mean - replicas| = %.3e   |variance - replicas| = %.3e" % (mode, em, ev))
        violation |= max(em, ev) > 1e-8
    except Exception as e:  # noqa: BLE001
        print("%-24s model(test_x) raised %s: %s" % (mode, type(e).__name__, str(e).splitlines()[0]))
        violation = True

print("VIOLATION" if violation else "ok")
sys.exit(1 if violation else 0)
