"""C01 / bug 2: with the default settings (fast_pred_var off) the predictive covariance fails when only the prior
MEAN of the model is batched and the kernel / inputs are not.

Model: X (n x d) and y (n) unbatched, RBF kernel unbatched, ConstantMean(batch_shape=[3]), GaussianLikelihood.
The prior is a batch of 3 GPs sharing one covariance.  The library supports this model: with fast_pred_var(True)
or with max_eager_kernel_size(0) it returns exactly the dense Gaussian conditional.  On the default path
(eager kernels, Cholesky, fast_pred_var off) model(test_x) raises.
"""
import sys
import warnings

import torch

import gpytorch

warnings.simplefilter("ignore")
torch.manual_seed(0)
torch.set_default_dtype(torch.float64)


class GP(gpytorch.models.ExactGP):
    def __init__(self, x, y, lik):
        super().__init__(x, y, lik)
        self.mean_module = gpytorch.means.ConstantMean(batch_shape=torch.Size([3]))
        self.covar_module = gpytorch.kernels.ScaleKernel(gpytorch.kernels.RBFKernel())

    def forward(self, x):
        return gpytorch.distributions.MultivariateNormal(self.mean_module(x), self.covar_module(x))


n, t, d = 6, 4, 2
X, y, xs = torch.randn(n, d), torch.randn(n), torch.randn(t, d)
c = torch.tensor([-1.0, 0.3, 2.0])
ls, os_, noise = 0.8, 1.7, 0.25


def build():
    lik = gpytorch.likelihoods.GaussianLikelihood()
    lik.noise = noise
    model = GP(X, y, lik)
    model.mean_module.constant.data = c.clone()
    model.covar_module.base_kernel.lengthscale = ls
    model.covar_module.outputscale = os_
    return model.eval(), lik.eval()


def k(a, b):
    return os_ * torch.exp(-0.5 * torch.cdist(a, b).pow(2) / ls**2)


A = k(X, X) + noise * torch.eye(n)
Ksx = k(xs, X)
ref_mean = c[:, None] + (Ksx @ torch.linalg.solve(A, (y - c[:, None]).unsqueeze(-1))).squeeze(-1)  # 3 x t
ref_cov = (k(xs, xs) - Ksx @ torch.linalg.solve(A, Ksx.T)).expand(3, t, t)

paths = {
    "fast_pred_var(True)": lambda: gpytorch.settings.fast_pred_var(True),
    "max_eager_kernel_size(0)": lambda: gpytorch.settings.max_eager_kernel_size(0),
    "DEFAULT settings": lambda: gpytorch.settings.fast_pred_var(False),
    "lazily_evaluate_kernels(False)": lambda: gpytorch.settings.lazily_evaluate_kernels(False),
}
violation = False
for name, ctx in paths.items():
    model, lik = build()
    try:
        with torch.no_grad(), ctx():
            out = model(xs)
            em = (out.mean - ref_mean).abs().max().item()
            ec = (out.covariance_matrix - ref_cov).abs().max().item()
        print("%-32s |mean - dense| = %.2e   |cov - dense| = %.2e" % (name, em, ec))
        violation |= max(em, ec) > 1e-8
    except Exception as e:  # noqa: BLE001
        print("%-32s model(test_x) raised %s: %s" % (name, type(e).__name__, str(e).splitlines()[0]))
        violation = True

print("VIOLATION" if violation else "ok")
sys.exit(1 if violation else 0)
