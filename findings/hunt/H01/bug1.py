"""C01 / bug 1: exact-GP posterior mean fails for a 3-dimensional batch shape whose middle entry is 1.

Model: every component (inputs, targets, RBF lengthscale, outputscale, constant mean, noise) has batch shape
(2, 1, 3).  Reference: the closed-form Gaussian conditional computed densely with hand-written RBF formulas,
and the very same data with the singleton squeezed out (batch shape (2, 3)), which the library handles.
"""
import sys
import warnings

import torch

import gpytorch

warnings.simplefilter("ignore")
torch.manual_seed(0)
torch.set_default_dtype(torch.float64)


class GP(gpytorch.models.ExactGP):
    def __init__(self, x, y, lik, bs):
        super().__init__(x, y, lik)
        self.mean_module = gpytorch.means.ConstantMean(batch_shape=bs)
        self.covar_module = gpytorch.kernels.ScaleKernel(gpytorch.kernels.RBFKernel(batch_shape=bs), batch_shape=bs)

    def forward(self, x):
        return gpytorch.distributions.MultivariateNormal(self.mean_module(x), self.covar_module(x))


def build(X, y, xs, ls, os_, c, noise):
    bs = X.shape[:-2]
    lik = gpytorch.likelihoods.GaussianLikelihood(batch_shape=bs)
    lik.noise = noise.reshape(*bs, 1)
    model = GP(X, y, lik, bs)
    model.covar_module.base_kernel.lengthscale = ls.reshape(*bs, 1, 1)
    model.covar_module.outputscale = os_.reshape(bs)
    model.mean_module.constant.data = c.reshape(bs).clone()
    return model.eval(), lik.eval()


def dense_reference(X, y, xs, ls, os_, c, noise):
    def k(a, b):
        d2 = (a.unsqueeze(-2) - b.unsqueeze(-3)).pow(2).sum(-1)
        return os_[..., None, None] * torch.exp(-0.5 * d2 / ls[..., None, None] ** 2)

    n = X.shape[-2]
    A = k(X, X) + noise[..., None, None] * torch.eye(n)
    Ksx = k(xs, X)
    mean = c[..., None] + (Ksx @ torch.linalg.solve(A, (y - c[..., None]).unsqueeze(-1))).squeeze(-1)
    cov = k(xs, xs) - Ksx @ torch.linalg.solve(A, Ksx.transpose(-1, -2))
    return mean, cov


n, t, d = 5, 4, 2
bs = (2, 1, 3)
X, y, xs = torch.randn(*bs, n, d), torch.randn(*bs, n), torch.randn(*bs, t, d)
ls, os_, c, noise = torch.rand(bs) + 0.5, torch.rand(bs) + 0.5, torch.randn(bs), torch.rand(bs) * 0.5 + 0.1
ref_mean, ref_cov = dense_reference(X, y, xs, ls, os_, c, noise)

# control: same numbers with the singleton batch dimension squeezed out -> batch shape (2, 3)
sq = lambda v: v.squeeze(1)  # noqa: E731
model, lik = build(sq(X), sq(y), sq(xs), sq(ls), sq(os_), sq(c), sq(noise))
with torch.no_grad():
    out = model(sq(xs))
print("control, batch shape (2, 3):   |mean - dense| = %.2e   |cov - dense| = %.2e" % (
    (out.mean - sq(ref_mean)).abs().max(), (out.covariance_matrix - sq(ref_cov)).abs().max()))

model, lik = build(X, y, xs, ls, os_, c, noise)
violation = False
try:
    with torch.no_grad():
        out = model(xs)
    em = (out.mean - ref_mean).abs().max().item()
    ec = (out.covariance_matrix - ref_cov).abs().max().item()
    print("batch shape (2, 1, 3):         |mean - dense| = %.2e   |cov - dense| = %.2e" % (em, ec))
    violation = max(em, ec) > 1e-8
except Exception as e:  # noqa: BLE001
    print("batch shape (2, 1, 3):         model(test_x) raised %s: %s" % (type(e).__name__, str(e).splitlines()[0]))
    print("dense reference posterior mean exists and is finite:", bool(torch.isfinite(ref_mean).all()))
    violation = True

print("VIOLATION" if violation else "ok")
sys.exit(1 if violation else 0)
