"""C19 / bug 3: differentiating the delivered gradient once more (Hessians, Laplace approximations over
hyperparameters, gradient-penalty / meta-learning losses) silently gives WRONG numbers for every hand-written backward.

RBFCovariance.backward / MaternCovariance.backward multiply grad_output with a tensor that was computed in forward()
without a graph and stored by save_for_backward; LogNormalCDF.backward (branch z < -1) uses ctx.numerator /
ctx.denominator, also graph-free.  None of them is marked @once_differentiable, so autograd happily differentiates the
backward, treats those saved tensors as constants and drops d^2 K / d lengthscale^2 (resp. returns exactly 0 for the log
CDF) -- no error, no warning.  The generic path of the same kernel gives the right second derivative.

References: (i) the generic autograd path of the same kernel object (settings.trace_mode), (ii) finite differences of
the first-order gradient, (iii) torch.special.log_ndtr.
"""
import sys
import warnings

import torch

warnings.filterwarnings("ignore")
import gpytorch  # noqa: E402
from gpytorch.functions import log_normal_cdf  # noqa: E402
from gpytorch.kernels import MaternKernel, RBFKernel  # noqa: E402

torch.manual_seed(0)
torch.set_default_dtype(torch.float64)

x = torch.rand(12, 2)
y = torch.sin(4 * x[:, 0]) + x[:, 1]
bad = False


def nll(kernel, generic):
    """Dense exact-GP negative log marginal likelihood built on the public kernel call."""
    with gpytorch.settings.trace_mode(generic):  # trace_mode(True) forces the generic (pure autograd) kernel path
        K = kernel(x).to_dense() + 0.1 * torch.eye(x.size(0))
    L = torch.linalg.cholesky(K)
    alpha = torch.cholesky_solve(y.unsqueeze(-1), L).squeeze(-1)
    return 0.5 * (y * alpha).sum() + L.diagonal().log().sum()


def grad_and_hess(kernel, generic):
    p = kernel.raw_lengthscale
    (g,) = torch.autograd.grad(nll(kernel, generic), p, create_graph=True)
    (h,) = torch.autograd.grad(g.sum(), p)
    return g.detach().item(), h.item()


print("Hessian of the exact-GP NLL w.r.t. raw_lengthscale")
for name, make in [("RBF", RBFKernel), ("Matern0.5", lambda: MaternKernel(0.5)), ("Matern1.5", lambda: MaternKernel(1.5)),
                   ("Matern2.5", lambda: MaternKernel(2.5))]:
    k = make()
    k.lengthscale = 0.4
    g_fast, h_fast = grad_and_hess(k, False)
    g_gen, h_gen = grad_and_hess(k, True)
    # finite difference of the (fast-path) first-order gradient
    raw0 = k.raw_lengthscale.detach().clone()
    gs = []
    for d in (1e-5, -1e-5):
        with torch.no_grad():
            k.raw_lengthscale.copy_(raw0 + d)
        (g,) = torch.autograd.grad(nll(k, False), k.raw_lengthscale)
        gs.append(g.item())
    with torch.no_grad():
        k.raw_lengthscale.copy_(raw0)
    h_fd = (gs[0] - gs[1]) / 2e-5
    print(f"  {name:10s} grad fast {g_fast:+.8f} generic {g_gen:+.8f} | hess fast {h_fast:+.6f}  generic {h_gen:+.6f}  "
          f"FD {h_fd:+.6f}")
    if abs(h_fast - h_fd) > 1e-3 * max(1.0, abs(h_fd)) and abs(h_gen - h_fd) < 1e-4 * max(1.0, abs(h_fd)):
        bad = True

print("\nsecond derivative of log_normal_cdf")
z = torch.tensor([-4.0, -2.0, -1.5, -0.5, 0.1, 1.0], requires_grad=True)
(g,) = torch.autograd.grad(log_normal_cdf(z).sum(), z, create_graph=True)
(h,) = torch.autograd.grad(g.sum(), z)
zr = z.detach().clone().requires_grad_(True)
(gr,) = torch.autograd.grad(torch.special.log_ndtr(zr).sum(), zr, create_graph=True)
(hr,) = torch.autograd.grad(gr.sum(), zr)
print("  z          :", z.tolist())
print("  library    :", h.tolist())
print("  log_ndtr   :", hr.tolist())
err = (h - hr).abs()
print("  max error z<-1:", err[z.detach() < -1].max().item(), "  max error z>=-1:", err[z.detach() >= -1].max().item())
if err[z.detach() < -1].max() > 1e-2:
    bad = True

print("\nVIOLATION PRESENT" if bad else "\nno violation")
sys.exit(1 if bad else 0)
