"""C19 / bug 1: the hand-written backward of gpytorch.functions.log_normal_cdf is NOT the derivative of its
forward pass on the branch z < -1 (and neither forward nor backward is accurate there).

forward (z < -1):  log(e(z)/2) - z^2/2, e(z) = rational approximation of erfcx(-z/sqrt 2) that is only valid in the far
                   tail (GPML uses it for z < -11.3); gpytorch switches to it already at z < -1.
backward (z < -1): sqrt(2/pi) / e(z)   -- this is d/dz of the forward only if e == erfcx exactly.

We compare, in float64,
  (a) the value with torch.special.log_ndtr,
  (b) the analytic gradient with a central finite difference of the library's OWN forward,
  (c) the analytic gradient with the exact derivative pdf/cdf,
  (d) the same through the public BernoulliLikelihood.expected_log_prob (gradient w.r.t. the latent mean).
"""
import sys
import warnings

import torch

warnings.filterwarnings("ignore")
import gpytorch  # noqa: E402
from gpytorch.functions import log_normal_cdf  # noqa: E402

torch.manual_seed(0)
torch.set_default_dtype(torch.float64)

bad = False

# ---------------------------------------------------------------- (a) - (c): the function itself
z = torch.tensor([-8.0, -5.0, -3.0, -2.0, -1.5, -1.2, -1.01, -0.99, -0.5, 0.0, 0.5, 2.0], requires_grad=True)
val = log_normal_cdf(z)
(grad,) = torch.autograd.grad(val.sum(), z)

zr = z.detach().clone().requires_grad_(True)
ref = torch.special.log_ndtr(zr)
(grad_ref,) = torch.autograd.grad(ref.sum(), zr)

eps = 1e-6
with torch.no_grad():
    fd = (log_normal_cdf(z.detach() + eps) - log_normal_cdf(z.detach() - eps)) / (2 * eps)

print("    z      value(lib)      value(ref)   |  grad(lib)     FD of lib fwd   grad(exact)")
for i in range(z.numel()):
    print(
        f"{z[i].item():6.2f}  {val[i].item():14.10f}  {ref[i].item():14.10f}  | "
        f"{grad[i].item():12.8f}  {fd[i].item():12.8f}  {grad_ref[i].item():12.8f}"
    )

small = z.detach() < -1
err_val = (val - ref).detach().abs()
err_fd = (grad - fd).abs()
err_exact = (grad - grad_ref).abs()
print()
print("branch z<-1 : max |value - log_ndtr|           =", err_val[small].max().item())
print("branch z<-1 : max |grad - FD(own forward)|     =", err_fd[small].max().item())
print("branch z<-1 : max |grad - exact pdf/cdf|       =", err_exact[small].max().item())
print("other branch: max |value - log_ndtr|           =", err_val[~small].max().item())
print("other branch: max |grad - FD(own forward)|     =", err_fd[~small].max().item())
print("other branch: max |grad - exact pdf/cdf|       =", err_exact[~small].max().item())
# jump of the forward at the branch point
with torch.no_grad():
    jump = (log_normal_cdf(torch.tensor([-1.0 - 1e-9])) - log_normal_cdf(torch.tensor([-1.0]))).abs().item()
print("jump discontinuity of the forward at z = -1      =", jump)

if err_fd[small].max() > 1e-4 or err_val[small].max() > 1e-4 or err_exact[small].max() > 1e-4:
    bad = True

# ---------------------------------------------------------------- (d) through BernoulliLikelihood.expected_log_prob
lik = gpytorch.likelihoods.BernoulliLikelihood()
y = torch.tensor([0.0, 0.0, 1.0, 1.0])
var = torch.full((4,), 0.05)


def ell(mean, fn):
    dist = gpytorch.distributions.MultivariateNormal(mean, torch.diag(var))
    if fn is None:
        return lik.expected_log_prob(y, dist).sum()
    # independent replica: same Gauss-Hermite rule, torch's own log-CDF
    return lik.quadrature(lambda f: fn(f * (2 * y - 1)), dist).sum()


mean = torch.tensor([1.5, 2.5, -1.3, -2.0], requires_grad=True)  # y*f around -1.3 ... -2.5: confidently wrong points
(g_lib,) = torch.autograd.grad(ell(mean, None), mean)
(g_ref,) = torch.autograd.grad(ell(mean, torch.special.log_ndtr), mean)
with torch.no_grad():
    g_fd = torch.zeros(4)
    for i in range(4):
        d = torch.zeros(4)
        d[i] = 1e-6
        g_fd[i] = (ell(mean + d, None) - ell(mean - d, None)) / 2e-6
print()
print("BernoulliLikelihood.expected_log_prob, d/d mean")
print("  library autograd :", g_lib.tolist())
print("  FD of library    :", g_fd.tolist())
print("  replica(log_ndtr):", g_ref.tolist())
e1 = (g_lib - g_fd).abs().max().item()
e2 = (g_lib - g_ref).abs().max().item()
print("  max |autograd - FD| =", e1, "  max |autograd - replica| =", e2)
if e1 > 1e-4 or e2 > 1e-4:
    bad = True

print("\nVIOLATION PRESENT" if bad else "\nno violation")
sys.exit(1 if bad else 0)
