"""C19 / bug 2: the generic (autograd) Matern path and the fast hand-written MaternCovariance path of the SAME kernel
give different values and different lengthscale gradients.

The fast path (gpytorch/functions/matern_covariance.py) is taken for a plain MaternKernel on inputs that do not require
grad.  The generic path (MaternKernel.forward, first branch) is taken as soon as the inputs require grad (GPLVM, learned
inducing points, gradients w.r.t. test inputs), with ARD, or in trace mode.  In the generic path the scaled inputs
x/lengthscale carry requires_grad=True (the lengthscale is a parameter), so gpytorch.kernels.kernel.sq_dist skips its
"x1 == x2 -> exact zero diagonal" shortcut; dist() then returns sqrt(cancellation noise) ~ sqrt(eps)*|x|/l on the
diagonal instead of 0.  For nu = 0.5 the kernel is linear in the distance at r = 0, so k(x, x) != 1 and the lengthscale
gradient picks up a spurious d sqrt(noise) / d lengthscale term.

Reference: dense float64 formula with exact r = 0 on the diagonal.
"""
import math
import sys
import warnings

import torch

warnings.filterwarnings("ignore")
import gpytorch  # noqa: E402
from gpytorch.kernels import MaternKernel  # noqa: E402

torch.manual_seed(0)


def compare(dtype, x, ls, nu):
    k = MaternKernel(nu=nu).to(dtype)
    k.lengthscale = ls
    n = x.size(0)
    G = torch.randn(n, n, dtype=dtype)
    G = G + G.T  # upstream gradient

    # fast path: inputs do not require grad
    K_fast = k(x).to_dense()
    (g_fast,) = torch.autograd.grad((K_fast * G).sum(), k.raw_lengthscale)
    # generic path: identical kernel, identical numbers, inputs require grad
    xg = x.clone().requires_grad_(True)
    K_gen = k(xg).to_dense()
    (g_gen,) = torch.autograd.grad((K_gen * G).sum(), k.raw_lengthscale)
    K_diag = k(xg, diag=True)

    # dense float64 reference, r = 0 exactly for coincident points
    x64 = x.double()
    raw = k.raw_lengthscale.detach().double().clone().requires_grad_(True)
    l64 = torch.nn.functional.softplus(raw)
    sq = (x64.unsqueeze(-2) - x64.unsqueeze(-3)).pow(2).sum(-1)
    r = torch.where(sq > 0, sq.clamp_min(1e-300).sqrt(), torch.zeros_like(sq)) / l64
    s = math.sqrt(2 * nu) * r
    if nu == 0.5:
        K_ref = torch.exp(-s)
    elif nu == 1.5:
        K_ref = (1 + s) * torch.exp(-s)
    else:
        K_ref = (1 + s + s * s / 3) * torch.exp(-s)
    (g_ref,) = torch.autograd.grad((K_ref * G.double()).sum(), raw)

    ev_fast = (K_fast.double() - K_ref).abs().max().item()
    ev_gen = (K_gen.double() - K_ref).abs().max().item()
    eg_fast = ((g_fast.double() - g_ref).abs() / g_ref.abs()).item()
    eg_gen = ((g_gen.double() - g_ref).abs() / g_ref.abs()).item()
    print(f"{str(dtype):14s} nu={nu} lengthscale={ls}")
    print(f"   value  : |fast - ref| = {ev_fast:.3e}   |generic - ref| = {ev_gen:.3e}   "
          f"min diag(generic) = {K_gen.diagonal().min().item():.10f}   diag=True gives {K_diag.min().item():.10f}")
    print(f"   dK/dl  : fast = {g_fast.item():.10g}  generic = {g_gen.item():.10g}  ref = {g_ref.item():.10g}")
    print(f"   rel.err: fast = {eg_fast:.3e}   generic = {eg_gen:.3e}")
    return ev_fast, ev_gen, eg_fast, eg_gen


bad = False
# float64, inputs in the unit square, short lengthscale
a = compare(torch.float64, torch.rand(200, 2, dtype=torch.float64), 0.01, 0.5)
bad |= a[1] > 1e-7 and a[1] > 1e3 * a[0]
bad |= a[3] > 1e-7 and a[3] > 1e3 * a[2]
# library default dtype, perfectly ordinary configuration
b = compare(torch.float32, torch.rand(200, 2), 0.1, 0.5)
bad |= b[1] > 1e-3 and b[1] > 50 * b[0]
bad |= b[3] > 1e-4 and b[3] > 50 * b[2]
c = compare(torch.float32, torch.rand(200, 2), 0.02, 0.5)
bad |= c[1] > 1e-3 and c[1] > 50 * c[0]

print("\nVIOLATION PRESENT" if bad else "\nno violation")
sys.exit(1 if bad else 0)
