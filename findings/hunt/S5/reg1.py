# Regression seed for commit 6d5dc1c
#   "fix: KISS-GP predictive-variance cache no longer keeps the batch shape of the call that filled it"
#
# InterpolatedPredictionStrategy._exact_predictive_covar_inv_quad_form_cache now takes K_UU and the training-side
# interpolation indices/values from self.train_prior_dist (evaluated BEFORE the test call), no longer from test_train_covar.
# A GridInterpolationKernel built without grid_bounds (the default, "dynamic" grid) re-fits its grid inside the test call
# when the test inputs leave the range of the training inputs. The test-side interpolation indices (and, before the commit,
# the cached K_UU W_train^T S) live on the re-fitted grid; the cache built by the new code lives on the stale grid of the
# training prior. Interpolating a stale-grid cache with new-grid indices gives a meaningless correction term: under
# fast_pred_var the predictive variance far away from the data collapses to ~1e-6 (over-confident) instead of the prior
# variance. Before the commit the same call history returned variances within 1e-2 of the exact GP.
# (The predictive MEAN of this scenario is wrong before and after the commit - mean_cache has the same stale-grid problem -
#  so only the variance is compared here.)
import sys
import warnings

import torch

import gpytorch

warnings.simplefilter("ignore")


class KissGP(gpytorch.models.ExactGP):
    def __init__(self, x, y, lik):
        super().__init__(x, y, lik)
        self.mean_module = gpytorch.means.ConstantMean()
        # no grid_bounds: the grid follows the data it sees
        self.covar_module = gpytorch.kernels.ScaleKernel(
            gpytorch.kernels.GridInterpolationKernel(gpytorch.kernels.RBFKernel(), grid_size=30, num_dims=1)
        )

    def forward(self, x):
        return gpytorch.distributions.MultivariateNormal(self.mean_module(x), self.covar_module(x))


class PlainGP(gpytorch.models.ExactGP):
    def __init__(self, x, y, lik):
        super().__init__(x, y, lik)
        self.mean_module = gpytorch.means.ConstantMean()
        self.covar_module = gpytorch.kernels.ScaleKernel(gpytorch.kernels.RBFKernel())

    def forward(self, x):
        return gpytorch.distributions.MultivariateNormal(self.mean_module(x), self.covar_module(x))


def set_hypers(model):
    model.likelihood.noise = 0.01
    model.covar_module.outputscale = 1.0
    if isinstance(model, PlainGP):
        model.covar_module.base_kernel.lengthscale = 0.2
    else:
        model.covar_module.base_kernel.base_kernel.lengthscale = 0.2


torch.manual_seed(0)
train_x = torch.linspace(0, 1, 40).unsqueeze(-1)
train_y = torch.sin(6 * train_x.squeeze(-1)) + 0.05 * torch.randn(40)
test_x = torch.linspace(0, 2, 9).unsqueeze(-1)  # extrapolates beyond the training range [0, 1]

kiss = KissGP(train_x, train_y, gpytorch.likelihoods.GaussianLikelihood())
set_hypers(kiss)
kiss.train()
kiss(train_x)  # one training-mode pass, as any fitted model has had: the dynamic grid now covers [0, 1]
kiss.eval()
torch.manual_seed(1)
with torch.no_grad(), gpytorch.settings.fast_pred_var(), gpytorch.settings.max_root_decomposition_size(100):
    var_fast = kiss(test_x).variance

plain = PlainGP(train_x, train_y, gpytorch.likelihoods.GaussianLikelihood())
set_hypers(plain)
plain.eval()
with torch.no_grad():
    var_exact = plain(test_x).variance

err = (var_fast - var_exact).abs().max().item()
print("test inputs                      :", test_x.squeeze(-1).tolist())
print("KISS-GP fast_pred_var variance   :", [round(v, 5) for v in var_fast.tolist()])
print("exact GP (same hypers) variance  :", [round(v, 5) for v in var_exact.tolist()])
print("max abs difference               : %.4f   (before the commit: ~0.008)" % err)
if err > 0.05:
    print("PROBLEM: fast_pred_var variance of a dynamic-grid KISS-GP is wrong once the test inputs re-fit the grid")
    sys.exit(1)
print("ok")
sys.exit(0)
