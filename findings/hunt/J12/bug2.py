"""C12 bug 2: LikelihoodList overrides __call__, forward and expected_log_prob to apply every member likelihood
to its own arguments, but not the sibling entry points marginal, log_marginal and get_fantasy_likelihood.

* LikelihoodList.log_marginal((y1, d1), (y2, d2))  [the calling convention of LikelihoodList.expected_log_prob]
  and LikelihoodList.marginal(d1, d2) fall through to the Monte-Carlo code of the Likelihood base class, which treats
  the first tuple / the argument list as one distribution and raises AttributeError.
* LikelihoodList.get_fantasy_likelihood(noise=[n1, n2]) silently returns a plain deepcopy: the
  FixedNoiseGaussianLikelihood member does not get its fantasy noise appended (its own get_fantasy_likelihood does).
Reference: the member likelihoods called one by one.
"""
import sys
import warnings

import torch

from gpytorch.distributions import MultivariateNormal
from gpytorch.likelihoods import FixedNoiseGaussianLikelihood, GaussianLikelihood, LikelihoodList

warnings.simplefilter("ignore")
torch.manual_seed(0)
torch.set_default_dtype(torch.float64)


def rand_mvn(n):
    A = torch.randn(n, n)
    return MultivariateNormal(torch.randn(n), A @ A.T + 0.5 * torch.eye(n))


l1 = GaussianLikelihood()
l1.noise = 0.3
l2 = FixedNoiseGaussianLikelihood(torch.rand(4) + 0.1)
ll = LikelihoodList(l1, l2)
d1, d2 = rand_mvn(3), rand_mvn(4)
y1, y2 = torch.randn(3), torch.randn(4)

bad = False

# the overridden sibling works and defines the calling convention
elp = ll.expected_log_prob((y1, d1), (y2, d2))
ref = [l1.expected_log_prob(y1, d1), l2.expected_log_prob(y2, d2)]
print("expected_log_prob per member, max error:", max((a - b).abs().max().item() for a, b in zip(elp, ref)))

ref_lm = [l1.log_marginal(y1, d1), l2.log_marginal(y2, d2)]
try:
    lm = ll.log_marginal((y1, d1), (y2, d2))
    err = max((a - b).abs().max().item() for a, b in zip(lm, ref_lm))
    print("log_marginal per member, max error:", err)
    bad |= err > 1e-8
except Exception as e:
    print(f"log_marginal((y1, d1), (y2, d2)) raised {type(e).__name__}: {e}")
    print("   reference (members one by one):", [round(v.sum().item(), 4) for v in ref_lm])
    bad = True

ref_m = [l1.marginal(d1), l2.marginal(d2)]
try:
    mg = ll.marginal(d1, d2)
    err = max((a.covariance_matrix - b.covariance_matrix).abs().max().item() for a, b in zip(mg, ref_m))
    print("marginal per member, max error:", err)
    bad |= err > 1e-8
except Exception as e:
    print(f"marginal(d1, d2) raised {type(e).__name__}: {e}   (while ll(d1, d2) works: {len(ll(d1, d2))} outputs)")
    bad = True

# fantasy likelihood: the member's own method appends the new noise, the list's method drops it
n_new = [None, torch.tensor([0.5, 0.6])]
ref_f = l2.get_fantasy_likelihood(noise=n_new[1]).noise_covar.noise
fl = ll.get_fantasy_likelihood(noise=n_new)
got_f = fl.likelihoods[1].noise_covar.noise
print("fantasy noise of the FixedNoise member: reference", tuple(ref_f.shape), ref_f.tolist())
print("                     via LikelihoodList:", tuple(got_f.shape), got_f.tolist())
if got_f.shape != ref_f.shape or (got_f - ref_f).abs().max() > 1e-12:
    print("   -> the 2 fantasy noise values were dropped, discrepancy", ref_f[-2:].tolist())
    bad = True

if bad:
    print("VIOLATION")
    sys.exit(1)
print("no violation")
sys.exit(0)
