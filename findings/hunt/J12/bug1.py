"""C12 bug 1: MultitaskGaussianLikelihood.expected_log_prob / log_marginal with
settings.observation_nan_policy("mask") on a NON-interleaved MultitaskMultivariateNormal.

The NaN mask is built in n-major (interleaved) order and applied to the covariance matrix of the input
distribution, which is in t-major order when interleaved=False: the variances of the wrong entries are used.
References: (a) the closed form over the observed entries, (b) the same distribution in interleaved layout.
"""
import math
import sys
import warnings

import torch

import gpytorch
from gpytorch.distributions import MultitaskMultivariateNormal
from gpytorch.likelihoods import MultitaskGaussianLikelihood

warnings.simplefilter("ignore")
torch.manual_seed(0)
torch.set_default_dtype(torch.float64)

n, t = 3, 2
mean = torch.randn(n, t)
A = torch.randn(n * t, n * t)
C_nil = A @ A.T + 0.5 * torch.eye(n * t)  # covariance in t-major (non-interleaved) layout
# the same covariance in n-major (interleaved) layout
perm = torch.arange(n * t).view(t, n).T.reshape(-1)
C_il = C_nil[perm][:, perm]

d_nil = MultitaskMultivariateNormal(mean, C_nil, interleaved=False)
d_il = MultitaskMultivariateNormal(mean, C_il, interleaved=True)
assert torch.allclose(d_nil.variance, d_il.variance)  # same distribution, two layouts

lik = MultitaskGaussianLikelihood(num_tasks=t, rank=0)
lik.noise = torch.tensor([0.3])
lik.task_noises = torch.tensor([0.2, 0.7])

y = torch.randn(n, t)
y[1, 0] = float("nan")  # one missing observation
obs = ~torch.isnan(y)

v = d_nil.variance  # n x t, correct marginal variances of f
r = (lik.task_noises + lik.noise).detach().unsqueeze(0).expand(n, t)  # documented noise variance per entry
ref_elp = (-0.5 * (((y - mean) ** 2 + v) / r + r.log() + math.log(2 * math.pi)))[obs].sum()
ref_lm = (-0.5 * ((y - mean) ** 2 / (v + r) + (v + r).log() + math.log(2 * math.pi)))[obs].sum()

bad = False
with gpytorch.settings.observation_nan_policy("mask"):
    for name, fn, ref in [
        ("expected_log_prob", lik.expected_log_prob, ref_elp),
        ("log_marginal", lik.log_marginal, ref_lm),
    ]:
        got_nil = fn(y, d_nil).sum().item()
        got_il = fn(y, d_il).sum().item()
        print(f"{name}: closed form over observed entries {ref.item():.6f}")
        print(f"    interleaved=True  input: {got_il:.6f}  (error {abs(got_il - ref.item()):.2e})")
        print(f"    interleaved=False input: {got_nil:.6f}  (error {abs(got_nil - ref.item()):.2e})")
        if abs(got_nil - ref.item()) > 1e-6:
            bad = True

if bad:
    print("VIOLATION: the non-interleaved input gives a different value than the closed form / the interleaved replica")
    sys.exit(1)
print("no violation")
sys.exit(0)
