"""C12 bug 3: DirichletClassificationLikelihood translates the documented call-time keyword `targets` into the
call-time `noise` only inside __call__.  The sibling entry points marginal, log_marginal and expected_log_prob
hand `targets` down to FixedGaussianNoise.forward, which swallows it in **kwargs: the stored TRAINING noise is used
(or, when the test size differs from the training size, no noise at all).
Reference: lik(dist, targets=...) itself and the closed forms with the noise log(1/alpha + 1) of the given targets.
"""
import math
import sys
import warnings

import torch

from gpytorch.distributions import MultivariateNormal
from gpytorch.likelihoods import DirichletClassificationLikelihood

warnings.simplefilter("ignore")
torch.manual_seed(0)
torch.set_default_dtype(torch.float64)

train_labels = torch.tensor([0, 1, 2, 1, 0])
eps = 0.05
lik = DirichletClassificationLikelihood(train_labels, alpha_epsilon=eps, dtype=torch.float64)
num_classes, n = 3, 5

A = torch.randn(num_classes, n, n)
C = A @ A.transpose(-1, -2) + torch.eye(n)
m = torch.randn(num_classes, n)
dist = MultivariateNormal(m, C)
test_labels = torch.tensor([2, 2, 0, 1, 1])
y = torch.randn(num_classes, n)


def dirichlet_noise(labels):  # Milios et al.: sigma^2 = log(1/alpha + 1), classes x n
    alpha = eps * torch.ones(len(labels), num_classes)
    alpha[torch.arange(len(labels)), labels] += 1.0
    return torch.log(1.0 / alpha + 1.0).T


R = dirichlet_noise(test_labels)
v = C.diagonal(dim1=-1, dim2=-2)
bad = False

out = lik(dist, targets=test_labels)
e0 = ((out.covariance_matrix - C).diagonal(dim1=-1, dim2=-2) - R).abs().max().item()
print(f"lik(dist, targets=test)                 added noise vs log(1/alpha+1): max error {e0:.2e}")

out = lik.marginal(dist, targets=test_labels)
e1 = ((out.covariance_matrix - C).diagonal(dim1=-1, dim2=-2) - R).abs().max().item()
print(f"lik.marginal(dist, targets=test)        added noise vs log(1/alpha+1): max error {e1:.2e}")

lm = lik.log_marginal(y, dist, targets=test_labels)
ref = torch.distributions.Normal(m, (v + R).sqrt()).log_prob(y)
e2 = (lm - ref).abs().max().item()
print(f"lik.log_marginal(y, dist, targets=test) vs log N(y | m, diag C + R): max error {e2:.2e}")

elp = lik.expected_log_prob(y, dist, targets=test_labels)
ref = -0.5 * (((y - m) ** 2 + v) / R + R.log() + math.log(2 * math.pi))
e3 = (elp - ref).abs().max().item()
print(f"lik.expected_log_prob(y, dist, targets=test) vs closed form:          max error {e3:.2e}")

# the value actually used is the training noise
used = ((lik.marginal(dist, targets=test_labels).covariance_matrix - C).diagonal(dim1=-1, dim2=-2))
print("noise used by marginal(..., targets=test) equals the TRAINING noise:",
      torch.allclose(used, dirichlet_noise(train_labels)))

# different test size: no noise at all is added
A3 = torch.randn(num_classes, 3, 3)
C3 = A3 @ A3.transpose(-1, -2) + torch.eye(3)
d3 = MultivariateNormal(torch.randn(num_classes, 3), C3)
t3 = torch.tensor([2, 0, 1])
added = (lik.marginal(d3, targets=t3).covariance_matrix - C3).diagonal(dim1=-1, dim2=-2)
e4 = (added - dirichlet_noise(t3)).abs().max().item()
print(f"3 test points: marginal(d3, targets=t3) adds max {added.abs().max().item():.2e}, documented noise up to "
      f"{dirichlet_noise(t3).max().item():.3f}: max error {e4:.2e}")

if max(e1, e2, e3, e4) > 1e-6:
    print("VIOLATION")
    sys.exit(1)
print("no violation")
sys.exit(0)
