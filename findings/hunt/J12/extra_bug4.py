"""C12 extra observation (weaker than bugs 1-3, see notes.md): FixedNoiseGaussianLikelihood (any likelihood that uses
_GaussianLikelihoodBase.marginal) on a NON-interleaved MultitaskMultivariateNormal with a call-time noise of n*t entries.
marginal() rebuilds the distribution as function_dist.__class__(mean, covar) and drops interleaved=False: the returned
distribution carries the t-major covariance C + diag(r) but declares the n-major layout.
"""
import sys
import warnings

import torch

from gpytorch.distributions import MultitaskMultivariateNormal
from gpytorch.likelihoods import FixedNoiseGaussianLikelihood

warnings.simplefilter("ignore")
torch.manual_seed(0)
torch.set_default_dtype(torch.float64)
n, t = 3, 2
A = torch.randn(n * t, n * t)
C = A @ A.T + 0.5 * torch.eye(n * t)
d = MultitaskMultivariateNormal(torch.randn(n, t), C, interleaved=False)
r = torch.rand(n * t) + 0.1  # noise in the layout of d's covariance matrix (t-major)
lik = FixedNoiseGaussianLikelihood(torch.rand(n * t) + 0.1)
out = lik(d, noise=r)
print("covariance matrix error:", (out.covariance_matrix - (C + torch.diag(r))).abs().max().item())
print("input interleaved:", d._interleaved, " output interleaved:", out._interleaved)
ref_var = d.variance + r.view(t, n).T
err = (out.variance - ref_var).abs().max().item()
print("variance of the output vs variance of the input + noise: max error", err)
sys.exit(1 if (err > 1e-6 or out._interleaved != d._interleaved) else 0)
