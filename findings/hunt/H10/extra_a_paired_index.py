#!/usr/bin/env python3
"""
C10 extra A (lower priority): indexing a batch MVN with TWO advanced (list / LongTensor) indices, one on the batch
dimension and one on the event dimension.  torch pairs them: mean[[0, 2], [1, 3]] = (mean[0, 1], mean[2, 3]).  The two
selected components belong to different (independent) batch members, so the marginal covariance is
diag(cov[0, 1, 1], cov[2, 3, 3]).  __getitem__ returns the off-diagonal entries cov[0, 1, 3] and cov[2, 3, 1] as well.
Exit status 1 if present.
"""
import sys
import warnings

import torch

from gpytorch.distributions import MultivariateNormal
from linear_operator import to_linear_operator

warnings.filterwarnings("ignore")
torch.manual_seed(0)
torch.set_default_dtype(torch.float64)
n = 4
a = torch.randn(3, n, n)
cov = a @ a.transpose(-1, -2) + n * torch.eye(n)
mean = torch.randn(3, n)
bad = 0
for kind in ["dense", "lazy"]:
    d = MultivariateNormal(mean, cov if kind == "dense" else to_linear_operator(cov))
    bi, ei = [0, 2], [1, 3]
    g = d[bi, ei]
    ref_mean = mean[bi, ei]
    ref_cov = torch.diag(cov[bi, ei, ei])
    print(kind, "mean error", (g.mean - ref_mean).abs().max().item())
    print(kind, "covariance returned\n", g.covariance_matrix, "\nmarginal covariance of the selected components\n", ref_cov)
    err = (g.covariance_matrix - ref_cov).abs().max().item()
    print(kind, "max covariance error", err)
    bad += err > 1e-8
sys.exit(1 if bad else 0)
