#!/usr/bin/env python3
"""
C10 bug 2: MultivariateNormal.unsqueeze(dim) on a DENSE (torch.Tensor) MultivariateNormal whose covariance has fewer
batch dimensions than the distribution (covariance broadcast over the batch of the mean).

    MVN(mean[2, 3, n], cov[n, n])       batch_shape (2, 3)
    MVN(mean[2, 3, n], cov[3, n, n])    batch_shape (2, 3)

unsqueeze(dim) must give the distribution of the random vector with a singleton batch dimension inserted at `dim`
(mean.unsqueeze(dim), covariance.unsqueeze(dim)).  It only does so for dim = 0 (and its negative alias); every other
valid dim raises, because `dim` (a position in the batch shape of the DISTRIBUTION) is applied to torch's
`_unbroadcasted_scale_tril`, which only has the batch dimensions of the covariance ARGUMENT.

Reference: a MultivariateNormal built directly from mean.unsqueeze(dim) and the fully expanded covariance.unsqueeze(dim),
and torch.distributions.MultivariateNormal.

Exit status 1 if the violation is present.
"""
import sys
import warnings

import torch

from gpytorch.distributions import MultivariateNormal
from linear_operator import to_linear_operator

warnings.filterwarnings("ignore")
torch.manual_seed(0)
torch.set_default_dtype(torch.float64)
TMVN = torch.distributions.MultivariateNormal

n = 4
TOL = 1e-8
failures = []


def spd(*batch):
    a = torch.randn(*batch, n, n)
    return a @ a.transpose(-1, -2) + n * torch.eye(n)


def check(tag, make, full_mean, full_cov):
    nb = full_mean.dim() - 1
    for dim in range(-nb - 1, nb + 1):
        pos = dim if dim >= 0 else nb + 1 + dim
        ref_mean, ref_cov = full_mean.unsqueeze(pos), full_cov.unsqueeze(pos)
        ref = TMVN(ref_mean, ref_cov)
        value = torch.randn(2, *ref_mean.shape)
        try:
            u = make().unsqueeze(dim)
            if tuple(u.batch_shape) != tuple(ref.batch_shape):
                msg = f"batch_shape {tuple(u.batch_shape)} instead of {tuple(ref.batch_shape)}"
            else:
                e_mean = (u.mean - ref_mean).abs().max().item()
                e_cov = (u.covariance_matrix - ref_cov).abs().max().item()
                e_lp = (u.log_prob(value) - ref.log_prob(value)).abs().max().item()
                err = max(e_mean, e_cov, e_lp)
                msg = None if err < TOL else f"max error (mean, cov, log_prob) = {err:.3g}"
                if msg is None:
                    print(f"  ok    {tag}.unsqueeze({dim:2d}): batch_shape {tuple(u.batch_shape)}, max error {err:.1e}")
        except Exception as e:  # noqa
            msg = f"raised {type(e).__name__}: {str(e)[:120]}"
        if msg is not None:
            print(f"  FAIL  {tag}.unsqueeze({dim:2d}) [want batch_shape {tuple(ref.batch_shape)}]: {msg}")
            failures.append((tag, dim))


mean = torch.randn(2, 3, n)
for cov_batch in [(2, 3), (), (3,), (2, 1)]:
    cov = spd(*cov_batch)
    full_cov = cov.expand(2, 3, n, n)
    tag = f"MVN(mean[2,3,{n}], dense cov{list(cov.shape)})"
    print(tag + ("   (control: nothing is broadcast)" if cov_batch == (2, 3) else ""))
    check(tag, lambda: MultivariateNormal(mean, cov), mean, full_cov)

n_dense = len(failures)

# The LinearOperator branch of unsqueeze has the same defect (dim is applied to the unbroadcast self._covar); here it
# even returns silently with a WRONG batch shape:
print("\nsame defect in the LinearOperator branch (reported, does not decide the exit status):")
mean2 = torch.randn(3, n)
cov2 = spd(2, 1)
tag = f"MVN(mean[3,{n}], lazy cov[2,1,{n},{n}])"
check(tag, lambda: MultivariateNormal(mean2, to_linear_operator(cov2)), mean2.expand(2, 3, n), cov2.expand(2, 3, n, n))

print()
if n_dense:
    print(f"VIOLATION: unsqueeze failed for {n_dense} (distribution, dim) pairs with plain tensor arguments")
    sys.exit(1)
print("no violation")
sys.exit(0)
