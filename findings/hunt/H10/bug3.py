#!/usr/bin/env python3
"""
C10 bug 3: MultivariateNormal.unsqueeze(dim) when the covariance is a lazily evaluated kernel (the object returned by
`kernel(x)`, i.e. exactly what a GP prior hands to MultivariateNormal) and the kernel has a batch shape.

    kernel = ScaleKernel(RBFKernel(batch_shape=[2]), batch_shape=[2]);   x : 2 x n x d
    mvn    = MultivariateNormal(mean[2, n], kernel(x))                   batch_shape (2,)
    mvn.unsqueeze(1) / mvn.unsqueeze(-1)   must have batch_shape (2, 1), covariance = K.unsqueeze(1)

The result has batch_shape (2, 2) (or raises for two batch dimensions): LazyEvaluatedKernelTensor._unsqueeze_batch
unsqueezes x1 and x2 but the batch shape of the kernel hyper-parameters stays where it was, so the new singleton
dimension of the inputs is broadcast against the kernel batch: entry [i, j] is the kernel with the hyper-parameters
of batch member j evaluated on the inputs of batch member i.

Only dim = 0 works.  The same operator is handled correctly by expand, indexing, log_prob, rsample and KL.

Reference: the dense covariance matrix K = kernel(x).to_dense() and torch.distributions.MultivariateNormal.

Exit status 1 if the violation is present.
"""
import sys
import warnings

import torch

import gpytorch
from gpytorch.distributions import MultivariateNormal

warnings.filterwarnings("ignore")
torch.manual_seed(0)
torch.set_default_dtype(torch.float64)
TMVN = torch.distributions.MultivariateNormal

n, d = 4, 2
TOL = 1e-8
failures = []

for batch in [(2,), (3, 2)]:
    bs = torch.Size(batch)
    kernel = gpytorch.kernels.ScaleKernel(gpytorch.kernels.RBFKernel(batch_shape=bs), batch_shape=bs).double()
    kernel.base_kernel.lengthscale = torch.rand(*batch, 1, 1) + 0.5
    kernel.outputscale = torch.rand(batch) + 0.5
    x = torch.randn(*batch, n, d)
    mean = torch.randn(*batch, n)
    with torch.no_grad():
        K = kernel(x).to_dense() + 0.1 * torch.eye(n)

    def make():
        # the lazily evaluated kernel plus jitter, as ExactGP / a likelihood would produce it
        return MultivariateNormal(mean, kernel(x).add_jitter(0.1))

    assert type(kernel(x)).__name__ == "LazyEvaluatedKernelTensor"
    base = make()
    print(f"kernel batch {tuple(batch)}, x {tuple(x.shape)}: batch_shape {tuple(base.batch_shape)}, "
          f"|cov - K| = {(base.covariance_matrix - K).abs().max().item():.1e}")

    nb = len(batch)
    for dim in range(-nb - 1, nb + 1):
        pos = dim if dim >= 0 else nb + 1 + dim
        ref_mean, ref_cov = mean.unsqueeze(pos), K.unsqueeze(pos)
        ref = TMVN(ref_mean, ref_cov)
        value = torch.randn(2, *ref_mean.shape)
        try:
            with torch.no_grad():
                u = make().unsqueeze(dim)
                if tuple(u.batch_shape) != tuple(ref.batch_shape):
                    c = u.covariance_matrix
                    msg = (f"batch_shape {tuple(u.batch_shape)} instead of {tuple(ref.batch_shape)}; "
                           f"covariance shape {tuple(c.shape)} instead of {tuple(ref_cov.shape)}")
                    try:
                        msg += f", max |cov - K.unsqueeze| = {(c - ref_cov).abs().max().item():.3g}"
                    except RuntimeError:
                        pass
                else:
                    err = max(
                        (u.mean - ref_mean).abs().max().item(),
                        (u.covariance_matrix - ref_cov).abs().max().item(),
                        (u.log_prob(value) - ref.log_prob(value)).abs().max().item(),
                    )
                    msg = None if err < TOL else f"max error (mean, cov, log_prob) = {err:.3g}"
                    if msg is None:
                        print(f"  ok    unsqueeze({dim:2d}): batch_shape {tuple(u.batch_shape)}, max error {err:.1e}")
        except Exception as e:  # noqa
            msg = f"raised {type(e).__name__}: {str(e)[:130]}"
        if msg is not None:
            print(f"  FAIL  unsqueeze({dim:2d}) [want batch_shape {tuple(ref.batch_shape)}]: {msg}")
            failures.append((batch, dim))

    # control: the evaluated (dense) version of the same covariance is fine for every dim
    with torch.no_grad():
        for dim in range(-nb - 1, nb + 1):
            pos = dim if dim >= 0 else nb + 1 + dim
            u = MultivariateNormal(mean, kernel(x).evaluate_kernel().add_jitter(0.1)).unsqueeze(dim)
            assert tuple(u.batch_shape) == tuple(mean.unsqueeze(pos).shape[:-1])
            assert (u.covariance_matrix - K.unsqueeze(pos)).abs().max() < TOL
    print("  (control: after .evaluate_kernel() every dim is correct)")

print()
if failures:
    print(f"VIOLATION: unsqueeze of a lazily evaluated batch kernel covariance is wrong for {len(failures)} (batch, dim) pairs")
    sys.exit(1)
print("no violation")
sys.exit(0)
