#!/usr/bin/env python3
"""
C10 extra C (values are right, gradient is not available): confidence_region() computes `self.stddev.mul_(2)`, an
in-place update of the output of sqrt, which autograd needs for the backward pass.  Any backward through the bounds
raises.  Reference: mean + 2 * sqrt(diag(cov)) differentiated by autograd.  Exit status 1 if present.
"""
import sys
import warnings

import torch

from gpytorch.distributions import MultivariateNormal

warnings.filterwarnings("ignore")
torch.manual_seed(0)
torch.set_default_dtype(torch.float64)
n = 3
a = torch.randn(n, n)
cov = (a @ a.T + n * torch.eye(n)).requires_grad_(True)
ref_grad = torch.autograd.grad((2 * cov.diagonal().sqrt()).sum(), cov)[0]
lo, hi = MultivariateNormal(torch.zeros(n), cov).confidence_region()
print("upper bound error", (hi - 2 * cov.diagonal().sqrt()).abs().max().item())
try:
    g = torch.autograd.grad(hi.sum(), cov)[0]
    err = (g - ref_grad).abs().max().item()
    print("gradient error", err)
    sys.exit(1 if err > 1e-8 else 0)
except RuntimeError as e:
    print("backward through confidence_region raised:", str(e)[:160])
    sys.exit(1)
