#!/usr/bin/env python3
"""
C10 extra B (root cause in the linear_operator dependency, not in gpytorch): slicing an MVN whose covariance is a
BlockDiagLinearOperator.  With 2 blocks of size 2, mvn[0:2] must be the marginal of components 0, 1 (= first block);
it returns diag(cov[0, 0], cov[2, 2]).  linear_operator BlockLinearOperator._getitem (block_linear_operator.py:91-102)
divides the slice bounds by num_blocks and slices *inside every block*, which is the BlockInterleaved layout, not the
BlockDiag one.  Exit status 1 if present.
"""
import sys
import warnings

import torch

from gpytorch.distributions import MultivariateNormal
from linear_operator import to_linear_operator
from linear_operator.operators import BlockDiagLinearOperator

warnings.filterwarnings("ignore")
torch.manual_seed(0)
torch.set_default_dtype(torch.float64)
a = torch.randn(2, 2, 2)
blocks = a @ a.transpose(-1, -2) + 2 * torch.eye(2)
op = BlockDiagLinearOperator(to_linear_operator(blocks))
cov = op.to_dense()
mean = torch.randn(4)
d = MultivariateNormal(mean, op)
g = d[0:2]
print("full covariance\n", cov)
print("mvn[0:2].covariance_matrix\n", g.covariance_matrix, "\nreference cov[0:2, 0:2]\n", cov[0:2, 0:2])
err = (g.covariance_matrix - cov[0:2, 0:2]).abs().max().item()
print("max error", err)
sys.exit(1 if err > 1e-8 else 0)
