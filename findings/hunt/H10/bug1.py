#!/usr/bin/env python3
"""
C10 bug 1: a MultivariateNormal built from a LinearOperator covariance whose batch shape differs from the batch
shape of the mean (mean and covariance *broadcast* to the batch shape of the distribution) is not the distribution
it claims to be.

    MVN(mean[n],      lazy cov[3, n, n])      batch_shape (3,)
    MVN(mean[3, n],   lazy cov[n, n])         batch_shape (3,)

The constructor accepts both and reports batch_shape (3,), exactly like the dense (torch.Tensor) constructor does, but
loc and _covar are stored unbroadcast and log_prob (fast AND Cholesky path), rsample, kl_divergence and __getitem__
assume they already have the batch shape of the distribution.

Reference: the very same distribution built from dense tensors (torch broadcasts them in its constructor) and
torch.distributions.MultivariateNormal.

Exit status 1 if the violation is present.
"""
import sys
import warnings

import torch

import gpytorch
from gpytorch.distributions import MultivariateNormal
from linear_operator import to_linear_operator

warnings.filterwarnings("ignore")
torch.manual_seed(0)
torch.set_default_dtype(torch.float64)
TMVN = torch.distributions.MultivariateNormal
kl = torch.distributions.kl_divergence

n = 4
TOL = 1e-8
failures = []


def spd(*batch):
    a = torch.randn(*batch, n, n)
    return a @ a.transpose(-1, -2) + n * torch.eye(n)


def report(tag, fn):
    """fn returns the size of the discrepancy to the reference"""
    try:
        err = fn()
    except Exception as e:  # noqa
        print(f"  FAIL  {tag}: raised {type(e).__name__}: {str(e)[:110]}")
        failures.append(tag)
        return
    if isinstance(err, str) or err > TOL:
        print(f"  FAIL  {tag}: discrepancy {err}")
        failures.append(tag)
    else:
        print(f"  ok    {tag}: discrepancy {err:.2e}")


for mean_batch, cov_batch in [((), (3,)), ((3,), ())]:
    mean = torch.randn(*mean_batch, n)
    cov = spd(*cov_batch)
    ref = TMVN(mean, cov)  # torch broadcasts
    full_mean, full_cov = ref.loc, ref.covariance_matrix  # both have batch shape (3,)
    print(f"\nmean {tuple(mean.shape)}, covariance {tuple(cov.shape)}  ->  batch_shape {tuple(ref.batch_shape)}")

    for kind in ["dense tensor (control)", "LinearOperator"]:
        print(f" covariance given as {kind}")

        def make():
            return MultivariateNormal(mean, cov if kind.startswith("dense") else to_linear_operator(cov))

        d = make()
        assert d.batch_shape == ref.batch_shape, (d.batch_shape, ref.batch_shape)

        # --- log_prob for every broadcastable value shape, on both paths
        for vshape in [(n,), (1, n), (3, n), (5, 1, n), (5, 3, n)]:
            value = torch.randn(*vshape)
            for fast in [True, False]:
                with gpytorch.settings.fast_computations(log_prob=fast):

                    def f():
                        lp = make().log_prob(value)
                        r = ref.log_prob(value)
                        if lp.shape != r.shape:
                            return f"shape {tuple(lp.shape)} instead of {tuple(r.shape)}"
                        return (lp - r).abs().max().item()

                    report(f"log_prob(value{list(vshape)}) {'fast' if fast else 'chol'} path", f)

        # --- rsample: shape  sample_shape x batch_shape x n
        for ss in [torch.Size([]), torch.Size([4])]:

            def f():
                s = make().rsample(ss)
                want = tuple(ss) + tuple(ref.batch_shape) + (n,)
                return 0.0 if tuple(s.shape) == want else f"sample shape {tuple(s.shape)} instead of {want}"

            report(f"rsample({list(ss)})", f)

        def f():
            torch.manual_seed(1)
            s = make().rsample() - full_mean  # 3 x n: the batch members are independent draws
            return 0.0 if (s[0] - s[1]).abs().max() > 1e-6 else "all batch members share ONE draw (s[0]-mean[0] == s[1]-mean[1])"

        report("rsample() batch members are separate draws", f)

        # --- KL: vanishes for identical arguments, closed form otherwise
        def f():
            return kl(make(), make()).abs().max().item()

        report("kl_divergence(p, p) == 0", f)

        q_mean, q_cov = torch.randn(3, n), spd(3)

        def f():
            k = kl(make(), MultivariateNormal(q_mean, q_cov))
            return (k - kl(ref, TMVN(q_mean, q_cov))).abs().max().item()

        report("kl_divergence(p, q) closed form", f)

        def f():
            k = kl(MultivariateNormal(q_mean, q_cov), make())
            return (k - kl(TMVN(q_mean, q_cov), ref)).abs().max().item()

        report("kl_divergence(q, p) closed form", f)

        # --- indexing = marginal
        for name, idx, rm, rc in [
            ("[1:]", slice(1, None), full_mean[1:], full_cov[1:]),
            ("[0]", 0, full_mean[0], full_cov[0]),
            ("[..., :2]", (Ellipsis, slice(0, 2)), full_mean[..., :2], full_cov[..., :2, :2]),
            (
                "[..., 0]",
                (Ellipsis, 0),
                full_mean[..., 0],
                torch.diag_embed(full_cov[..., 0, 0]),
            ),
        ]:

            def f():
                g = make()[idx]
                if g.mean.shape != rm.shape:
                    return f"mean shape {tuple(g.mean.shape)} instead of {tuple(rm.shape)}"
                if (g.mean - rm).abs().max() > TOL:
                    return "wrong mean"
                c = g.covariance_matrix
                try:
                    c = c.expand_as(rc)
                except RuntimeError:
                    return f"covariance shape {tuple(c.shape)} instead of {tuple(rc.shape)}"
                return (c - rc).abs().max().item()

            report(f"mvn{name} is the marginal", f)

print()
if failures:
    print(f"VIOLATION: {len(failures)} checks failed (all of them with the LinearOperator covariance)")
    sys.exit(1)
print("no violation")
sys.exit(0)
