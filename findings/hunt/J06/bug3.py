#!/usr/bin/env python3
"""
C06 / bug 3: batch-indexing the lazily evaluated tensor of a COMPOSITE kernel whose members have different
(broadcastable) batch shapes raises IndexError, although the full matrix is computed without problems:

    k = ScaleKernel(RBFKernel(batch_shape=[2]), batch_shape=[3, 2])       # k.batch_shape == [3, 2]
    k(x).to_dense()      # fine, 3 x 2 x n x n
    k(x)[1]              # IndexError: too many indices for tensor of dimension 1

LazyEvaluatedKernelTensor._getitem calls kernel.__getitem__(batch_indices); Kernel.__getitem__ hands the SAME index
tuple (one entry per dimension of the composite's broadcast batch shape) to every sub-kernel, also to those that have
fewer / size-1 batch dimensions.  The fall-back for exactly this situation (`except IndexError:
self.kernel.expand_batch(batch_shape)`) is a no-op, because Kernel.expand_batch returns `self` when the requested
shape equals self.batch_shape - which for a composite is the BROADCAST shape of its members - so the members are
never expanded.

Reference: indexing the dense matrix.  Control: the same composite with all members at the full batch shape.
Exit code 1 if the violation is present.
"""
import sys
import warnings

import torch

from gpytorch.kernels import LinearKernel, MultitaskKernel, RBFKernel, ScaleKernel

warnings.filterwarnings("ignore")
torch.manual_seed(0)
torch.set_default_dtype(torch.float64)
S = torch.Size

x = torch.randn(4, 3)
bad = 0


def randomize(k):
    g = torch.Generator().manual_seed(5)
    for p in k.parameters():
        p.data = torch.empty(p.shape).normal_(generator=g) * 0.5
    return k.eval()


def run(label, k, indices, expect_ok=False):
    global bad
    randomize(k)
    dense = k(x).to_dense()
    print(f"{label}: kernel batch shape {tuple(k.batch_shape)}, dense {tuple(dense.shape)}")
    for ix in indices:
        ref = dense[ix]
        try:
            res = k(x)[ix]
            res = res.to_dense() if hasattr(res, "to_dense") else res
            if res.shape != ref.shape:
                raise AssertionError(f"shape {tuple(res.shape)} instead of {tuple(ref.shape)}")
            err = (res - ref).abs().max().item()
            viol = err > 1e-8
            print(f"  {'VIOLATION' if viol else 'ok       '}  lazy[{ix}]: max abs err {err:.2e}")
        except Exception as e:  # noqa
            viol = True
            print(f"  VIOLATION  lazy[{ix}]: raises {type(e).__name__}: {str(e)[:80]}")
        bad += viol


# controls: all members carry the full batch shape / un-batched member
run("control Scale[3,2](RBF[3,2])", ScaleKernel(RBFKernel(batch_shape=S([3, 2])), batch_shape=S([3, 2])), [1, (1, 0)])
run("control Scale[3,2](RBF[])", ScaleKernel(RBFKernel(), batch_shape=S([3, 2])), [1, (1, 0)])

# members with fewer batch dimensions
run(
    "Scale[3,2](RBF[2])",
    ScaleKernel(RBFKernel(batch_shape=S([2])), batch_shape=S([3, 2])),
    [1, (1, 0), (slice(None), 1), (Ellipsis, 1, slice(None), slice(None))],
)
run("RBF[3,2] + Linear[2]", RBFKernel(batch_shape=S([3, 2])) + LinearKernel(batch_shape=S([2])), [1, (1, 0)])
run(
    "Multitask[3,2](RBF[2])", MultitaskKernel(RBFKernel(batch_shape=S([2])), 2, batch_shape=S([3, 2])), [1, (1, 0)]
)
# members with size-1 batch dimensions
run("RBF[2,1] * RBF[1,3]", RBFKernel(batch_shape=S([2, 1])) * RBFKernel(batch_shape=S([1, 3])), [1, (1, 2), (0, 1)])
run("Scale[3,1](RBF[3,2])", ScaleKernel(RBFKernel(batch_shape=S([3, 2])), batch_shape=S([3, 1])), [(1, 1), (slice(None), 1)])

print("violations:", bad)
sys.exit(1 if bad else 0)
