#!/usr/bin/env python3
"""
C06 / bug 1: the derivative kernels (RBFKernelGrad, RBFKernelGradGrad, Matern52KernelGrad, PolynomialKernelGrad)
take the batch shape of the result from x1 ALONE (`batch_shape = x1.shape[:-2]`), so every batch-broadcast pattern
between x1, x2 and the kernel parameters raises, although the very same patterns work for every other kernel:

  (a) kernel with batch_shape=[2], un-batched x        (this is the example in the class docstring of RBFKernelGrad:
                                                        "covar = covar_module(x)  # Output: ... (2 x 60 x 60)")
  (b) un-batched kernel, x1: 2 x n x d, x2: m x d
  (c) un-batched kernel, x1: n x d, x2: 2 x m x d      (= transpose of (b))

Reference: the blocks computed one batch member at a time with an un-batched replica of the kernel.
Exit code 1 if the violation is present.
"""
import sys
import warnings

import torch

import gpytorch
from gpytorch.kernels import (
    Matern52KernelGrad,
    PolynomialKernelGrad,
    RBFKernel,
    RBFKernelGrad,
    RBFKernelGradGrad,
    ScaleKernel,
)

warnings.filterwarnings("ignore")
torch.manual_seed(0)
torch.set_default_dtype(torch.float64)

n, m, d = 4, 5, 3
x1 = torch.randn(n, d) * 0.5
x2 = torch.randn(m, d) * 0.5
xb1 = torch.randn(2, n, d) * 0.5
xb2 = torch.randn(2, m, d) * 0.5
B2 = torch.Size([2])

bad = 0


def dense(k, a, b):
    return k(a, b).to_dense()


def make(cls, batch_shape, **kw):
    k = cls(batch_shape=batch_shape, **kw)
    g = torch.Generator().manual_seed(3)
    for p in k.parameters():
        p.data = torch.empty(p.shape).normal_(generator=g) * 0.5
    return k.eval()


def member(cls, kb, i, **kw):
    """un-batched replica of batch member i of kb (parameters copied by hand)"""
    k = cls(**kw)
    for (_, p), (_, pb) in zip(k.named_parameters(), kb.named_parameters()):
        p.data = pb.data[i].clone().reshape(p.shape)
    return k.eval()


def check(label, fun, ref_fun):
    global bad
    ref = ref_fun()
    try:
        res = fun()
    except Exception as e:  # noqa
        bad += 1
        print(f"  VIOLATION  {label}: raises {type(e).__name__}: {str(e)[:90]}   (reference shape {tuple(ref.shape)})")
        return
    if res.shape != ref.shape:
        bad += 1
        print(f"  VIOLATION  {label}: shape {tuple(res.shape)} instead of {tuple(ref.shape)}")
        return
    err = (res - ref).abs().max().item()
    flag = "VIOLATION" if err > 1e-8 else "ok       "
    bad += err > 1e-8
    print(f"  {flag}  {label}: max abs err {err:.2e}")


for cls, kw in [
    (RBFKernel, {}),  # control: an ordinary kernel handles all three patterns
    (RBFKernelGrad, {}),
    (RBFKernelGradGrad, {}),
    (Matern52KernelGrad, {}),
    (PolynomialKernelGrad, {"power": 2}),
]:
    print(cls.__name__)
    # (a) batched kernel, un-batched inputs
    kb = make(cls, B2, **kw)
    check(
        "(a) kernel batch [2], x1: n x d, x2: m x d",
        lambda: dense(kb, x1, x2),
        lambda: torch.stack([dense(member(cls, kb, i, **kw), x1, x2) for i in range(2)]),
    )
    # (b), (c) un-batched kernel, one batched input
    k0 = make(cls, torch.Size([]), **kw)
    check(
        "(b) x1: 2 x n x d, x2: m x d",
        lambda: dense(k0, xb1, x2),
        lambda: torch.stack([dense(k0, xb1[i], x2) for i in range(2)]),
    )
    check(
        "(c) x1: n x d, x2: 2 x m x d",
        lambda: dense(k0, x1, xb2),
        lambda: torch.stack([dense(k0, x1, xb2[i]) for i in range(2)]),
    )

# the docstring example of RBFKernelGrad, literally
print("docstring example of RBFKernelGrad: ScaleKernel(RBFKernelGrad(batch_shape=[2]))(x), x = randn(10, 5)")
x = torch.randn(10, 5)
covar_module = ScaleKernel(RBFKernelGrad(batch_shape=torch.Size([2])))
try:
    shape = covar_module(x).to_dense().shape
    print("  shape", tuple(shape), "(documented: 2 x 60 x 60)")
    if tuple(shape) != (2, 60, 60):
        bad += 1
except Exception as e:  # noqa
    bad += 1
    print(f"  VIOLATION  raises {type(e).__name__}: {str(e)[:100]}")

print("violations:", bad)
sys.exit(1 if bad else 0)
