"""C12 / MultitaskGaussianLikelihood(rank=r < num_tasks, has_global_noise=False) on a Kronecker-structured
MultitaskMultivariateNormal: the returned marginal is not N(m, C + R).  Its dense covariance is C + R, but its
log_prob (and hence the exact marginal log likelihood) is off by n (t - r) log 10 because the likelihood hands
C + I (x) B B^T to SumKroneckerLinearOperator, which needs the (here singular) noise factor to be invertible."""
import math
import sys
import warnings

import torch
from linear_operator import to_linear_operator
from linear_operator.operators import KroneckerProductLinearOperator

from gpytorch.distributions import MultitaskMultivariateNormal
from gpytorch.likelihoods import MultitaskGaussianLikelihood

warnings.simplefilter("ignore")
torch.manual_seed(0)
torch.set_default_dtype(torch.float64)


def spd(n):
    A = torch.randn(n, n)
    return A @ A.T + 0.5 * torch.eye(n)


n, t = 4, 3
Kx, Kt = spd(n), spd(t)
mean = torch.randn(n, t)
y = torch.randn(n, t)
bad = 0
for rank, has_global in [(1, False), (2, False), (3, False), (1, True)]:
    torch.manual_seed(rank)
    lik = MultitaskGaussianLikelihood(num_tasks=t, rank=rank, has_global_noise=has_global)
    # what a MultitaskKernel produces: K_x (x) K_t, interleaved
    dist = MultitaskMultivariateNormal(
        mean, KroneckerProductLinearOperator(to_linear_operator(Kx), to_linear_operator(Kt))
    )
    D = lik.task_noise_covar.detach()
    if has_global:
        D = D + lik.noise.detach() * torch.eye(t)
    full = torch.kron(Kx, Kt) + torch.kron(torch.eye(n), D)  # C + R, positive definite
    ref = torch.distributions.MultivariateNormal(mean.reshape(-1), full).log_prob(y.reshape(-1)).item()

    out = lik(dist)
    cov_err = (out.covariance_matrix - full).abs().max().item()
    got = out.log_prob(y).item()
    print(
        f"rank={rank} has_global_noise={has_global}: dense cov err {cov_err:.1e}, min eig(C+R) "
        f"{torch.linalg.eigvalsh(full).min().item():.3f}; log_prob {got:.4f}  N(m, C+R).log_prob {ref:.4f}  "
        f"diff {got - ref:+.4f}  (n (t-r) log(10) / 2 = {n * (t - rank) * math.log(10) / 2:.4f})"
    )
    if abs(got - ref) > 1e-3:
        bad += 1

if bad:
    print("VIOLATION: marginal of the rank-deficient task-noise likelihood is not N(m, C + R)")
    sys.exit(1)
print("no violation")
sys.exit(0)
