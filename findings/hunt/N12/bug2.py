"""C12 / DirichletClassificationLikelihood: targets are documented as (... x N).  Targets of shape 1 x N give a
silently wrong fixed noise (all '+1' counts land in row 0 of alpha), targets of shape b x N raise IndexError."""
import sys
import warnings

import torch

from gpytorch.distributions import MultivariateNormal
from gpytorch.likelihoods import DirichletClassificationLikelihood

warnings.simplefilter("ignore")
torch.manual_seed(0)
torch.set_default_dtype(torch.float64)

labels = torch.tensor([0, 1, 2, 1, 0, 2])
N, C, eps = 6, 3, 0.01

# documented noise (Milios et al.): alpha = eps + onehot, sigma^2 = log(1/alpha + 1), laid out C x N
alpha = eps + torch.nn.functional.one_hot(labels, C).double()
R_ref = torch.log(1 / alpha + 1).T  # C x N

A = torch.randn(C, N, N)
K = A @ A.transpose(-1, -2) + 0.5 * torch.eye(N)
dist = MultivariateNormal(torch.randn(C, N), K)

bad = 0
lik0 = DirichletClassificationLikelihood(labels, alpha_epsilon=eps, dtype=torch.float64)
err0 = (lik0(dist).covariance_matrix - (K + torch.diag_embed(R_ref))).abs().max().item()
print(f"targets of shape N      : max |cov - (C + R)| = {err0:.3e}")

lik1 = DirichletClassificationLikelihood(labels.unsqueeze(0), alpha_epsilon=eps, dtype=torch.float64)
out1 = lik1(dist).covariance_matrix
err1 = (out1 - (K + torch.diag_embed(R_ref))).abs().max().item()
print(f"targets of shape 1 x N  : max |cov - (C + R)| = {err1:.3e}")
print("   added noise  :\n", (out1 - K).diagonal(dim1=-1, dim2=-2))
print("   documented   :\n", R_ref)
y_err = (lik1.transformed_targets - lik0.transformed_targets).abs().max().item()
print(f"   transformed regression targets differ by {y_err:.3e}")
bad += err1 > 1e-6

# the same at call time (targets= stands for the noise of those labels)
try:
    out = lik0(dist, targets=labels.unsqueeze(0)).covariance_matrix
    err = (out - (K + torch.diag_embed(R_ref))).abs().max().item()
    print(f"call-time targets 1 x N : max |cov - (C + R)| = {err:.3e}")
    bad += err > 1e-6
except Exception as e:  # noqa
    print("call-time targets 1 x N raised", type(e).__name__, e)
    bad += 1

try:
    lik2 = DirichletClassificationLikelihood(torch.stack([labels, labels.flip(0)]), alpha_epsilon=eps, dtype=torch.float64)
    R2 = torch.stack([R_ref, R_ref.flip(-1)])  # 2 x C x N
    err2 = (lik2.noise_covar.noise - R2).abs().max().item() if lik2.noise_covar.noise.shape == R2.shape else float("inf")
    print(f"targets of shape 2 x N  : noise error {err2:.3e}")
    bad += err2 > 1e-6
except Exception as e:  # noqa
    print("targets of shape 2 x N  : raised", type(e).__name__, str(e)[:120])
    bad += 1

if bad:
    print("VIOLATION: batched (... x N) targets give a wrong noise or raise")
    sys.exit(1)
print("no violation")
sys.exit(0)
