# Incomplete repair in commit 6518a7c ("LKJCovariancePrior sums the log densities of the standard deviations").
# The new reduction is applied only when log_prob_sd has MORE dimensions than log_prob_corr.  With eta given as a
# one-element tensor (batch shape (1,); the constructor then demands an sd_prior of batch shape (1,), e.g.
# GammaPrior(tensor([2.]), tensor([1.]))) and an unbatched n x n covariance, log_prob_corr has shape (1,) and the
# element-wise log_prob_sd has shape (n,): equal dimensionality, nothing is summed, and log_prob still has shape (n,)
# with the LKJ correlation term counted n times by the objective (which sums all entries) - the very defect the
# commit describes.  (The same prior evaluated on a 1 x n x n batch gives the right value.)  Old code: same defect.
import sys

import torch
from torch.distributions import LKJCholesky

from gpytorch.priors import GammaPrior, LKJCovariancePrior

torch.manual_seed(0)
n = 3
A = torch.randn(n, n)
S = A @ A.T + torch.eye(n)

sd = S.diagonal().sqrt()
C = S / (sd.unsqueeze(-1) * sd.unsqueeze(-2))
expected = LKJCholesky(n, torch.tensor(0.5)).log_prob(torch.linalg.cholesky(C)) + GammaPrior(2.0, 1.0).log_prob(sd).sum()

scalar = LKJCovariancePrior(n, 0.5, GammaPrior(2.0, 1.0)).log_prob(S)
prior1 = LKJCovariancePrior(n, torch.tensor([0.5]), GammaPrior(torch.tensor([2.0]), torch.tensor([1.0])))
one = prior1.log_prob(S)
one_batched = prior1.log_prob(S.unsqueeze(0))

print("expected density                      :", expected.item())
print("eta=0.5 (python float)                :", tuple(scalar.shape), scalar.sum().item())
print("eta=tensor([0.5]), X of shape 1 x n x n:", tuple(one_batched.shape), one_batched.sum().item())
print("eta=tensor([0.5]), X of shape n x n    :", tuple(one.shape), one.sum().item())

bad = one.numel() != 1 or abs(one.sum().item() - expected.item()) > 1e-4
print("PROBLEM PRESENT" if bad else "ok")
sys.exit(1 if bad else 0)
