# Regression of commit 4df3154 ("the noise setter of FixedNoiseGaussianLikelihood applies min_fixed_noise").
# The setter now sends every value through FixedGaussianNoise._lower_bounded, which asks
# settings.min_fixed_noise.value(dtype) and raises RuntimeError("Unsupported dtype for min_fixed_noise.") for any
# dtype other than float / double / half.  Before the commit the setter stored such tensors as given:
#   * an integer noise tensor (likelihood.noise = torch.tensor([1, 2, 3, 4])) gave a working likelihood,
#   * a likelihood converted with .to(torch.bfloat16) could be re-assigned its own (bfloat16) noise.
# (Commit 42b75d3 later guarded the call-time `noise=` path for exactly these dtypes, the setter was left out.)
import sys
import warnings

import torch

import gpytorch
from gpytorch.distributions import MultivariateNormal
from gpytorch.likelihoods import FixedNoiseGaussianLikelihood

warnings.simplefilter("ignore")
n = 4
bad = 0

# 1. integer noise
lik = FixedNoiseGaussianLikelihood(torch.full((n,), 0.1))
try:
    lik.noise = torch.tensor([1, 2, 3, 4])
    diag = lik(MultivariateNormal(torch.zeros(n), torch.eye(n))).covariance_matrix.diagonal()
    print("int64 noise: marginal diagonal", diag.tolist(), "(expected [2, 3, 4, 5])")
    if not torch.allclose(diag, torch.tensor([2.0, 3.0, 4.0, 5.0])):
        bad += 1
except Exception as e:
    print("int64 noise: setter raised", type(e).__name__, e)
    bad += 1

# 2. bfloat16 likelihood: re-assign (twice) the noise it already holds
lik = FixedNoiseGaussianLikelihood(torch.full((n,), 0.125)).to(torch.bfloat16)
print("bfloat16 likelihood holds noise of dtype", lik.noise_covar.noise.dtype)
try:
    lik.noise = lik.noise_covar.noise * 2
    print("bfloat16 noise: stored", lik.noise_covar.noise.tolist(), "(expected 0.25 everywhere)")
    if not torch.allclose(lik.noise_covar.noise.float(), torch.full((n,), 0.25)):
        bad += 1
except Exception as e:
    print("bfloat16 noise: setter raised", type(e).__name__, e)
    bad += 1

print("PROBLEM PRESENT" if bad else "ok")
sys.exit(1 if bad else 0)
