# Incomplete repair in commit 4df3154 ("the noise setter of FixedNoiseGaussianLikelihood applies min_fixed_noise").
# The commit adds a branch that converts non-tensor values (python numbers, lists, numpy) to a tensor "like every other
# setter".  Lists / numpy arrays now work, but a python number (likelihood.noise = 0.3, likelihood.initialize(noise=0.3))
# is stored as a 0-dim tensor, and FixedGaussianNoise.forward then evaluates self.noise.shape[-1]:
# every later call of the likelihood raises IndexError("tuple index out of range").
# The old code failed on the same input as well (AttributeError: 'float' object has no attribute 'shape'), so this is
# not a regression - the new number branch just does not deliver a usable likelihood (low severity).
import sys
import warnings

import torch

from gpytorch.distributions import MultivariateNormal
from gpytorch.likelihoods import FixedNoiseGaussianLikelihood

warnings.simplefilter("ignore")
n = 4
lik = FixedNoiseGaussianLikelihood(torch.full((n,), 0.1))
lik.noise = 0.3
print("stored noise:", repr(lik.noise_covar.noise))
bad = False
try:
    diag = lik(MultivariateNormal(torch.zeros(n), torch.eye(n))).covariance_matrix.diagonal()
    print("marginal diagonal:", diag.tolist(), "(expected 1.3 everywhere)")
    bad = not torch.allclose(diag, torch.full((n,), 1.3))
except Exception as e:
    print("calling the likelihood raised", type(e).__name__, e)
    bad = True
print("PROBLEM PRESENT" if bad else "ok")
sys.exit(1 if bad else 0)
