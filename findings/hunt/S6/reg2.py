# Regression seed for commit 149bbad
#   "fix: LikelihoodList.expected_log_prob and pyro_sample_output split a per-member noise list"
# Problem: before the commit the ONLY working way to give call-time noise to LikelihoodList.expected_log_prob was one
# noise tensor shared by all members (a list raised AttributeError).  Such calls now break: the tensor is iterated
# along its first dimension as if it were the per-member list.
#   * 3 test points, 2 members  -> ValueError from length_safe_zip (lengths [2, 2, 3])
#   * 1 member, 3 test points   -> ValueError (lengths [1, 1, 3])
#   * 2 test points, 2 members  -> every member receives ONE scalar of the tensor (0-dim noise) -> IndexError
# The old code returned the expected log probabilities with the shared noise for all three.
import math
import sys
import warnings

import torch

warnings.simplefilter("ignore")
from gpytorch.distributions import MultivariateNormal  # noqa: E402
from gpytorch.likelihoods import FixedNoiseGaussianLikelihood, LikelihoodList  # noqa: E402

torch.manual_seed(0)


def expected(y, f, noise):
    return -0.5 * (((y - f.mean) ** 2 + f.variance) / noise + noise.log() + math.log(2 * math.pi))


def mk(n):
    return MultivariateNormal(torch.randn(n), torch.eye(n)), torch.randn(n)


bad = 0
two = LikelihoodList(FixedNoiseGaussianLikelihood(torch.rand(5) + 0.1), FixedNoiseGaussianLikelihood(torch.rand(5) + 0.1))
one = LikelihoodList(FixedNoiseGaussianLikelihood(torch.rand(5) + 0.1))
for name, lik, n in [("2 members, 3 test points", two, 3), ("1 member, 3 test points", one, 3), ("2 members, 2 test points", two, 2)]:
    noise = torch.linspace(0.1, 0.5, n)
    pairs = [mk(n) for _ in lik.likelihoods]
    want = [expected(y, f, noise) for f, y in pairs]
    try:
        got = lik.expected_log_prob(*[(y, f) for f, y in pairs], noise=noise)
    except Exception as e:  # noqa: BLE001
        print("%s: shared noise tensor raised %s: %s" % (name, type(e).__name__, str(e)[:90]))
        bad += 1
        continue
    same = all(g.shape == w.shape and torch.allclose(g, w, atol=1e-5) for g, w in zip(got, want))
    print("%s: got %s want %s same=%s" % (name, [g.tolist() for g in got], [w.tolist() for w in want], same))
    bad += not same
if bad:
    print("PROBLEM PRESENT: a noise tensor shared by the members is no longer accepted by expected_log_prob")
sys.exit(1 if bad else 0)
