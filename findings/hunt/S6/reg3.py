# Regression seed for commit c411886
#   "fix: arithmetic on a MultitaskMultivariateNormal keeps its interleaved flag"
# Problem: add_jitter / __add__(number) / __mul__ now build their result through _new_like, which
#   * in MultivariateNormal calls self.__class__(mean=..., covariance_matrix=...) BY KEYWORD, where add_jitter and
#     `dist + number` used to call self.__class__(mean, covar) positionally: a sub-class whose constructor names its
#     two parameters differently now raises TypeError in add_jitter and `+ number` (both worked before);
#   * in MultitaskMultivariateNormal always passes interleaved=self._interleaved: a sub-class that fixes the layout in
#     its own constructor (no `interleaved` parameter) now raises TypeError in add_jitter, `+ number` and `* number`.
#     Before the commit these worked AND were correct (the sub-class constructor chose the task-major layout itself).
import sys
import warnings

import torch

warnings.simplefilter("ignore")
from gpytorch.distributions import MultitaskMultivariateNormal, MultivariateNormal  # noqa: E402


class LocCovarNormal(MultivariateNormal):
    def __init__(self, loc, covar):
        super().__init__(loc, covar)


class TaskMajorNormal(MultitaskMultivariateNormal):
    """A multitask normal that is always task-major."""

    def __init__(self, mean, covariance_matrix, validate_args=False):
        super().__init__(mean, covariance_matrix, validate_args=validate_args, interleaved=False)


bad = 0


def check(name, fn, want):
    global bad
    try:
        got = fn()
    except Exception as e:  # noqa: BLE001
        print("%-40s raised %s: %s" % (name, type(e).__name__, e))
        bad += 1
        return
    same = torch.allclose(got, want)
    print("%-40s got %s want %s same=%s" % (name, got.tolist(), want.tolist(), same))
    bad += not same


m = LocCovarNormal(torch.zeros(3), torch.eye(3))
check("LocCovarNormal.add_jitter(0.5).variance", lambda: m.add_jitter(0.5).variance, torch.full((3,), 1.5))
check("(LocCovarNormal + 1.0).mean", lambda: (m + 1.0).mean, torch.ones(3))

# task-major covariance of 3 points x 2 tasks: task 0 has variance 1, task 1 has variance 2
tm = TaskMajorNormal(torch.zeros(3, 2), torch.diag(torch.tensor([1.0, 1.0, 1.0, 2.0, 2.0, 2.0])))
var = torch.tensor([[1.0, 2.0]] * 3)
print("TaskMajorNormal variance", tm.variance.tolist())
check("TaskMajorNormal.add_jitter(0.5).variance", lambda: tm.add_jitter(0.5).variance, var + 0.5)
check("(TaskMajorNormal + 1.0).variance", lambda: (tm + 1.0).variance, var)
check("(TaskMajorNormal * 2).variance", lambda: (tm * 2).variance, var * 4)
if bad:
    print("PROBLEM PRESENT: %d arithmetic operations on sub-classes fail that worked before commit c411886" % bad)
sys.exit(1 if bad else 0)
