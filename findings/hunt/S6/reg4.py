# Seed for commit c411886 (incomplete repair)
#   "fix: arithmetic on a MultitaskMultivariateNormal keeps its interleaved flag"
# The commit makes `a + b` keep a's interleaved flag, but __add__ still adds the two lazy covariance matrices entry by
# entry without looking at b's flag.  Adding a task-major distribution (from_independent_mvns) and an interleaved one
# with identical marginals therefore pairs b's covariance with the wrong (point, task) entries - the very defect the
# commit describes, one operand further.  (Old code: equally wrong; new code: still wrong, in both operand orders.)
import sys
import warnings

import torch

warnings.simplefilter("ignore")
from gpytorch.distributions import MultitaskMultivariateNormal, MultivariateNormal  # noqa: E402

N, T = 3, 2
# task-major: task i has variance i + 1 at every point
X = MultitaskMultivariateNormal.from_independent_mvns(
    [MultivariateNormal(torch.zeros(N), torch.eye(N) * (i + 1)) for i in range(T)]
)
# interleaved, same marginals
Y = MultitaskMultivariateNormal(torch.zeros(N, T), torch.diag(torch.tensor([1.0, 2.0] * N)), interleaved=True)
print("X interleaved=%s variance=%s" % (X._interleaved, X.variance.tolist()))
print("Y interleaved=%s variance=%s" % (Y._interleaved, Y.variance.tolist()))
assert torch.allclose(X.variance, Y.variance)
want = X.variance + Y.variance
bad = 0
for name, fn in [("X + Y", lambda: X + Y), ("Y + X", lambda: Y + X)]:
    try:
        got = fn().variance
    except Exception as e:  # noqa: BLE001  (a clear refusal of mixed layouts would be acceptable)
        print("%s raised %s: %s  (acceptable)" % (name, type(e).__name__, e))
        continue
    same = torch.allclose(got, want, atol=1e-5)
    print("%s: variance %s want %s same=%s" % (name, got.tolist(), want.tolist(), same))
    bad += not same
if bad:
    print("PROBLEM PRESENT: adding multitask normals of different layouts silently mixes up the covariance")
sys.exit(1 if bad else 0)
