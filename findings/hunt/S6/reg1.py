# Regression seed for commit 149bbad
#   "fix: LikelihoodList.expected_log_prob and pyro_sample_output split a per-member noise list"
# Problem: an explicit noise=None ("no call-time noise", what a wrapper forwarding an Optional noise passes) used to be
# handed on to every member, and FixedGaussianNoise / FixedNoiseGaussianLikelihood treat noise=None as "use the stored
# noise".  The new code tests `"noise" in kwargs` and then zips the members with None -> TypeError: 'NoneType' object
# is not iterable.  The code before the commit returned the same values as the call without the keyword.
import sys
import warnings

import torch

warnings.simplefilter("ignore")
from gpytorch.distributions import MultivariateNormal  # noqa: E402
from gpytorch.likelihoods import FixedNoiseGaussianLikelihood, LikelihoodList  # noqa: E402

torch.manual_seed(0)
n = 4
lik = LikelihoodList(
    FixedNoiseGaussianLikelihood(torch.rand(n) + 0.1), FixedNoiseGaussianLikelihood(torch.rand(n) + 0.1)
)
f1, f2 = (MultivariateNormal(torch.randn(n), torch.eye(n)) for _ in range(2))
y1, y2 = torch.randn(n), torch.randn(n)

reference = lik.expected_log_prob((y1, f1), (y2, f2))
print("expected_log_prob without noise keyword:", [r.tolist() for r in reference])
try:
    res = lik.expected_log_prob((y1, f1), (y2, f2), noise=None)
except Exception as e:  # noqa: BLE001
    print("expected_log_prob(..., noise=None) raised %s: %s" % (type(e).__name__, e))
    print("PROBLEM PRESENT: noise=None is no longer accepted by LikelihoodList.expected_log_prob")
    sys.exit(1)
print("expected_log_prob(..., noise=None):      ", [r.tolist() for r in res])
ok = all(torch.allclose(a, b) for a, b in zip(reference, res))
print("same values:", ok)
sys.exit(0 if ok else 1)
