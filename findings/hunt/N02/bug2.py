"""C02: batch of b independent multitask GPs (data batch shape (b,)) sharing ONE non-batch
MultitaskGaussianLikelihood(num_tasks=t, noise_prior=...).  The prior on the t task noises (shape (t,)) is a
single scalar term sum_k log p(task_noise_k) for every batch element.  The library treats the leading (task)
dimension of the prior's log_prob as a batch dimension: with b == t it adds log p(task_noise_i) to batch
element i only, with b != t it raises."""
import sys
import torch, gpytorch
from gpytorch.priors import GammaPrior

torch.manual_seed(0)
torch.set_default_dtype(torch.float64)


class MT(gpytorch.models.ExactGP):
    def __init__(self, x, y, lik, t):
        super().__init__(x, y, lik)
        self.mean_module = gpytorch.means.MultitaskMean(gpytorch.means.ZeroMean(), num_tasks=t)
        self.covar_module = gpytorch.kernels.MultitaskKernel(gpytorch.kernels.RBFKernel(), num_tasks=t, rank=1)

    def forward(self, x):
        return gpytorch.distributions.MultitaskMultivariateNormal(self.mean_module(x), self.covar_module(x))


def run(b, t=3, n=4):
    x = torch.randn(b, n, 1)
    y = torch.randn(b, n, t)
    prior = GammaPrior(2.0, 3.0)
    lik = gpytorch.likelihoods.MultitaskGaussianLikelihood(num_tasks=t, noise_prior=prior)
    lik.task_noises = torch.tensor([0.1, 0.5, 1.5])
    lik.noise = torch.tensor([0.3])
    model = MT(x, y, lik, t)
    model.train(), lik.train()
    mll = gpytorch.mlls.ExactMarginalLogLikelihood(lik, model)
    out = model(x)
    marg = lik(out)
    dense = torch.distributions.MultivariateNormal(marg.mean.reshape(b, -1), marg.covariance_matrix).log_prob(
        y.reshape(b, -1)
    )
    names = [nm for nm, *_ in model.named_priors()]
    lp = prior.log_prob(lik.task_noises).sum() + prior.log_prob(lik.noise).sum()  # scalar, same for every b
    ref = (dense + lp) / (n * t)
    try:
        val = mll(out, y)
    except Exception as e:  # noqa
        print(f"b={b}, t={t}, priors={names}: mll raised {e!r}")
        return True
    err = (val - ref).abs().max().item()
    print(f"b={b}, t={t}, priors={names}:\n mll       = {val.detach()}\n reference = {ref.detach()}\n max abs err = {err:.3e}")
    return err > 1e-8


bad = run(3)
bad = run(2) or bad
sys.exit(1 if bad else 0)
