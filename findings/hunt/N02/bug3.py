"""C02: exact MLL with observation_nan_policy('mask') on a NON-interleaved MultitaskMultivariateNormal.
The mask is built in (n, t) row-major (= interleaved) order and applied unchanged to a covariance matrix that
is laid out task-major, so mean/targets and covariance rows no longer belong together."""
import sys
import torch, gpytorch

torch.manual_seed(0)
torch.set_default_dtype(torch.float64)
n, t = 5, 3


class MT(gpytorch.models.ExactGP):
    def __init__(self, x, y, lik, interleaved):
        super().__init__(x, y, lik)
        self.mean_module = gpytorch.means.MultitaskMean(gpytorch.means.ConstantMean(), num_tasks=t)
        self.covar_module = gpytorch.kernels.MultitaskKernel(gpytorch.kernels.RBFKernel(), num_tasks=t, rank=1)
        self.interleaved = interleaved

    def forward(self, x):
        m, K = self.mean_module(x), self.covar_module(x)
        if self.interleaved:
            return gpytorch.distributions.MultitaskMultivariateNormal(m, K)
        perm = torch.arange(n * t).view(n, t).t().reshape(-1)  # interleaved -> task-major
        Kd = K.to_dense()[..., perm, :][..., :, perm]
        return gpytorch.distributions.MultitaskMultivariateNormal(m, Kd, interleaved=False)


x = torch.randn(n, 2)
y = torch.randn(n, t)
y_nan = y.clone()
y_nan[1, 2] = float("nan")
y_nan[3, 0] = float("nan")
mask = ~torch.isnan(y_nan)

vals = {}
for interleaved in (True, False):
    torch.manual_seed(1)
    lik = gpytorch.likelihoods.MultitaskGaussianLikelihood(num_tasks=t, rank=0)
    lik.task_noises = torch.tensor([0.2, 0.6, 1.1])
    model = MT(x, y_nan, lik, interleaved)
    model.covar_module.task_covar_module.covar_factor.data = torch.tensor([[1.0], [-0.5], [0.8]])
    model.mean_module.base_means[0].constant.data.fill_(0.7)
    model.mean_module.base_means[2].constant.data.fill_(-0.7)
    model.train(), lik.train()
    mll = gpytorch.mlls.ExactMarginalLogLikelihood(lik, model)
    out = model(x)
    marg = lik(out)
    # dense reference on the observed entries, in the layout of the covariance matrix
    if interleaved:
        mf, mm, yy = mask.reshape(-1), marg.mean.reshape(-1), y_nan.reshape(-1)
    else:
        mf, mm, yy = mask.t().reshape(-1), marg.mean.t().reshape(-1), y_nan.t().reshape(-1)
    K = marg.covariance_matrix[mf][:, mf]
    ref = torch.distributions.MultivariateNormal(mm[mf], K).log_prob(yy[mf]) / mf.sum()
    with gpytorch.settings.observation_nan_policy("mask"):
        val = mll(out, y_nan)
    vals[interleaved] = (val.item(), ref.item())
    print(f"interleaved={interleaved}: mll = {val.item():.10f}  dense reference = {ref.item():.10f}  "
          f"abs err = {abs(val.item() - ref.item()):.3e}")

print("the two layouts describe the same model: references differ by",
      abs(vals[True][1] - vals[False][1]))
bad = abs(vals[False][0] - vals[False][1]) > 1e-8 or abs(vals[True][0] - vals[True][1]) > 1e-8
sys.exit(1 if bad else 0)
