"""C02: exact MLL with TWO batch dimensions and a prior on a hyperparameter whose batch shape has fewer
dimensions than the MLL's (kernel batch_shape (b2,) under data of batch shape (b1, b2)).
The prior term of batch element j must be added to mll[i, j]; the library adds prior[i] to mll[i, j]
(b1 == b2) or raises (b1 != b2)."""
import sys
import torch, gpytorch
from gpytorch.priors import GammaPrior

torch.manual_seed(0)
torch.set_default_dtype(torch.float64)


class GP(gpytorch.models.ExactGP):
    def __init__(self, x, y, lik, kern):
        super().__init__(x, y, lik)
        self.mean_module = gpytorch.means.ZeroMean()
        self.covar_module = kern

    def forward(self, x):
        return gpytorch.distributions.MultivariateNormal(self.mean_module(x), self.covar_module(x))


def run(b1, b2, n=5):
    x = torch.randn(b1, b2, n, 1)
    y = torch.randn(b1, b2, n)
    prior = GammaPrior(2.0, 3.0)
    kern = gpytorch.kernels.RBFKernel(batch_shape=torch.Size([b2]), lengthscale_prior=prior)
    kern.lengthscale = torch.linspace(0.5, 2.0, b2).view(b2, 1, 1)
    lik = gpytorch.likelihoods.GaussianLikelihood()
    model = GP(x, y, lik, kern)
    model.train(), lik.train()
    mll = gpytorch.mlls.ExactMarginalLogLikelihood(lik, model)
    out = model(x)
    # dense reference: log N(y; m, K + s2 I) + log p(lengthscale_j), per batch element (i, j), / n
    marg = lik(out)
    dense = torch.distributions.MultivariateNormal(marg.mean, marg.covariance_matrix).log_prob(y)  # (b1, b2)
    lp = prior.log_prob(kern.lengthscale).view(b2)  # one term per kernel batch element j
    ref = (dense + lp.view(1, b2)) / n
    try:
        val = mll(out, y)
    except Exception as e:  # noqa
        print(f"batch ({b1},{b2}): mll raised {e!r}")
        return True
    err = (val - ref).abs().max().item()
    print(f"batch ({b1},{b2}): mll =\n{val.detach()}\nreference =\n{ref.detach()}\nmax abs err = {err:.3e}")
    return err > 1e-8


bad = run(2, 2)
bad = run(3, 2) or bad
sys.exit(1 if bad else 0)
