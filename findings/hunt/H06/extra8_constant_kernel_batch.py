#!/usr/bin/env python3
"""Extra (C06): ConstantKernel ignores its own batch_shape when broadcasting: with batch_shape=(2,) and un-batched
inputs the lazy tensor announces shape (2,n,m) but evaluation raises (constant.expand(shape) with shape built from
x1/x2 batch shapes only; constant_kernel.py forward).  Every other kernel broadcasts parameters against the inputs."""
import sys, warnings, torch, gpytorch
from gpytorch.kernels import ConstantKernel, RBFKernel
warnings.filterwarnings("ignore"); torch.set_default_dtype(torch.float64); torch.manual_seed(0)
k = ConstantKernel(batch_shape=torch.Size([2])); k.constant = torch.tensor([0.5, 2.0])
x1, x2 = torch.rand(3, 2), torch.rand(4, 2)
ref = k.constant.detach().view(2, 1, 1).expand(2, 3, 4)
print("RBFKernel(batch_shape=[2]) on the same inputs ->", tuple(RBFKernel(batch_shape=torch.Size([2]))(x1, x2).to_dense().shape))
L = k(x1, x2); print("lazy shape:", tuple(L.shape))
bad = False
for desc, f in [("lazy.to_dense()", lambda: L.to_dense()), ("diag=True", lambda: k(x1, x1, diag=True)), ("lazy[1]", lambda: k(x1, x2)[1].to_dense())]:
    try:
        got = f(); r = ref if got.dim() == 3 else (ref[:, :, 0][:, :3] if got.dim() == 2 and desc == "diag=True" else ref[1])
        e = (got - r).abs().max().item() if got.shape == r.shape else float("inf"); print(f"{desc}: err {e:.3e}"); bad |= e > 1e-8
    except Exception as e:
        print(f"{desc}: raised {type(e).__name__}: {str(e)[:90]}  <-- VIOLATION"); bad = True
print("VIOLATION PRESENT" if bad else "no violation"); sys.exit(1 if bad else 0)
