#!/usr/bin/env python3
"""Extra (C06): IndexKernel: kernel(i, diag=True) works, but the diagonal of the lazily evaluated tensor raises.
Kernel.__call__ has a fallback for kernels whose forward ignores diag (takes .diagonal() of the full matrix);
LazyEvaluatedKernelTensor._diagonal bypasses Kernel.__call__ (super(Kernel, kernel).__call__) and has no such fallback."""
import sys, warnings, torch, gpytorch
from gpytorch.kernels import IndexKernel
warnings.filterwarnings("ignore"); torch.set_default_dtype(torch.float64); torch.manual_seed(0)
k = IndexKernel(num_tasks=3, rank=2); i1 = torch.tensor([[0], [2], [1], [2]])
with gpytorch.settings.lazily_evaluate_kernels(False): ref = k(i1, i1).to_dense().diagonal()
d1 = k(i1, diag=True); print("kernel(i, diag=True) err:", (d1 - ref).abs().max().item())
bad = False
for name, dbg in [("debug on", True), ("debug off", False)]:
    try:
        with gpytorch.settings.debug(dbg):
            d2 = k(i1).diagonal(dim1=-1, dim2=-2)
        e = (d2 - ref).abs().max().item(); print(f"kernel(i).diagonal() [{name}] err: {e:.3e}"); bad |= e > 1e-8
    except Exception as e:
        print(f"kernel(i).diagonal() [{name}] raised {type(e).__name__}: {str(e)[:100]}  <-- VIOLATION"); bad = True
print("VIOLATION PRESENT" if bad else "no violation"); sys.exit(1 if bad else 0)
