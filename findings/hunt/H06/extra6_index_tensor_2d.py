#!/usr/bin/env python3
"""Extra (C06): a multi-dimensional index tensor in the COLUMN position of a lazy kernel tensor gives wrong numbers
(un-batched kernel, un-batched inputs).  dense[0:2, idx] with idx of shape (2,2) has layout (row, a, b);
LazyEvaluatedKernelTensor._getitem evaluates kernel(x1[0:2], x2[idx]) where x2[idx] is (2,2,d), i.e. treats the first
index dim as a *batch* dim -> layout (a, row, b).  Same shape here, different numbers.  DenseLinearOperator is right."""
import sys, warnings, torch, gpytorch
from gpytorch.kernels import RBFKernel
from linear_operator.operators import DenseLinearOperator
warnings.filterwarnings("ignore"); torch.set_default_dtype(torch.float64); torch.manual_seed(0)
k = RBFKernel(); x1, x2 = torch.rand(3, 2), torch.rand(4, 2)
with gpytorch.settings.lazily_evaluate_kernels(False): K = k(x1, x2).to_dense()
idx = torch.tensor([[0, 1], [2, 2]])
bad = False
for desc, f in [("[0:2, idx2d]", lambda A: A[0:2, idx]), ("[:, idx2d]", lambda A: A[:, idx]), ("[idx2d, 1:3] (control)", lambda A: A[idx, 1:3])]:
    ref = f(K); base = f(DenseLinearOperator(K)); base = base if torch.is_tensor(base) else base.to_dense()
    got = f(k(x1, x2)); got = got if torch.is_tensor(got) else got.to_dense()
    if got.shape != ref.shape:
        print(f"{desc:26s} lazy shape {tuple(got.shape)} vs dense {tuple(ref.shape)}  <-- VIOLATION (DenseLinearOperator err {(base-ref).abs().max().item():.1e})"); bad = True
    else:
        e = (got - ref).abs().max().item()
        print(f"{desc:26s} max|lazy - dense| = {e:.3e} (DenseLinearOperator err {(base-ref).abs().max().item():.1e})" + ("  <-- VIOLATION" if e > 1e-8 else "")); bad |= e > 1e-8
print("VIOLATION PRESENT" if bad else "no violation"); sys.exit(1 if bad else 0)
