#!/usr/bin/env python3
"""Extra (C06): RBFKernelGradGrad cannot compute a rectangular cross-covariance K(x1, x2) with n1 != n2.
K(x1,x2) must equal the off-diagonal block of K on the stacked inputs and K(x2,x1)^T; instead forward raises
(rbf_kernel_gradgrad.py: K_31 uses douter1dx2.transpose(-1,-2), which has shape (n2*d, n1) instead of (n1*d, n2))."""
import sys, warnings, torch, gpytorch
from gpytorch.kernels import RBFKernelGradGrad
warnings.filterwarnings("ignore"); torch.set_default_dtype(torch.float64); torch.manual_seed(0)
k = RBFKernelGradGrad(); k.lengthscale = 0.8
n1, n2, d = 3, 2, 2
x1, x2 = torch.randn(n1, d), torch.randn(n2, d)
T = 2 * d + 1
with gpytorch.settings.lazily_evaluate_kernels(False):
    Ks = k(torch.cat([x1, x2]), torch.cat([x1, x2])).to_dense()   # square call works
    ref12 = Ks[: n1 * T, n1 * T:]
    bad = False
    for name, a, b, ref in [("K(x1,x2)", x1, x2, ref12), ("K(x2,x1)", x2, x1, Ks[n1 * T:, : n1 * T])]:
        try:
            K = k(a, b).to_dense()
            err = (K - ref).abs().max().item()
            print(f"{name}: max|K - block of stacked K| = {err:.3e}"); bad |= err > 1e-8
        except Exception as e:
            print(f"{name} (n1={a.shape[0]}, n2={b.shape[0]}) raised {type(e).__name__}: {str(e)[:90]}  <-- VIOLATION"); bad = True
    x2s = torch.randn(n1, d)  # control: n1 == n2 works and matches the block
    Kc = k(x1, x2s).to_dense(); Kss = k(torch.cat([x1, x2s]), torch.cat([x1, x2s])).to_dense()
    print("control n1 == n2: max|K(x1,x2') - block| =", (Kc - Kss[: n1 * T, n1 * T:]).abs().max().item())
print("VIOLATION PRESENT" if bad else "no violation"); sys.exit(1 if bad else 0)
