#!/usr/bin/env python3
"""C06 violation 1: batch-indexing a LazyEvaluatedKernelTensor does not commute with evaluation when the
kernel has FEWER batch dimensions than the (broadcast) inputs.

kernel batch_shape = (3,), x1/x2 batch shape = (2, 3)  ->  covariance has batch shape (2, 3).
lazy[1] must equal dense[1] (shape 3 x n x m, one lengthscale per entry of the trailing batch dim).
Instead LazyEvaluatedKernelTensor._getitem applies the index (1, :) literally to the kernel parameters of
shape (3, 1, 1): the leading index `1` meant for the x-batch dimension picks lengthscale #1 and the result is
computed with that single lengthscale for all three batch members -- silently wrong numbers.
"""
import sys
import warnings

import torch

import gpytorch
from gpytorch.kernels import MaternKernel, RBFKernel

warnings.filterwarnings("ignore")
torch.set_default_dtype(torch.float64)
torch.manual_seed(0)

TOL = 1e-8
bad = False


def dense(k, a, b):
    with gpytorch.settings.lazily_evaluate_kernels(False):
        return k(a, b).to_dense()


def check(desc, got, ref):
    global bad
    got = got if torch.is_tensor(got) else got.to_dense()
    if got.shape != ref.shape:
        print(f"{desc:38s} SHAPE lazy {tuple(got.shape)} vs dense {tuple(ref.shape)}  <-- VIOLATION")
        bad = True
        return
    err = (got - ref).abs().max().item()
    flag = "  <-- VIOLATION" if err > TOL else ""
    print(f"{desc:38s} max|lazy[idx] - dense[idx]| = {err:.3e}{flag}")
    bad = bad or err > TOL


B3 = torch.Size([3])
ls = torch.tensor([0.3, 1.0, 3.0])
for name, cls, kw in [
    ("RBFKernel(batch_shape=[3])", RBFKernel, {}),
    ("MaternKernel(nu=1.5, ard_num_dims=2, batch_shape=[3])", MaternKernel, dict(nu=1.5, ard_num_dims=2)),
]:
    k = cls(batch_shape=B3, **kw)
    k.lengthscale = ls.view(3, 1, 1).expand(k.lengthscale.shape)
    x1 = torch.randn(2, 3, 4, 2)
    x2 = torch.randn(2, 3, 5, 2)
    K = dense(k, x1, x2)  # eager reference, shape 2 x 3 x 4 x 5
    # independent reference: loop over batch entries with single (non-batch) kernels
    ref = torch.zeros_like(K)
    for i in range(2):
        for j in range(3):
            kk = cls(**kw)
            kk.lengthscale = ls[j].item()
            ref[i, j] = dense(kk, x1[i, j], x2[i, j])
    print(f"== {name}; x batch (2,3); eager vs per-entry loop: {(K - ref).abs().max().item():.1e}")
    check("lazy full to_dense()", k(x1, x2), K)
    check("lazy[1]", k(x1, x2)[1], K[1])
    check("lazy[0]", k(x1, x2)[0], K[0])
    check("lazy[1, :, :2, :3]", k(x1, x2)[1, :, :2, :3], K[1, :, :2, :3])
    check("lazy[1, :, 2]   (one row)", k(x1, x2)[1, :, 2], K[1, :, 2])
    check("lazy.transpose(-1,-2)[1]", k(x1, x2).transpose(-1, -2)[1], K.transpose(-1, -2)[1])
    for desc, f in [("lazy[1, 1:]", lambda A: A[1, 1:]), ("lazy[tensor([1,0])]", lambda A: A[torch.tensor([1, 0])])]:
        try:
            check(desc, f(k(x1, x2)), f(K))
        except Exception as e:  # noqa
            print(f"{desc:38s} raised {type(e).__name__}: {str(e)[:80]}  <-- VIOLATION")
            bad = True
    # sanity: indices that address the kernel's own batch dim are fine
    check("lazy[:, 1]   (control)", k(x1, x2)[:, 1], K[:, 1])
    check("lazy[0, 1]   (control)", k(x1, x2)[0, 1], K[0, 1])

print("VIOLATION PRESENT" if bad else "no violation")
sys.exit(1 if bad else 0)
