#!/usr/bin/env python3
"""C06 violation 2: repetition / batch-transposition of a lazily evaluated kernel tensor does not commute with
evaluation as soon as the kernel itself has batch parameters.

LazyEvaluatedKernelTensor.repeat (and the inherited _permute_batch used by .transpose(0, 1) / .permute, and
_unsqueeze_batch) only transform x1 and x2; the kernel (whose parameters carry the same batch dimensions) is
passed on unchanged.
 * lazy.repeat(2, 1, 1) with kernel batch (2,) and x batch (2,)  -> x batch becomes (4,), kernel stays (2,) -> raises
 * same with x un-batched                                        -> silently returns shape (2,n,m), not (4,n,m)
 * lazy.transpose(0, 1) with kernel batch (2, 2)                 -> x is permuted, lengthscales are not -> wrong numbers
"""
import sys
import warnings

import torch

import gpytorch
from gpytorch.kernels import RBFKernel

warnings.filterwarnings("ignore")
torch.set_default_dtype(torch.float64)
torch.manual_seed(0)
TOL = 1e-8
bad = False


def dense(k, a, b):
    with gpytorch.settings.lazily_evaluate_kernels(False):
        return k(a, b).to_dense()


def check(desc, f, k, x1, x2):
    global bad
    ref = f(dense(k, x1, x2))
    try:
        got = f(k(x1, x2))
        shape = tuple(got.shape)
        if shape != tuple(ref.shape):
            print(f"{desc:52s} SHAPE lazy {shape} vs dense {tuple(ref.shape)}  <-- VIOLATION")
            bad = True
            return
        got = got if torch.is_tensor(got) else got.to_dense()
    except Exception as e:  # noqa
        print(f"{desc:52s} raised {type(e).__name__}: {str(e)[:70]}  <-- VIOLATION")
        bad = True
        return
    err = (got - ref).abs().max().item()
    print(f"{desc:52s} max|op(lazy) - op(dense)| = {err:.3e}" + ("  <-- VIOLATION" if err > TOL else ""))
    bad = bad or err > TOL


# ---- kernel batch (2,), inputs batch (2,): the plain fully-batched configuration
k = RBFKernel(batch_shape=torch.Size([2]))
k.lengthscale = torch.tensor([0.2, 2.0]).view(2, 1, 1)
x1, x2 = torch.rand(2, 3, 2), torch.rand(2, 4, 2)
print("kernel batch (2,), x batch (2,)")
check("  repeat(1, 2, 3)   (control: rows/cols only)", lambda A: A.repeat(1, 2, 3), k, x1, x2)
check("  repeat(2, 1, 1)", lambda A: A.repeat(2, 1, 1), k, x1, x2)
check("  repeat(3, 2, 1, 1)", lambda A: A.repeat(3, 2, 1, 1), k, x1, x2)

# ---- kernel batch (2,), inputs un-batched
xa, xb = torch.rand(3, 2), torch.rand(4, 2)
print("kernel batch (2,), x un-batched")
check("  repeat(2, 1, 1)", lambda A: A.repeat(2, 1, 1), k, xa, xb)

# ---- un-batched kernel, x1 batch (3,1), x2 batch (2,) (broadcast to (3,2))
k0 = RBFKernel()
xc, xd = torch.rand(3, 1, 3, 2), torch.rand(2, 4, 2)
print("un-batched kernel, x1 batch (3,1), x2 batch (2,)")
check("  repeat(2, 1, 1, 1)", lambda A: A.repeat(2, 1, 1, 1), k0, xc, xd)

# ---- kernel batch (2,2): transposing the two batch dimensions
k2 = RBFKernel(batch_shape=torch.Size([2, 2]))
k2.lengthscale = torch.tensor([[0.2, 0.5], [1.0, 3.0]]).view(2, 2, 1, 1)
x1, x2 = torch.rand(2, 2, 3, 2), torch.rand(2, 2, 4, 2)
print("kernel batch (2,2), x batch (2,2)")
check("  transpose(-1, -2)  (control)", lambda A: A.transpose(-1, -2), k2, x1, x2)
check("  transpose(0, 1)", lambda A: A.transpose(0, 1), k2, x1, x2)
check("  permute(1, 0, 2, 3)", lambda A: A.permute(1, 0, 2, 3), k2, x1, x2)
check("  repeat(1, 2, 1, 1)", lambda A: A.repeat(1, 2, 1, 1), k2, x1, x2)

print("VIOLATION PRESENT" if bad else "no violation")
sys.exit(1 if bad else 0)
