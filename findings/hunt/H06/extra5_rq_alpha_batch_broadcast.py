#!/usr/bin/env python3
"""Extra (C06): RQKernel mis-broadcasts its batched alpha when the inputs have more batch dims than the kernel.
kernel batch (2,), x batch (2,2): lengthscale (2,1,1) is applied along the LAST batch dim (as for every other kernel)
but alpha (2,1) is unsqueezed once too often -> (2,1,1,1) and applied along the FIRST batch dim: silently wrong numbers.
With x batch (3,2) the same code raises.  (rq_kernel.py, postprocess_rq: range(1, dist.dim() - len(batch_shape)))"""
import sys, warnings, torch, gpytorch
from gpytorch.kernels import RQKernel
warnings.filterwarnings("ignore"); torch.set_default_dtype(torch.float64); torch.manual_seed(0)
def dense(k, a, b):
    with gpytorch.settings.lazily_evaluate_kernels(False): return k(a, b).to_dense()
k = RQKernel(batch_shape=torch.Size([2])); k.alpha = torch.tensor([0.3, 5.0]).view(2, 1); k.lengthscale = torch.tensor([0.5, 0.9]).view(2, 1, 1)
bad = False
for bshape in [(2, 2), (3, 2)]:
    x1, x2 = torch.rand(*bshape, 3, 2) * 3, torch.rand(*bshape, 4, 2) * 3
    ref = torch.zeros(*bshape, 3, 4)
    for i in range(bshape[0]):
        for j in range(2):
            kk = RQKernel(); kk.alpha = k.alpha[j].item(); kk.lengthscale = k.lengthscale[j].item()
            ref[i, j] = dense(kk, x1[i, j], x2[i, j])
    try:
        err = (dense(k, x1, x2) - ref).abs().max().item()
        print(f"x batch {bshape}: max|K_batched - per-entry single kernels| = {err:.3e}" + ("  <-- VIOLATION" if err > 1e-8 else "")); bad |= err > 1e-8
    except Exception as e:
        print(f"x batch {bshape}: raised {type(e).__name__}: {str(e)[:80]}  <-- VIOLATION"); bad = True
print("VIOLATION PRESENT" if bad else "no violation"); sys.exit(1 if bad else 0)
