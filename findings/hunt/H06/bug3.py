#!/usr/bin/env python3
"""C06 violation 3: a MultitaskKernel with a batch_shape cannot be evaluated on inputs that carry that batch shape.

MultitaskKernel.forward does   covar_i = task_covar.covar_matrix;  covar_i = covar_i.repeat(*x1.shape[:-2], 1, 1)
 * task_covar already has the kernel's batch shape, so with batch_shape=(2,) and x of batch (2,) the task covariance
   is *tiled* to batch (4,) and the Kronecker product with the (2,)-batched data covariance raises.
   The same kernel evaluates fine on un-batched x, so K(x)[i] cannot be compared with K(x[i]) / kernel[i](x[i]),
   lazy[:, a:b, c:d] raises although lazy.to_dense() works, etc.
 * (control) an un-batched MultitaskKernel with only one batched argument is fine.
Reference: Kronecker product  K_data[b] (x) K_task[b]  built by hand with torch.kron.
"""
import sys
import warnings

import torch

import gpytorch
from gpytorch.kernels import MultitaskKernel, RBFKernel

warnings.filterwarnings("ignore")
torch.set_default_dtype(torch.float64)
torch.manual_seed(0)
TOL = 1e-8
bad = False
B = torch.Size([2])


def dense(k, a, b, **kw):
    with gpytorch.settings.lazily_evaluate_kernels(False):
        r = k(a, b, **kw)
        return r if torch.is_tensor(r) else r.to_dense()


def reference(k, x1, x2):
    """hand-made kron(K_data[b], K_task[b]) for every batch entry b of the broadcast batch shape"""
    bshape = torch.broadcast_shapes(x1.shape[:-2], x2.shape[:-2], k.batch_shape)
    x1e = x1.expand(*bshape, *x1.shape[-2:])
    x2e = x2.expand(*bshape, *x2.shape[-2:])
    ls = k.data_covar_module.lengthscale.detach().expand(*bshape, 1, 1)
    task = k.task_covar_module._eval_covar_matrix().detach()
    task = task.expand(*bshape, *task.shape[-2:])
    out = []
    for b in range(bshape[0]):
        d2 = torch.cdist(x1e[b] / ls[b], x2e[b] / ls[b]).pow(2)
        out.append(torch.kron(torch.exp(-0.5 * d2), task[b]))
    return torch.stack(out)


def attempt(desc, f, ref):
    global bad
    try:
        got = f()
        got = got if torch.is_tensor(got) else got.to_dense()
        if got.shape != ref.shape:
            print(f"{desc:58s} SHAPE {tuple(got.shape)} vs {tuple(ref.shape)}  <-- VIOLATION")
            bad = True
            return
        err = (got - ref).abs().max().item()
        print(f"{desc:58s} max|K - reference| = {err:.3e}" + ("  <-- VIOLATION" if err > TOL else ""))
        bad = bad or err > TOL
    except Exception as e:  # noqa
        print(f"{desc:58s} raised {type(e).__name__}: {str(e)[:75]}  <-- VIOLATION")
        bad = True


k = MultitaskKernel(RBFKernel(batch_shape=B), num_tasks=2, rank=1, batch_shape=B)
k.data_covar_module.lengthscale = torch.tensor([0.4, 1.5]).view(2, 1, 1)
k.task_covar_module.covar_factor.data = torch.tensor([[[1.0], [0.5]], [[-0.3], [2.0]]])
k.task_covar_module.var = torch.tensor([[0.1, 0.2], [0.3, 0.4]])
print("kernel.batch_shape =", tuple(k.batch_shape))

xu1, xu2 = torch.rand(3, 2), torch.rand(4, 2)  # un-batched inputs
xb1, xb2 = torch.rand(2, 3, 2), torch.rand(2, 4, 2)  # inputs with the kernel's batch shape

print("-- un-batched inputs (control: works and matches the hand-made Kronecker product)")
attempt("eager K(xu1, xu2)", lambda: dense(k, xu1, xu2), reference(k, xu1, xu2))
attempt("lazy  K(xu1, xu2).to_dense()", lambda: k(xu1, xu2), reference(k, xu1, xu2))
print("-- same lazy tensor, sliced with full slices")
attempt("lazy  K(xu1, xu2)[:, :, :]", lambda: k(xu1, xu2)[:, :, :], reference(k, xu1, xu2))
attempt("lazy  K(xu1, xu2)[:, 2:4, 0:4]", lambda: k(xu1, xu2)[:, 2:4, 0:4], reference(k, xu1, xu2)[:, 2:4, 0:4])
print("-- inputs that carry the kernel's batch shape")
attempt("eager K(xb1, xb2)", lambda: dense(k, xb1, xb2), reference(k, xb1, xb2))
attempt("lazy  K(xb1, xb2).to_dense()", lambda: k(xb1, xb2), reference(k, xb1, xb2))
attempt("diag  K(xb1, xb1, diag=True)", lambda: dense(k, xb1, xb1, diag=True),
        reference(k, xb1, xb1).diagonal(dim1=-1, dim2=-2))
attempt("lazy  K(xb1).diagonal()", lambda: k(xb1).diagonal(dim1=-1, dim2=-2),
        reference(k, xb1, xb1).diagonal(dim1=-1, dim2=-2))

print("-- control: un-batched MultitaskKernel, only ONE argument batched: K(x1,x2) vs K(x2,x1)^T")
k0 = MultitaskKernel(RBFKernel(), num_tasks=2, rank=1)
k0.data_covar_module.lengthscale = 0.7
attempt("eager K(xu1, xb2)", lambda: dense(k0, xu1, xb2), reference(k0, xu1, xb2))
attempt("eager K(xb2, xu1)^T", lambda: dense(k0, xb2, xu1).transpose(-1, -2), reference(k0, xu1, xb2))

print("VIOLATION PRESENT" if bad else "no violation")
sys.exit(1 if bad else 0)
