#!/usr/bin/env python3
"""Extra (C06): Kernel.expand_batch does not expand the summands/factors of AdditiveKernel / ProductKernel
(named_sub_kernels yields 'kernels.0', and new_kernel.__setattr__('kernels.0', ...) registers a dotted attribute instead of
replacing new_kernel.kernels[0]).  Consequence: batch-indexing the lazy tensor of a sum kernel whose batch shape is
broadcast against larger input batch shapes raises IndexError, while the same index works for a single RBFKernel."""
import sys, warnings, torch, gpytorch
from gpytorch.kernels import RBFKernel, MaternKernel
warnings.filterwarnings("ignore"); torch.set_default_dtype(torch.float64); torch.manual_seed(0)
B = torch.Size([3]); bad = False
ks = RBFKernel(batch_shape=B) + MaternKernel(batch_shape=B)
for p in ks.kernels: p.lengthscale = torch.tensor([0.3, 1.0, 3.0]).view(3, 1, 1)
e = ks.expand_batch(torch.Size([2, 3]))
shapes = [tuple(p.lengthscale.shape) for p in e.kernels]
print("expand_batch((2,3)): batch_shape", tuple(e.batch_shape), "summand lengthscale shapes", shapes, "(expected (2,3,1,1))")
bad |= any(s != (2, 3, 1, 1) for s in shapes)
x1, x2 = torch.randn(2, 3, 4, 2), torch.randn(2, 3, 5, 2)
with gpytorch.settings.lazily_evaluate_kernels(False): K = ks(x1, x2).to_dense()
for name, kern in [("RBF (control)", ks.kernels[0]), ("RBF + Matern", ks), ("RBF * Matern", ks.kernels[0] * ks.kernels[1])]:
    with gpytorch.settings.lazily_evaluate_kernels(False): Kd = kern(x1, x2).to_dense()
    try:
        err = (kern(x1, x2)[:, 1].to_dense() - Kd[:, 1]).abs().max().item()
        print(f"{name:14s} lazy[:, 1] err {err:.3e}"); bad |= err > 1e-8
    except Exception as ex:
        print(f"{name:14s} lazy[:, 1] raised {type(ex).__name__}: {str(ex)[:80]}  <-- VIOLATION"); bad = True
print("VIOLATION PRESENT" if bad else "no violation"); sys.exit(1 if bad else 0)
