"""C20 bug 3 (CAVEAT: the consumer of this setting emits a DeprecationWarning - see notes.md):
gpytorch.settings.deterministic_probes has a second global field, `probe_vectors`, that is CLEARED
(not saved/restored) at both boundaries of every deterministic_probes block.

A nested deterministic_probes block - even one that requests the very same state - therefore destroys
the probe vectors of the enclosing block: after the inner block exits, the enclosing block no longer
sees the value that was visible before, and the "deterministic" log-determinant changes.
"""
import sys
import warnings

warnings.simplefilter("ignore")
import torch  # noqa: E402

import gpytorch  # noqa: E402
from gpytorch import settings  # noqa: E402
from linear_operator import to_linear_operator  # noqa: E402

torch.manual_seed(0)
bad = 0

A = torch.randn(60, 60, dtype=torch.float64)
K = to_linear_operator(A @ A.T / 60 + torch.eye(60, dtype=torch.float64))
exact = torch.logdet(K.to_dense()).item()

with settings.max_cholesky_size(0), settings.fast_computations(log_prob=True), settings.deterministic_probes(True):
    l1 = K.logdet().item()
    l2 = K.logdet().item()
    probes_before = settings.deterministic_probes.probe_vectors
    with settings.deterministic_probes(True):  # same state as the enclosing block
        pass
    probes_after = settings.deterministic_probes.probe_vectors
    l3 = K.logdet().item()
    l4 = K.logdet().item()

print("exact logdet                               :", exact)
print("outer block, two calls before nested block :", l1, l2, "(identical: deterministic)")
print("outer block, two calls after nested block  :", l3, l4)
print("probe_vectors field before nested block    :", None if probes_before is None else tuple(probes_before.shape))
print("probe_vectors field after nested block     :", None if probes_after is None else tuple(probes_after.shape))
print("|l3 - l1| =", abs(l3 - l1))

if l1 != l2:
    print("unexpected: estimate not deterministic inside a single block")
if probes_after is not probes_before:
    bad += 1
    print("VIOLATION: the probe_vectors field visible before the nested block was not restored on its exit")
if abs(l3 - l1) > 1e-8:
    bad += 1
    print("VIOLATION: the deterministic log-determinant of the enclosing block changed across a nested block")

print("violations:", bad)
sys.exit(1 if bad else 0)
