"""C20 bug 2: the value to restore is captured when the context object is CONSTRUCTED, not when
its block is ENTERED.

A settings context object that is created once and used later (module-level constant, list of
contexts handed to a helper, re-use of one object, re-entrant use) restores on exit whatever was
visible at construction time - not the value that was visible just before its with-block.  The
enclosing block's value is lost for the remainder of the enclosing block.  For the per-dtype
settings the stale snapshot is also WRITTEN on entry, so the inner block overrides fields it was
never asked to change.
"""
import sys
import warnings

warnings.simplefilter("ignore")
import torch  # noqa: E402

import gpytorch  # noqa: E402
from gpytorch import beta_features, settings  # noqa: E402

torch.manual_seed(0)
bad = 0


def check(label, got, expected):
    global bad
    ok = got == expected
    print(f"{label}: got {got!r}, expected {expected!r} -> {'ok' if ok else 'VIOLATION'}")
    if not ok:
        bad += 1


# (a) _value_context (max_cg_iterations; same for every value setting)
few_iters = settings.max_cg_iterations(5)  # constructed outside all blocks
with settings.max_cg_iterations(50):
    with few_iters:
        check("(a) inside inner block", settings.max_cg_iterations.value(), 5)
    check("(a) back in outer block (value setting)", settings.max_cg_iterations.value(), 50)
check("(a) outside all blocks", settings.max_cg_iterations.value(), 1000)

# (b) _feature_flag (debug)
no_debug = settings.debug(False)
with settings.debug(False):
    with settings.debug(True):
        pass
    with no_debug:
        pass
    check("(b) back in outer block (flag)", settings.debug.on(), False)
check("(b) outside all blocks", settings.debug.on(), True)

# (c) one object used re-entrantly
cm = settings.num_likelihood_samples(3)
with cm:
    with cm:
        pass
    check("(c) back in outer block of the same object", settings.num_likelihood_samples.value(), 3)
check("(c) outside all blocks", settings.num_likelihood_samples.value(), 10)

# (d) fast_computations triple
exact = settings.fast_computations(False, False, False)
with settings.fast_computations(covar_root_decomposition=True, log_prob=False, solves=False):
    with exact:
        pass
    fc = settings.fast_computations
    check(
        "(d) back in outer block (fast_computations triple)",
        (fc.covar_root_decomposition.on(), fc.log_prob.on(), fc.solves.on()),
        (True, False, False),
    )

# (e) fast_pred_var: flag and probe-vector count
fpv = settings.fast_pred_var(True, num_probe_vectors=2)
with settings.fast_pred_var(True, num_probe_vectors=7):
    with fpv:
        pass
    check(
        "(e) back in outer block (fast_pred_var flag, count)",
        (settings.fast_pred_var.on(), settings.fast_pred_var.num_probe_vectors()),
        (True, 7),
    )

# (f) per-dtype setting: the inner block only asks for a float value but also rewrites double
float_floor = settings.min_variance(float_value=1e-3)
with settings.min_variance(double_value=1e-2):
    with float_floor:
        check("(f) INSIDE inner block, double field it did not set", settings.min_variance.value(torch.double), 1e-2)
    check("(f) back in outer block, double field", settings.min_variance.value(torch.double), 1e-2)
check("(f) outside all blocks", settings.min_variance.value(torch.double), 1e-10)

# (g) observable through the library: variance clamping of a MultivariateNormal
mvn = gpytorch.distributions.MultivariateNormal(
    torch.zeros(3, dtype=torch.float64), torch.eye(3, dtype=torch.float64) * 1e-4
)
with settings.min_variance(double_value=1e-2):
    v_before = mvn.variance.clone()
    with float_floor:
        v_inside = mvn.variance.clone()
    v_after = mvn.variance.clone()
print("(g) variance in outer block before/inside/after the inner block:", v_before[0].item(), v_inside[0].item(), v_after[0].item())
check("(g) variance inside inner block equals outer-block clamp", v_inside[0].item(), 1e-2)
check("(g) variance after inner block equals outer-block clamp", v_after[0].item(), 1e-2)

# (h) beta_features flag
pre = beta_features.default_preconditioner(False)
with beta_features.default_preconditioner(True):
    with pre:
        pass
    check("(h) back in outer block (beta feature)", beta_features.default_preconditioner.on(), True)

print("violations:", bad)
sys.exit(1 if bad else 0)
