"""C20 bug 1: gpytorch.settings.cholesky_jitter(half_value=...) is not restored on exit.

The half-precision field of cholesky_jitter has no default (None).  A with-block that sets it
leaves the block's value behind after exit (normal exit and exit by exception alike), so outside
all blocks the setting no longer reports its default.
"""
import sys
import warnings

warnings.simplefilter("ignore")
import torch  # noqa: E402

import gpytorch  # noqa: E402
from gpytorch import settings  # noqa: E402

torch.manual_seed(0)
bad = 0


def fields():
    cj = settings.cholesky_jitter
    return (cj.value(torch.float), cj.value(torch.double), cj.value(torch.half))


default = fields()
print("default (float, double, half):", default)

# (a) normal exit
with settings.cholesky_jitter(half_value=1e-2):
    inside = fields()
after = fields()
print("(a) inside block:", inside, "| after block:", after, "| expected after:", default)
if after != default:
    bad += 1
    print("    VIOLATION: half value leaked out of the with-block:", after[2], "!=", default[2])
settings.cholesky_jitter._global_half_value = None  # manual repair for the next scenario

# (b) exit by exception
try:
    with settings.cholesky_jitter(float_value=1e-3, double_value=1e-5, half_value=5e-2):
        raise KeyError("boom")
except KeyError:
    pass
after = fields()
print("(b) after block left by exception:", after, "| expected:", default)
if after != default:
    bad += 1
    print("    VIOLATION: half value leaked (float/double were restored):", after[2], "!=", default[2])
settings.cholesky_jitter._global_half_value = None

# (c) nesting: inner restores the outer value, the outer block then leaks its own
with settings.cholesky_jitter(half_value=1e-2):
    with settings.cholesky_jitter(half_value=3e-2):
        pass
    mid = fields()
after = fields()
print("(c) after inner:", mid, "| after outer:", after, "| expected after outer:", default)
if after != default:
    bad += 1
    print("    VIOLATION: outer block's half value survives:", after[2], "!=", default[2])
settings.cholesky_jitter._global_half_value = None

# control: the gpytorch-side per-dtype setting with the same None default behaves
with settings.variational_cholesky_jitter(half_value=1e-2):
    pass
print("control variational_cholesky_jitter half after block:", settings.variational_cholesky_jitter.value(torch.half))

print("violations:", bad)
sys.exit(1 if bad else 0)
