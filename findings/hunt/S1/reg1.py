# Concerns commit 72f6c87 ("drop the cached inducing Cholesky factor when the batch shape changed"),
# gpytorch/variational/unwhitened_variational_strategy.py, UnwhitenedVariationalStrategy.forward.
#
# History: model in eval mode, un-batched inducing points; predictions are requested alternately for un-batched
# test inputs (n x d) and batched test inputs (b x n x d).
# Before the commit the m x m factor computed by the first (un-batched) call was reused by every later call
# (CholLinearOperator broadcasts over the batch dimension, results are correct): 1 Cholesky factorization in total.
# After the commit ANY shape difference drops the cache, also when the cached factor broadcasts to the new shape:
# every call re-factorizes, the batched ones a dense b x m x m expansion of b identical matrices, and the cache
# thrashes for ever (6 calls -> 6 psd_safe_cholesky calls, 1 + 3 + 1 + 3 + 1 + 3 = 12 m x m factorizations instead of 1).
# The results themselves stay correct; the regression is the lost caching / dense batch blow-up.
import sys
import warnings

import torch

warnings.filterwarnings("ignore")
import gpytorch  # noqa: E402
import gpytorch.variational.unwhitened_variational_strategy as U  # noqa: E402

torch.manual_seed(0)

calls = []
_orig = U.psd_safe_cholesky


def _counting(A, *args, **kwargs):
    calls.append(tuple(A.shape))
    return _orig(A, *args, **kwargs)


U.psd_safe_cholesky = _counting


class Model(gpytorch.models.ApproximateGP):
    def __init__(self, Z):
        vd = gpytorch.variational.CholeskyVariationalDistribution(Z.size(-2))
        vs = gpytorch.variational.UnwhitenedVariationalStrategy(self, Z, vd, learn_inducing_locations=True)
        super().__init__(vs)
        self.mean_module = gpytorch.means.ConstantMean()
        self.covar_module = gpytorch.kernels.ScaleKernel(gpytorch.kernels.RBFKernel())

    def forward(self, x):
        return gpytorch.distributions.MultivariateNormal(self.mean_module(x), self.covar_module(x))


m_ind, b = 6, 3
model = Model(torch.rand(m_ind, 1))
model.train()
model(torch.rand(5, 1))  # initializes the variational distribution
model.variational_strategy._variational_distribution.variational_mean.data.normal_()
model.eval()

x1 = torch.rand(4, 1)
xb = torch.rand(b, 4, 1)

# reference: each input evaluated with a cold cache
refs = []
for x in (x1, xb):
    model.train()
    model.eval()
    out = model(x)
    refs.append((out.mean.detach().clone(), out.covariance_matrix.detach().clone()))

model.train()
model.eval()
calls.clear()
ok_values = True
for i in range(6):
    x, ref = ((x1, refs[0]), (xb, refs[1]))[i % 2]
    out = model(x)
    ok_values &= out.mean.shape == ref[0].shape and torch.allclose(out.mean, ref[0], atol=1e-5)
    ok_values &= torch.allclose(out.covariance_matrix, ref[1], atol=1e-5)

n_calls = len(calls)
n_mats = sum(int(torch.Size(s[:-2]).numel()) for s in calls)
print("shapes handed to psd_safe_cholesky over 6 alternating eval calls:", calls)
print("number of Cholesky calls:", n_calls, "(before the commit: 1; one per distinct shape would be 2)")
print("number of m x m matrices factorized:", n_mats, "(before the commit: 1)")
print("predictions equal to cold-cache reference:", bool(ok_values))

# problem present: the number of factorizations grows with the number of calls (cache thrashing)
if n_calls > 2 or not ok_values:
    print("PROBLEM: the inducing Cholesky factor is recomputed on every change of test batch shape")
    sys.exit(1)
sys.exit(0)
