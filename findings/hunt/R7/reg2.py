# Concerns commit 6a32090 (DeepApproximateMLL reads and writes beta / num_data on the objective it wraps).
# Regression (minor): `beta` / `num_data` are now class-level properties, and torch.nn.Module.__setattr__ routes
# Parameter / Module values to register_parameter / add_module *before* it would reach the property.
# register_parameter sees hasattr(self, "beta") == True (the property) and raises
#     KeyError: "attribute 'beta' already exists"
# so `deep_mll.beta = torch.nn.Parameter(...)` (a learnable KL weight) - accepted by the base objective
# (`base_mll.beta = Parameter` works and is used) and accepted by the wrapper before the commit - now raises an
# obscure KeyError instead of being forwarded to the wrapped objective like floats / tensors are.
import sys
import warnings

import torch

import gpytorch
from gpytorch.mlls import DeepApproximateMLL, VariationalELBO
from gpytorch.models.deep_gps import DeepGP, DeepGPLayer
from gpytorch.variational import CholeskyVariationalDistribution, VariationalStrategy

warnings.simplefilter("ignore")
torch.manual_seed(0)


class Layer(DeepGPLayer):
    def __init__(self, din, dout):
        bs = torch.Size([dout]) if dout else torch.Size([])
        ind = torch.randn(*bs, 5, din)
        vs = VariationalStrategy(self, ind, CholeskyVariationalDistribution(5, batch_shape=bs))
        super().__init__(vs, din, dout)
        self.mean_module = gpytorch.means.ConstantMean(batch_shape=bs)
        self.covar_module = gpytorch.kernels.ScaleKernel(gpytorch.kernels.RBFKernel(batch_shape=bs), batch_shape=bs)

    def forward(self, x):
        return gpytorch.distributions.MultivariateNormal(self.mean_module(x), self.covar_module(x))


class M(DeepGP):
    def __init__(self):
        super().__init__()
        self.h, self.l = Layer(2, 2), Layer(2, None)
        self.likelihood = gpytorch.likelihoods.GaussianLikelihood()

    def forward(self, x):
        return self.l(self.h(x))


m = M()
base = VariationalELBO(m.likelihood, m, num_data=8)
deep = DeepApproximateMLL(base)
bad = False

deep.beta = 0.5
print("float  through wrapper  -> base.beta =", base.beta)
deep.beta = torch.tensor(0.25)
print("tensor through wrapper  -> base.beta =", base.beta)

# the base objective alone accepts a learnable weight
base2 = VariationalELBO(m.likelihood, m, num_data=8)
base2.beta = torch.nn.Parameter(torch.tensor(0.2))
print("Parameter on a plain VariationalELBO: accepted, registered:", "beta" in dict(base2.named_parameters()))

try:
    deep.beta = torch.nn.Parameter(torch.tensor(0.2))
    print("Parameter through wrapper: accepted; base.beta =", base.beta)
    # if accepted it has to be the weight that is evaluated
    bad = not (isinstance(base.beta, torch.nn.Parameter))
except Exception as e:  # KeyError: "attribute 'beta' already exists"
    print("Parameter through wrapper: %s: %s" % (type(e).__name__, e))
    bad = True
print("PROBLEM PRESENT" if bad else "no problem")
sys.exit(1 if bad else 0)
