# Concerns commit c46e654 (Prior.expand re-builds the prior with its transform).
# Incomplete repair: the commit makes MultivariateNormalPrior.expand pass the transform on, but for a prior built the
# usual way - from covariance_matrix= (or precision_matrix=) - expand() never gets that far:
# `self.scale_tril` is a torch lazy_property, its __get__ does setattr(instance, "scale_tril", value), Prior.__setattr__
# starts with hasattr(self, name), which runs the lazy_property __get__ again -> RecursionError.
# (Also present before the commit: there expand() failed the same way; so for these priors the transform is still
# not carried through expand.)  Only priors built from scale_tril= profit from the repair.
import sys
import warnings

import torch

from gpytorch.priors import MultivariateNormalPrior

warnings.simplefilter("ignore")
torch.manual_seed(0)
bad = False
x = torch.rand(3, 2)
for kw in ("scale_tril", "covariance_matrix", "precision_matrix"):
    p = MultivariateNormalPrior(torch.zeros(2), transform=torch.exp, **{kw: torch.eye(2) * 2.0})
    want = p.log_prob(x)
    try:
        # (this class takes the shape of the parameter, event dimension included: loc is expanded to it)
        q = p.expand([3, 2])
        got = q.log_prob(x)
        ok = torch.allclose(got, want)
        print("%-17s expand([3, 2]): batch_shape %s, same log_prob as the original: %s" % (kw, tuple(q.batch_shape), ok))
        bad = bad or not ok
    except RecursionError as e:
        print("%-17s expand([3, 2]): RecursionError: %s" % (kw, str(e)[:60]))
        bad = True
    except Exception as e:
        print("%-17s expand([3, 2]): %s: %s" % (kw, type(e).__name__, str(e)[:80]))
        bad = True
print("PROBLEM PRESENT" if bad else "no problem")
sys.exit(1 if bad else 0)
