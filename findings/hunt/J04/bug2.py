"""C04 bug 2: FixedNoiseGaussianLikelihood model, fantasy inputs shared by the fantasies (m x d), f target samples
(f x m) and a noise tensor of the shape of the targets (f x m): get_fantasy_model raises RuntimeError.

The same fantasies with the inputs repeated explicitly (f x m x d) work and equal the from-scratch model, and shared
inputs with a noise tensor of shape (m,) work too; only shared inputs + per-fantasy noise fails.
DefaultPredictionStrategy.get_fantasy_strategy: fant_fant_covar (K_ff + diag(noise)) picks up the fantasy batch
dimension f from the noise, fant_train_covar (m x n) has none (shared inputs), and
self.lik_train_train_covar.cat_rows(fant_train_covar, fant_fant_covar) cannot concatenate the two.
Reference: exact GP with the same hyper-parameters trained from scratch on the concatenated data (batch shape f).
"""
import sys
import warnings

import torch

import gpytorch
from gpytorch.likelihoods import FixedNoiseGaussianLikelihood

warnings.simplefilter("ignore")
torch.set_default_dtype(torch.float64)
torch.manual_seed(0)


class GP(gpytorch.models.ExactGP):
    def __init__(self, X, y, lik):
        super().__init__(X, y, lik)
        self.mean_module = gpytorch.means.ConstantMean()
        self.covar_module = gpytorch.kernels.ScaleKernel(gpytorch.kernels.RBFKernel())

    def forward(self, x):
        return gpytorch.distributions.MultivariateNormal(self.mean_module(x), self.covar_module(x))


n, m, d, t, f = 6, 3, 2, 4, 3
X, y, noise = torch.rand(n, d), torch.randn(n), torch.rand(n) * 0.3 + 0.05
model = GP(X, y, FixedNoiseGaussianLikelihood(noise))
model.covar_module.base_kernel.lengthscale = 0.4
model.covar_module.outputscale = 1.3
model.mean_module.constant = 0.2
model.eval()
Xt = torch.rand(t, d)
Xf, yf, nf = torch.rand(m, d), torch.randn(f, m), torch.rand(f, m) * 0.3 + 0.05

# from-scratch reference (batch shape f)
X_all = torch.cat([X, Xf]).expand(f, n + m, d)
y_all = torch.cat([y.expand(f, n), yf], -1)
n_all = torch.cat([noise.expand(f, n), nf], -1)
ref = GP(X_all, y_all, FixedNoiseGaussianLikelihood(n_all))
ref.load_state_dict(model.state_dict(), strict=False)
ref.eval()

bad = False
for fpv in (False, True):
    with torch.no_grad(), gpytorch.settings.fast_pred_var(fpv):
        model.train(), model.eval(), ref.train(), ref.eval()
        model(Xt)
        ref_post = ref(Xt)
        # (a) the inputs repeated for every fantasy: supported, equals the reference
        fm = model.get_fantasy_model(Xf.expand(f, m, d), yf, noise=nf)
        post = fm(Xt)
        ea = max((post.mean - ref_post.mean).abs().max().item(),
                 (post.covariance_matrix - ref_post.covariance_matrix).abs().max().item())
        print(f"fast_pred_var={fpv}: inputs f x m x d, targets f x m, noise f x m: |fantasy - from scratch| = {ea:.2e}")
        # (b) the inputs shared (the documented short-cut `inputs of lesser dimension than targets`)
        try:
            fm = model.get_fantasy_model(Xf, yf, noise=nf)
            post = fm(Xt)
            eb = max((post.mean - ref_post.mean).abs().max().item(),
                     (post.covariance_matrix - ref_post.covariance_matrix).abs().max().item())
            print(f"fast_pred_var={fpv}: inputs m x d, targets f x m, noise f x m: |fantasy - from scratch| = {eb:.2e}")
            bad = bad or eb > 1e-8 or post.mean.shape != ref_post.mean.shape
        except Exception as ex:
            print(f"fast_pred_var={fpv}: inputs m x d, targets f x m, noise f x m: "
                  f"{type(ex).__name__}: {str(ex)[:120]}")
            bad = True

print("VIOLATION" if bad else "ok")
sys.exit(1 if bad else 0)
