"""C04 bug 3: exact GP whose hyper-parameters carry a batch shape (2,) while the training inputs are shared by the batch
(X: n x d, y: 2 x n -- the layout of the GPyTorch Dirichlet-classification / independent-outputs examples).
The model predicts correctly, but get_fantasy_model(Xf (m x d), yf (2 x m)) raises RuntimeError.

ExactGP.get_fantasy_model and DefaultPredictionStrategy.get_fantasy_strategy take the model batch shape from
train_inputs[0].shape[:-2] (= ()), not from the prior: `full_mean.view(*batch_shape, -1)` is asked to flatten the
2 x (n+m) prior mean (RuntimeError for the expanded ConstantMean; with a ZeroMean the flattened mean is then sliced
with num_train and fails a few lines later).
Reference: the dense conditioning formula / a from-scratch batch model on the concatenated data.
"""
import sys
import warnings

import torch

import gpytorch

warnings.simplefilter("ignore")
torch.set_default_dtype(torch.float64)
torch.manual_seed(0)
B = torch.Size([2])


class GP(gpytorch.models.ExactGP):
    def __init__(self, X, y, lik):
        super().__init__(X, y, lik)
        self.mean_module = gpytorch.means.ConstantMean(batch_shape=B)
        self.covar_module = gpytorch.kernels.ScaleKernel(gpytorch.kernels.RBFKernel(batch_shape=B), batch_shape=B)

    def forward(self, x):
        return gpytorch.distributions.MultivariateNormal(self.mean_module(x), self.covar_module(x))


n, m, d, t = 6, 3, 2, 4
X, y = torch.rand(n, d), torch.randn(2, n)
model = GP(X, y, gpytorch.likelihoods.GaussianLikelihood())
model.covar_module.base_kernel.lengthscale = torch.tensor([0.3, 0.8]).view(2, 1, 1)
model.covar_module.outputscale = torch.tensor([1.5, 0.6])
model.mean_module.constant = torch.tensor([0.4, -0.3])
model.likelihood.noise = 0.1
model.eval()
Xt = torch.rand(t, d)
Xf, yf = torch.rand(m, d), torch.randn(2, m)


def dense(Xa, ya):
    with torch.no_grad():
        K = model.covar_module(Xa).to_dense() + model.likelihood.noise * torch.eye(Xa.shape[-2])
        Ks = model.covar_module(Xt, Xa).to_dense()
        c = model.mean_module.constant.view(2, 1)
        mean = c + (Ks @ torch.linalg.solve(K, (ya - c).unsqueeze(-1))).squeeze(-1)
        cov = model.covar_module(Xt).to_dense() - Ks @ torch.linalg.solve(K, Ks.transpose(-1, -2))
    return mean, cov


bad = False
for fpv in (False, True):
    with torch.no_grad(), gpytorch.settings.fast_pred_var(fpv):
        model.train(), model.eval()
        src = model(Xt)
        rm, rc = dense(X, y)
        e0 = max((src.mean - rm).abs().max().item(), (src.covariance_matrix - rc).abs().max().item())
        print(f"fast_pred_var={fpv}: source model (X n x d, y 2 x n): |prediction - dense formula| = {e0:.2e}")
        rm, rc = dense(torch.cat([X, Xf]), torch.cat([y, yf], -1))
        # per-batch fantasy inputs work
        fm = model.get_fantasy_model(Xf.expand(2, m, d), yf)
        post = fm(Xt)
        e1 = max((post.mean - rm).abs().max().item(), (post.covariance_matrix - rc).abs().max().item())
        print(f"  fantasy inputs 2 x m x d, targets 2 x m: |fantasy - from scratch| = {e1:.2e}")
        try:
            fm = model.get_fantasy_model(Xf, yf)
            post = fm(Xt)
            e2 = max((post.mean - rm).abs().max().item(), (post.covariance_matrix - rc).abs().max().item())
            print(f"  fantasy inputs m x d, targets 2 x m: |fantasy - from scratch| = {e2:.2e}")
            bad = bad or e2 > 1e-8
        except Exception as ex:
            print(f"  fantasy inputs m x d, targets 2 x m: {type(ex).__name__}: {str(ex)[:110]}")
            bad = True

print("VIOLATION" if bad else "ok")
sys.exit(1 if bad else 0)
