"""C04 bug 1: a fantasy model whose batch shape is (f, 1, b) predicts a mean of batch shape (f, f, b).

Source: exact GP with model batch shape (1, 2) (its own predictions are right).  get_fantasy_model with shared fantasy
inputs (1 x 2 x m x d) and f = 3 target samples (3 x 1 x 2 x m) gives a fantasy model of batch shape (3, 1, 2).  Its
mean cache is 4-dimensional, and DefaultPredictionStrategy.exact_predictive_mean does `mean_cache.squeeze(1)` on every
4-dimensional mean cache, so the size-1 model batch dimension is dropped and the matmul broadcasts (3,1,2) x (3,2) to
(3,3,2): the posterior mean has the wrong batch shape and mean[i, 0] is the mean of fantasy 0 for every i.
Reference: independent non-batch exact GPs conditioned from scratch on the concatenated data of each batch element.
"""
import sys
import warnings

import torch

import gpytorch

warnings.simplefilter("ignore")
torch.set_default_dtype(torch.float64)
torch.manual_seed(0)


class GP(gpytorch.models.ExactGP):
    def __init__(self, X, y, lik, batch_shape=torch.Size()):
        super().__init__(X, y, lik)
        self.mean_module = gpytorch.means.ConstantMean(batch_shape=batch_shape)
        self.covar_module = gpytorch.kernels.ScaleKernel(
            gpytorch.kernels.RBFKernel(batch_shape=batch_shape), batch_shape=batch_shape
        )

    def forward(self, x):
        return gpytorch.distributions.MultivariateNormal(self.mean_module(x), self.covar_module(x))


n, m, d, t, f = 6, 3, 2, 4, 3
bs = torch.Size([1, 2])
X, y = torch.rand(*bs, n, d), torch.randn(*bs, n)
model = GP(X, y, gpytorch.likelihoods.GaussianLikelihood(batch_shape=bs), bs)
with torch.no_grad():
    model.covar_module.base_kernel.raw_lengthscale.copy_(torch.tensor([-0.5, 0.3]).view(1, 2, 1, 1))
    model.covar_module.raw_outputscale.copy_(torch.tensor([[0.2, -0.4]]))
    model.mean_module.raw_constant.copy_(torch.tensor([[0.3, -0.7]]))
    model.likelihood.noise_covar.raw_noise.copy_(torch.tensor([-1.0, -2.0]).view(1, 2, 1))
model.eval()
Xt = torch.rand(*bs, t, d)
Xf, yf = torch.rand(*bs, m, d), torch.randn(f, *bs, m)


def scratch(i, j, k, Xtr, ytr):
    """non-batch exact GP with the hyper-parameters of batch element (j, k), trained from scratch"""
    ref = GP(Xtr, ytr, gpytorch.likelihoods.GaussianLikelihood())
    with torch.no_grad():
        ref.covar_module.base_kernel.raw_lengthscale.copy_(model.covar_module.base_kernel.raw_lengthscale[j, k])
        ref.covar_module.raw_outputscale.copy_(model.covar_module.raw_outputscale[j, k])
        ref.mean_module.raw_constant.copy_(model.mean_module.raw_constant[j, k])
        ref.likelihood.noise_covar.raw_noise.copy_(model.likelihood.noise_covar.raw_noise[j, k])
    ref.eval()
    return ref(Xt[j, k])


bad = False
for fpv in (False, True):
    with torch.no_grad(), gpytorch.settings.fast_pred_var(fpv):
        model.train()
        model.eval()
        src = model(Xt)
        src_ref = torch.stack([scratch(0, 0, k, X[0, k], y[0, k]).mean for k in range(2)]).unsqueeze(0)
        print(f"fast_pred_var={fpv}: source mean shape {tuple(src.mean.shape)}, "
              f"|source - scratch| = {(src.mean - src_ref).abs().max().item():.2e}")
        fm = model.get_fantasy_model(Xf, yf)
        post = fm(Xt)
        ref_mean = torch.stack(
            [
                torch.stack([scratch(i, 0, k, torch.cat([X[0, k], Xf[0, k]]), torch.cat([y[0, k], yf[i, 0, k]])).mean
                             for k in range(2)]).unsqueeze(0)
                for i in range(f)
            ]
        )  # f x 1 x 2 x t
        print(f"  fantasy train_inputs {tuple(fm.train_inputs[0].shape)}, train_targets {tuple(fm.train_targets.shape)}")
        print(f"  fantasy mean shape {tuple(post.mean.shape)}   from-scratch mean shape {tuple(ref_mean.shape)}")
        print(f"  fantasy covariance shape {tuple(post.covariance_matrix.shape)}")
        if post.mean.shape != ref_mean.shape:
            bad = True
            # what a user reading mean[i, 0] as "fantasy i" gets
            err = (post.mean[:, 0] - ref_mean[:, 0]).abs().max().item()
            print(f"  max |fantasy mean[i, 0] - from-scratch mean[i, 0]| = {err:.3e}")
        else:
            err = (post.mean - ref_mean).abs().max().item()
            print(f"  max |fantasy mean - from-scratch mean| = {err:.3e}")
            bad = bad or err > 1e-8

print("VIOLATION" if bad else "ok")
sys.exit(1 if bad else 0)
