"""
C07 violation: MultivariateNormal.__getitem__ / MultitaskMultivariateNormal.__getitem__ hand out a NON-SYMMETRIC
"covariance matrix" when a batch dimension and the event dimension are both indexed with index tensors
(torch "paired" advanced indexing, e.g. mvn[tensor([0, 1]), tensor([1, 2])]).

The mean is indexed correctly (mean[b_k, i_k]).  Batch members of a batched MVN are independent distributions, so the
covariance of the selected entries must be
        C[k, l] = K[b_k, i_k, i_l]   if b_k == b_l   else 0
(this is what the library itself returns for an *int* event index, mvn[tensor([0, 1]), 2] -> diagonal).
Instead the library returns C[k, l] = K[b_k, i_k, i_l] for ALL k, l, i.e. row k is taken from batch member b_k:
the matrix is not symmetric and not a covariance matrix.
"""
import sys
import warnings

import torch
from linear_operator import to_linear_operator

from gpytorch.distributions import MultitaskMultivariateNormal, MultivariateNormal

warnings.simplefilter("ignore")
torch.manual_seed(0)
torch.set_default_dtype(torch.float64)

bad = False


def reference(K, b_idx, e_idx):
    k = len(b_idx)
    C = torch.zeros(k, k)
    for a in range(k):
        for c in range(k):
            if b_idx[a] == b_idx[c]:
                C[a, c] = K[b_idx[a], e_idx[a], e_idx[c]]
    return C


# ---------------------------------------------------------------- MultivariateNormal
b, n = 3, 4
A = torch.randn(b, n, n)
K = A @ A.mT + 0.1 * torch.eye(n)
mean = torch.randn(b, n)
b_idx, e_idx = torch.tensor([0, 1]), torch.tensor([1, 2])
for lazy in (False, True):
    mvn = MultivariateNormal(mean, to_linear_operator(K) if lazy else K)
    sub = mvn[b_idx, e_idx]
    C = sub.covariance_matrix
    ref = reference(K, b_idx.tolist(), e_idx.tolist())
    asym = (C - C.mT).abs().max().item()
    err = (C - ref).abs().max().item()
    mean_err = (sub.mean - mean[b_idx, e_idx]).abs().max().item()
    print(f"MultivariateNormal (lazy={lazy})[tensor([0,1]), tensor([1,2])]:")
    print("  returned covariance\n", C)
    print("  reference (independent batch members)\n", ref)
    print(f"  mean error {mean_err:.2e}   |C - C^T|_max = {asym:.3e}   |C - ref|_max = {err:.3e}")
    if asym > 1e-8 or err > 1e-8:
        bad = True

# ---------------------------------------------------------------- MultitaskMultivariateNormal ("pairs of indices" branch)
n, t = 4, 2
A = torch.randn(b, n * t, n * t)
K = A @ A.mT + 0.1 * torch.eye(n * t)
mean = torch.randn(b, n, t)
r_idx, c_idx = torch.tensor([1, 2]), torch.tensor([0, 1])
mt = MultitaskMultivariateNormal(mean, to_linear_operator(K))  # interleaved: flat index = row * t + col
sub = mt[b_idx, r_idx, c_idx]
C = sub.covariance_matrix
flat = (r_idx * t + c_idx).tolist()
ref = reference(K, b_idx.tolist(), flat)
asym = (C - C.mT).abs().max().item()
err = (C - ref).abs().max().item()
print("MultitaskMultivariateNormal[tensor([0,1]), tensor([1,2]), tensor([0,1])]:")
print("  returned covariance\n", C)
print("  reference\n", ref)
print(f"  mean error {(sub.mean - mean[b_idx, r_idx, c_idx]).abs().max().item():.2e}   "
      f"|C - C^T|_max = {asym:.3e}   |C - ref|_max = {err:.3e}")
if asym > 1e-8 or err > 1e-8:
    bad = True

print("VIOLATION PRESENT" if bad else "ok")
sys.exit(1 if bad else 0)
