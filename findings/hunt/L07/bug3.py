"""
C07 violation (exception on a valid configuration): an ExactGP whose kernel is
    ScaleKernel(RFFKernel(...), batch_shape=[2])      or
    ScaleKernel(GridInterpolationKernel(RBFKernel(), ...), batch_shape=[2])        (KISS-GP)
i.e. two output scales over one shared (un-batched) data set, trains fine (the marginal log likelihood is evaluated for
both batch members) but cannot hand out its posterior: model.eval(); model(x_test) raises AttributeError.
The same configuration with a plain RBFKernel inside works and returns a batch of two posteriors, and the two batch
members written as two separate un-batched models (the reference below) work as well.

Root cause: ScaleKernel.forward multiplies the structured operator (RootLinearOperator / InterpolatedLinearOperator)
by an outputscale that has MORE batch dimensions than the operator; LinearOperator.mul then falls back to a dense
product (DenseLinearOperator).  ScaleKernel.prediction_strategy nevertheless delegates to the base kernel's
RFFPredictionStrategy / InterpolatedPredictionStrategy, which only unwrap a ConstantMulLinearOperator and then read
`.root` / `.left_interp_indices` from what they expect to be the structured operator.
"""
import sys
import warnings

import torch

import gpytorch
from gpytorch.kernels import GridInterpolationKernel, RBFKernel, RFFKernel, ScaleKernel

warnings.simplefilter("ignore")
torch.manual_seed(0)
torch.set_default_dtype(torch.float64)


class GP(gpytorch.models.ExactGP):
    def __init__(self, x, y, lik, kernel):
        super().__init__(x, y, lik)
        self.mean_module = gpytorch.means.ZeroMean()
        self.covar_module = kernel

    def forward(self, x):
        return gpytorch.distributions.MultivariateNormal(self.mean_module(x), self.covar_module(x))


n, m = 8, 5
x, y, xt = torch.rand(n, 2), torch.randn(n), torch.rand(m, 2)
scales = torch.tensor([0.5, 2.0])


def make_base(name):
    torch.manual_seed(1)  # same random features for every copy of the RFF kernel
    if name == "rbf":
        return RBFKernel()
    if name == "rff":
        return RFFKernel(num_samples=6, num_dims=2)
    if name == "kiss":
        return GridInterpolationKernel(RBFKernel(), grid_size=10, num_dims=2, grid_bounds=[(0.0, 1.0), (0.0, 1.0)])


def make_model(name, batch):
    if batch:
        k = ScaleKernel(make_base(name), batch_shape=torch.Size([2]))
        k.outputscale = scales
    else:
        k = ScaleKernel(make_base(name))
    lik = gpytorch.likelihoods.GaussianLikelihood()
    lik.noise = 0.05
    return GP(x, y, lik, k)


bad = False
for name in ("rbf", "rff", "kiss"):
    # reference: the two batch members as separate un-batched models
    ref_mean, ref_cov = [], []
    for s in scales:
        mod = make_model(name, batch=False)
        mod.covar_module.outputscale = s
        mod.eval()
        with torch.no_grad():
            p = mod(xt)
            ref_mean.append(p.mean)
            ref_cov.append(p.covariance_matrix)
    ref_mean, ref_cov = torch.stack(ref_mean), torch.stack(ref_cov)

    model = make_model(name, batch=True)
    model.train()
    mll = gpytorch.mlls.ExactMarginalLogLikelihood(model.likelihood, model)
    with torch.no_grad():
        train_mll = mll(model(x), y)
    model.eval()
    try:
        with torch.no_grad():
            p = model(xt)
            C = p.covariance_matrix
        err = max((p.mean - ref_mean).abs().max().item(), (C - ref_cov).abs().max().item())
        lam = torch.linalg.eigvalsh((C + C.mT) / 2).min().item()
        print(f"{name:5s}: training mll {train_mll.tolist()}  posterior batch shape {tuple(p.batch_shape)}  "
              f"|posterior - separate models|_max = {err:.2e}  lambda_min = {lam:.2e}")
        if err > 1e-8 or lam < -1e-8:
            bad = True
    except Exception as e:  # noqa
        print(f"{name:5s}: training mll {train_mll.tolist()}  posterior RAISES {type(e).__name__}: {e}")
        print(f"       (reference posterior of the two separate models exists: variances {ref_cov.diagonal(dim1=-1, dim2=-2)[:, 0].tolist()} ...)")
        bad = True

print("VIOLATION PRESENT" if bad else "ok")
sys.exit(1 if bad else 0)
