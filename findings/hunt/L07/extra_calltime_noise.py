"""
Additional observation (NOT filed as bug1-3 because it is the sibling of the already-fixed setter issue 4df3154):
the call-time `noise=` of FixedNoiseGaussianLikelihood is added verbatim - FixedGaussianNoise.forward
(gpytorch/likelihoods/noise_models.py:170-171) returns DiagLinearOperator(noise) without the
settings.min_fixed_noise rounding that the constructor and (since 4df3154) the setter apply.
"""
import sys
import warnings

import torch

import gpytorch
from gpytorch.distributions import MultivariateNormal
from gpytorch.likelihoods import FixedNoiseGaussianLikelihood

torch.set_default_dtype(torch.float64)
n = 4
dist = MultivariateNormal(torch.zeros(n), 0.5 * torch.eye(n))
noise = torch.tensor([0.0, 1e-9, -0.25, 0.1])
with warnings.catch_warnings(record=True) as w:
    warnings.simplefilter("always")
    lik = FixedNoiseGaussianLikelihood(torch.full((n,), 0.1))
    marg = lik(dist, noise=noise)
    n_warn = sum("small noise" in str(x.message) for x in w)
added = (marg.covariance_matrix - dist.covariance_matrix).diagonal()
bound = gpytorch.settings.min_fixed_noise.value(torch.float64)
with warnings.catch_warnings():
    warnings.simplefilter("ignore")
    ctor = FixedNoiseGaussianLikelihood(noise).noise
print("noise added by likelihood(dist, noise=...):", added.tolist(), " warnings:", n_warn)
print("same values through the constructor        :", ctor.tolist(), " (bound", bound, ")")
print("expected_log_prob with that call-time noise:", lik.expected_log_prob(torch.zeros(n), dist, noise=noise).tolist())
sys.exit(1 if (added < bound).any() else 0)
