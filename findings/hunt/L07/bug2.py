"""
C07 violation: an ExactGP whose forward() returns a NON-INTERLEAVED MultitaskMultivariateNormal
(interleaved=False, the task-major layout that MultitaskMultivariateNormal documents and that
MultitaskGaussianLikelihood.marginal / log_prob / from_independent_mvns support) trains fine, but in eval mode hands
out a "posterior" that is not a valid conditioning of its own prior:

  * the posterior covariance matrix itself is NOT PSD: its diagonal is negative (about -8 .. -13), lambda_min ~ -70,
  * .variance therefore reports settings.min_variance (1e-10) at every test point (negative values rounded up),
  * prior covariance minus posterior covariance at the test points is NOT PSD either,
  * mean / covariance differ by O(1) from the dense formula and from the *same* model written in the interleaved
    layout (identical joint distribution, only the ordering of the flattened vector differs),
  * the returned distribution is silently re-labelled interleaved=True.

Root cause: ExactGP.__call__ / DefaultPredictionStrategy split the flattened joint vector as
[first num_train entries = training | rest = test], which is only true for the interleaved (point-major) layout.
"""
import sys
import warnings

import torch
from linear_operator.operators import KroneckerProductLinearOperator

import gpytorch
from gpytorch.distributions import MultitaskMultivariateNormal

warnings.simplefilter("ignore")
torch.manual_seed(0)
torch.set_default_dtype(torch.float64)

T = 2


class MTGP(gpytorch.models.ExactGP):
    """Intrinsic coregionalisation model  cov = B (x) K_xx, written in either layout."""

    def __init__(self, x, y, lik, interleaved):
        super().__init__(x, y, lik)
        self.interleaved = interleaved
        self.mean_module = gpytorch.means.MultitaskMean(gpytorch.means.ZeroMean(), num_tasks=T)
        self.data_kernel = gpytorch.kernels.RBFKernel()
        self.register_buffer("B", torch.tensor([[1.0, 0.6], [0.6, 1.5]]))

    def forward(self, x):
        Kxx = self.data_kernel(x).to_dense()
        if self.interleaved:  # point-major: K_xx (x) B
            covar = KroneckerProductLinearOperator(Kxx, self.B)
        else:  # task-major: B (x) K_xx
            covar = KroneckerProductLinearOperator(self.B, Kxx)
        return MultitaskMultivariateNormal(self.mean_module(x), covar, interleaved=self.interleaved)


n, m = 6, 3
x = torch.rand(n, 1)
y = torch.randn(n, T)
xt = torch.rand(m, 1)

out = {}
for interleaved in (True, False):
    lik = gpytorch.likelihoods.MultitaskGaussianLikelihood(num_tasks=T)
    lik.noise = 0.05
    lik.task_noises = torch.tensor([0.02, 0.03])
    model = MTGP(x, y, lik, interleaved)

    # training mode works in both layouts and gives the same marginal log likelihood
    model.train()
    mll = gpytorch.mlls.ExactMarginalLogLikelihood(lik, model)
    with torch.no_grad():
        mll_val = mll(model(x), y).item()

    model.eval()
    with torch.no_grad():
        post = model(xt)
        prior = model.forward(xt)
        # everything below in (point, task) layout so that the two runs are comparable
        def pm(dist):  # covariance in point-major order
            C = dist.covariance_matrix
            if not dist._interleaved:
                perm = torch.arange(m * T).view(T, m).T.reshape(-1)
                C = C[perm][:, perm]
            return C
        # NOTE: the posterior is returned with _interleaved=True in both cases
        out[interleaved] = dict(
            mll=mll_val, mean=post.mean, var=post.variance, cov=pm(post), prior_cov=pm(prior), flag=post._interleaved,
            raw_diag=post.covariance_matrix.diagonal(),
        )

# dense reference (point-major)
with torch.no_grad():
    k = gpytorch.kernels.RBFKernel()
    B = torch.tensor([[1.0, 0.6], [0.6, 1.5]])
    xa = torch.cat([x, xt])
    Kf = torch.kron(k(xa).to_dense(), B)
    D = torch.kron(torch.eye(n), torch.diag(torch.tensor([0.02, 0.03]) + 0.05))
    tr, te = slice(0, n * T), slice(n * T, None)
    A = Kf[tr, tr] + D
    ref_cov = Kf[te, te] - Kf[te, tr] @ torch.linalg.solve(A, Kf[tr, te])
    ref_mean = (Kf[te, tr] @ torch.linalg.solve(A, y.reshape(-1))).view(m, T)

bad = False
for interleaved in (True, False):
    o = out[interleaved]
    diff = o["prior_cov"] - o["cov"]
    lam = torch.linalg.eigvalsh((diff + diff.mT) / 2).min().item()
    print(f"--- forward() layout interleaved={interleaved}   (training mll = {o['mll']:.6f})")
    print(f"    posterior returned with _interleaved={o['flag']}")
    print(f"    |mean - dense reference|_max      = {(o['mean'] - ref_mean).abs().max().item():.3e}")
    print(f"    |cov  - dense reference|_max      = {(o['cov'] - ref_cov).abs().max().item():.3e}")
    print(f"    posterior .variance               = {[float(f'{v:.3g}') for v in o['var'].flatten().tolist()]}")
    print(f"    raw diagonal of posterior cov     = {[float(f'{v:.3g}') for v in o['raw_diag'].tolist()]}")
    lam_post = torch.linalg.eigvalsh((o['cov'] + o['cov'].mT) / 2).min().item()
    print(f"    lambda_min(posterior cov)         = {lam_post:.3e}")
    print(f"    lambda_min(prior cov - post cov)  = {lam:.3e}")
    if lam < -1e-6 or lam_post < -1e-6 or (o["cov"] - ref_cov).abs().max().item() > 1e-6:
        bad = True
print("difference between the two layouts of the SAME model: mean",
      f"{(out[True]['mean'] - out[False]['mean']).abs().max().item():.3e}, variance",
      f"{(out[True]['var'] - out[False]['var']).abs().max().item():.3e}")

print("VIOLATION PRESENT" if bad else "ok")
sys.exit(1 if bad else 0)
