#!/usr/bin/env python3
# Concerns commit 120fbdd ("MultitaskMultivariateNormal.log_prob flattens the value task-major when not interleaved").
# The repair is incomplete: the sibling path rsample(base_samples=...) has the same defect in the other direction.
# For interleaved=False the covariance is stored task-major, but rsample() flattens the caller's base samples of
# shape (..., n, t) point-major (plain reshape, no transpose) before multiplying them with the covariance root.
# The base sample given for entry (i, j) is therefore applied to another entry: with a diagonal covariance
# rsample(base_samples=b) != mean + stddev * b, and rsample(base_samples=get_base_samples(S)) differs from
# rsample(S) under the same seed (both identities hold for interleaved=True).  Not a regression of the commit
# (the code before it behaves the same); exit 1 while the sibling defect is present.
import sys
import warnings

import torch
from linear_operator.operators import DiagLinearOperator

from gpytorch.distributions import MultitaskMultivariateNormal

warnings.simplefilter("ignore")
torch.manual_seed(0)
n, t = 4, 3
mean = torch.randn(n, t)
var = torch.rand(n, t) + 0.5
bad = False
for interleaved in (True, False):
    flat_var = var.reshape(-1) if interleaved else var.transpose(-1, -2).reshape(-1)
    d = MultitaskMultivariateNormal(mean, DiagLinearOperator(flat_var), interleaved=interleaved)
    assert torch.allclose(d.variance, var)
    # log_prob (the repaired path) agrees with the independent normals
    v = torch.randn(2, n, t)
    ref = torch.distributions.Normal(mean, var.sqrt()).log_prob(v).sum((-1, -2))
    lp_ok = torch.allclose(d.log_prob(v), ref, atol=1e-4)
    # (a) base samples are applied entry by entry
    b = torch.randn(5, n, t)
    s = d.rsample(base_samples=b)
    a_ok = torch.allclose(s, mean + var.sqrt() * b, atol=1e-5)
    # (b) feeding back the distribution's own base samples reproduces the seeded draw
    torch.manual_seed(3)
    own = d.get_base_samples(torch.Size([5]))
    torch.manual_seed(3)
    drawn = d.rsample(torch.Size([5]))
    b_ok = torch.allclose(d.rsample(base_samples=own), drawn, atol=1e-5)
    print(
        f"interleaved={interleaved}: log_prob matches independent normals: {lp_ok}; "
        f"rsample(base_samples=b) == mean + sd*b: {a_ok}; "
        f"rsample(base_samples=get_base_samples()) == rsample() for one seed: {b_ok}"
    )
    if not (lp_ok and a_ok and b_ok):
        bad = True
print("PROBLEM PRESENT" if bad else "ok")
sys.exit(1 if bad else 0)
