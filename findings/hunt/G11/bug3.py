"""C11 bug 3: binary operations between two MultitaskMultivariateNormals ignore the layout of the operands.
kl_divergence(p, q) of the SAME joint Gaussian stored interleaved (p) and non-interleaved (q) is far from 0, and
p + q has a covariance that is not the sum of the two joint covariances.
"""
import sys
import warnings

import torch

from gpytorch.distributions import MultitaskMultivariateNormal

warnings.filterwarnings("ignore")
torch.manual_seed(0)
torch.set_default_dtype(torch.float64)

n, t = 3, 2
A = torch.randn(n * t, n * t)
covar = A @ A.T + n * t * torch.eye(n * t)  # point-major ordering
mean = torch.randn(n, t)
C4 = covar.reshape(n, t, n, t)
covar_taskmajor = C4.permute(1, 0, 3, 2).reshape(n * t, n * t)

p = MultitaskMultivariateNormal(mean, covar, interleaved=True)
q = MultitaskMultivariateNormal(mean, covar_taskmajor, interleaved=False)


def joint_cov(d):  # n x t x n x t, whatever the layout
    if d._interleaved:
        return d.covariance_matrix.reshape(n, t, n, t)
    return d.covariance_matrix.reshape(t, n, t, n).permute(1, 0, 3, 2)


# p and q are the same joint distribution
x = torch.randn(5, n, t)
print("same joint: mean diff", (p.mean - q.mean).abs().max().item(), "cov diff", (joint_cov(p) - joint_cov(q)).abs().max().item(),
      "log_prob diff", (p.log_prob(x) - q.log_prob(x)).abs().max().item())

bad = False
ref = torch.distributions.kl_divergence(
    torch.distributions.MultivariateNormal(mean.reshape(-1), covar), torch.distributions.MultivariateNormal(mean.reshape(-1), covar)
).item()
for name, a, b_ in [("KL(p_interleaved, q_noninterleaved)", p, q), ("KL(q_noninterleaved, p_interleaved)", q, p)]:
    kl = torch.distributions.kl_divergence(a, b_).item()
    print(f"{name} = {kl:.6f}   reference (identical distributions) = {ref:.6f}")
    if abs(kl - ref) > 1e-6:
        bad = True

for name, s in [("p + q", p + q), ("q + p", q + p)]:
    merr = (s.mean - 2 * mean).abs().max().item()
    cerr = (joint_cov(s) - 2 * C4).abs().max().item()
    print(f"{name}: mean err {merr:.2e}, covariance err vs 2*Sigma {cerr:.4f}")
    if cerr > 1e-8:
        bad = True

print("VIOLATION PRESENT" if bad else "no violation")
sys.exit(1 if bad else 0)
