"""C11 bug 1: MultitaskMultivariateNormal.expand raises AttributeError when the distribution was built from a
dense (torch.Tensor) covariance matrix - for either layout.  The same distribution built from a LinearOperator expands fine.
"""
import sys
import warnings

import torch
from linear_operator import to_linear_operator

from gpytorch.distributions import MultitaskMultivariateNormal

warnings.filterwarnings("ignore")
torch.manual_seed(0)
torch.set_default_dtype(torch.float64)

n, t = 3, 2
A = torch.randn(n * t, n * t)
covar = A @ A.T + n * t * torch.eye(n * t)
mean = torch.randn(n, t)

bad = False
for interleaved in (True, False):
    ref = MultitaskMultivariateNormal(mean, to_linear_operator(covar), interleaved=interleaved).expand(torch.Size([4]))
    print(f"interleaved={interleaved}: lazy covariance -> expand OK, mean shape {tuple(ref.mean.shape)}")
    d = MultitaskMultivariateNormal(mean, covar, interleaved=interleaved)  # plain tensors: a documented, valid input
    try:
        e = d.expand(torch.Size([4]))
        err_m = (e.mean - ref.mean).abs().max().item()
        err_c = (e.covariance_matrix - ref.covariance_matrix).abs().max().item()
        print(f"interleaved={interleaved}: dense covariance -> expand OK, mean err {err_m:.2e}, covariance err {err_c:.2e}")
        if err_m > 1e-10 or err_c > 1e-10:
            bad = True
    except Exception as exc:  # noqa
        print(f"interleaved={interleaved}: dense covariance -> expand RAISED {type(exc).__name__}: {exc}")
        bad = True

# a consequence: KL between dense multitask distributions whose batch shapes have to be broadcast
p = MultitaskMultivariateNormal(mean, covar)
q = MultitaskMultivariateNormal(mean.expand(2, n, t) + 0.1, covar.expand(2, n * t, n * t))
try:
    kl = torch.distributions.kl_divergence(p, q)
    print("kl_divergence(p [batch ()], q [batch (2,)]) =", kl)
except Exception as exc:  # noqa
    print(f"kl_divergence(p [batch ()], q [batch (2,)]) RAISED {type(exc).__name__}: {exc}")
    bad = True

print("VIOLATION PRESENT" if bad else "no violation")
sys.exit(1 if bad else 0)
