"""C11 bug 2: __getitem__ with an index tensor over a batch dimension combined with a (partial) slice over the point /
task dimensions.  The flat covariance indices are zipped (advanced-indexing broadcast) with the batch index tensor
instead of being applied per selected batch element: silently wrong covariance when the lengths happen to agree,
an exception otherwise.
"""
import sys
import warnings

import torch

from gpytorch.distributions import MultitaskMultivariateNormal

warnings.filterwarnings("ignore")
torch.manual_seed(0)
torch.set_default_dtype(torch.float64)

b, n, t = 2, 3, 2
A = torch.randn(b, n * t, n * t)
covar = A @ A.transpose(-1, -2) + n * t * torch.eye(n * t)  # interleaved (point-major) ordering
mean = torch.randn(b, n, t)
C4 = covar.reshape(b, n, t, n, t)  # C4[b, i, a, j, c] = cov(f_a(x_i), f_c(x_j))

bad = False
for interleaved in (True, False):
    stored = covar if interleaved else C4.permute(0, 2, 1, 4, 3).reshape(b, n * t, n * t)
    d = MultitaskMultivariateNormal(mean, stored, interleaved=interleaved)
    bt = torch.tensor([1, 0, 1])
    cases = {
        "d[bt, :, 0:1]": (bt, slice(None), slice(0, 1)),
        "d[bt, 0:2]": (bt, slice(0, 2)),
        "d[bt, 1:, 0:1]": (bt, slice(1, None), slice(0, 1)),
    }
    for name, idx in cases.items():
        full_idx = idx if len(idx) == 3 else idx + (slice(None),)
        exp_mean = mean[full_idx]
        # reference: pick the batch elements, then the sub-matrix of the selected (point, task) pairs
        sub = C4[bt][:, full_idx[1]][:, :, full_idx[2]][:, :, :, full_idx[1]][..., full_idx[2]]  # k x n' x t' x n' x t'
        exp_var = torch.diagonal(sub.reshape(len(bt), exp_mean[0].numel(), -1), dim1=-1, dim2=-2).reshape(exp_mean.shape)
        # the equivalent two-step indexing (documented to work) as a second reference
        two_step = d[bt][(slice(None),) + full_idx[1:]]
        assert torch.allclose(two_step.variance, exp_var) and torch.allclose(two_step.mean, exp_mean)
        try:
            r = d[idx]
            merr = (r.mean - exp_mean).abs().max().item()
            verr = (r.variance - exp_var).abs().max().item()
            print(f"interleaved={interleaved} {name}: mean err {merr:.2e}, variance err vs sub-matrix {verr:.3e}")
            if merr > 1e-10 or verr > 1e-8:
                bad = True
        except Exception as exc:  # noqa
            print(f"interleaved={interleaved} {name}: RAISED {type(exc).__name__}: {str(exc)[:100]}")
            bad = True

print("VIOLATION PRESENT" if bad else "no violation")
sys.exit(1 if bad else 0)
