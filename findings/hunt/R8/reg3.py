# Concerns commit 0842861 (LikelihoodList.get_fantasy_likelihood).
# The fantasy is rebuilt with self.__class__(*members): a subclass of LikelihoodList whose constructor does not take the
# members positionally now raises TypeError (and one with extra keyword state silently gets the defaults).  The code
# before the commit (deepcopy) returned a faithful copy of the subclass instance.
import sys
from gpytorch.likelihoods import GaussianLikelihood, LikelihoodList


class NGaussians(LikelihoodList):
    def __init__(self, n):
        super().__init__(*[GaussianLikelihood() for _ in range(n)])
        self.n = n


class Tagged(LikelihoodList):
    def __init__(self, *likelihoods, tag="default"):
        super().__init__(*likelihoods)
        self.tag = tag


bad = False
try:
    f = NGaussians(2).get_fantasy_likelihood()
    print("NGaussians(2).get_fantasy_likelihood() ->", type(f).__name__, "n =", getattr(f, "n", "<missing>"))
    if getattr(f, "n", None) != 2:
        bad = True
except TypeError as e:
    print("PROBLEM: NGaussians(2).get_fantasy_likelihood() raised TypeError:", e)
    bad = True
t = Tagged(GaussianLikelihood(), GaussianLikelihood(), tag="custom").get_fantasy_likelihood()
print("Tagged(tag='custom') fantasy tag =", t.tag)
if t.tag != "custom":
    print("PROBLEM: constructor keyword state of the subclass is reset to its default in the fantasy")
    bad = True
sys.exit(1 if bad else 0)
