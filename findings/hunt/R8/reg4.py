# Concerns commit 0842861 (LikelihoodList.get_fantasy_likelihood).
# noise=None ("no fantasy noise", what a caller forwarding an optional noise argument passes) now raises
# TypeError ('NoneType' object is not iterable): the new code tests `"noise" in kwargs` and then zips over the value.
# The code before the commit returned a copy of the list.
import sys
from gpytorch.likelihoods import GaussianLikelihood, LikelihoodList

ll = LikelihoodList(GaussianLikelihood(), GaussianLikelihood())
try:
    f = ll.get_fantasy_likelihood(noise=None)
    print("get_fantasy_likelihood(noise=None) ->", type(f).__name__, "with", len(f.likelihoods), "members")
    sys.exit(0)
except TypeError as e:
    print("PROBLEM: get_fantasy_likelihood(noise=None) raised TypeError:", e)
    sys.exit(1)
