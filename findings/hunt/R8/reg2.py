# Concerns commit 0842861 (LikelihoodList.get_fantasy_likelihood).
# A LikelihoodList whose members are the SAME likelihood object (tied noise for all outputs) is fantasized member by member:
# the fantasy has two independent copies, the parameter is no longer shared (parameter count 1 -> 2).  The code before the
# commit deep-copied the list, which preserves the sharing.
import sys
import torch
from gpytorch.likelihoods import GaussianLikelihood, LikelihoodList

shared = GaussianLikelihood()
ll = LikelihoodList(shared, shared)
fant = ll.get_fantasy_likelihood()
n_orig = len(list(ll.parameters()))
n_fant = len(list(fant.parameters()))
tied = fant.likelihoods[0] is fant.likelihoods[1]
print("parameters in original list:", n_orig, "| in fantasy list:", n_fant, "| fantasy members are one object:", tied)
fant.likelihoods[0].noise = torch.tensor([0.123])
print("after setting member 0 noise to 0.123: member 1 noise =", fant.likelihoods[1].noise.item())
bad = (n_fant != n_orig) or not tied or abs(fant.likelihoods[1].noise.item() - 0.123) > 1e-6
if bad:
    print("PROBLEM: the tied members of the list are untied in the fantasy likelihood")
sys.exit(1 if bad else 0)
