# Regression check for commit e6dbfed
#   "fix: ExactMarginalLogLikelihood scales by the number of observed values under the mask NaN policy"
#
# num_data is now the event size of the *masked* marginal.  When every target is NaN (an output of a model list that has
# no observation yet, a placeholder row of a batch, the first round of an active-learning loop ...) the masked marginal
# is empty, num_data == 0 and the result is divided by zero: the MLL becomes nan (no priors) or -inf/inf (with priors)
# and the gradient of every parameter that carries a prior becomes inf/nan, which destroys the parameters on the next
# optimizer step.  Before the commit the value was finite (0, or sum(log prior) / n) with finite gradients.
import sys

import torch

import gpytorch


class GP(gpytorch.models.ExactGP):
    def __init__(self, x, y, lik):
        super().__init__(x, y, lik)
        self.mean_module = gpytorch.means.ConstantMean()
        self.covar_module = gpytorch.kernels.ScaleKernel(gpytorch.kernels.RBFKernel())

    def forward(self, x):
        return gpytorch.distributions.MultivariateNormal(self.mean_module(x), self.covar_module(x))


x = torch.linspace(0, 1, 6).unsqueeze(-1)
y = torch.full((6,), float("nan"))  # nothing observed (yet)

bad = False
for with_prior in (False, True):
    lik = gpytorch.likelihoods.GaussianLikelihood()
    model = GP(x, y, lik)
    if with_prior:
        model.covar_module.register_prior("outputscale_prior", gpytorch.priors.GammaPrior(2.0, 3.0), "outputscale")
    model.train()
    lik.train()
    mll = gpytorch.mlls.ExactMarginalLogLikelihood(lik, model)
    with gpytorch.settings.observation_nan_policy("mask"):
        value = mll(model(x), y)
        value.backward()
    grads = {n: p.grad for n, p in model.named_parameters() if p.grad is not None}
    finite_grads = all(torch.isfinite(g).all().item() for g in grads.values())
    print(f"all targets NaN, prior={with_prior}: mll = {value.item()}  finite gradients: {finite_grads}")
    print("   grad raw_outputscale:", grads.get("covar_module.raw_outputscale"))
    if not torch.isfinite(value).item() or not finite_grads:
        bad = True

if bad:
    print("PROBLEM: ExactMarginalLogLikelihood divides by zero when the mask policy removes every observation")
    sys.exit(1)
print("no problem")
sys.exit(0)
