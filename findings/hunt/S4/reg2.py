# Regression check for commit 0c21ba2
#   "fix: IndependentMultitaskVariationalStrategy sums the KL divergence over its task dimension"
#
# IndependentMultitaskVariationalStrategy.__call__ has an explicit fallback: when task_dim does not exist in the batch
# shape of the base strategy's output (e.g. a base strategy without batch shape = one latent GP shared by all tasks) the
# output is MultitaskMultivariateNormal.from_repeated_mvn(...).  In that configuration the KL of the base strategy is a
# scalar.  Before the commit kl_divergence() (sum(dim=-1) of a 0-dim tensor) returned it unchanged; after the commit
# sum(dim=self.task_dim) raises IndexError for every task_dim other than -1 / 0, so the ELBO cannot be evaluated.
import sys

import torch

import gpytorch

T, M_, N = 3, 5, 7


class Model(gpytorch.models.ApproximateGP):
    def __init__(self, task_dim):
        ip = torch.linspace(0, 1, M_).unsqueeze(-1)
        vd = gpytorch.variational.CholeskyVariationalDistribution(M_)
        vs = gpytorch.variational.IndependentMultitaskVariationalStrategy(
            gpytorch.variational.VariationalStrategy(self, ip, vd, learn_inducing_locations=True),
            num_tasks=T,
            task_dim=task_dim,
        )
        super().__init__(vs)
        self.mean_module = gpytorch.means.ConstantMean()
        self.covar_module = gpytorch.kernels.ScaleKernel(gpytorch.kernels.RBFKernel())

    def forward(self, x):
        return gpytorch.distributions.MultivariateNormal(self.mean_module(x), self.covar_module(x))


def run(task_dim):
    torch.manual_seed(1)
    model = Model(task_dim)
    model.train()
    x = torch.rand(N, 1)
    y = torch.randn(N, T)
    model(x)
    with torch.no_grad():
        model.variational_strategy.base_variational_strategy._variational_distribution.variational_mean.add_(
            torch.linspace(-1, 1, M_)
        )
    out = model(x)
    print(f"task_dim={task_dim}: output {type(out).__name__} batch {tuple(out.batch_shape)} event {tuple(out.event_shape)}")
    expected = model.variational_strategy.base_variational_strategy.kl_divergence()
    try:
        lik = gpytorch.likelihoods.MultitaskGaussianLikelihood(num_tasks=T)
        elbo = gpytorch.mlls.VariationalELBO(lik, model, num_data=N)(out, y)
        kl = model.variational_strategy.kl_divergence()
    except Exception as e:  # noqa
        print(f"   ELBO / kl_divergence() raised {type(e).__name__}: {e}")
        return False
    print(f"   kl {kl.item():.6f} expected {expected.item():.6f}; ELBO {elbo.item():.6f}")
    return kl.shape == torch.Size([]) and torch.allclose(kl, expected)


results = {td: run(td) for td in (-1, 1, -2)}
print(results)
if not all(results.values()):
    print("PROBLEM: shared-latent (from_repeated_mvn) configuration cannot compute its KL for task_dim not in (-1, 0)")
    sys.exit(1)
print("no problem")
sys.exit(0)
