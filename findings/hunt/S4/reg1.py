# Regression check for commit 0c21ba2
#   "fix: IndependentMultitaskVariationalStrategy sums the KL divergence over its task dimension"
#
# kl_divergence() now does  super().kl_divergence().sum(dim=self.task_dim).  task_dim indexes the batch shape of the
# *function distribution* returned by the base strategy (that is how __call__ / from_batch_mvn use it, and __call__
# explicitly supports positive values), but the KL only has the batch shape of q(u)/p(u).  When the input carries extra
# leading batch dimensions (x: [b, 1, N, D] with a model of batch shape [tasks]) the function distribution has batch
# shape [b, tasks] and task_dim=1 is the valid way to name the task dimension; the KL has shape [tasks] and
# .sum(dim=1) raises IndexError.  The code before the commit (sum(dim=-1)) returned the right scalar and the ELBO worked.
import sys

import torch

import gpytorch

torch.manual_seed(0)
T, M_, N, B = 3, 5, 7, 4


class Model(gpytorch.models.ApproximateGP):
    def __init__(self, task_dim):
        bs = torch.Size([T])
        ip = torch.rand(T, M_, 1)
        vd = gpytorch.variational.CholeskyVariationalDistribution(M_, batch_shape=bs)
        vs = gpytorch.variational.IndependentMultitaskVariationalStrategy(
            gpytorch.variational.VariationalStrategy(self, ip, vd, learn_inducing_locations=True),
            num_tasks=T,
            task_dim=task_dim,
        )
        super().__init__(vs)
        self.mean_module = gpytorch.means.ConstantMean(batch_shape=bs)
        self.covar_module = gpytorch.kernels.ScaleKernel(gpytorch.kernels.RBFKernel(batch_shape=bs), batch_shape=bs)

    def forward(self, x):
        return gpytorch.distributions.MultivariateNormal(self.mean_module(x), self.covar_module(x))


def run(task_dim):
    torch.manual_seed(1)
    model = Model(task_dim)
    model.train()
    x = torch.rand(B, 1, N, 1)  # extra leading batch dimension -> function dist batch shape [B, T]
    y = torch.randn(B, N, T)
    model(x)  # first call initialises q(u) from the prior; move it away so that the KL is not ~0
    with torch.no_grad():
        model.variational_strategy.base_variational_strategy._variational_distribution.variational_mean.add_(
            torch.linspace(-1, 1, T * M_).view(T, M_)
        )
    out = model(x)
    print(f"task_dim={task_dim}: output {type(out).__name__} batch {tuple(out.batch_shape)} event {tuple(out.event_shape)}")
    expected = model.variational_strategy.base_variational_strategy.kl_divergence().sum()
    try:
        kl = model.variational_strategy.kl_divergence()
    except Exception as e:  # noqa
        print(f"   kl_divergence() raised {type(e).__name__}: {e}")
        return False
    print(f"   kl shape {tuple(kl.shape)} value {kl.item():.6f}  expected (sum over tasks) {expected.item():.6f}")
    lik = gpytorch.likelihoods.MultitaskGaussianLikelihood(num_tasks=T)
    elbo = gpytorch.mlls.VariationalELBO(lik, model, num_data=N)(out, y)
    print(f"   ELBO shape {tuple(elbo.shape)}")
    return kl.shape == torch.Size([]) and torch.allclose(kl, expected) and elbo.shape == torch.Size([B])


ok_neg = run(-1)  # the same dimension named with a negative index: works before and after
ok_pos = run(1)  # the same dimension named with a positive index: broken by the commit
print("negative index ok:", ok_neg, "| positive index ok:", ok_pos)
if not (ok_neg and ok_pos):
    print("PROBLEM: kl_divergence() fails / is wrong for a valid task_dim of the function distribution")
    sys.exit(1)
print("no problem")
sys.exit(0)
