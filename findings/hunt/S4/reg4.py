# Incomplete-repair check for commit e6dbfed
#   "fix: ExactMarginalLogLikelihood scales by the number of observed values under the mask NaN policy"
#
# The commit promises that under observation_nan_policy('mask') the objective equals the one of the same model trained
# on the data with the NaN observations removed.  That holds for a plain exact GP, but not when the model has added loss
# terms computed on the full event: the SGPR trace term of InducingPointKernel (_add_other_terms ->
# InducingPointKernelAddedLossTerm.loss) still sums over ALL training inputs, the unobserved ones included, and is now
# divided by n_observed.  (Before the commit both parts were divided by n_total: the objective was a consistently
# rescaled version of "log prob of observed + trace over all"; neither version matches the NaN-free model.)
import sys

import torch

import gpytorch


class SGPR(gpytorch.models.ExactGP):
    def __init__(self, x, y, lik, sparse=True):
        super().__init__(x, y, lik)
        self.mean_module = gpytorch.means.ConstantMean()
        self.covar_module = gpytorch.kernels.ScaleKernel(gpytorch.kernels.RBFKernel())
        if sparse:
            self.covar_module = gpytorch.kernels.InducingPointKernel(
                self.covar_module, inducing_points=torch.linspace(0, 1, 3).unsqueeze(-1), likelihood=lik
            )

    def forward(self, x):
        return gpytorch.distributions.MultivariateNormal(self.mean_module(x), self.covar_module(x))


def objective(x, y, mask, sparse=True):
    lik = gpytorch.likelihoods.GaussianLikelihood()
    model = SGPR(x, y, lik, sparse)
    model.train()
    lik.train()
    mll = gpytorch.mlls.ExactMarginalLogLikelihood(lik, model)
    with gpytorch.settings.observation_nan_policy("mask" if mask else "ignore"):
        return mll(model(x), y).item()


x = torch.linspace(0, 1, 8).unsqueeze(-1)
y = torch.sin(3 * x).squeeze(-1)
y_nan = y.clone()
y_nan[[1, 4, 6]] = float("nan")
keep = ~torch.isnan(y_nan)

# control: plain exact GP (no added loss term) - the two objectives agree after the commit
c_masked = objective(x, y_nan, mask=True, sparse=False)
c_removed = objective(x[keep], y_nan[keep], mask=False, sparse=False)
print(f"exact GP objective (control), masked : {c_masked:.6f}   removed : {c_removed:.6f}")

masked = objective(x, y_nan, mask=True)
removed = objective(x[keep], y_nan[keep], mask=False)
print(f"SGPR objective, NaN targets masked : {masked:.6f}")
print(f"SGPR objective, NaN rows removed   : {removed:.6f}")
if abs(masked - removed) > 1e-4:
    print("PROBLEM: masked objective differs from the objective on the observed data (trace term covers unobserved inputs)")
    sys.exit(1)
print("no problem")
sys.exit(0)
