# Concerns commit 671ed71 (MultitaskGaussianLikelihood._shaped_noise_covar takes add_noise / interleaved by
# keyword only).
#
# Regression (backward compatibility): before the commit the signature was the upstream one,
#     _shaped_noise_covar(self, shape, add_noise=True, interleaved=True, *params, **kwargs)
# so callers and subclasses written against it pass add_noise / interleaved POSITIONALLY.  After the commit these
# positional values are swallowed by *params and silently ignored: the global noise is always added and the
# layout is always the interleaved one - no error, a different noise covariance.
#   (a) direct call  lik._shaped_noise_covar(shape, False, False)
#   (b) a subclass that overrides the method with the upstream signature and forwards positionally to super();
#       lik.marginal() of a NON-interleaved distribution then adds the noise in the interleaved layout.
# Exit 1 if positional and keyword calls disagree, 0 otherwise.
import sys
import warnings

import torch

warnings.simplefilter("ignore")
from gpytorch.distributions import MultitaskMultivariateNormal  # noqa: E402
from gpytorch.likelihoods import MultitaskGaussianLikelihood  # noqa: E402

torch.manual_seed(0)
n, t = 4, 3
shape = torch.Size([n, t])
bad = False

lik = MultitaskGaussianLikelihood(num_tasks=t, rank=0)
lik.noise = 0.3
lik.task_noises = torch.tensor([0.1, 0.2, 0.4])

# (a) direct positional call
kw = lik._shaped_noise_covar(shape, add_noise=False, interleaved=False).to_dense().diagonal().detach()
pos = lik._shaped_noise_covar(shape, False, False).to_dense().diagonal().detach()
print("(a) keyword    add_noise=False, interleaved=False:", kw.tolist())
print("(a) positional False, False                      :", pos.tolist())
if not torch.allclose(kw, pos):
    print("    -> positional add_noise / interleaved are silently ignored")
    bad = True


# (b) subclass written against the upstream signature
class MyLikelihood(MultitaskGaussianLikelihood):
    def _shaped_noise_covar(self, shape, add_noise=True, interleaved=True, *params, **kwargs):
        return super()._shaped_noise_covar(shape, add_noise, interleaved, *params, **kwargs)


sub = MyLikelihood(num_tasks=t, rank=0)
sub.noise = 0.3
sub.task_noises = torch.tensor([0.1, 0.2, 0.4])
mean = torch.zeros(n, t)
dist = MultitaskMultivariateNormal(mean, torch.eye(n * t), interleaved=False)
got = sub.marginal(dist).variance.detach()  # n x t
want = lik.marginal(dist).variance.detach()
expected = (1.0 + 0.3 + torch.tensor([0.1, 0.2, 0.4])).expand(n, t)
print("(b) marginal variance, plain likelihood   :", want[0].tolist(), "(expected per task", expected[0].tolist(), ")")
print("(b) marginal variance, upstream-style subclass row 0:", got[0].tolist())
print("(b)                                          row 1:", got[1].tolist())
if not torch.allclose(got, expected):
    print("    -> the subclass forwarding add_noise / interleaved positionally gets the interleaved noise layout")
    bad = True

sys.exit(1 if bad else 0)
