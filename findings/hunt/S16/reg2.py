# Concerns commit 8ba048a (transformed priors follow their buffers through .double() / .to()).
#
# Incomplete repair: only the attributes that are mirrored as _transformed_* buffers are re-loaded into the base
# distribution.  HalfNormalPrior / HalfCauchyPrior register just `scale`; their base distributions
# (Normal(0, scale) / Cauchy(0, scale)) also hold a `loc` tensor created in the constructor, which still has the
# old dtype (and device) after prior.double() / .to(): the base distribution ends up with mixed dtypes
# (loc float32, scale float64).  Samples are drawn with loc's dtype, so a prior converted with .double() does not
# behave like the same prior constructed in double: sample(shape) is float32 (before the commit everything was
# consistently float32; the old code had the stale-base_dist defect instead).  With .to(device) the same left-over
# `loc` stays on the old device.
# Exit 1 if a converted prior differs from the prior constructed directly in the target dtype.
import sys
import warnings

import torch

warnings.simplefilter("ignore")
from gpytorch.priors import HalfCauchyPrior, HalfNormalPrior, LogNormalPrior  # noqa: E402

bad = False
for name, make in [
    ("LogNormalPrior", lambda dt: LogNormalPrior(torch.tensor(0.5, dtype=dt), torch.tensor(2.0, dtype=dt))),
    ("HalfNormalPrior", lambda dt: HalfNormalPrior(torch.tensor(2.0, dtype=dt))),
    ("HalfCauchyPrior", lambda dt: HalfCauchyPrior(torch.tensor(2.0, dtype=dt))),
    ("HalfNormalPrior[2]", lambda dt: HalfNormalPrior(torch.tensor([1.0, 2.0], dtype=dt))),
]:
    direct = make(torch.double)
    converted = make(torch.float).double()
    torch.manual_seed(0)
    s_direct = direct.sample(torch.Size([3]))
    torch.manual_seed(0)
    s_conv = converted.sample(torch.Size([3]))
    bd = converted.base_dist
    print(
        f"{name:20s} base_dist.loc {str(bd.loc.dtype):14s} base_dist.scale {str(bd.scale.dtype):14s} "
        f"sample dtype: constructed-in-double {s_direct.dtype}, after .double() {s_conv.dtype}"
    )
    if bd.loc.dtype != bd.scale.dtype or s_conv.dtype != s_direct.dtype:
        print("    -> the base distribution was only partly converted")
        bad = True

sys.exit(1 if bad else 0)
