# Concerns commit 8ba048a (transformed priors follow their buffers through .double() / .to()).
#
# Incomplete repair, sibling path: the commit handles buffers REPLACED by Module._apply.  The other standard way
# torch replaces buffers is  model.load_state_dict(state, assign=True)  (torch >= 2.1): _load_from_state_dict does
# setattr(prior, "_transformed_loc", tensor), which Prior.__setattr__ rejects with the "should not have their
# '_transformed' attributes modified" AttributeError - so a model holding a LogNormalPrior / HalfCauchyPrior /
# HalfNormalPrior cannot be loaded with assign=True at all, while the same model with a NormalPrior loads fine.
# (The code before the commit fails in the same way: not a regression, a path the repair left out.)
# Exit 1 if loading with assign=True fails for the transformed prior or leaves the base distribution stale.
import sys
import warnings

import torch

warnings.simplefilter("ignore")
import gpytorch  # noqa: E402
from gpytorch.priors import LogNormalPrior, NormalPrior  # noqa: E402


def make_model(prior_cls):
    class M(gpytorch.Module):
        def __init__(self):
            super().__init__()
            self.register_parameter("raw", torch.nn.Parameter(torch.zeros(1)))
            self.register_prior("pr", prior_cls(0.0, 1.0), lambda m: m.raw.exp())

    return M()


bad = False
x = torch.tensor(1.5)
for prior_cls, prefix in [(NormalPrior, ""), (LogNormalPrior, "_transformed_")]:
    model = make_model(prior_cls)
    state = make_model(prior_cls).state_dict()
    state[f"pr.{prefix}loc"] = torch.tensor(3.0)
    state[f"pr.{prefix}scale"] = torch.tensor(0.5)
    expected = prior_cls(3.0, 0.5).log_prob(x)
    try:
        model.load_state_dict(state, assign=True)
    except Exception as e:
        print(f"{prior_cls.__name__}: load_state_dict(assign=True) raised {type(e).__name__}: ... {" ".join(str(e).split())[-260:]}")
        bad = True
        continue
    got = model.pr.log_prob(x)
    print(f"{prior_cls.__name__}: loaded; log_prob(1.5) = {got.item():.6f}, expected {expected.item():.6f}")
    if not torch.allclose(got, expected):
        print("    -> the prior still evaluates with the constructor values")
        bad = True

sys.exit(1 if bad else 0)
