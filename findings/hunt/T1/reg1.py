# Concerns commit 42b75d3 (FixedGaussianNoise bounds a call-time noise only for float/double/half).
# The commit makes an integer (or bfloat16) call-time noise pass again, but skips the min_fixed_noise bound for it
# altogether: likelihood(dist, noise=<int tensor with 0 / negative entries>) adds the values verbatim after dtype
# promotion -> the defect repaired by ba24fe4 (0, tiny or negative call-time noise added as given) is open again for
# these dtypes.  The code before 42b75d3 raised RuntimeError instead of silently producing a singular / indefinite
# marginal covariance.
import sys
import warnings

import torch

from gpytorch.distributions import MultivariateNormal
from gpytorch.likelihoods import FixedNoiseGaussianLikelihood

lik = FixedNoiseGaussianLikelihood(noise=torch.full((3,), 0.1))
d = MultivariateNormal(torch.zeros(3), torch.eye(3))
bad = False
for name, noise in [
    ("int64 zeros", torch.tensor([0, 0, 0])),
    ("int64 negative", torch.tensor([-1, -1, -1])),
    ("bfloat16 zeros", torch.zeros(3, dtype=torch.bfloat16)),
]:
    with warnings.catch_warnings():
        warnings.simplefilter("ignore")
        ref = lik(d, noise=noise.to(torch.float)).covariance_matrix.diagonal()  # float noise of the same values: bounded
        try:
            got = lik(d, noise=noise).covariance_matrix.diagonal()
        except RuntimeError as e:  # behaviour before 42b75d3: explicit error, not a wrong result
            print(f"{name}: raised {e!r} (no silent wrong result)")
            continue
    print(f"{name}: marginal variance with {noise.dtype} noise {got.tolist()}, with the same float noise {ref.tolist()}")
    if not torch.allclose(got.to(ref.dtype), ref):
        bad = True
print("PROBLEM PRESENT: call-time noise of an unsupported dtype escapes min_fixed_noise" if bad else "ok")
sys.exit(1 if bad else 0)
