# Concerns commit e18102f (incomplete repair).
# The commit message lists "unhashable callables raised TypeError" among the repaired side effects, but only the
# branch for a default inverse was changed.  With inv_transform=None the look-up still goes through
# _get_inv_param_transform -> TRANSFORM_REGISTRY.get(transform): an unhashable callable raises
# TypeError("unhashable type") instead of the RuntimeError "Must specify inv_param_transform ..." every other unknown
# transform gets.  (Same before the commit: not a regression, a sibling path left out.)
import sys

import torch

from gpytorch.constraints import Positive


class Exp:  # defines __eq__ without __hash__ -> unhashable
    def __eq__(self, other):
        return isinstance(other, Exp)

    def __call__(self, x):
        return torch.exp(x)


bad = False
try:
    Positive(transform=Exp(), inv_transform=None)
    print("accepted")
except RuntimeError as e:
    print("RuntimeError:", e)
except TypeError as e:
    print("TypeError:", e)
    bad = True
print("PROBLEM PRESENT: unhashable transform with inv_transform=None raises TypeError" if bad else "ok")
sys.exit(1 if bad else 0)
