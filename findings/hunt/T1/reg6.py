# Concerns commit 7259da6 (MultivariateNormal.__rmul__ returns NotImplemented for non-numbers).
# __rmul__ now filters the operand itself before delegating to __mul__, so a subclass whose __mul__ accepts more
# operand types (0-dim tensors here) loses the reflected form: sub * tensor(2.) works, tensor(2.) * sub raises
# TypeError.  With the code before the commit (__rmul__ = self.__mul__(other)) both orders worked.
import sys

import torch

from gpytorch.distributions import MultivariateNormal


class TensorScalableMVN(MultivariateNormal):
    def __mul__(self, other):
        if torch.is_tensor(other) and other.dim() == 0:
            other = other.item()
        return super().__mul__(other)


d = TensorScalableMVN(torch.ones(3), torch.eye(3))
print("d * tensor(2.) mean:", (d * torch.tensor(2.0)).mean.tolist())
bad = False
try:
    print("tensor(2.) * d mean:", (torch.tensor(2.0) * d).mean.tolist())
except TypeError as e:
    print("tensor(2.) * d -> TypeError:", e)
    bad = True
print("PROBLEM PRESENT: __rmul__ no longer defers to an overriding __mul__" if bad else "ok")
sys.exit(1 if bad else 0)
