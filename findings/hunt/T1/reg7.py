# Concerns commit 7259da6 (incomplete repair, sibling operator).
# The reflected multiplication now declines non-numbers (TypeError from python), the reflected addition next to it
# does not: None + d and 'a' + d raise RuntimeError("Unsupported type ...") from __add__, tensor([1., 2., 3.]) + d
# raises RuntimeError("Boolean value of Tensor with more than one value is ambiguous") from `if other == 0`.
# (Same before the commit: the same defect on the sibling path __radd__.)
import sys

import torch

from gpytorch.distributions import MultivariateNormal

d = MultivariateNormal(torch.ones(3), torch.eye(3))
assert sum([d, d]).mean.tolist() == [2.0, 2.0, 2.0]  # 0 + d must keep working
bad = False
for name, other in [("None", None), ("'a'", "a"), ("tensor([1., 2., 3.])", torch.tensor([1.0, 2.0, 3.0]))]:
    try:
        other + d
        print(f"{name} + d: no error")
    except TypeError as e:
        print(f"{name} + d: TypeError ({e})")
    except RuntimeError as e:
        print(f"{name} + d: RuntimeError ({e})")
        bad = True
    try:
        other * d
    except TypeError:
        print(f"{name} * d: TypeError")
print("PROBLEM PRESENT: __radd__ raises RuntimeError where __rmul__ raises TypeError" if bad else "ok")
sys.exit(1 if bad else 0)
