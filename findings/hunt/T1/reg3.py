# Concerns commit e18102f (constraints re-pair the inverse only for registered transforms and never reject a pair).
# A transform that is neither registered nor a spelling of the default one, given without an inverse, is now silently
# paired with the constructor's default inverse (inv_softplus / inv_sigmoid): Positive(transform=nn.Softplus(beta=5)),
# Positive(transform=lambda x: torch.exp(x)), Positive(transform=torch.Tensor.exp), Interval(0, 1, transform=torch.tanh).
# kernel.lengthscale = 0.9 then reads back 0.41 / 1.46 -> exactly the defect 52cc30c repaired.  The code before e18102f
# rejected all of these with RuntimeError("Must specify inv_transform for custom transforms").
import sys

import torch

import gpytorch
from gpytorch.constraints import Interval, Positive

cases = [
    ("Positive(nn.Softplus(beta=5))", lambda: Positive(transform=torch.nn.Softplus(beta=5))),
    ("Positive(lambda x: torch.exp(x))", lambda: Positive(transform=lambda x: torch.exp(x))),
    ("Positive(torch.Tensor.exp)", lambda: Positive(transform=torch.Tensor.exp)),
    ("Interval(0, 1, torch.tanh)", lambda: Interval(0.0, 1.0, transform=torch.tanh)),
    # accepted spellings of the defaults must keep working (they round-trip)
    ("Positive(nn.Softplus())", lambda: Positive(transform=torch.nn.Softplus())),
    ("Positive(torch.exp)", lambda: Positive(transform=torch.exp)),
]
bad = False
for name, make in cases:
    try:
        constraint = make()
    except RuntimeError as e:
        print(f"{name}: rejected ({e})")
        continue
    kernel = gpytorch.kernels.RBFKernel(lengthscale_constraint=constraint)
    kernel.lengthscale = 0.9
    back = kernel.lengthscale.item()
    print(f"{name}: lengthscale = 0.9 reads back {back:.4f}")
    if abs(back - 0.9) > 1e-4:
        bad = True
print("PROBLEM PRESENT: a transform is silently paired with an inverse that does not invert it" if bad else "ok")
sys.exit(1 if bad else 0)
