# Concerns commit e18102f.
# The registry look-up for a transform given with a default inverse changed from dictionary membership (hash + ==) to
# identity.  A user-registered callable object with value equality (TRANSFORM_REGISTRY[Scaled(2.0)] = ...) is no longer
# found through an equal instance: Positive(transform=Scaled(2.0)) silently keeps inv_softplus, value 0.9 reads back
# 2.13.  The code before e18102f found the registered inverse (as _get_inv_param_transform, used for
# inv_transform=None, still does -> the two branches now disagree).
import sys

import torch

from gpytorch.constraints import Positive
from gpytorch.utils.transforms import TRANSFORM_REGISTRY


class Scaled:
    def __init__(self, a):
        self.a = a

    def __eq__(self, other):
        return isinstance(other, Scaled) and other.a == self.a

    def __hash__(self):
        return hash(("Scaled", self.a))

    def __call__(self, x):
        return torch.exp(self.a * x)


TRANSFORM_REGISTRY[Scaled(2.0)] = lambda y: torch.log(y) / 2.0
try:
    value = torch.tensor(0.9)
    c_none = Positive(transform=Scaled(2.0), inv_transform=None)
    c_default = Positive(transform=Scaled(2.0))
    back_none = c_none.transform(c_none.inverse_transform(value)).item()
    back_default = c_default.transform(c_default.inverse_transform(value)).item()
finally:
    for key in [k for k in TRANSFORM_REGISTRY if isinstance(k, Scaled)]:
        del TRANSFORM_REGISTRY[key]
print(f"inv_transform=None   : 0.9 -> {back_none:.4f}")
print(f"inv_transform default: 0.9 -> {back_default:.4f}")
bad = abs(back_default - 0.9) > 1e-4
print("PROBLEM PRESENT: registered transform (equal, not identical) keeps the default inverse" if bad else "ok")
sys.exit(1 if bad else 0)
