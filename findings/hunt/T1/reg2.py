# Concerns commit 42b75d3 (incomplete repair, sibling path).
# The commit removes "Unsupported dtype for min_fixed_noise" for an integer noise given at call time, but the noise
# setter of FixedNoiseGaussianLikelihood (bounded since 4df3154 through the same helper) still raises it for an
# integer tensor: likelihood.noise = torch.tensor([1, 2, 3]).  Before 4df3154 the assignment went through
# (stored as tensor([1., 2., 3.])).  A python list of ints is accepted (converted to the stored dtype), a tensor is not.
import sys

import torch

from gpytorch.likelihoods import FixedNoiseGaussianLikelihood

lik = FixedNoiseGaussianLikelihood(noise=torch.full((3,), 0.1))
lik.noise = [1, 2, 3]
print("list of ints   ->", lik.noise)
bad = False
try:
    lik.noise = torch.tensor([1, 2, 3])
    print("integer tensor ->", lik.noise)
    bad = not torch.equal(lik.noise.to(torch.float), torch.tensor([1.0, 2.0, 3.0]))
except RuntimeError as e:
    print("integer tensor -> RuntimeError:", e)
    bad = True
print("PROBLEM PRESENT: the noise setter rejects an integer tensor" if bad else "ok")
sys.exit(1 if bad else 0)
