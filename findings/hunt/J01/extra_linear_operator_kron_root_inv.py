"""Extra (dependency, linear_operator 0.6.1, not GPyTorch code): KroneckerProductAddedDiagLinearOperator with a
non-constant KroneckerProductDiagLinearOperator returns a wrong root_inv_decomposition when the size is above
max_cholesky_size.  Through GPyTorch: MultitaskKernel + MultitaskGaussianLikelihood(rank=0, has_task_noise=True),
fast_pred_var(True), max_cholesky_size(0) -> posterior covariance off by O(1)."""
import sys
import torch
from linear_operator import settings as LS
from linear_operator.operators import (ConstantDiagLinearOperator, DenseLinearOperator, DiagLinearOperator,
                                       KroneckerProductDiagLinearOperator, KroneckerProductLinearOperator)
torch.set_default_dtype(torch.float64)
torch.manual_seed(0)
def spd(n):
    a = torch.randn(n, n)
    return a @ a.T + 0.1 * torch.eye(n)
K = KroneckerProductLinearOperator(DenseLinearOperator(spd(4)), DenseLinearOperator(spd(3)))
D = KroneckerProductDiagLinearOperator(ConstantDiagLinearOperator(torch.tensor([1.0]), 4), DiagLinearOperator(torch.rand(3) + 0.1))
A = K + D
with LS.max_cholesky_size(0):
    R = A.root_inv_decomposition().root.to_dense()
err = (R @ R.T - torch.linalg.inv(A.to_dense())).abs().max().item()
print(type(A).__name__, "max |R R^T - A^-1| = %.3e" % err)
sys.exit(1 if err > 1e-6 else 0)
