"""
C01 violation 2: multitask exact GP whose prior uses the task-major ("non-interleaved") layout,
MultitaskMultivariateNormal(mean, B (x) K_x, interleaved=False).  The layout is a public option of the
distribution and is honoured by MultitaskGaussianLikelihood (it builds D_T (x) I_n instead of I_n (x) D_T),
but ExactGP / DefaultPredictionStrategy silently assume the point-major layout: model(test_x) returns
a wrong posterior (and labels it interleaved=True).

Reference values: (a) the dense Gaussian conditional written out with torch.kron, (b) an independent
replica: the very same ICM model written in the point-major layout (K_x (x) B, interleaved=True).
A second manifestation is included: a prior built with MultitaskMultivariateNormal.from_independent_mvns
(which is task-major as well) makes model(test_x) raise.
"""
import sys
import warnings

import torch
from linear_operator.operators import KroneckerProductLinearOperator

import gpytorch

warnings.simplefilter("ignore")
torch.set_default_dtype(torch.float64)
torch.manual_seed(0)

MVN = gpytorch.distributions.MultivariateNormal
MTMVN = gpytorch.distributions.MultitaskMultivariateNormal
n, m, d, T = 6, 4, 2, 2
Bmat = torch.tensor([[1.0, 0.4], [0.4, 0.8]])
task_means = torch.tensor([0.5, -1.0])
task_noises = torch.tensor([0.2, 0.3])
global_noise = 0.1


class ICM(gpytorch.models.ExactGP):
    def __init__(self, x, y, lik, interleaved):
        super().__init__(x, y, lik)
        self.mean_module = gpytorch.means.MultitaskMean(gpytorch.means.ConstantMean(), num_tasks=T)
        for t in range(T):
            self.mean_module.base_means[t].constant.data.fill_(task_means[t])
        self.data_kernel = gpytorch.kernels.RBFKernel()
        self.data_kernel.lengthscale = 0.7
        self.interleaved = interleaved

    def forward(self, x):
        Kx = self.data_kernel(x).evaluate_kernel()
        if self.interleaved:  # point-major: K_x (x) B
            covar = KroneckerProductLinearOperator(Kx, Bmat)
        else:  # task-major: B (x) K_x
            covar = KroneckerProductLinearOperator(Bmat, Kx)
        return MTMVN(self.mean_module(x), covar, interleaved=self.interleaved)


def build(interleaved, x, y):
    lik = gpytorch.likelihoods.MultitaskGaussianLikelihood(num_tasks=T)
    lik.noise = global_noise
    lik.task_noises = task_noises
    return ICM(x, y, lik, interleaved).eval(), lik.eval()


train_x, train_y, test_x = torch.randn(n, d), torch.randn(n, T), torch.randn(m, d)

with torch.no_grad():
    model_t, lik_t = build(False, train_x, train_y)  # task-major
    model_p, lik_p = build(True, train_x, train_y)  # point-major replica

    # dense closed form (task-major flattening: vec over tasks of the per-task vectors)
    k = model_t.data_kernel
    Kx, Ksx, Kss = k(train_x).to_dense(), k(test_x, train_x).to_dense(), k(test_x).to_dense()
    S = torch.kron(torch.diag(task_noises + global_noise), torch.eye(n))
    Kxx = torch.kron(Bmat, Kx) + S
    mx = task_means.repeat_interleave(n)
    ms = task_means.repeat_interleave(m)
    Kcross = torch.kron(Bmat, Ksx)
    ref_mean_flat = ms + Kcross @ torch.linalg.solve(Kxx, train_y.t().reshape(-1) - mx)
    ref_cov_flat = torch.kron(Bmat, Kss) - Kcross @ torch.linalg.solve(Kxx, Kcross.t())
    ref_mean = ref_mean_flat.view(T, m).t()  # m x T
    ref_var = ref_cov_flat.diagonal().view(T, m).t()

    # the task-major prior and its noisy marginal are what they should be (the layout is supported by the likelihood)
    prior_t = model_t.forward(train_x)
    marg_t = lik_t(prior_t)
    print("task-major prior + likelihood: max |marginal covariance - (B (x) Kx + D_T (x) I)| = %.2e"
          % (marg_t.covariance_matrix - Kxx).abs().max())

    post_p = model_p(test_x)
    print("point-major replica : max |mean - dense conditional| = %.2e, max |variance - dense conditional| = %.2e"
          % ((post_p.mean - ref_mean).abs().max(), (post_p.variance - ref_var).abs().max()))

    post_t = model_t(test_x)
    err_mean = (post_t.mean - ref_mean).abs().max().item()
    err_var = (post_t.variance - ref_var).abs().max().item()
    print("task-major model    : max |mean - dense conditional| = %.2e, max |variance - dense conditional| = %.2e"
          % (err_mean, err_var))
    print("task-major model posterior mean:\n", post_t.mean, "\nreference:\n", ref_mean)
    print("layout flag of the returned posterior: interleaved=%s (prior: interleaved=%s)"
          % (post_t._interleaved, prior_t._interleaved))

    # second manifestation: independent tasks via the public constructor from_independent_mvns (task-major)
    class Indep(gpytorch.models.ExactGP):
        def __init__(self, x, y, lik):
            super().__init__(x, y, lik)
            self.m1, self.m2 = gpytorch.means.ConstantMean(), gpytorch.means.ConstantMean()
            self.k1, self.k2 = gpytorch.kernels.RBFKernel(), gpytorch.kernels.MaternKernel(nu=1.5)

        def forward(self, x):
            return MTMVN.from_independent_mvns([MVN(self.m1(x), self.k1(x)), MVN(self.m2(x), self.k2(x))])

    lik_i = gpytorch.likelihoods.MultitaskGaussianLikelihood(num_tasks=T)
    indep = Indep(train_x, train_y, lik_i).eval()
    raised = False
    try:
        indep(test_x)
        print("from_independent_mvns prior: model(test_x) ran")
    except Exception as e:
        raised = True
        print("from_independent_mvns prior: model(test_x) raised %s: %s" % (type(e).__name__, str(e)[:120]))

bad = err_mean > 1e-6 or err_var > 1e-6 or raised
if bad:
    print("VIOLATION: the posterior of the task-major multitask exact GP is not the Gaussian conditional of its prior")
sys.exit(1 if bad else 0)
