"""
C01 violation 3: SGPR (ExactGP + InducingPointKernel), default settings, prediction at the training inputs.

When test_x has the same values as train_x, InducingPointKernel._get_covariance sees torch.equal(x1, x2) for the
test-train block and returns Q_xx + diag(k(x,x) - q(x,x)) (the symmetric-block formula with the FITC-style
diagonal correction) as a CROSS-covariance.  SGPRPredictionStrategy then
  * uses that corrected block for the posterior mean            (K*x = Q + corr),
  * but only its low-rank root for the posterior covariance     (K*x = Q),
so the returned posterior is not the Gaussian conditional of any single joint prior, and the mean differs from
  (a) the closed form  m* + Q*x (Qxx + corr + s2 I)^-1 (y - m)   that the same model uses for every other test set,
  (b) the model's own prediction for the same points when they are passed as train_x[:-1] (marginalisation),
  (c) the model's own prediction at train_x + 1e-9,
  (d) the model's own prediction under settings.lazily_evaluate_kernels(False).
"""
import sys
import warnings

import torch

import gpytorch

warnings.simplefilter("ignore")
torch.set_default_dtype(torch.float64)
torch.manual_seed(0)

n, d, M = 8, 2, 4
noise, const = 0.2, 0.4


class SGPR(gpytorch.models.ExactGP):
    def __init__(self, x, y, lik, Z):
        super().__init__(x, y, lik)
        self.mean_module = gpytorch.means.ConstantMean()
        self.mean_module.constant.data.fill_(const)
        base = gpytorch.kernels.ScaleKernel(gpytorch.kernels.RBFKernel())
        base.outputscale = 1.3
        base.base_kernel.lengthscale = 0.8
        self.covar_module = gpytorch.kernels.InducingPointKernel(base, inducing_points=Z, likelihood=lik)

    def forward(self, x):
        return gpytorch.distributions.MultivariateNormal(self.mean_module(x), self.covar_module(x))


train_x, train_y, Z = torch.randn(n, d), torch.randn(n), torch.randn(M, d)
lik = gpytorch.likelihoods.GaussianLikelihood()
lik.noise = noise
model = SGPR(train_x, train_y, lik, Z).eval()
lik.eval()

with torch.no_grad():
    base = model.covar_module.base_kernel
    Zp = model.covar_module.inducing_points
    Kuu, Kxu = base(Zp).to_dense(), base(train_x, Zp).to_dense()
    Q = Kxu @ torch.linalg.solve(Kuu, Kxu.t())
    corr = torch.diag((base(train_x).to_dense() - Q).diagonal().clamp_min(0))
    A = Q + corr + noise * torch.eye(n)  # the model's train-train matrix K_xx + S in eval mode
    r = train_y - const
    Kxx_true = base(train_x).to_dense()

    mean_Q = const + Q @ torch.linalg.solve(A, r)  # cross-covariance Q (what every other test set gets)
    mean_corr = const + (Q + corr) @ torch.linalg.solve(A, r)  # cross-covariance Q + corr
    cov_Q = Kxx_true - Q @ torch.linalg.solve(A, Q)  # SGPR uses the exact k** for the test-test block
    cov_corr = Kxx_true - (Q + corr) @ torch.linalg.solve(A, Q + corr)

    # sanity: at points that are not the training inputs the model agrees with the Q formulas
    new_x = torch.randn(5, d)
    Ksu = base(new_x, Zp).to_dense()
    Qsx = Ksu @ torch.linalg.solve(Kuu, Kxu.t())
    out_new = model(new_x)
    print("new test points     : |mean - closed form(Q)| = %.2e  |covar - closed form(Q)| = %.2e" % (
        (out_new.mean - (const + Qsx @ torch.linalg.solve(A, r))).abs().max(),
        (out_new.covariance_matrix - (base(new_x).to_dense() - Qsx @ torch.linalg.solve(A, Qsx.t()))).abs().max()))

    out = model(train_x.clone())  # predictions at the training inputs themselves (default settings)
    e_mean_Q = (out.mean - mean_Q).abs().max().item()
    e_mean_corr = (out.mean - mean_corr).abs().max().item()
    e_cov_Q = (out.covariance_matrix - cov_Q).abs().max().item()
    e_cov_corr = (out.covariance_matrix - cov_corr).abs().max().item()
    print("at the training inputs:")
    print("  |mean  - conditional with K*x = Q       | = %.3e" % e_mean_Q)
    print("  |mean  - conditional with K*x = Q + corr| = %.3e   <- the mean uses Q + corr" % e_mean_corr)
    print("  |covar - conditional with K*x = Q       | = %.3e   <- the covariance uses Q" % e_cov_Q)
    print("  |covar - conditional with K*x = Q + corr| = %.3e" % e_cov_corr)

    sub = model(train_x[:-1]).mean  # the same points, passed as a proper subset
    e_sub = (out.mean[:-1] - sub).abs().max().item()
    print("  |model(train_x).mean[:-1] - model(train_x[:-1]).mean| = %.3e" % e_sub)
    near = model(train_x + 1e-9).mean
    e_near = (out.mean - near).abs().max().item()
    print("  |model(train_x).mean - model(train_x + 1e-9).mean|    = %.3e" % e_near)
    model.train()
    model.eval()  # drop the caches
    with gpytorch.settings.lazily_evaluate_kernels(False):
        eager = model(train_x.clone()).mean
    e_eager = (out.mean - eager).abs().max().item()
    print("  |default - lazily_evaluate_kernels(False)| (mean)      = %.3e" % e_eager)

bad = e_mean_Q > 1e-6 or e_sub > 1e-6 or e_eager > 1e-6
if bad:
    print("VIOLATION: SGPR posterior mean at the training inputs is not the Gaussian conditional the model uses "
          "everywhere else (and is inconsistent with its own covariance)")
sys.exit(1 if bad else 0)
