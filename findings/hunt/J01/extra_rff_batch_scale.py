"""Extra (not one of the three): ScaleKernel(batch_shape=[3]) over an un-batched RFFKernel, default settings.
model(test_x) raises AttributeError in RFFPredictionStrategy.covar_cache; the same configuration with an RBF base
kernel, or with lazily_evaluate_kernels(False) (DefaultPredictionStrategy), works and matches the dense conditional."""
import sys
import warnings

import torch

import gpytorch

warnings.simplefilter("ignore")
torch.set_default_dtype(torch.float64)


class GP(gpytorch.models.ExactGP):
    def __init__(self, x, y, lik, base):
        super().__init__(x, y, lik)
        self.mean_module = gpytorch.means.ZeroMean()
        self.covar_module = gpytorch.kernels.ScaleKernel(base, batch_shape=torch.Size([3]))
        self.covar_module.outputscale = torch.tensor([0.5, 1.0, 2.0])

    def forward(self, x):
        return gpytorch.distributions.MultivariateNormal(self.mean_module(x), self.covar_module(x))


def run(base_fn, lazy):
    torch.manual_seed(0)
    x, y, tx = torch.randn(8, 2), torch.randn(8), torch.randn(4, 2)
    lik = gpytorch.likelihoods.GaussianLikelihood()
    lik.noise = 0.2
    model = GP(x, y, lik, base_fn()).eval()
    with torch.no_grad(), gpytorch.settings.lazily_evaluate_kernels(lazy):
        out = model(tx)
        k = model.covar_module
        Kxx = k(x).to_dense() + 0.2 * torch.eye(8)
        Ksx = k(tx, x).to_dense()
        ref = (Ksx @ torch.linalg.solve(Kxx, y.unsqueeze(-1).expand(3, 8, 1))).squeeze(-1)
        return (out.mean - ref).abs().max().item()


bad = False
for name, fn in [("RBF", lambda: gpytorch.kernels.RBFKernel()), ("RFF", lambda: gpytorch.kernels.RFFKernel(num_samples=5, num_dims=2))]:
    for lazy in [True, False]:
        try:
            print(name, "lazy" if lazy else "eager", "max |mean - dense| = %.2e" % run(fn, lazy))
        except Exception as e:
            bad = True
            print(name, "lazy" if lazy else "eager", "RAISED %s: %s" % (type(e).__name__, e))
sys.exit(1 if bad else 0)
