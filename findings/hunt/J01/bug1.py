"""
C01 violation 1: exact GP whose batch shape has three dimensions with a singleton in position 1,
e.g. train_x of shape (2, 1, 3, n, d).  model(test_x) returns a posterior of batch shape (2, 2, 3)
instead of (2, 1, 3) and the mean of every batch element whose first index differs from the index
that was broadcast in is that of ANOTHER batch element.

Reference values: (a) the dense Gaussian conditional computed per batch element with torch.linalg,
(b) an independent replica: the same data with the singleton dimension removed (batch shape (2, 3)).
"""
import sys
import warnings

import torch

import gpytorch

warnings.simplefilter("ignore")
torch.set_default_dtype(torch.float64)
torch.manual_seed(0)

n, m, d = 7, 4, 2
B = (2, 1, 3)


class GP(gpytorch.models.ExactGP):
    def __init__(self, x, y, lik):
        super().__init__(x, y, lik)
        self.mean_module = gpytorch.means.ConstantMean()
        self.covar_module = gpytorch.kernels.ScaleKernel(gpytorch.kernels.RBFKernel())

    def forward(self, x):
        return gpytorch.distributions.MultivariateNormal(self.mean_module(x), self.covar_module(x))


def build(x, y):
    lik = gpytorch.likelihoods.GaussianLikelihood()
    lik.noise = 0.1
    model = GP(x, y, lik)
    model.mean_module.constant.data.fill_(0.3)
    model.covar_module.outputscale = 1.5
    model.covar_module.base_kernel.lengthscale = 0.8
    return model.eval()


train_x = torch.randn(*B, n, d)
train_y = torch.randn(*B, n)
test_x = torch.randn(*B, m, d)

model = build(train_x, train_y)
with torch.no_grad():
    post = model(test_x)
    mean, covar = post.mean, post.covariance_matrix

    # (a) dense closed form, one batch element at a time
    k = model.covar_module
    Kxx = k(train_x).to_dense() + 0.1 * torch.eye(n)
    Ksx = k(test_x, train_x).to_dense()
    Kss = k(test_x).to_dense()
    ref_mean = 0.3 + (Ksx @ torch.linalg.solve(Kxx, (train_y - 0.3).unsqueeze(-1))).squeeze(-1)
    ref_covar = Kss - Ksx @ torch.linalg.solve(Kxx, Ksx.transpose(-1, -2))

    # (b) replica without the singleton batch dimension
    replica = build(train_x.squeeze(1), train_y.squeeze(1))
    rep = replica(test_x.squeeze(1))
    rep_mean, rep_covar = rep.mean.unsqueeze(1), rep.covariance_matrix.unsqueeze(1)

print("batch shape of the model            :", tuple(B))
print("reference posterior mean shape      :", tuple(ref_mean.shape))
print("replica (batch (2,3)) vs dense formula: mean %.2e  covar %.2e"
      % ((rep_mean - ref_mean).abs().max(), (rep_covar - ref_covar).abs().max()))
print("model(test_x).mean shape            :", tuple(mean.shape))
print("model(test_x).covariance_matrix shape:", tuple(covar.shape))

bad = False
if mean.shape != ref_mean.shape:
    print("VIOLATION: posterior mean has shape %s, expected %s" % (tuple(mean.shape), tuple(ref_mean.shape)))
    bad = True
try:
    err_mean = (mean - ref_mean).abs().max().item()
    err_cov = (covar - ref_covar).abs().max().item()
except RuntimeError as e:  # not even broadcastable
    print("VIOLATION: result cannot be compared with the reference:", e)
    sys.exit(1)
print("max |mean - dense conditional|  = %.3e" % err_mean)
print("max |covar - dense conditional| = %.3e" % err_cov)
if mean.dim() == 4 and mean.shape[1] == 2:
    # show what the extra dimension holds: entry [i, j] is computed with the mean cache of batch element j
    print("mean[0,0] - ref[0,0] = %.2e, mean[0,1] - ref[0,0] = %.2e, mean[0,1] pairs K*x of element 0 with (K+S)^-1 (y-m) of element 1"
          % ((mean[0, 0] - ref_mean[0, 0]).abs().max(), (mean[0, 1] - ref_mean[0, 0]).abs().max()))
if err_mean > 1e-6 or err_cov > 1e-6:
    bad = True
    print("VIOLATION: exact GP posterior differs from the closed-form Gaussian conditional")
sys.exit(1 if bad else 0)
