"""Two further (smaller) C19 observations, kept out of bug1-3 because they are rounding-amplification / far-tail effects.

(A) Matern-0.5: fast path vs generic path give different VALUES on the diagonal of k(x, x).
    sq_dist() zeroes the diagonal only if neither input requires grad; with x.requires_grad=True (learned inducing
    points, deep kernels, input gradients) the diagonal squared distance is rounding noise ~eps*|x|^2, and the
    Matern-0.5 sqrt turns that into r_ii ~ sqrt(eps): K_ii = 1 - O(1e-3) in float32 (1 - 6e-8 in float64).
(B) LogNormalCDF far tail: the degree-6 polynomial in the z < -1 branch overflows: float32 z <= -4e6 -> value -inf,
    grad inf; z <= -8e7 -> value nan, grad nan (true: -z^2/2 - log|z| - ..., grad ~ |z|, both representable).
"""
import sys
import warnings

import torch

warnings.filterwarnings("ignore")
import gpytorch  # noqa: E402
from gpytorch.functions import log_normal_cdf  # noqa: E402

torch.manual_seed(0)
bad = False
print("(A) Matern-0.5 k(x,x): fast path (x.requires_grad=False) vs generic path (x.requires_grad=True)")
for dt, tol in [(torch.float32, 1e-5), (torch.float64, 1e-12)]:
    k = gpytorch.kernels.MaternKernel(nu=0.5).to(dt)
    x = (torch.randn(50, 3, dtype=torch.float64) * 2).to(dt)
    Kf = k(x).to_dense()
    Kg = k(x.clone().requires_grad_()).to_dense()
    dv = (Kf - Kg).abs().max().item()
    print(f"  {str(dt):14s} max|K_fast-K_generic| = {dv:.3e} (diag: fast min {Kf.diagonal().min().item():.8f}, "
          f"generic min {Kg.diagonal().min().item():.8f})")
    if dv > tol:
        bad = True

print("(B) log_normal_cdf far tail, float32")
z = torch.tensor([-1e5, -1e6, -5e6, -1e8], dtype=torch.float32, requires_grad=True)
y = log_normal_cdf(z)
(g,) = torch.autograd.grad(y.sum(), z)
zr = z.detach().double()
print("  z      :", z.tolist())
print("  value  :", y.tolist(), " true ~", (-(zr**2) / 2 - torch.log(-zr) - 0.9189385).tolist())
print("  grad   :", g.tolist(), " true ~", (-zr).tolist())
if not torch.isfinite(g).all():
    bad = True
sys.exit(1 if bad else 0)
