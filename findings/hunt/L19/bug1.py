"""C19 bug 1: LogNormalCDF.backward in the branch z < -1 is NOT the derivative of what forward computes there.

forward (z < -1):  log(num(z)/den(z)/2) - z^2/2   with a rational erfcx approximation that is only
                   accurate for z << -1 (GPML's logphi uses it for z < -11.3; here the threshold is -1)
backward (z < -1): sqrt(2/pi) * den/num   (= phi/Phi if the approximation were exact)
For -4 < z < -1 the two differ by up to 0.7 %, and neither equals the true derivative.
Shown (a) on gpytorch.functions.log_normal_cdf directly, (b) through BernoulliLikelihood.expected_log_prob.
"""
import sys
import warnings

import torch

warnings.filterwarnings("ignore")
import gpytorch  # noqa: E402
from gpytorch.functions import log_normal_cdf  # noqa: E402

torch.manual_seed(0)
dt = torch.float64
bad = False

# (a) direct: analytic gradient vs central finite differences of the library's own forward, and vs the true derivative
print("(a) gpytorch.functions.log_normal_cdf, float64")
zs = torch.tensor([-1.0001, -1.2, -1.5, -2.0, -3.0, -0.9999, -0.5, 0.1, 1.5], dtype=dt)
z = zs.clone().requires_grad_()
(g,) = torch.autograd.grad(log_normal_cdf(z).sum(), z)
h = 1e-6
fd = (log_normal_cdf(zs + h) - log_normal_cdf(zs - h)) / (2 * h)
zt = zs.clone().requires_grad_()
(gt,) = torch.autograd.grad(torch.special.log_ndtr(zt).sum(), zt)
for a, b, c, d in zip(zs.tolist(), g.tolist(), fd.tolist(), gt.tolist()):
    rel = abs(b - c) / abs(c)
    print(f"  z={a:8.4f}  backward={b:.9f}  FD(forward)={c:.9f}  true phi/Phi={d:.9f}  rel.err vs FD={rel:.2e}")
rel_a = ((g - fd).abs() / fd.abs()).max().item()
print(f"  max relative discrepancy backward vs FD of forward: {rel_a:.3e}  (FD truncation error ~1e-10)")
if rel_a > 1e-5:
    bad = True

# (b) through the public likelihood: d/dmean of expected_log_prob vs finite differences
print("(b) BernoulliLikelihood.expected_log_prob, q(f)=N(mean, 0.05^2 I), labels 1")
lik = gpytorch.likelihoods.BernoulliLikelihood()
mean0 = torch.tensor([-1.3, -1.6, -2.0], dtype=dt)
covar = gpytorch.linear_operator.operators.DiagLinearOperator(torch.full((3,), 0.05**2, dtype=dt))
y = torch.ones(3, dtype=dt)


def elp(mean):
    return lik.expected_log_prob(y, gpytorch.distributions.MultivariateNormal(mean, covar)).sum()


m = mean0.clone().requires_grad_()
(gm,) = torch.autograd.grad(elp(m), m)
fdm = torch.zeros_like(mean0)
for i in range(3):
    e = torch.zeros_like(mean0)
    e[i] = 1e-6
    fdm[i] = (elp(mean0 + e) - elp(mean0 - e)) / 2e-6
print("  autograd :", gm.tolist())
print("  FD       :", fdm.tolist())
rel_b = ((gm - fdm).abs() / fdm.abs()).max().item()
print(f"  max relative discrepancy: {rel_b:.3e}")
if rel_b > 1e-5:
    bad = True

print("VIOLATION PRESENT" if bad else "no violation")
sys.exit(1 if bad else 0)
