"""C19 bug 3: second derivative w.r.t. the lengthscale through the FAST RBF / Matern path is silently wrong
whenever the loss is linear in the kernel matrix (upstream gradient does not require grad).

RBFCovariance.backward / MaternCovariance.backward are @once_differentiable.  That guard raises only if grad_output
requires grad (e.g. the exact-GP NLL, where grad_output depends on K^-1).  For  loss = sum(W * K)  (kernel mean
embeddings / MMD, kernel alignment, any fixed linear functional of K) grad_output = W is a constant, the hand-written
backward returns dK/dl as a constant, and differentiating the first derivative again only sees the
raw_lengthscale -> lengthscale (softplus) link:  H_fast = (dL/dl) * softplus''(raw)   instead of
H = (d2L/dl2) * softplus'(raw)^2 + (dL/dl) * softplus''(raw).  No exception, no warning.
The generic path of the same kernel (selected merely by x.requires_grad=True) and a dense formula give the true value.
"""
import math
import sys
import warnings

import torch

warnings.filterwarnings("ignore")
import gpytorch  # noqa: E402

torch.manual_seed(0)
dt = torch.float64
X1 = torch.randn(7, 2, dtype=dt)
X2 = torch.randn(5, 2, dtype=dt)
W = torch.randn(7, 5, dtype=dt)


def dense(kind, nu, raw):
    ls = torch.nn.functional.softplus(raw)
    r = (X1.unsqueeze(-2) - X2.unsqueeze(-3)).pow(2).sum(-1).sqrt() / ls
    if kind == "rbf":
        return torch.exp(-0.5 * r * r)
    s = math.sqrt(2 * nu) * r
    c = {0.5: 1.0, 1.5: 1 + s, 2.5: 1 + s + s * s / 3}[nu]
    return c * torch.exp(-s)


def hess_lib(kernel, x1, x2):
    K = kernel(x1, x2).to_dense()
    (g,) = torch.autograd.grad((K * W).sum(), kernel.raw_lengthscale, create_graph=True)
    (H,) = torch.autograd.grad(g.sum(), kernel.raw_lengthscale)
    return g.item(), H.item()


bad = False
print(f"{'kernel':12s} {'dL/draw':>10s} | {'H fast':>10s} {'H generic':>10s} {'H dense':>10s}")
for kind, nu in [("rbf", None), ("matern", 0.5), ("matern", 1.5), ("matern", 2.5)]:
    k = (gpytorch.kernels.RBFKernel() if kind == "rbf" else gpytorch.kernels.MaternKernel(nu=nu)).to(dt)
    k.initialize(raw_lengthscale=torch.tensor(0.3, dtype=dt))
    g_fast, H_fast = hess_lib(k, X1, X2)  # fast path (hand-written backward)
    g_gen, H_gen = hess_lib(k, X1.clone().requires_grad_(), X2)  # generic path (autograd)
    raw = torch.tensor(0.3, dtype=dt, requires_grad=True)
    (g_d,) = torch.autograd.grad((dense(kind, nu, raw) * W).sum(), raw, create_graph=True)
    (H_d,) = torch.autograd.grad(g_d, raw)
    name = kind + ("" if nu is None else f"-{nu}")
    print(f"{name:12s} {g_fast:10.5f} | {H_fast:10.5f} {H_gen:10.5f} {H_d.item():10.5f}")
    assert abs(g_fast - g_d.item()) < 1e-9 and abs(g_gen - g_d.item()) < 1e-9  # first derivatives agree
    if abs(H_fast - H_d.item()) > 1e-6 * max(1.0, abs(H_d.item())):
        bad = True

# also through the convenience API
k = gpytorch.kernels.RBFKernel().to(dt)


def f(raw):
    with gpytorch.settings.lazily_evaluate_kernels(False):
        return (torch.func.functional_call(k, {"raw_lengthscale": raw}, (X1, X2)).to_dense() * W).sum()


raw0 = torch.full((1, 1), 0.3, dtype=dt)
H_api = torch.autograd.functional.hessian(f, raw0).item()
raw = torch.tensor(0.3, dtype=dt, requires_grad=True)
(g_d,) = torch.autograd.grad((dense("rbf", None, raw) * W).sum(), raw, create_graph=True)
(H_d,) = torch.autograd.grad(g_d, raw)
print(f"torch.autograd.functional.hessian through RBFKernel fast path: {H_api:.5f}   dense reference: {H_d.item():.5f}")
if abs(H_api - H_d.item()) > 1e-6:
    bad = True

print("VIOLATION PRESENT" if bad else "no violation")
sys.exit(1 if bad else 0)
