"""StudentTLikelihood cannot be built with a deg_free_constraint that does not contain 7.

deg_free_constraint is a documented constructor argument, but __init__ ends with the hard-coded
self.initialize(deg_free=7): any constraint whose range excludes 7 raises, and a constraint's own initial_value
is overwritten.
"""
import sys

import torch

from gpytorch.constraints import GreaterThan, Interval, LessThan
from gpytorch.distributions import MultivariateNormal
from gpytorch.likelihoods import StudentTLikelihood
from linear_operator.operators import DiagLinearOperator

torch.manual_seed(0)
torch.set_default_dtype(torch.float64)

bad = 0
cases = [
    ("Interval(2.5, 6.0)", lambda: Interval(2.5, 6.0), None),
    ("LessThan(5.0)", lambda: LessThan(5.0), None),
    ("GreaterThan(10.0)", lambda: GreaterThan(10.0), None),
    ("Interval(2.5, 6.0, initial_value=4.0)", lambda: Interval(2.5, 6.0, initial_value=4.0), 4.0),
    ("Interval(3.0, 30.0, initial_value=4.0)", lambda: Interval(3.0, 30.0, initial_value=4.0), 4.0),
]
for name, make, expected_init in cases:
    try:
        lik = StudentTLikelihood(deg_free_constraint=make())
    except Exception as e:  # noqa
        print(f"deg_free_constraint={name}: constructor raised {type(e).__name__}: {str(e).splitlines()[0]}")
        bad += 1
        continue
    nu = lik.deg_free.item()
    print(f"deg_free_constraint={name}: built, deg_free={nu}")
    if expected_init is not None and abs(nu - expected_init) > 1e-8:
        print(f"   constraint initial_value {expected_init} was overwritten by the hard-coded 7")
        bad += 1
    # the likelihood is usable
    q = MultivariateNormal(torch.zeros(3), DiagLinearOperator(torch.ones(3)))
    lik.expected_log_prob(torch.randn(3), q)

# for comparison: the noise constraint of the same class accepts the same kind of argument
lik = StudentTLikelihood(noise_constraint=Interval(0.1, 0.5))
print("noise_constraint=Interval(0.1, 0.5): built, noise =", lik.noise.item())

print("failing configurations:", bad)
sys.exit(1 if bad else 0)
