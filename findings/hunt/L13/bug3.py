"""BernoulliLikelihood.log_marginal saturates at log(eps) in the tail.

The analytic marginal is p(y=1) = Phi(m / sqrt(1 + v)), so log_marginal(y=1) = log Phi(m / sqrt(1+v)).
marginal() evaluates Phi with Normal.cdf (0.5 * (1 + erf)), which cancels to 0 for arguments below about -8.3
in float64 (-5.5 in float32), and Bernoulli.log_prob clamps the probability to eps: log_marginal is stuck at
log(2.2e-16) = -36.04 (float64) / -15.9 (float32) and its gradient is exactly zero, whereas
expected_log_prob of the same likelihood (log_normal_cdf) follows the tail.
"""
import sys

import numpy as np
import torch
from scipy.special import log_ndtr

from gpytorch.distributions import MultivariateNormal
from gpytorch.likelihoods import BernoulliLikelihood
from linear_operator.operators import DiagLinearOperator

torch.manual_seed(0)
worst = 0.0
for dtype in (torch.float64, torch.float32):
    lik = BernoulliLikelihood().to(dtype)
    link = torch.tensor([-2.0, -6.0, -9.0, -10.0, -15.0, 9.0, 10.0, 15.0], dtype=dtype)
    v = torch.full_like(link, 3.0)
    m = (link * torch.sqrt(1 + v)).requires_grad_(True)  # m / sqrt(1 + v) = link
    y = (link < 0).to(dtype)  # the unlikely label: y=1 where the link is negative, y=0 where it is positive
    q = MultivariateNormal(m, DiagLinearOperator(v))
    lm = lik.log_marginal(y, q)
    (g,) = torch.autograd.grad(lm.sum(), m)
    ref = log_ndtr(-np.abs(link.double().numpy()))  # log Phi(-|link|), exact
    print(dtype)
    for i in range(len(link)):
        print(
            f"  m/sqrt(1+v)={link[i].item():6.1f} y={int(y[i].item())}  log_marginal={lm[i].item():10.4f}  "
            f"log Phi={ref[i]:10.4f}  error={abs(lm[i].item() - ref[i]):8.4f}  d/dm={g[i].item():.3e}"
        )
    if dtype == torch.float64:
        worst = float(np.max(np.abs(lm.detach().numpy() - ref)))

print("largest float64 error of log_marginal (nats):", worst)
sys.exit(1 if worst > 0.1 else 0)
