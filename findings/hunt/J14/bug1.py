#!/usr/bin/env python3
"""
C14 / bug 1: AdditiveGridInterpolationVariationalStrategy does not return q(f) = sum_i W_i q(u_i) W_i^T.

Configuration (the one of test/examples/test_kissgp_additive_classification.py): an additive model over D input
dimensions, one 1-D grid GP per dimension, variational distribution with batch_shape [D] (one q(u_i) per component).

References
  (a) inputs whose coordinates are grid nodes: cubic interpolation is exact there (W_i rows are one-hot), hence
      f(x) = sum_i u_i[k_i(x)]  =>  mean = sum_i m_i[k_i],  cov(x, x') = sum_i S_i[k_i, k_i']
      (no interpolation code needed for the reference)
  (b) random inputs: dense W_i built with gpytorch.utils.interpolation.Interpolation on the 1-D grid of dimension i;
      the same construction reproduces the (non-additive) GridInterpolationVariationalStrategy to 1e-15.
"""
import sys
import warnings

import torch

import gpytorch
from gpytorch.utils.interpolation import Interpolation
from gpytorch.variational import (
    AdditiveGridInterpolationVariationalStrategy,
    CholeskyVariationalDistribution,
    GridInterpolationVariationalStrategy,
)

warnings.filterwarnings("ignore")
torch.manual_seed(0)
torch.set_default_dtype(torch.float64)

GRID_SIZE, D = 10, 3


class AdditiveModel(gpytorch.models.ApproximateGP):
    def __init__(self, sum_output, mixing):
        vd = CholeskyVariationalDistribution(GRID_SIZE, batch_shape=torch.Size([D]))
        vs = AdditiveGridInterpolationVariationalStrategy(
            self, GRID_SIZE, [(0.0, 1.0)], D, vd, mixing_params=mixing, sum_output=sum_output
        )
        super().__init__(vs)
        self.mean_module = gpytorch.means.ConstantMean()
        self.covar_module = gpytorch.kernels.ScaleKernel(gpytorch.kernels.RBFKernel())

    def forward(self, x):
        return gpytorch.distributions.MultivariateNormal(self.mean_module(x), self.covar_module(x))


class PlainGridModel(gpytorch.models.ApproximateGP):
    def __init__(self):
        vd = CholeskyVariationalDistribution(GRID_SIZE)
        vs = GridInterpolationVariationalStrategy(self, GRID_SIZE, [(0.0, 1.0)], vd)
        super().__init__(vs)
        self.mean_module = gpytorch.means.ConstantMean()
        self.covar_module = gpytorch.kernels.ScaleKernel(gpytorch.kernels.RBFKernel())

    def forward(self, x):
        return gpytorch.distributions.MultivariateNormal(self.mean_module(x), self.covar_module(x))


def set_q(model, seed):
    g = torch.Generator().manual_seed(seed)
    vs = model.variational_strategy
    vd = vs._variational_distribution
    vd.variational_mean.data = torch.randn(vd.variational_mean.shape, generator=g)
    L = (torch.randn(vd.chol_variational_covar.shape, generator=g) * 0.3).tril() + 0.7 * torch.eye(GRID_SIZE)
    vd.chol_variational_covar.data = L
    vs.variational_params_initialized.fill_(1)
    return vd.variational_mean.detach().clone(), (L @ L.transpose(-1, -2)).clone()


def dense_W(grid_1d, x_1d):
    idx, val = Interpolation().interpolate([grid_1d], x_1d.unsqueeze(-1))
    W = torch.zeros(x_1d.shape[0], grid_1d.shape[0])
    W.scatter_add_(1, idx, val)
    return W


failed = False

# ---- sanity: the dense-W construction reproduces the plain (non-additive) grid strategy
plain = PlainGridModel().double()
m0, S0 = set_q(plain, 1)
plain.eval()
x0 = torch.rand(6, 1)
with torch.no_grad():
    o = plain(x0)
W0 = dense_W(plain.variational_strategy.grid[:, 0], x0[:, 0])
print(
    "sanity (plain 1-D grid strategy vs dense W):  mean err %.2e  cov err %.2e"
    % ((o.mean - W0 @ m0).abs().max(), (o.covariance_matrix - W0 @ S0 @ W0.T).abs().max())
)

# ---- (a) inputs on grid nodes, sum_output=True (default), no mixing parameters
model = AdditiveModel(sum_output=True, mixing=False).double()
m, S = set_q(model, 2)  # m: D x M, S: D x M x M
model.eval()
grid = model.variational_strategy.grid[:, 0]
node_idx = torch.tensor([[2, 5, 7], [3, 3, 6], [6, 2, 4], [4, 7, 5]])  # interior nodes, N x D
X_nodes = grid[node_idx]
with torch.no_grad():
    out = model(X_nodes)
ref_mean = sum(m[i, node_idx[:, i]] for i in range(D))
ref_cov = sum(S[i][node_idx[:, i]][:, node_idx[:, i]] for i in range(D))
e_mean = (out.mean - ref_mean).abs().max().item()
e_cov = (out.covariance_matrix - ref_cov).abs().max().item()
print("(a) inputs on grid nodes, f(x) = sum_i u_i[k_i(x)]")
print("    library mean  :", out.mean.numpy().round(4))
print("    closed form   :", ref_mean.numpy().round(4))
print("    max |mean err| = %.4f   max |cov err| = %.4f" % (e_mean, e_cov))
failed |= e_mean > 1e-6 or e_cov > 1e-6

# ---- (b) random inputs, every combination of sum_output / mixing_params, eval and train mode
for sum_output in (True, False):
    for mixing in (False, True):
        model = AdditiveModel(sum_output=sum_output, mixing=mixing).double()
        m, S = set_q(model, 3)
        vs = model.variational_strategy
        if mixing:
            vs.mixing_params.data = torch.tensor([0.5, 1.3, 0.8])
        X = torch.rand(7, D)
        means, covs = [], []
        for i in range(D):
            W = dense_W(vs.grid[:, 0], X[:, i])
            if mixing:
                W = W * vs.mixing_params[i].detach()
            means.append(W @ m[i])
            covs.append(W @ S[i] @ W.T)
        ref_mean, ref_cov = torch.stack(means), torch.stack(covs)
        if sum_output:
            ref_mean, ref_cov = ref_mean.sum(0), ref_cov.sum(0)
        for mode in ("eval", "train"):
            getattr(model, mode)()
            with torch.no_grad():
                out = model(X)
            e_mean = (out.mean - ref_mean).abs().max().item()
            e_var = (out.variance - ref_cov.diagonal(dim1=-1, dim2=-2)).abs().max().item()
            e_cov = (out.covariance_matrix - ref_cov).abs().max().item()
            print(
                "(b) sum_output=%-5s mixing_params=%-5s %-5s: max|mean err| %.4f  max|var err| %.4f  max|cov err| %.4f"
                % (sum_output, mixing, mode, e_mean, e_var, e_cov)
            )
            failed |= e_mean > 1e-6 or e_cov > 1e-6

# ---- what goes wrong: every component receives the same interpolation rows, 4 * D coefficients per point
idx, val = model.variational_strategy._compute_grid(torch.rand(5, D))
print("interp_indices shape:", tuple(idx.shape), "(expected (D, N, 4) = (3, 5, 4));  components identical:",
      bool((idx[0] == idx[1]).all() and (idx[1] == idx[2]).all()))

if failed:
    print("VIOLATION: q(f) of AdditiveGridInterpolationVariationalStrategy is not sum_i W_i q(u_i) W_i^T")
    sys.exit(1)
print("no violation")
sys.exit(0)
