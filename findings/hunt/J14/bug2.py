#!/usr/bin/env python3
"""
C14 / bug 2: IndependentMultitaskVariationalStrategy(task_dim=-2) called with task_indices.

Model: a batch of B independent multitask GPs, T tasks each; the task axis is the second-to-last batch axis
(variational distribution / kernel / mean with batch_shape [T, B], task_dim=-2).
With task_indices the strategy has to return, for every input n of every batch member b, the latent q(f) of the
task t_n:    mean[b, n] = mean_latent[t_n, b, n],   cov[b, n, n'] = [t_n == t_n'] * cov_latent[t_n, b, n, n'].

The latent q(f) (batch shape [T, B]) is taken from the base VariationalStrategy itself and is additionally checked
against the dense closed form  mX + Kxz Kzz^-1 (mu - mz),  Kxx - Kxz Kzz^-1 (Kzz - Su) Kzz^-1 Kzx.

  * T = B = N = 4   -> no exception, but mean / covariance are wrong (silently)
  * T = 4, B = 2, N = 7 -> RuntimeError (shapes of the mis-permuted one-hot mask do not broadcast)
  * task_dim = -1 with batch_shape [B, T] (same model, other layout) is correct
"""
import sys
import warnings

import torch

import gpytorch
from gpytorch.variational import (
    CholeskyVariationalDistribution,
    IndependentMultitaskVariationalStrategy,
    VariationalStrategy,
)

warnings.filterwarnings("ignore")
torch.set_default_dtype(torch.float64)
M_IND = 5


class Model(gpytorch.models.ApproximateGP):
    def __init__(self, batch_shape, num_tasks, task_dim):
        batch_shape = torch.Size(batch_shape)
        Z = torch.randn(M_IND, 2)
        vd = CholeskyVariationalDistribution(M_IND, batch_shape=batch_shape)
        base = VariationalStrategy(self, Z, vd, learn_inducing_locations=True)
        super().__init__(IndependentMultitaskVariationalStrategy(base, num_tasks=num_tasks, task_dim=task_dim))
        self.mean_module = gpytorch.means.ConstantMean(batch_shape=batch_shape)
        self.covar_module = gpytorch.kernels.ScaleKernel(
            gpytorch.kernels.RBFKernel(batch_shape=batch_shape), batch_shape=batch_shape
        )

    def forward(self, x):
        return gpytorch.distributions.MultivariateNormal(self.mean_module(x), self.covar_module(x))


def randomize(model, seed):
    g = torch.Generator().manual_seed(seed)
    model.mean_module.constant.data = torch.randn(model.mean_module.constant.shape, generator=g)
    model.covar_module.raw_outputscale.data = 0.5 * torch.randn(model.covar_module.raw_outputscale.shape, generator=g)
    k = model.covar_module.base_kernel
    k.raw_lengthscale.data = 0.5 * torch.randn(k.raw_lengthscale.shape, generator=g)
    base = model.variational_strategy.base_variational_strategy
    vd = base._variational_distribution
    vd.variational_mean.data = torch.randn(vd.variational_mean.shape, generator=g)
    L = (0.3 * torch.randn(vd.chol_variational_covar.shape, generator=g)).tril() + 0.7 * torch.eye(M_IND)
    vd.chol_variational_covar.data = L
    base.variational_params_initialized.fill_(1)


def dense_latent(model, X):
    """closed form of the whitened base strategy, batch shape = batch shape of the model"""
    base = model.variational_strategy.base_variational_strategy
    Z = base.inducing_points
    vd = base._variational_distribution
    m, Lq = vd.variational_mean, vd.chol_variational_covar.tril()
    eye = torch.eye(M_IND)
    Kzz = model.covar_module(Z).to_dense() + base.jitter_val * eye
    Kxz = model.covar_module(X, Z).to_dense()
    Kxx = model.covar_module(X).to_dense()
    L = torch.linalg.cholesky(Kzz)
    mu = model.mean_module(Z) + (L @ m.unsqueeze(-1)).squeeze(-1)  # u = mz + L e
    Su = L @ Lq @ Lq.transpose(-1, -2) @ L.transpose(-1, -2)
    A = Kxz @ torch.linalg.inv(Kzz)
    mean = model.mean_module(X) + (A @ (mu - model.mean_module(Z)).unsqueeze(-1)).squeeze(-1)
    cov = Kxx - A @ (Kzz - Su) @ A.transpose(-1, -2)
    return mean, cov


def run(label, batch_shape, task_dim, T, N, seed):
    torch.manual_seed(seed)
    model = Model(batch_shape, T, task_dim)
    randomize(model, seed)
    model.eval()
    X = torch.randn(N, 2)
    task_indices = torch.randint(0, T, (N,), generator=torch.Generator().manual_seed(seed))
    with torch.no_grad():
        lat = model.variational_strategy.base_variational_strategy(X)
        lat_mean, lat_cov = lat.mean, lat.covariance_matrix
        d_mean, d_cov = dense_latent(model, X)
    print("%s: latent q(f) of the base strategy vs dense closed form: mean err %.1e, cov err %.1e"
          % (label, (lat_mean - d_mean).abs().max(), (lat_cov - d_cov).abs().max()))

    # reference selection, written with explicit loops
    td = len(batch_shape) + task_dim
    lm = lat_mean.movedim(td, 0)  # T x rest x N
    lc = lat_cov.movedim(td, 0)  # T x rest x N x N
    ref_mean = torch.zeros(lm.shape[1:])
    ref_cov = torch.zeros(lc.shape[1:])
    for n in range(N):
        ref_mean[..., n] = lm[task_indices[n], ..., n]
        for n2 in range(N):
            if task_indices[n] == task_indices[n2]:
                ref_cov[..., n, n2] = lc[task_indices[n], ..., n, n2]

    try:
        with torch.no_grad():
            out = model(X, task_indices=task_indices)
            mean, cov = out.mean, out.covariance_matrix
    except Exception as e:  # noqa
        print("%s: task_indices=%s -> %s: %s" % (label, task_indices.tolist(), type(e).__name__, str(e)[:120]))
        return True
    if mean.shape != ref_mean.shape:
        print("%s: mean shape %s, expected %s" % (label, tuple(mean.shape), tuple(ref_mean.shape)))
        return True
    e_mean = (mean - ref_mean).abs().max().item()
    e_cov = (cov - ref_cov).abs().max().item()
    print("%s: task_indices=%s" % (label, task_indices.tolist()))
    print("    library mean[0] :", mean[(0,) * (mean.dim() - 1)].numpy().round(4))
    print("    reference mean[0]:", ref_mean[(0,) * (mean.dim() - 1)].numpy().round(4))
    print("    max |mean err| = %.4f   max |cov err| = %.4f" % (e_mean, e_cov))
    return e_mean > 1e-6 or e_cov > 1e-6


ok_layout = run("task_dim=-1, batch_shape [B=4, T=4], N=4", (4, 4), -1, 4, 4, 0)
bad_square = run("task_dim=-2, batch_shape [T=4, B=4], N=4", (4, 4), -2, 4, 4, 0)
bad_general = run("task_dim=-2, batch_shape [T=4, B=2], N=7", (4, 2), -2, 4, 7, 1)

if ok_layout:
    print("(unexpected: the task_dim=-1 layout fails as well)")
if bad_square or bad_general:
    print("VIOLATION: IndependentMultitaskVariationalStrategy(task_dim=-2)(x, task_indices=...) does not select the "
          "latent q(f) of the requested tasks")
    sys.exit(1)
print("no violation")
sys.exit(0)
