#!/usr/bin/env python3
"""
C14 / bug 3: LMCVariationalStrategy with latent_dim != -1 and per-latent kernel hyperparameters (all-tasks output).

Model: Q latent GPs on batch axis -2, B independent multitask models on batch axis -1:
variational distribution, mean and kernel all with batch_shape [Q, B], latent_dim=-2, T tasks.
The all-tasks output has to be the LMC mixture of the latent q(f):
    mean[b, n, t]              = sum_q A[q, b, t] mean_q[q, b, n]
    cov[b, (n, t), (n', t')]   = sum_q A[q, b, t] A[q, b, t'] cov_q[q, b, n, n']       (+ jitter 1e-6)

The latent q(f) is the dense closed form mX + Kxz Kzz^-1 (mu - mz), Kxx - Kxz Kzz^-1 (Kzz - Su) Kzz^-1 Kzx with
u = mz + L e, and is cross-checked against the base strategy.

  * Q = B = 3         -> no exception, mean correct, covariance wrong by O(1) (silently)
  * Q = 3, B = 2      -> RuntimeError
  * the same models under gpytorch.settings.lazily_evaluate_kernels(False) are correct (shows where the fault is:
    the lazily evaluated K_XX gets its inputs permuted, but not the batch of its kernel hyperparameters)
  * the task_indices path of the same models is correct
"""
import sys
import warnings

import torch

import gpytorch
from gpytorch.variational import CholeskyVariationalDistribution, LMCVariationalStrategy, VariationalStrategy

warnings.filterwarnings("ignore")
torch.set_default_dtype(torch.float64)
M_IND, T, N = 5, 4, 6


class Model(gpytorch.models.ApproximateGP):
    def __init__(self, batch_shape, latent_dim):
        batch_shape = torch.Size(batch_shape)
        Z = torch.randn(M_IND, 2)
        vd = CholeskyVariationalDistribution(M_IND, batch_shape=batch_shape)
        base = VariationalStrategy(self, Z, vd, learn_inducing_locations=True)
        vs = LMCVariationalStrategy(base, num_tasks=T, num_latents=batch_shape[latent_dim], latent_dim=latent_dim)
        super().__init__(vs)
        self.mean_module = gpytorch.means.ConstantMean(batch_shape=batch_shape)
        self.covar_module = gpytorch.kernels.ScaleKernel(
            gpytorch.kernels.RBFKernel(batch_shape=batch_shape), batch_shape=batch_shape
        )

    def forward(self, x):
        return gpytorch.distributions.MultivariateNormal(self.mean_module(x), self.covar_module(x))


def randomize(model, seed):
    g = torch.Generator().manual_seed(seed)
    model.mean_module.constant.data = torch.randn(model.mean_module.constant.shape, generator=g)
    model.covar_module.raw_outputscale.data = 0.5 * torch.randn(model.covar_module.raw_outputscale.shape, generator=g)
    k = model.covar_module.base_kernel
    k.raw_lengthscale.data = 0.5 * torch.randn(k.raw_lengthscale.shape, generator=g)
    base = model.variational_strategy.base_variational_strategy
    vd = base._variational_distribution
    vd.variational_mean.data = torch.randn(vd.variational_mean.shape, generator=g)
    L = (0.3 * torch.randn(vd.chol_variational_covar.shape, generator=g)).tril() + 0.7 * torch.eye(M_IND)
    vd.chol_variational_covar.data = L
    base.variational_params_initialized.fill_(1)


def dense_latent(model, X):
    base = model.variational_strategy.base_variational_strategy
    Z = base.inducing_points
    vd = base._variational_distribution
    m, Lq = vd.variational_mean, vd.chol_variational_covar.tril()
    with gpytorch.settings.lazily_evaluate_kernels(False):
        Kzz = model.covar_module(Z).to_dense() + base.jitter_val * torch.eye(M_IND)
        Kxz = model.covar_module(X, Z).to_dense()
        Kxx = model.covar_module(X).to_dense()
    L = torch.linalg.cholesky(Kzz)
    mu = model.mean_module(Z) + (L @ m.unsqueeze(-1)).squeeze(-1)
    Su = L @ Lq @ Lq.transpose(-1, -2) @ L.transpose(-1, -2)
    A = Kxz @ torch.linalg.inv(Kzz)
    mean = model.mean_module(X) + (A @ (mu - model.mean_module(Z)).unsqueeze(-1)).squeeze(-1)
    cov = Kxx - A @ (Kzz - Su) @ A.transpose(-1, -2)
    return mean, cov


def run(label, batch_shape, latent_dim, seed, eager=False):
    torch.manual_seed(seed)
    model = Model(batch_shape, latent_dim)
    randomize(model, seed)
    model.eval()
    X = torch.randn(N, 2)
    with torch.no_grad():
        lm, lc = dense_latent(model, X)  # [*batch_shape, N], [*batch_shape, N, N]
        lat = model.variational_strategy.base_variational_strategy(X)
        e_lat = max((lat.mean - lm).abs().max().item(), (lat.covariance_matrix - lc).abs().max().item())
    A = model.variational_strategy.lmc_coefficients.detach()  # [*batch_shape, T]
    ld = len(batch_shape) + latent_dim
    # explicit loops over the latent axis
    lm_q, lc_q, A_q = lm.movedim(ld, 0), lc.movedim(ld, 0), A.movedim(ld, 0)
    rest = lm_q.shape[1:-1]
    ref_mean = torch.zeros(*rest, N, T)
    ref_cov = torch.zeros(*rest, N, T, N, T)
    for q in range(lm_q.shape[0]):
        ref_mean += lm_q[q].unsqueeze(-1) * A_q[q].unsqueeze(-2)
        ref_cov += (
            lc_q[q][..., :, None, :, None] * A_q[q][..., None, :, None, None] * A_q[q][..., None, None, None, :]
        )
    ref_cov = ref_cov.reshape(*rest, N * T, N * T)
    try:
        with torch.no_grad(), gpytorch.settings.lazily_evaluate_kernels(not eager):
            out = model(X)
            mean, cov = out.mean, out.covariance_matrix
    except Exception as e:  # noqa
        print("%s: base q(f) vs dense %.1e;  model(X) -> %s: %s" % (label, e_lat, type(e).__name__, str(e)[:110]))
        return True
    e_mean = (mean - ref_mean).abs().max().item()
    e_cov = (cov - ref_cov).abs().max().item()
    e_var = (out.variance.reshape(*rest, N * T) - ref_cov.diagonal(dim1=-1, dim2=-2)).abs().max().item()
    print("%s: base q(f) vs dense %.1e;  LMC output: max|mean err| %.2e  max|var err| %.4f  max|cov err| %.4f"
          % (label, e_lat, e_mean, e_var, e_cov))
    # jitter: 1e-6 on K_XX (times sum_q a^2) + 1e-6 of the LMC strategy
    return e_mean > 1e-6 or e_cov > 1e-3


ok_m1 = run("latent_dim=-1, batch_shape [B=3, Q=3]            ", (3, 3), -1, 0)
bad_sq = run("latent_dim=-2, batch_shape [Q=3, B=3]            ", (3, 3), -2, 0)
bad_ns = run("latent_dim=-2, batch_shape [Q=3, B=2]            ", (3, 2), -2, 1)
ok_eager_sq = run("latent_dim=-2, batch_shape [Q=3, B=3], eager kern", (3, 3), -2, 0, eager=True)
ok_eager_ns = run("latent_dim=-2, batch_shape [Q=3, B=2], eager kern", (3, 2), -2, 1, eager=True)

if ok_m1 or ok_eager_sq or ok_eager_ns:
    print("(unexpected: a control configuration fails as well)")
if bad_sq or bad_ns:
    print("VIOLATION: LMCVariationalStrategy(latent_dim=-2) does not mix the latent q(f) with the LMC coefficients "
          "when the kernel hyperparameters carry the batch shape of the latents")
    sys.exit(1)
print("no violation")
sys.exit(0)
