# Concerns commit a2110e8 (InducingPointKernel.__deepcopy__ copies the whole instance state), also be65cdd.
# NOT a new regression: the code before a2110e8 fails the same way.  It is the part of the repair that was
# left out on purpose ("the cached kernel matrix / inverse root are still shared"): the copy made by
# __deepcopy__ inherits the eval-mode caches of the original, so every consumer that copies and THEN changes
# the copy's parameters works with stale caches.  Kernel.__getitem__ is such a consumer inside the library:
# indexing an eval-mode batch InducingPointKernel that has been evaluated once yields a kernel whose
# parameters are indexed but whose cached K_uu / K_uu^{-1/2} still have the full batch shape.
import sys

import torch

import gpytorch

torch.manual_seed(0)
bx = torch.rand(3, 10, 2)


def make():
    torch.manual_seed(1)
    k = gpytorch.kernels.InducingPointKernel(
        gpytorch.kernels.RBFKernel(batch_shape=torch.Size([3])),
        torch.rand(3, 5, 2),
        gpytorch.likelihoods.GaussianLikelihood(batch_shape=torch.Size([3])),
    )
    k.base_kernel.lengthscale = torch.tensor([0.2, 0.5, 1.0]).view(3, 1, 1)
    return k.eval()


bad = False

# reference: index a kernel that has no caches yet
ref = make()[1](bx[1]).to_dense()
print("k[1] of a never-evaluated eval-mode kernel:", tuple(ref.shape))

k = make()
full = k(bx).to_dense()  # fills _cached_kernel_mat / _cached_kernel_inv_root (batch shape 3)
print("max |full[1] - ref| =", (full[1] - ref).abs().max().item())
try:
    got = k[1](bx[1]).to_dense()
    err = (got - ref).abs().max().item() if got.shape == ref.shape else float("inf")
    print("k[1] of an evaluated eval-mode kernel:", tuple(got.shape), "max |diff to reference| =", err)
    if not err < 1e-5:
        bad = True
except Exception as e:  # RuntimeError: The expected shape of the kernel was [10, 10], but got [3, 10, 10]
    print("k[1] of an evaluated eval-mode kernel raised:", type(e).__name__, str(e)[:150])
    bad = True

# same root cause without indexing: a copy whose hyper-parameter is changed keeps answering with the old K_uu
k = gpytorch.kernels.InducingPointKernel(
    gpytorch.kernels.RBFKernel(), torch.rand(5, 2), gpytorch.likelihoods.GaussianLikelihood()
).eval()
x = torch.rand(6, 2)
k(x).to_dense()
import copy

c = copy.deepcopy(k)
c.base_kernel.lengthscale = 3.0
fresh = gpytorch.kernels.InducingPointKernel(
    copy.deepcopy(c.base_kernel), c.inducing_points.detach().clone(), gpytorch.likelihoods.GaussianLikelihood()
).eval()
d = (c(x).to_dense() - fresh(x).to_dense()).abs().max().item()
print("copy with changed lengthscale vs freshly built kernel with the same parameters: max |diff| =", d)
# (informational only: the original object behaves the same when its parameters are changed in eval mode)

print("PROBLEM PRESENT" if bad else "ok")
sys.exit(1 if bad else 0)
