# Concerns commits be65cdd and 59cdd3a (added loss term of the last call is dropped from the copied state of
# InducingPointKernel / VariationalLatentVariable).
# Incomplete repair, not a regression: the defect ("copy.deepcopy after a forward raises 'Only Tensors created
# explicitly by the user support the deepcopy protocol'") lives in gpytorch.Module._added_loss_terms, but it was
# repaired in the two library classes only.  Any other module that uses the documented
# register_added_loss_term / update_added_loss_term pattern (see the docstring of gpytorch.mlls.AddedLossTerm)
# with a term that depends on a parameter still cannot be deep-copied after one training step.
# For comparison the program also runs the two repaired classes (these must succeed).
import copy
import sys

import torch

import gpytorch
from gpytorch.mlls import AddedLossTerm

torch.manual_seed(0)


class L2(AddedLossTerm):
    def __init__(self, value):
        self.value = value

    def loss(self, *params):
        return self.value.pow(2).sum()


class RegularisedMean(gpytorch.means.ConstantMean):
    def __init__(self):
        super().__init__()
        self.register_added_loss_term("l2")

    def forward(self, x):
        self.update_added_loss_term("l2", L2(self.constant * 2.0))  # non-leaf tensor, as in the two library classes
        return super().forward(x)


class GP(gpytorch.models.ExactGP):
    def __init__(self, x, y, lik, mean, covar):
        super().__init__(x, y, lik)
        self.mean_module = mean
        self.covar_module = covar

    def forward(self, x):
        return gpytorch.distributions.MultivariateNormal(self.mean_module(x), self.covar_module(x))


def one_step_then_copy(mean_fn, covar_fn):
    x = torch.rand(12, 1)
    y = torch.sin(5 * x.squeeze(-1))
    lik = gpytorch.likelihoods.GaussianLikelihood()
    model = GP(x, y, lik, mean_fn(), covar_fn(x, lik))
    model.train()
    mll = gpytorch.mlls.ExactMarginalLogLikelihood(lik, model)
    loss = -mll(model(x), y)
    loss.backward()
    cp = copy.deepcopy(mll)
    loss2 = -cp(cp.model(x), y)
    return loss.item(), loss2.item()


bad = False
cases = {
    "library InducingPointKernel (repaired)": (
        gpytorch.means.ConstantMean,
        lambda x, lik: gpytorch.kernels.InducingPointKernel(gpytorch.kernels.RBFKernel(), x[:4].clone(), lik),
    ),
    "user module with a parameter-dependent added loss term": (
        RegularisedMean,
        lambda x, lik: gpytorch.kernels.RBFKernel(),
    ),
}
for name, (mean_fn, covar_fn) in cases.items():
    try:
        a, b = one_step_then_copy(mean_fn, covar_fn)
        print("%s: deepcopy ok, loss %.6f, loss of the copy %.6f" % (name, a, b))
        if abs(a - b) > 1e-5:
            bad = True
    except Exception as e:
        print("%s: deepcopy raised %s: %s" % (name, type(e).__name__, str(e)[:110]))
        bad = True

print("PROBLEM PRESENT" if bad else "ok")
sys.exit(1 if bad else 0)
