# Regression seed for commit 52cc30c ("a constraint built with a transform but no inverse pairs the
# inverse with that transform").
# An EXPLICITLY given inv_transform that happens to be the library's default inverse (inv_softplus /
# inv_sigmoid) is indistinguishable from "not given": together with a user-defined transform the
# constructor now raises "Must specify inv_transform for custom transforms" although it was specified.
# Before the commit these calls worked and round-tripped exactly.
import sys

import torch

from gpytorch.constraints import GreaterThan, Interval, LessThan, Positive
from gpytorch.utils.transforms import inv_sigmoid, inv_softplus


def my_softplus(x):  # user-defined, numerically identical to softplus
    return torch.log1p(torch.exp(x))


def my_sigmoid(x):
    return 1.0 / (1.0 + torch.exp(-x))


cases = {
    "Positive(transform=my_softplus, inv_transform=inv_softplus)": (
        lambda: Positive(transform=my_softplus, inv_transform=inv_softplus),
        torch.tensor([0.3, 0.9, 2.5]),
    ),
    "GreaterThan(0.1, transform=my_softplus, inv_transform=inv_softplus)": (
        lambda: GreaterThan(0.1, transform=my_softplus, inv_transform=inv_softplus),
        torch.tensor([0.3, 0.9, 2.5]),
    ),
    "LessThan(3.0, transform=my_softplus, inv_transform=inv_softplus)": (
        lambda: LessThan(3.0, transform=my_softplus, inv_transform=inv_softplus),
        torch.tensor([0.3, 0.9, 2.5]),
    ),
    "Interval(0, 2, transform=my_sigmoid, inv_transform=inv_sigmoid)": (
        lambda: Interval(0.0, 2.0, transform=my_sigmoid, inv_transform=inv_sigmoid),
        torch.tensor([0.3, 0.9, 1.5]),
    ),
}

bad = 0
for label, (build, value) in cases.items():
    try:
        constraint = build()
        back = constraint.transform(constraint.inverse_transform(value))
        ok = torch.allclose(back, value, atol=1e-5)
        print(f"{label}: round trip {value.tolist()} -> {back.tolist()} {'ok' if ok else 'WRONG'}")
        bad += not ok
    except Exception as e:  # noqa: BLE001
        print(f"{label}: RAISED {type(e).__name__}: {e}")
        bad += 1

print("PROBLEM PRESENT" if bad else "ok")
sys.exit(1 if bad else 0)
