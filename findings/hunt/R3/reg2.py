# Regression seed for commit 52cc30c ("a constraint built with a transform but no inverse pairs the
# inverse with that transform").
# The new branch accepts a transform given without an inverse only if it is a key of TRANSFORM_REGISTRY
# (torch.exp, torch.nn.functional.softplus, torch.sigmoid) or *the very object* the constructor uses by
# default.  Every other spelling of the default transform is now rejected with RuntimeError, although the
# default inverse is exactly right for it and the code before the commit handled it correctly:
#   torch.nn.functional.sigmoid   (the docstring of Interval.transform names it as THE example transform)
#   torch.nn.Sigmoid(), torch.nn.Softplus()  (a fresh instance of the class the module-level default is built from)
#   torch.special.expit, torch.Tensor.sigmoid
import sys

import torch

from gpytorch.constraints import GreaterThan, Interval, Positive

cases = {
    "Interval(0, 2, transform=torch.nn.functional.sigmoid)": (
        lambda: Interval(0.0, 2.0, transform=torch.nn.functional.sigmoid),
        torch.tensor([0.3, 0.9, 1.5]),
    ),
    "Interval(0, 2, transform=torch.nn.Sigmoid())": (
        lambda: Interval(0.0, 2.0, transform=torch.nn.Sigmoid()),
        torch.tensor([0.3, 0.9, 1.5]),
    ),
    "Interval(0, 2, transform=torch.special.expit)": (
        lambda: Interval(0.0, 2.0, transform=torch.special.expit),
        torch.tensor([0.3, 0.9, 1.5]),
    ),
    "Positive(transform=torch.nn.Softplus())": (
        lambda: Positive(transform=torch.nn.Softplus()),
        torch.tensor([0.3, 0.9, 2.5]),
    ),
    "GreaterThan(1e-4, transform=torch.nn.Softplus())": (
        lambda: GreaterThan(1e-4, transform=torch.nn.Softplus()),
        torch.tensor([0.3, 0.9, 2.5]),
    ),
}

bad = 0
for label, (build, value) in cases.items():
    try:
        constraint = build()
        back = constraint.transform(constraint.inverse_transform(value))
        ok = torch.allclose(back, value, atol=1e-5)
        print(f"{label}: round trip {value.tolist()} -> {back.tolist()} {'ok' if ok else 'WRONG'}")
        bad += not ok
    except Exception as e:  # noqa: BLE001
        print(f"{label}: RAISED {type(e).__name__}: {e}")
        bad += 1

print("PROBLEM PRESENT" if bad else "ok")
sys.exit(1 if bad else 0)
