# Regression seed for commit 52cc30c ("a constraint built with a transform but no inverse pairs the
# inverse with that transform").
# The new branch evaluates `inv_transform in _DEFAULT_TRANSFORMS` and `transform in TRANSFORM_REGISTRY`
# (dict membership => hash()) for EVERY constraint with a transform.  Callables that define __eq__ without
# __hash__ -- e.g. any plain @dataclass with a __call__ -- are unhashable, so a fully specified custom
# (transform, inv_transform) pair now dies with "TypeError: unhashable type".  Before the commit the
# registry was only consulted for inv_transform=None, and these constructions worked.
import sys
from dataclasses import dataclass

import torch

from gpytorch.constraints import Interval, Positive
from gpytorch.utils.transforms import inv_softplus


@dataclass
class ScaledSoftplus:
    beta: float

    def __call__(self, x):
        return torch.nn.functional.softplus(x, beta=self.beta)


@dataclass
class InvScaledSoftplus:
    beta: float

    def __call__(self, y):
        return y + torch.log(-torch.expm1(-self.beta * y)) / self.beta


@dataclass
class Tanh01:
    def __call__(self, x):
        return 0.5 * (torch.tanh(x) + 1.0)


@dataclass
class InvTanh01:
    def __call__(self, y):
        return torch.atanh(2.0 * y - 1.0)


cases = {
    "Positive(transform=ScaledSoftplus(2.), inv_transform=InvScaledSoftplus(2.))": (
        lambda: Positive(transform=ScaledSoftplus(2.0), inv_transform=InvScaledSoftplus(2.0)),
        torch.tensor([0.3, 0.9, 2.5]),
    ),
    "Interval(0, 2, transform=Tanh01(), inv_transform=InvTanh01())": (
        lambda: Interval(0.0, 2.0, transform=Tanh01(), inv_transform=InvTanh01()),
        torch.tensor([0.3, 0.9, 1.5]),
    ),
    "Positive(transform=ScaledSoftplus(1.), inv_transform=inv_softplus)": (
        lambda: Positive(transform=ScaledSoftplus(1.0), inv_transform=inv_softplus),
        torch.tensor([0.3, 0.9, 2.5]),
    ),
}

bad = 0
for label, (build, value) in cases.items():
    try:
        constraint = build()
        back = constraint.transform(constraint.inverse_transform(value))
        ok = torch.allclose(back, value, atol=1e-5)
        print(f"{label}: round trip {value.tolist()} -> {back.tolist()} {'ok' if ok else 'WRONG'}")
        bad += not ok
    except Exception as e:  # noqa: BLE001
        print(f"{label}: RAISED {type(e).__name__}: {e}")
        bad += 1

print("PROBLEM PRESENT" if bad else "ok")
sys.exit(1 if bad else 0)
