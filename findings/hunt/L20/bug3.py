#!/usr/bin/env python3
"""C20 bug 3: settings are process-global class attributes, not thread-local, and __exit__ blindly writes back a
snapshot.  Two threads that each run a perfectly nested `with settings.X(v):` block, whose extents overlap
(A enters, B enters, A exits, B exits), leave the setting at A's value FOREVER after both blocks are closed
("outside all blocks each setting reports its documented default" fails), and while B is still inside its own block
the value it sees is the default rather than its own argument ("innermost active block wins" fails).
The interleaving is forced with Events, so the program is deterministic.  (torch's own grad-mode / autocast contexts
are thread-local for exactly this reason.)
"""
import sys
import threading
import warnings

import torch

import gpytorch
from gpytorch import settings as S

warnings.simplefilter("ignore")
torch.manual_seed(0)


def run(cls, read, a_arg, b_arg):
    a_in, b_in, a_out = threading.Event(), threading.Event(), threading.Event()
    seen = {}

    def thread_a():
        with cls(a_arg):
            a_in.set()
            b_in.wait()
        a_out.set()

    def thread_b():
        a_in.wait()
        seen["B before its block"] = read()  # B is outside all (of its) blocks
        with cls(b_arg):
            b_in.set()
            a_out.wait()
            seen["B inside its block"] = read()  # must be b_arg

    ta, tb = threading.Thread(target=thread_a), threading.Thread(target=thread_b)
    ta.start(), tb.start(), ta.join(), tb.join()
    return seen


n_bad = 0
for cls, read, a_arg, b_arg in [
    (S.num_likelihood_samples, S.num_likelihood_samples.value, 111, 222),
    (S.max_eager_kernel_size, S.max_eager_kernel_size.value, 1, 2),
    (S.skip_posterior_variances, S.skip_posterior_variances.on, True, True),
    (S.min_variance, lambda: S.min_variance.value(torch.double), 0.5, 0.25),
]:
    default = read()
    if cls is S.min_variance:
        seen = run(lambda v: S.min_variance(double_value=v), read, a_arg, b_arg)
    else:
        seen = run(cls, read, a_arg, b_arg)
    final = read()
    ok = seen["B inside its block"] == b_arg and final == default
    n_bad += not ok
    print(
        f"{cls.__name__:26s} default={default!r}  B inside its block({b_arg!r}) saw {seen['B inside its block']!r}; "
        f"after both threads finished value={final!r} (expected {default!r})  {'ok' if ok else 'VIOLATION'}"
    )
    # clean up so that the following cases start from the default
    if cls is S.skip_posterior_variances:
        cls._set_state(None)

print(f"\n{n_bad} violations")
sys.exit(1 if n_bad else 0)
