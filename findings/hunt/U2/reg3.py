# Concerns commit 99ecf08 (withdrawal of the fantasy part of 42fffd0): ApproximateGP.get_fantasy_model with a NaN
# among the fantasy targets under observation_nan_policy('mask' / 'fill'). The mean cache computed from the targets
# as given (it contains NaN) is filed under the 'mask' / 'fill' keys again: the fantasy model predicts the constant
# prior mean at every test point, i.e. it ignores the inducing pseudo-targets AND the valid fantasy targets, silently.
# The state just before 99ecf08 (cache filed under 'ignore' only for incomplete targets) is within 3e-3 of the model
# conditioned on the valid targets only for this (untrained, deterministic) model; the code before 42fffd0 behaves
# like 99ecf08.
import sys
import warnings

import torch

import gpytorch
from gpytorch.variational import CholeskyVariationalDistribution, VariationalStrategy

warnings.simplefilter("ignore")


class M(gpytorch.models.ApproximateGP):
    def __init__(self, Z):
        vd = CholeskyVariationalDistribution(Z.size(-2))
        super().__init__(VariationalStrategy(self, Z, vd, learn_inducing_locations=True))
        self.mean_module = gpytorch.means.ConstantMean()
        self.covar_module = gpytorch.kernels.ScaleKernel(gpytorch.kernels.RBFKernel())
        self.likelihood = gpytorch.likelihoods.GaussianLikelihood()

    def forward(self, x):
        return gpytorch.distributions.MultivariateNormal(self.mean_module(x), self.covar_module(x))


dt = torch.float64
m = M(torch.linspace(0, 1, 6, dtype=dt).unsqueeze(-1)).to(dt)
m.mean_module.initialize(constant=0.7)
m.eval()
xt = torch.linspace(0, 1, 5, dtype=dt).unsqueeze(-1)
m(xt)
xf = torch.tensor([[0.15], [0.55], [0.9]], dtype=dt)
yf = torch.tensor([1.0, float("nan"), 0.4], dtype=dt)
bad = 0
with torch.no_grad():
    ref = m.get_fantasy_model(xf[[0, 2]], yf[[0, 2]]).eval()(xt).mean
    print("reference (valid targets only):", [round(v, 4) for v in ref.tolist()])
    for pol in ("mask", "fill"):
        with gpytorch.settings.observation_nan_policy(pol):
            got = m.get_fantasy_model(xf, yf).eval()(xt).mean
        err = (got - ref).abs().max().item()
        const = bool((got - 0.7).abs().max() < 1e-6)
        print(f"policy {pol}: mean = {[round(v, 4) for v in got.tolist()]}  max error = {err:.4f}  equals prior mean = {const}")
        if const and (ref - 0.7).abs().max() > 1e-2:
            bad += 1
print("PROBLEM PRESENT" if bad else "ok")
sys.exit(1 if bad else 0)
