# Concerns commit 73eba74 (withdrawal of 3be6eda): Module.initialize(name=<python number>) on a DOUBLE module.
# The number is rounded to float32 before it is compared with the bound, so a value that lies outside the
# (un-transformed) bound the user wrote is accepted and stored in full double precision: the stored parameter then
# fails the constraint's own check.
# 3be6eda (the state just before 73eba74) rejected these values; the code before 3be6eda behaves like 73eba74.
import sys
import warnings

import gpytorch
from gpytorch.constraints import Interval

warnings.simplefilter("ignore")
bad = 0
for v in (0.1 - 1e-10, 0.7 + 1e-9):
    cons = Interval(0.1, 0.7, transform=None)
    k = gpytorch.kernels.RBFKernel(lengthscale_constraint=cons).double()
    try:
        k.initialize(raw_lengthscale=v)
        accepted = True
    except RuntimeError:
        accepted = False
    inside = v >= 0.1 and v <= 0.7
    stored_ok = bool(k.raw_lengthscale_constraint.check_raw(k.raw_lengthscale)) if accepted else None
    print(
        f"value {v!r}: inside [0.1, 0.7]={inside}  accepted as number={accepted}  "
        f"stored parameter passes constraint.check_raw={stored_ok}"
    )
    if accepted and not inside and stored_ok is False:
        bad += 1
print("PROBLEM PRESENT" if bad else "ok")
sys.exit(1 if bad else 0)
