# Concerns commit cc8f319 (withdrawal of 1685e08): MultivariateNormal._new_like builds by keyword. In the original
# library `mvn + number`, `number + mvn` and `add_jitter` built the result positionally
# (self.__class__(mean, covar)); since they were routed through _new_like, the keyword form breaks them for a sub-class
# whose constructor names its parameters differently. 1685e08 (the state just before cc8f319) handled this sub-class;
# the code before 1685e08 behaves like cc8f319; the original snapshot handled these three operations.
# (The positional form in turn breaks keyword-only sub-classes for *, MVN + MVN, lazy unsqueeze, which used keywords
# originally: neither uniform form reproduces the original per-operator behaviour.)
import sys
import warnings

import torch

from gpytorch.distributions import MultivariateNormal

warnings.simplefilter("ignore")


class Renamed(MultivariateNormal):
    def __init__(self, loc, cov, validate_args=False):
        super().__init__(loc, cov, validate_args=validate_args)


d = Renamed(torch.arange(3.0), torch.eye(3) * 2)
bad = 0
for label, f in (
    ("d + 1.0", lambda: d + 1.0),
    ("1.0 + d", lambda: 1.0 + d),
    ("d.add_jitter(0.5)", lambda: d.add_jitter(0.5)),
):
    try:
        r = f()
        print(label, "->", type(r).__name__, r.mean.tolist())
    except TypeError as e:
        print(label, "-> TypeError:", e)
        bad += 1
print("PROBLEM PRESENT" if bad else "ok")
sys.exit(1 if bad else 0)
