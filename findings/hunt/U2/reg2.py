# Concerns commit bb03fc7 (withdrawal of e32f1a1 + bf83f69): SoftmaxLikelihood.forward transposes every input whose
# number of data points equals num_features, also when it already has the documented num_data x num_features layout
# (plain tensor or MultitaskMultivariateNormal): the class probabilities are silently those of the transposed input.
# The state just before bb03fc7 gave the right probabilities; the code before e32f1a1 behaves like bb03fc7.
import sys
import warnings

import torch

import gpytorch
from gpytorch.distributions import MultitaskMultivariateNormal
from gpytorch.likelihoods import SoftmaxLikelihood

bad = 0
torch.manual_seed(0)
F, C = 3, 4
lik = SoftmaxLikelihood(num_features=F, num_classes=C)
W = lik.mixing_weights.detach()
for N in (5, 3):  # 3 == num_features is the square case
    f = torch.randn(N, F)
    with warnings.catch_warnings(record=True) as w:
        warnings.simplefilter("always")
        got = lik(f).probs.detach()
    want = torch.softmax(f @ W.t(), -1)
    err = (got - want).abs().max().item()
    print(f"tensor input {N} x {F}: max |probs - softmax(f W^T)| = {err:.3e}, deprecation warnings = {len(w)}")
    if err > 1e-6:
        bad += 1
    # the same through a MultitaskMultivariateNormal with a (nearly) deterministic distribution
    d = MultitaskMultivariateNormal(f, torch.eye(N * F) * 1e-10)
    with warnings.catch_warnings(record=True) as w, gpytorch.settings.num_likelihood_samples(1):
        warnings.simplefilter("always")
        got = lik(d).probs.detach()[0]
    err = (got - want).abs().max().item()
    print(f"MultitaskMultivariateNormal {N} x {F}: max error = {err:.3e}, deprecation warnings = {len(w)}")
    if err > 1e-3:
        bad += 1
print("PROBLEM PRESENT" if bad else "ok")
sys.exit(1 if bad else 0)
