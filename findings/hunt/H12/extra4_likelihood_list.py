"""LikelihoodList: per-member call-time noise is split over the members by __call__/forward only.
expected_log_prob hands the whole list to every member (raises), and a None entry ("no call-time noise for this
member", as IndependentModelList.get_fantasy_model accepts) is forwarded as noise=None and crashes GaussianLikelihood.
"""
import sys
import warnings

import torch

import gpytorch
from gpytorch.distributions import MultivariateNormal
from gpytorch.likelihoods import FixedNoiseGaussianLikelihood, GaussianLikelihood, LikelihoodList

warnings.simplefilter("ignore")
torch.manual_seed(0)
torch.set_default_dtype(torch.float64)


def mvn(n):
    A = torch.randn(n, n)
    return MultivariateNormal(torch.randn(n), A @ A.T + 0.5 * torch.eye(n))


n1, n2 = 3, 4
l1 = FixedNoiseGaussianLikelihood(noise=torch.rand(n1) + 0.1)
l2 = FixedNoiseGaussianLikelihood(noise=torch.rand(n2) + 0.1, learn_additional_noise=True)
ll = LikelihoodList(l1, l2)
d1, d2 = mvn(n1), mvn(n2)
y1, y2 = torch.randn(n1), torch.randn(n2)
c1, c2 = torch.rand(n1) + 1, torch.rand(n2) + 1

bad = 0
outs = ll(d1, d2, noise=[c1, c2])
refs = [l1(d1, noise=c1), l2(d2, noise=c2)]
print("__call__ with per-member noise: err",
      max((o.covariance_matrix - r.covariance_matrix).abs().max().item() for o, r in zip(outs, refs)))

refs = [l1.expected_log_prob(y1, d1, noise=c1), l2.expected_log_prob(y2, d2, noise=c2)]
try:
    outs = ll.expected_log_prob((y1, d1), (y2, d2), noise=[c1, c2])
    err = max((o - r).abs().max().item() for o, r in zip(outs, refs))
    print("expected_log_prob with per-member noise: err", err)
    bad += err > 1e-9
except Exception as e:  # noqa
    print("expected_log_prob with per-member noise RAISED", type(e).__name__, str(e)[:100])
    bad += 1

ll2 = LikelihoodList(GaussianLikelihood(), l2)
try:
    outs = ll2(d1, d2, noise=[None, c2])
    print("mixed list with noise=[None, c2]: ok")
except Exception as e:  # noqa
    print("mixed list with noise=[None, c2] RAISED", type(e).__name__, str(e)[:100])
    bad += 1

sys.exit(1 if bad else 0)
