"""MultitaskGaussianLikelihood with rank > 0: expected_log_prob (and the conditional p(y|f)) drop the
off-diagonal task-noise covariance that marginal() adds.

marginal(N(m, C)) returns N(m, C + I_n (x) (B B^T + sigma^2 I_t))  -> R is the full Kronecker task-noise matrix.
expected_log_prob must then be E_{f ~ N(m, diag C)} [ log N(y | f, R) ]; the library evaluates it with diag(R) only.
"""
import math
import sys
import warnings

import torch

import gpytorch
from gpytorch.distributions import MultitaskMultivariateNormal
from gpytorch.likelihoods import MultitaskGaussianLikelihood

warnings.simplefilter("ignore")
torch.manual_seed(0)
torch.set_default_dtype(torch.float64)

n, t = 3, 2
lik = MultitaskGaussianLikelihood(num_tasks=t, rank=1)
lik.initialize(task_noise_covar_factor=torch.tensor([[1.0], [0.8]]))
lik.noise = torch.tensor([0.2])

A = torch.randn(n * t, n * t)
C = A @ A.T + 0.5 * torch.eye(n * t)
mean = torch.randn(n, t)
dist = MultitaskMultivariateNormal(mean, C)  # interleaved
y = torch.randn(n, t)

# R as added by the likelihood itself (checked against the dense Kronecker formula)
D = lik.task_noise_covar + lik.noise * torch.eye(t)
R = torch.kron(torch.eye(n), D)
R_lib = lik(dist).covariance_matrix - C
print(f"|marginal noise - I (x) (BB^T + s2 I)| = {(R_lib - R).abs().max().item():.3e}")

r = (y - mean).reshape(-1)
Ri = torch.linalg.inv(R)
Cd = torch.diag(C.diagonal())
const = n * t * math.log(2 * math.pi)
ref = (-0.5 * (r @ Ri @ r + torch.trace(Ri @ Cd) + torch.logdet(R) + const)).item()

# independent Monte-Carlo confirmation of the closed form with torch's own MVN
S = 400000
f = mean + torch.randn(S, n, t) * C.diagonal().reshape(n, t).sqrt()
mc = torch.distributions.MultivariateNormal(f.reshape(S, -1), R).log_prob(y.reshape(-1)).mean().item()

lib = lik.expected_log_prob(y, dist).sum().item()
print(f"library   sum expected_log_prob           = {lib:.6f}")
print(f"reference E_N(m,diagC)[log N(y|f,R)]       = {ref:.6f}")
print(f"Monte-Carlo estimate of the same (S={S}) = {mc:.6f}")

# conditional distribution p(y | f) returned by calling the likelihood on samples
f0 = torch.randn(n, t)
cond = lik(f0)
lp_lib = cond.log_prob(y).sum().item()
lp_ref = torch.distributions.MultivariateNormal(f0.reshape(-1), R).log_prob(y.reshape(-1)).item()
print(f"conditional log p(y|f): library = {lp_lib:.6f}   log N(y|f,R) = {lp_ref:.6f}")

err = abs(lib - ref)
print(f"discrepancy expected_log_prob: {err:.3e}; conditional: {abs(lp_lib - lp_ref):.3e}")
if err > 1e-6:
    print("VIOLATION: expected_log_prob ignores the off-diagonal part of the rank>0 task noise")
    sys.exit(1)
sys.exit(0)
