"""DirichletClassificationLikelihood: call-time `targets` ignore the likelihood's alpha_epsilon.

lik(dist) adds the stored fixed noise sigma2_i = log(1/alpha_i + 1), alpha_i = alpha_epsilon + 1[y_i = c].
lik(dist, targets=y) is documented to add the noise derived from the passed targets in place of the stored noise.
Passing the *training* targets again must therefore reproduce lik(dist) exactly.  It does not whenever
alpha_epsilon != 0.01, because __call__ recomputes the noise with the default alpha_epsilon=0.01.
"""
import sys
import warnings

import torch

import gpytorch
from gpytorch.distributions import MultivariateNormal
from gpytorch.likelihoods import DirichletClassificationLikelihood

warnings.simplefilter("ignore")
torch.manual_seed(0)
torch.set_default_dtype(torch.float64)

n, k = 6, 3
labels = torch.tensor([0, 1, 2, 1, 0, 2])
alpha_eps = 0.1

A = torch.randn(k, n, n)
C = A @ A.transpose(-1, -2) + 0.5 * torch.eye(n)
m = torch.randn(k, n)
dist = MultivariateNormal(m, C)

worst = 0.0
for learn in (False, True):
    lik = DirichletClassificationLikelihood(
        labels, alpha_epsilon=alpha_eps, learn_additional_noise=learn, dtype=torch.float64
    )
    if learn:
        lik.second_noise = torch.tensor([[0.3], [0.4], [0.5]])

    # dense reference from the formula of Milios et al. with the likelihood's own alpha_epsilon
    alpha = alpha_eps * torch.ones(n, k)
    alpha[torch.arange(n), labels] += 1.0
    sigma2 = torch.log(1.0 / alpha + 1.0).transpose(-1, -2)  # k x n
    R = torch.diag_embed(sigma2)
    if learn:
        R = R + lik.second_noise.unsqueeze(-1) * torch.eye(n)
    ref = C + R

    out_stored = lik(dist).covariance_matrix
    out_call = lik(dist, targets=labels).covariance_matrix
    e_stored = (out_stored - ref).abs().max().item()
    e_call = (out_call - ref).abs().max().item()
    print(f"learn_additional_noise={learn}: |lik(dist) - (C+R)| = {e_stored:.3e}   "
          f"|lik(dist, targets=train_labels) - (C+R)| = {e_call:.3e}")
    worst = max(worst, e_call)

print(f"max discrepancy of call-time-targets marginal covariance vs documented noise: {worst:.3e}")
if worst > 1e-8:
    print("VIOLATION: call-time targets produce noise for alpha_epsilon=0.01, not the likelihood's alpha_epsilon")
    sys.exit(1)
sys.exit(0)
