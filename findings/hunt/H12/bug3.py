"""MultitaskGaussianLikelihood(rank=0, batch_shape=b) cannot be applied to a distribution whose batch shape is
smaller than (but broadcastable with) b - it raises, although the same call works for rank > 0, for
has_task_noise=False and for the single-task GaussianLikelihood (which all broadcast).
"""
import sys
import warnings

import torch

import gpytorch
from gpytorch.distributions import MultitaskMultivariateNormal, MultivariateNormal
from gpytorch.likelihoods import GaussianLikelihood, MultitaskGaussianLikelihood

warnings.simplefilter("ignore")
torch.manual_seed(0)
torch.set_default_dtype(torch.float64)

n, t, b = 3, 2, 2
A = torch.randn(n * t, n * t)
C = A @ A.T + 0.5 * torch.eye(n * t)
mean = torch.randn(n, t)


def reference(lik, interleaved):
    D = torch.zeros(b, t, t)
    if lik.has_task_noise:
        D = D + (torch.diag_embed(lik.task_noises) if lik.rank == 0 else lik.task_noise_covar)
    if lik.has_global_noise:
        D = D + lik.noise.unsqueeze(-1) * torch.eye(t)
    eye = torch.eye(n)
    R = torch.stack([torch.kron(eye, d) if interleaved else torch.kron(d, eye) for d in D])
    return C + R


# sanity: the single-task likelihood broadcasts a batched noise against an unbatched distribution
g = GaussianLikelihood(batch_shape=torch.Size([b]))
g.noise = torch.tensor([[0.3], [0.7]])
Cg = C[:n, :n]
og = g(MultivariateNormal(mean[:, 0], Cg)).covariance_matrix
print("GaussianLikelihood(batch_shape=[2]) on unbatched MVN ->", tuple(og.shape),
      "err", (og - (Cg + g.noise.unsqueeze(-1) * torch.eye(n))).abs().max().item())

failed = []
for interleaved in (True, False):
    dist = MultitaskMultivariateNormal(mean, C, interleaved=interleaved)
    for rank, has_task in ((1, True), (2, True), (0, False), (0, True)):
        lik = MultitaskGaussianLikelihood(
            num_tasks=t, rank=rank, batch_shape=torch.Size([b]), has_task_noise=has_task, has_global_noise=True
        )
        lik.noise = torch.tensor([[0.3], [0.7]])
        if has_task and rank == 0:
            lik.task_noises = torch.tensor([[0.2, 0.4], [0.6, 0.8]])
        tag = f"rank={rank} has_task_noise={has_task} interleaved={interleaved}"
        try:
            out = lik(dist).covariance_matrix
            err = (out - reference(lik, interleaved)).abs().max().item()
            print(f"{tag}: ok, shape {tuple(out.shape)}, |cov - (C+R)| = {err:.2e}")
            if err > 1e-9:
                failed.append(tag)
        except Exception as e:  # noqa
            print(f"{tag}: RAISED {type(e).__name__}: {str(e)[:110]}")
            failed.append(tag)
        if has_task and rank == 0:
            for name, fn in (
                ("expected_log_prob", lambda: lik.expected_log_prob(torch.randn(b, n, t), dist)),
                ("log_marginal", lambda: lik.log_marginal(torch.randn(b, n, t), dist)),
                ("conditional lik(f)", lambda: lik(torch.randn(n, t))),
            ):
                try:
                    fn()
                    print(f"    {name}: ok")
                except Exception as e:  # noqa
                    print(f"    {name}: RAISED {type(e).__name__}")

if failed:
    print("VIOLATION: valid (broadcastable) likelihood/distribution batch shapes raise for:", failed)
    sys.exit(1)
sys.exit(0)
