"""C18: model.load_state_dict(state, assign=True) raises for every model that holds a LogNormalPrior, HalfCauchyPrior
or HalfNormalPrior (Prior.__setattr__ refuses the assignment of the '_transformed_*' buffers)."""
import copy
import sys
import warnings

import torch

import gpytorch
from gpytorch.priors import GammaPrior, HalfCauchyPrior, HalfNormalPrior, LogNormalPrior, NormalPrior

warnings.filterwarnings("ignore")
torch.manual_seed(0)
torch.set_default_dtype(torch.float64)

X = torch.rand(12, 1)
Y = torch.sin(5 * X).squeeze(-1)


class GP(gpytorch.models.ExactGP):
    def __init__(self, prior):
        super().__init__(X, Y, gpytorch.likelihoods.GaussianLikelihood())
        self.mean_module = gpytorch.means.ConstantMean()
        self.covar_module = gpytorch.kernels.ScaleKernel(gpytorch.kernels.RBFKernel(lengthscale_prior=prior))

    def forward(self, x):
        return gpytorch.distributions.MultivariateNormal(self.mean_module(x), self.covar_module(x))


def objective(model):
    model.train()
    mll = gpytorch.mlls.ExactMarginalLogLikelihood(model.likelihood, model)
    return mll(model(X), Y).item()


cases = {
    "NormalPrior (control)": lambda: NormalPrior(1.0, 0.5),
    "GammaPrior (control)": lambda: GammaPrior(2.0, 3.0),
    "LogNormalPrior": lambda: LogNormalPrior(0.3, 0.7),
    "HalfCauchyPrior": lambda: HalfCauchyPrior(2.0),
    "HalfNormalPrior": lambda: HalfNormalPrior(2.0),
}
bad = False
for name, mk in cases.items():
    saved = GP(mk())
    saved.covar_module.base_kernel.lengthscale = 0.4
    state = copy.deepcopy(saved.state_dict())
    fresh = GP(mk())
    try:
        fresh.load_state_dict(state, assign=True)
        d = abs(objective(saved) - objective(fresh))
        print("%-24s assign=True loads, |objective diff| = %.2e" % (name, d))
        bad = bad or d > 1e-9
    except Exception as e:  # noqa
        msg = str(e).replace("\n", " ")
        print("%-24s assign=True RAISES %s: ...%s" % (name, type(e).__name__, msg[-230:]))
        bad = True
    # the default (copying) load works for all of them (separate state object: torch records assign=True in the
    # _metadata of the state_dict it was given)
    fresh2 = GP(mk())
    fresh2.load_state_dict(copy.deepcopy(saved.state_dict()))
    assert abs(objective(saved) - objective(fresh2)) < 1e-9

print("VIOLATION" if bad else "ok")
sys.exit(1 if bad else 0)
