"""C18 (cache clause): loading a checkpoint into the sub-modules of an ExactGP that is in eval mode and has predicted
before (likelihood.load_state_dict / covar_module.load_state_dict / mean_module.load_state_dict - the 'one file per
module' layout) leaves the parent's prediction_strategy of the previous state in effect."""
import sys
import warnings

import torch

import gpytorch

warnings.filterwarnings("ignore")
torch.manual_seed(0)
torch.set_default_dtype(torch.float64)
X = torch.rand(20, 1)
Y = torch.sin(5 * X).squeeze(-1)
XT = torch.rand(5, 1)


class GP(gpytorch.models.ExactGP):
    def __init__(self, lik):
        super().__init__(X, Y, lik)
        self.mean_module = gpytorch.means.ConstantMean()
        self.covar_module = gpytorch.kernels.ScaleKernel(gpytorch.kernels.RBFKernel())

    def forward(self, x):
        return gpytorch.distributions.MultivariateNormal(self.mean_module(x), self.covar_module(x))


def predict(m):
    with torch.no_grad():
        p = m.likelihood(m(XT))
        return p.mean, p.variance


saved = GP(gpytorch.likelihoods.GaussianLikelihood())
saved.likelihood.noise = 0.5
saved.covar_module.base_kernel.lengthscale = 0.2
saved.mean_module.constant = 0.3
saved.eval()
ref_mean, ref_var = predict(saved)

lik = gpytorch.likelihoods.GaussianLikelihood()
model = GP(lik)
model.eval()
predict(model)  # the target has been used before: caches of its previous (default) state exist

lik.load_state_dict(saved.likelihood.state_dict())
model.covar_module.load_state_dict(saved.covar_module.state_dict())
model.mean_module.load_state_dict(saved.mean_module.state_dict())
same_state = all(torch.equal(v, model.state_dict()[k]) for k, v in saved.state_dict().items())
print("all state_dict entries equal the saved ones:", same_state)
m1, v1 = predict(model)
d1 = max((m1 - ref_mean).abs().max().item(), (v1 - ref_var).abs().max().item())
print("per-module loads      : max |pred - saved model's pred| = %.3e" % d1)

model.load_state_dict(saved.state_dict())
m2, v2 = predict(model)
d2 = max((m2 - ref_mean).abs().max().item(), (v2 - ref_var).abs().max().item())
print("whole-model load      : max |pred - saved model's pred| = %.3e" % d2)

bad = same_state and d1 > 1e-6
print("VIOLATION" if bad else "ok")
sys.exit(1 if bad else 0)
