"""C18: MultivariateNormalPrior keeps the constructor's scale_tril / covariance_matrix / precision_matrix after
load_state_dict; prior.expand() (what pyro_sample_from_prior calls) then builds a prior from the stale factor."""
import sys
import warnings

import torch

import gpytorch
from gpytorch.priors import MultivariateNormalPrior

warnings.filterwarnings("ignore")
torch.manual_seed(0)
torch.set_default_dtype(torch.float64)

A = torch.tensor([[2.0, 0.5], [0.5, 1.0]])  # covariance of the saved model's prior
B = 0.1 * torch.eye(2)  # covariance the fresh model is constructed with


def make(loc, cov):
    prior = MultivariateNormalPrior(loc, scale_tril=torch.linalg.cholesky(cov))
    return gpytorch.kernels.RBFKernel(ard_num_dims=2, lengthscale_prior=prior)


saved = make(torch.tensor([1.0, 2.0]), A)
fresh = make(torch.zeros(2), B)
print("load_state_dict:", fresh.load_state_dict(saved.state_dict()))

p_saved, p_loaded = saved.lengthscale_prior, fresh.lengthscale_prior
v = torch.tensor([[0.7, 1.3]])
print("log_prob            saved %.6f  loaded %.6f" % (p_saved.log_prob(v).item(), p_loaded.log_prob(v).item()))

d_tril = (p_saved.scale_tril - p_loaded.scale_tril).abs().max().item()
d_buf = (p_saved._unbroadcasted_scale_tril - p_loaded._unbroadcasted_scale_tril).abs().max().item()
print("state_dict factor   max diff %.3e   (buffer _unbroadcasted_scale_tril)" % d_buf)
print("prior.scale_tril    max diff %.3e   (public attribute; loaded model still shows chol(0.1 I))" % d_tril)

# what Module.pyro_sample_from_prior does: prior.expand(closure(module).shape)
shape = saved.lengthscale.shape  # (1, 2)
e_saved, e_loaded = p_saved.expand(shape), p_loaded.expand(shape)
lp_s, lp_l = e_saved.log_prob(v).sum().item(), e_loaded.log_prob(v).sum().item()
print("expand().log_prob   saved %.6f  loaded %.6f  diff %.3e" % (lp_s, lp_l, abs(lp_s - lp_l)))
d_exp = (e_saved.scale_tril - e_loaded.scale_tril).abs().max().item()
print("expand().scale_tril max diff %.3e" % d_exp)

bad = d_tril > 1e-8 or abs(lp_s - lp_l) > 1e-8
print("VIOLATION" if bad else "ok")
sys.exit(1 if bad else 0)
