"""Interval.intersect (and hence Module.register_constraint(..., replace=False)) always raises
"Cant intersect Interval constraints with conflicting transforms!", even for two plain Interval constraints
with the identical default transform: the check compares the bound methods `self.transform != other.transform`,
which differ for any two distinct constraint objects.
"""
import sys
import warnings

import torch

warnings.filterwarnings("ignore")
torch.manual_seed(0)
torch.set_default_dtype(torch.float64)

import gpytorch  # noqa: E402
from gpytorch.constraints import Interval  # noqa: E402

bad = False

a, b = Interval(0.0, 1.0), Interval(0.5, 2.0)
print("a._transform is b._transform:", a._transform is b._transform)
try:
    c = a.intersect(b)
    ok = c.lower_bound.item() == 0.5 and c.upper_bound.item() == 1.0
    print("a.intersect(b) ->", c, "(expected Interval(0.5, 1.0))")
    bad |= not ok
except RuntimeError as e:
    print("Interval(0,1).intersect(Interval(0.5,2)) raised:", e, " -- expected Interval(0.5, 1.0)")
    bad = True

kernel = gpytorch.kernels.RBFKernel(lengthscale_constraint=Interval(0.01, 10.0))
try:
    kernel.register_constraint("raw_lengthscale", Interval(0.1, 2.0), replace=False)
    c = kernel.raw_lengthscale_constraint
    print("register_constraint(replace=False) ->", c)
    bad |= not (abs(c.lower_bound.item() - 0.1) < 1e-12 and abs(c.upper_bound.item() - 2.0) < 1e-12)
    kernel.lengthscale = 1.0
    bad |= abs(kernel.lengthscale.item() - 1.0) > 1e-8
except RuntimeError as e:
    print("RBFKernel.register_constraint('raw_lengthscale', Interval(0.1, 2), replace=False) raised:", e)
    bad = True

sys.exit(1 if bad else 0)
