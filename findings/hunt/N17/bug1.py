"""LKJPrior(n >= 3).log_prob(Sigma) is not the documented density pdf(Sigma) ~ |Sigma|^(eta - 1).

It returns the LKJ-Cholesky density of the Cholesky factor L of Sigma (which contains the Jacobian
prod_{i>=2} L_ii^(n-i) of Sigma -> L) although the argument - and the documented density - is the correlation
matrix itself.  For n = 2 the Jacobian is 1 (the only case in the test-suite); for n >= 3 it is not.
"""
import math
import sys
import warnings

import torch

warnings.filterwarnings("ignore")
torch.manual_seed(0)
torch.set_default_dtype(torch.float64)

from gpytorch.priors import LKJPrior  # noqa: E402


def corr(r12, r13, r23):
    return torch.tensor([[1.0, r12, r13], [r12, 1.0, r23], [r13, r23, 1.0]])


bad = False

# (a) eta = 1: documented density |Sigma|^0 = constant = 1 / vol(3x3 correlation matrices) = 2 / pi^2
prior = LKJPrior(3, 1.0)
ref = -math.log(math.pi**2 / 2)
for S in [corr(0.0, 0.0, 0.0), corr(0.9, 0.0, 0.0), corr(0.5, -0.3, 0.2)]:
    got = prior.log_prob(S).item()
    print(f"eta=1  r={S[0,1].item():+.1f},{S[0,2].item():+.1f},{S[1,2].item():+.1f}  "
          f"log_prob={got:.6f}  documented (uniform)={ref:.6f}  diff={got - ref:+.6f}")
    bad |= abs(got - ref) > 1e-6

# (b) general eta: log p(S1) - log p(S2) must be (eta - 1) * (logdet S1 - logdet S2)
eta = 2.5
prior = LKJPrior(3, eta)
S1, S2 = corr(0.9, 0.0, 0.0), corr(0.0, 0.0, 0.6)
got = (prior.log_prob(S1) - prior.log_prob(S2)).item()
ref = (eta - 1) * (torch.logdet(S1) - torch.logdet(S2)).item()
print(f"eta={eta}  log p(S1) - log p(S2) = {got:.6f}   (eta-1) * (logdet S1 - logdet S2) = {ref:.6f}  diff={got - ref:+.6f}")
bad |= abs(got - ref) > 1e-6

sys.exit(1 if bad else 0)
