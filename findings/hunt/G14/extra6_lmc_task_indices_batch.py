#!/usr/bin/env python3
r"""
Extra (C14, LMCVariationalStrategy + task_indices): a batch of inputs x (shape b x 1 x N x D, the 1 being the latent
dimension) together with a shared task_indices vector of shape (N,) raises
    ValueError: MulLinearOperator expects two LinearOperators of the same size
although (i) the same call without task_indices works, (ii) IndependentMultitaskVariationalStrategy accepts exactly
this input, and (iii) passing the indices explicitly expanded to (b, 1, N) works and agrees with slicing the all-task
output.  lmc_variational_strategy.py l.227-235: `_select_lmc_coefficients` only broadcasts the indices against the
batch shape of the *coefficients* (Q,), not against the batch shape of the latent distribution (b, Q), and
`latent_covar * lmc_factor` (MulLinearOperator) does not broadcast.
"""
import sys
import warnings

import torch

import gpytorch
from gpytorch.variational import CholeskyVariationalDistribution, LMCVariationalStrategy, VariationalStrategy

warnings.filterwarnings("ignore")
torch.set_default_dtype(torch.float64)
Q, T, N, B = 2, 3, 4, 5


class Model(gpytorch.models.ApproximateGP):
    def __init__(self, Z):
        base = VariationalStrategy(
            self, Z, CholeskyVariationalDistribution(Z.size(-2), batch_shape=torch.Size([Q])), learn_inducing_locations=True
        )
        super().__init__(LMCVariationalStrategy(base, num_tasks=T, num_latents=Q, latent_dim=-1))
        self.mean_module = gpytorch.means.ConstantMean(batch_shape=torch.Size([Q]))
        self.covar_module = gpytorch.kernels.ScaleKernel(
            gpytorch.kernels.RBFKernel(batch_shape=torch.Size([Q])), batch_shape=torch.Size([Q])
        )

    def forward(self, x):
        return gpytorch.distributions.MultivariateNormal(self.mean_module(x), self.covar_module(x))


if __name__ == "__main__":
    torch.manual_seed(0)
    model = Model(torch.randn(6, 2))
    model.eval()
    X = torch.randn(B, 1, N, 2)
    ti = torch.tensor([2, 0, 1, 1])
    with torch.no_grad():
        full = model(X)  # MultitaskMultivariateNormal, batch B, N x T
        idx = torch.arange(N) * T + ti
        ref_mean = full.mean[..., torch.arange(N), ti]
        ref_cov = full.covariance_matrix[..., idx, :][..., :, idx]
        ok = model(X, task_indices=ti.expand(B, 1, N))
        print("explicitly expanded task_indices (B,1,N): max|mean - ref| =", (ok.mean - ref_mean).abs().max().item(),
              " max|cov - ref| =", (ok.covariance_matrix - ref_cov).abs().max().item())
        try:
            out = model(X, task_indices=ti)
            err = max((out.mean - ref_mean).abs().max().item(), (out.covariance_matrix - ref_cov).abs().max().item())
            print("shared task_indices (N,): max error", err)
            violated = err > 1e-6
        except Exception as e:  # noqa
            print("shared task_indices (N,): raised", type(e).__name__, "-", str(e)[:110])
            violated = True
    print("VIOLATION PRESENT" if violated else "no violation")
    sys.exit(1 if violated else 0)
