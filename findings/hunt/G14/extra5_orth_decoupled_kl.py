#!/usr/bin/env python3
r"""
Extra (C14, OrthogonallyDecoupledVariationalStrategy.kl_divergence): the value returned is NOT KL(q || p).

The strategy's own q(f) is a GP with mean  mu_b(x) + C_b(x, Zg) a  and covariance C_b (mu_b, C_b: mean / covariance of
the wrapped covariance strategy, inducing points Zb; a: Delta mean on the mean inducing points Zg).  Both the mean shift
and C_b - K lie in the span of k(., Zb), k(., Zg), so q(f | u) = p(f | u) for u = f([Zb, Zg]) and
KL(q || p) = KL(q(u) || p(u)) over that JOINT inducing set - a plain finite-dimensional Gaussian KL that can be evaluated
with torch.distributions from the library's own evaluation-mode output at [Zb, Zg] (adding further points does not
change it, which the script checks).  kl_divergence() instead returns  KL_base + 1/2 a^T C_b(Zg, Zg) a , which differs
(by ~0.26 nats here): using the *posterior* covariance C_b (which contains S) in place of the prior conditional
K_gg - K_gb K_bb^-1 K_bg of Salimbeni et al. (2018) drops the cross term between (m - mz) and a and mis-weights the S
part (orthogonally_decoupled_variational_strategy.py, forward l.97-110 / kl_divergence l.115-119).
When q_b equals the prior (whitened m = 0, S = I) or when a = 0 the two agree; otherwise kl_divergence() can be
SMALLER than the true KL (here 6.04 vs 6.70), i.e. the resulting 'ELBO' is not a lower bound.
"""
import sys
import warnings

import torch

import gpytorch
from gpytorch.variational import (
    CholeskyVariationalDistribution,
    DeltaVariationalDistribution,
    OrthogonallyDecoupledVariationalStrategy,
    VariationalStrategy,
)

warnings.filterwarnings("ignore")
torch.set_default_dtype(torch.float64)


class Model(gpytorch.models.ApproximateGP):
    def __init__(self, Zb, Zg):
        base = VariationalStrategy(self, Zb, CholeskyVariationalDistribution(Zb.size(-2)), learn_inducing_locations=True)
        strat = OrthogonallyDecoupledVariationalStrategy(base, Zg, DeltaVariationalDistribution(Zg.size(-2)))
        super().__init__(strat)
        self.mean_module = gpytorch.means.ConstantMean()
        self.mean_module.constant.data.fill_(0.7)
        self.covar_module = gpytorch.kernels.ScaleKernel(gpytorch.kernels.RBFKernel())

    def forward(self, x):
        return gpytorch.distributions.MultivariateNormal(self.mean_module(x), self.covar_module(x))


def joint_kl(model, pts, jitter):
    out, pr = model(pts), model.forward(pts)
    eye = jitter * torch.eye(pts.size(0))
    q = torch.distributions.MultivariateNormal(out.mean, out.covariance_matrix + eye)
    p = torch.distributions.MultivariateNormal(pr.mean, pr.covariance_matrix + eye)
    return torch.distributions.kl_divergence(q, p).item()


if __name__ == "__main__":
    torch.manual_seed(1)
    Zb, Zg, Xextra = torch.randn(4, 2), torch.randn(6, 2), torch.randn(3, 2)
    model = Model(Zb, Zg)
    strat = model.variational_strategy
    base = strat.base_variational_strategy
    strat.variational_params_initialized.fill_(1)
    base.variational_params_initialized.fill_(1)
    base._variational_distribution.variational_mean.data.copy_(torch.randn(4))
    base._variational_distribution.chol_variational_covar.data.copy_(torch.randn(4, 4).tril() * 0.3 + torch.eye(4))
    a = 0.5 * torch.randn(6)
    results = {}
    for label, aval in (("a = 0", torch.zeros(6)), ("a != 0", a)):
        strat._variational_distribution.variational_mean.data.copy_(aval)
        model.train()
        model.eval()  # clears all memoised quantities
        with torch.no_grad():
            model(Zg)
            kl_lib = strat.kl_divergence().item()
            kl_u = joint_kl(model, torch.cat([Zb, Zg], 0), 1e-6)
            kl_u_more = joint_kl(model, torch.cat([Zb, Zg, Xextra], 0), 1e-6)
        results[label] = abs(kl_lib - kl_u)
        print(f"{label:7s}: kl_divergence() = {kl_lib:.6f}   KL(q(u)||p(u)), u=f([Zb,Zg]) = {kl_u:.6f}   "
              f"(same with 3 extra points: {kl_u_more:.6f})   |diff| = {abs(kl_lib - kl_u):.3e}")
    violated = results["a != 0"] > 5e-2 and results["a = 0"] < 2e-2
    print("VIOLATION PRESENT" if violated else "no violation")
    sys.exit(1 if violated else 0)
