#!/usr/bin/env python3
r"""
Extra (C14, get_fantasy_model): with DEFAULT settings the exact GP returned by get_fantasy_model() of an SVGP
(VariationalStrategy or UnwhitenedVariationalStrategy, Cholesky q(u), zero prior mean) has the right predictive MEAN but
a wrong predictive COVARIANCE.  Under settings.fast_pred_var(True) the same fantasy model gives the covariance of the
closed form (conditioning q(f) on the new data).

Cause: the pseudo-noise covariance D_a of the inducing pseudo-data is only written into
`prediction_strategy.lik_train_train_covar` of the intermediate model (_variational_strategy.py, amortized_exact_gp) and,
after ExactGP.get_fantasy_model, only survives inside the *cached root decompositions* (used for the mean cache and by
fast_pred_var).  The default `exact_predictive_covar` path re-evaluates likelihood(train_prior) = K + sigma^2 I for ALL
training points, i.e. treats the M inducing pseudo-observations as if they had the homoskedastic likelihood noise
(see the "TODO: should we update the covar_cache?" in get_fantasy_model).
"""
import sys
import warnings

import torch

import gpytorch
from gpytorch.variational import CholeskyVariationalDistribution, UnwhitenedVariationalStrategy, VariationalStrategy

warnings.filterwarnings("ignore")
torch.set_default_dtype(torch.float64)
NOISE = 0.3


class Model(gpytorch.models.ApproximateGP):
    def __init__(self, strat_cls, Z):
        strat = strat_cls(self, Z, CholeskyVariationalDistribution(Z.size(-2)), learn_inducing_locations=True)
        super().__init__(strat)
        self.mean_module = gpytorch.means.ZeroMean()
        self.covar_module = gpytorch.kernels.ScaleKernel(gpytorch.kernels.RBFKernel())
        self.likelihood = gpytorch.likelihoods.GaussianLikelihood()
        self.likelihood.noise = NOISE

    def forward(self, x):
        return gpytorch.distributions.MultivariateNormal(self.mean_module(x), self.covar_module(x))


def run(strat_cls, fast):
    torch.manual_seed(0)
    Mn, D = 6, 2
    Z, X, Xf, yf = torch.randn(Mn, D), torch.randn(4, D), torch.randn(3, D), torch.randn(3)
    model = Model(strat_cls, Z)
    strat = model.variational_strategy
    strat.variational_params_initialized.fill_(1)
    m = torch.randn(Mn)
    Lw = 0.5 * torch.eye(Mn) + 0.1 * torch.randn(Mn, Mn).tril()
    with torch.no_grad():
        Kzz = model.covar_module(Z).to_dense() + strat.jitter_val * torch.eye(Mn)
        Lk = torch.linalg.cholesky(Kzz)
    S_u = Lk @ Lw @ Lw.T @ Lk.T
    if strat_cls is VariationalStrategy:
        strat._variational_distribution.variational_mean.data.copy_(m)
        strat._variational_distribution.chol_variational_covar.data.copy_(Lw)
        mu_u = Lk @ m
    else:
        strat._variational_distribution.variational_mean.data.copy_(m)
        strat._variational_distribution.chol_variational_covar.data.copy_(torch.linalg.cholesky(S_u))
        mu_u = m
    model.eval()
    with torch.no_grad(), gpytorch.settings.fast_pred_var(fast):
        model(X)
        fant = model.get_fantasy_model(Xf, yf)
        fant.eval()
        out = fant(X)
        XX = torch.cat([Xf, X], 0)
        A = model.covar_module(XX, Z).to_dense() @ torch.linalg.inv(Kzz)
        mean = A @ mu_u
        cov = model.covar_module(XX).to_dense() - A @ (Kzz - S_u) @ A.T
        nf = Xf.size(0)
        G = cov[nf:, :nf] @ torch.linalg.inv(cov[:nf, :nf] + NOISE * torch.eye(nf))
        ref_mean = mean[nf:] + G @ (yf - mean[:nf])
        ref_cov = cov[nf:, nf:] - G @ cov[:nf, nf:]
    e_mean = (out.mean - ref_mean).abs().max().item()
    e_cov = (out.covariance_matrix - ref_cov).abs().max().item()
    print(f"{strat_cls.__name__:30s} fast_pred_var={str(fast):5s}  max|mean - ref| = {e_mean:.2e}   max|cov - ref| = {e_cov:.3e}"
          f"   (variances lib {out.variance.numpy().round(4)}  ref {ref_cov.diagonal().numpy().round(4)})")
    return e_cov


if __name__ == "__main__":
    bad = []
    for strat_cls in (VariationalStrategy, UnwhitenedVariationalStrategy):
        e_fast = run(strat_cls, True)
        e_default = run(strat_cls, False)
        bad.append(e_default > 1e-2 and e_fast < 1e-3)
    violated = all(bad)
    print("VIOLATION PRESENT" if violated else "no violation")
    sys.exit(1 if violated else 0)
