#!/usr/bin/env python3
"""
C14 violation 1: OrthogonallyDecoupledVariationalStrategy wrapped around an UnwhitenedVariationalStrategy
returns a wrong predictive MEAN (and a wrong kl_divergence()) in TRAINING mode.

The orthogonally decoupled mean is  mean_base(X) + Cov_base(X, Z_gamma) a,  where Cov_base is the covariance of the
wrapped ("covariance") strategy's q(f) and a is the Delta variational mean attached to the mean-inducing points
Z_gamma.  In training mode UnwhitenedVariationalStrategy only returns the *diagonal* of K_xx - K_xz K_zz^-1 K_zx, so
the off-diagonal block Cov_base(X, Z_gamma) that the decoupled strategy slices out of it has lost the term
K_{x gamma} - K_{x beta} K_{beta beta}^-1 K_{beta gamma}.  Training-mode means (and the KL, which uses the
gamma-gamma block) therefore differ from the evaluation-mode / closed-form values.
"""
import sys
import warnings

import torch

import gpytorch
from gpytorch.variational import (
    CholeskyVariationalDistribution,
    DeltaVariationalDistribution,
    OrthogonallyDecoupledVariationalStrategy,
    UnwhitenedVariationalStrategy,
    VariationalStrategy,
)

warnings.filterwarnings("ignore")
torch.set_default_dtype(torch.float64)


class Model(gpytorch.models.ApproximateGP):
    def __init__(self, base_cls, Zb, Zg):
        base = base_cls(self, Zb, CholeskyVariationalDistribution(Zb.size(-2)), learn_inducing_locations=True)
        strat = OrthogonallyDecoupledVariationalStrategy(base, Zg, DeltaVariationalDistribution(Zg.size(-2)))
        super().__init__(strat)
        self.mean_module = gpytorch.means.ConstantMean()
        self.mean_module.constant.data.fill_(0.7)
        self.covar_module = gpytorch.kernels.ScaleKernel(gpytorch.kernels.RBFKernel())

    def forward(self, x):
        return gpytorch.distributions.MultivariateNormal(self.mean_module(x), self.covar_module(x))


def dense_reference(model, Zb, Zg, X, m, S, a, jitter):
    """q_base(f) = N(mX + A (m - mz), Kxx - A (Kzz - S) A^T), A = Kxz Kzz^-1 (unwhitened);
    decoupled mean = mean_base(X) + Cov_base(X, Zg) a ;  KL = KL_base + 1/2 a^T Cov_base(Zg, Zg) a"""
    XX = torch.cat([X, Zg], 0)
    n = X.size(0)
    Kzz = model.covar_module(Zb).to_dense() + jitter * torch.eye(Zb.size(0))
    Kxz = model.covar_module(XX, Zb).to_dense()
    Kxx = model.covar_module(XX).to_dense()
    mz, mx = model.mean_module(Zb), model.mean_module(XX)
    A = Kxz @ torch.linalg.inv(Kzz)
    mean_b = mx + A @ (m - mz)
    cov_b = Kxx - A @ (Kzz - S) @ A.T
    mean = mean_b[:n] + cov_b[:n, n:] @ a
    var = cov_b[:n, :n].diagonal()
    quad = 0.5 * a @ cov_b[n:, n:] @ a
    return mean, var, quad


def run(base_cls):
    torch.manual_seed(1)
    Zb, Zg, X = torch.randn(4, 2), torch.randn(7, 2), torch.randn(5, 2)
    model = Model(base_cls, Zb, Zg)
    strat = model.variational_strategy
    base = strat.base_variational_strategy
    strat.variational_params_initialized.fill_(1)
    base.variational_params_initialized.fill_(1)
    m = torch.randn(4)
    L = torch.randn(4, 4).tril() * 0.3 + torch.eye(4)
    a = torch.randn(7)
    base._variational_distribution.variational_mean.data.copy_(m)
    base._variational_distribution.chol_variational_covar.data.copy_(L)
    strat._variational_distribution.variational_mean.data.copy_(a)

    model.eval()
    out_eval = model(X)
    mean_eval, var_eval = out_eval.mean.detach(), out_eval.variance.detach()
    kl_eval = strat.kl_divergence().item()

    model.train()
    out_train = model(X)
    mean_train, var_train = out_train.mean.detach(), out_train.variance.detach()
    kl_train = strat.kl_divergence().item()

    err_mean = (mean_train - mean_eval).abs().max().item()
    err_var = (var_train - var_eval).abs().max().item()
    print(f"[{base_cls.__name__}]")
    print("  eval  mean:", mean_eval.numpy().round(4))
    print("  train mean:", mean_train.numpy().round(4))
    print(f"  max |train mean - eval mean| = {err_mean:.3e}   max |train var - eval var| = {err_var:.3e}")
    print(f"  kl_divergence  eval = {kl_eval:.6f}   train = {kl_train:.6f}   |diff| = {abs(kl_eval - kl_train):.3e}")
    if base_cls is UnwhitenedVariationalStrategy:
        with torch.no_grad():
            rmean, rvar, rquad = dense_reference(model, Zb, Zg, X, m, L @ L.T, a, base.jitter_val)
        print(f"  dense closed form: max |eval mean - ref| = {(mean_eval - rmean).abs().max().item():.3e}, "
              f"max |train mean - ref| = {(mean_train - rmean).abs().max().item():.3e}")
        base_kl = torch.distributions.kl_divergence(base.variational_distribution, base.prior_distribution).item()
        print(f"  decoupled KL term 1/2 a^T Cov(Zg,Zg) a: closed form = {rquad.item():.6f}, "
              f"library (train) = {kl_train - base_kl:.6f}")
    return err_mean, abs(kl_eval - kl_train)


if __name__ == "__main__":
    # control: with the (whitened) VariationalStrategy as the covariance strategy train == eval
    ctrl_mean, ctrl_kl = run(VariationalStrategy)
    bug_mean, bug_kl = run(UnwhitenedVariationalStrategy)
    print()
    print(f"control (whitened base)  : mean diff {ctrl_mean:.2e}, KL diff {ctrl_kl:.2e}")
    print(f"unwhitened base          : mean diff {bug_mean:.2e}, KL diff {bug_kl:.2e}")
    violated = bug_mean > 1e-3
    print("VIOLATION PRESENT" if violated else "no violation")
    sys.exit(1 if violated else 0)
