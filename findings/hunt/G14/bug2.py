#!/usr/bin/env python3
r"""
C14 violation 2: get_fantasy_model() of a model with UnwhitenedVariationalStrategy and a NON-ZERO prior mean
conditions on the wrong q(f): the prior mean at the inducing points is counted twice.

get_fantasy_model (Maddox et al. 2021, online variational conditioning) must return the exact-GP posterior obtained by
conditioning the variational process q(f) = \int p(f | u) q(u) du on the new Gaussian observations (X*, y*):
    mean*(x) = mu_q(x) + C_q(x, X*) [C_q(X*, X*) + s2 I]^-1 (y* - mu_q(X*)),
where mu_q / C_q are the closed-form mean / covariance of q(f).
For the whitened VariationalStrategy this holds (with zero, constant or linear prior mean). For the
UnwhitenedVariationalStrategy it only holds with a zero prior mean: `pseudo_points` builds the pseudo targets from the
variational mean m (which already contains the prior mean, u is NOT whitened) as if the prior mean were zero, and
`_VariationalStrategy.amortized_exact_gp` then adds mean_module(Z) on top.
"""
import sys
import warnings

import torch

import gpytorch
from gpytorch.variational import CholeskyVariationalDistribution, UnwhitenedVariationalStrategy, VariationalStrategy

warnings.filterwarnings("ignore")
torch.set_default_dtype(torch.float64)
NOISE = 0.3


class Model(gpytorch.models.ApproximateGP):
    def __init__(self, strat_cls, Z, prior_mean):
        strat = strat_cls(self, Z, CholeskyVariationalDistribution(Z.size(-2)), learn_inducing_locations=True)
        super().__init__(strat)
        self.mean_module = gpytorch.means.ConstantMean()
        self.mean_module.constant.data.fill_(prior_mean)
        self.covar_module = gpytorch.kernels.ScaleKernel(gpytorch.kernels.RBFKernel())
        self.likelihood = gpytorch.likelihoods.GaussianLikelihood()
        self.likelihood.noise = NOISE

    def forward(self, x):
        return gpytorch.distributions.MultivariateNormal(self.mean_module(x), self.covar_module(x))


def q_f(model, Z, X, mu_u, S_u, jitter):
    """closed form q(f) at X for q(u) = N(mu_u, S_u) (u = f(Z), NOT whitened)"""
    Kzz = model.covar_module(Z).to_dense() + jitter * torch.eye(Z.size(0))
    Kxz = model.covar_module(X, Z).to_dense()
    Kxx = model.covar_module(X).to_dense()
    A = Kxz @ torch.linalg.inv(Kzz)
    mean = model.mean_module(X) + A @ (mu_u - model.mean_module(Z))
    cov = Kxx - A @ (Kzz - S_u) @ A.T
    return mean, cov


def run(strat_cls, prior_mean):
    torch.manual_seed(0)
    Mn, D = 6, 2
    Z, X, Xf, yf = torch.randn(Mn, D), torch.randn(4, D), torch.randn(3, D), torch.randn(3)
    model = Model(strat_cls, Z, prior_mean)
    strat = model.variational_strategy
    strat.variational_params_initialized.fill_(1)
    m = torch.randn(Mn)
    Lw = 0.5 * torch.eye(Mn) + 0.1 * torch.randn(Mn, Mn).tril()  # whitened covariance factor (S_w < I)
    with torch.no_grad():
        Kzz = model.covar_module(Z).to_dense() + strat.jitter_val * torch.eye(Mn)
        Lk = torch.linalg.cholesky(Kzz)
        mz = model.mean_module(Z)
    if strat_cls is VariationalStrategy:
        strat._variational_distribution.variational_mean.data.copy_(m)
        strat._variational_distribution.chol_variational_covar.data.copy_(Lw)
        mu_u, S_u = mz + Lk @ m, Lk @ Lw @ Lw.T @ Lk.T
    else:
        # the same kind of q(u), parameterised directly: mean m (includes the prior mean), covariance Lk Sw Lk^T
        S_u = Lk @ Lw @ Lw.T @ Lk.T
        strat._variational_distribution.variational_mean.data.copy_(m)
        strat._variational_distribution.chol_variational_covar.data.copy_(torch.linalg.cholesky(S_u))
        mu_u = m
    model.eval()
    with torch.no_grad(), gpytorch.settings.fast_pred_var(True):  # fast_pred_var: see bug3.py, irrelevant for the mean
        q_lib = model(X)
        fant = model.get_fantasy_model(Xf, yf)
        fant.eval()
        out = fant(X)
        # reference: condition the closed-form q(f) at [Xf, X] on y* = f(Xf) + eps
        mean, cov = q_f(model, Z, torch.cat([Xf, X], 0), mu_u, S_u, strat.jitter_val)
        nf = Xf.size(0)
        G = cov[nf:, :nf] @ torch.linalg.inv(cov[:nf, :nf] + NOISE * torch.eye(nf))
        ref_mean = mean[nf:] + G @ (yf - mean[:nf])
        ref_cov = cov[nf:, nf:] - G @ cov[:nf, nf:]
    e_q = (q_lib.mean - mean[nf:]).abs().max().item()
    e_mean = (out.mean - ref_mean).abs().max().item()
    e_cov = (out.covariance_matrix - ref_cov).abs().max().item()
    print(f"{strat_cls.__name__:32s} prior mean {prior_mean:4.1f}: |q(f) mean - closed form| = {e_q:.1e}   "
          f"fantasy: max|mean - ref| = {e_mean:.3e}  max|cov - ref| = {e_cov:.1e}")
    if strat_cls is UnwhitenedVariationalStrategy and prior_mean != 0:
        print("      library fantasy mean:", out.mean.numpy().round(4))
        print("      reference           :", ref_mean.numpy().round(4))
    return e_mean


if __name__ == "__main__":
    ok1 = run(VariationalStrategy, 0.0)
    ok2 = run(VariationalStrategy, 1.5)
    ok3 = run(UnwhitenedVariationalStrategy, 0.0)
    bad = run(UnwhitenedVariationalStrategy, 1.5)
    print()
    print(f"controls (should be ~1e-3 or less: jitter): {ok1:.2e} {ok2:.2e} {ok3:.2e};  unwhitened + prior mean 1.5: {bad:.2e}")
    violated = bad > 1e-2 and max(ok1, ok2, ok3) < 1e-2
    print("VIOLATION PRESENT" if violated else "no violation")
    sys.exit(1 if violated else 0)
