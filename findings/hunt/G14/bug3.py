#!/usr/bin/env python3
r"""
C14 violation 3: CiqVariationalStrategy + NaturalVariationalDistribution returns a DIAGONAL covariance in
evaluation mode: all cross-covariances of q(f) between different inputs are reported as exactly 0.

The property asks for the full covariance  K_xx - K_xz K_zz^-1 (K_zz - S) K_zz^-1 K_zx  in evaluation mode for every
strategy / variational distribution pair, CIQ (at tight tolerance) and the natural distribution included.
With any other variational distribution (here: Cholesky holding exactly the same q(u)) the CIQ strategy returns the
full matrix; with the natural distribution `CiqVariationalStrategy.forward` takes the `_ngd()` branch, which only ever
builds `DiagLinearOperator(predictive_var)` - in training AND in evaluation mode.
"""
import sys
import warnings

import torch

import gpytorch
from gpytorch.variational import CholeskyVariationalDistribution, CiqVariationalStrategy, NaturalVariationalDistribution

warnings.filterwarnings("ignore")
torch.set_default_dtype(torch.float64)


class Model(gpytorch.models.ApproximateGP):
    def __init__(self, dist_cls, Z):
        strat = CiqVariationalStrategy(self, Z, dist_cls(Z.size(-2)), learn_inducing_locations=True)
        super().__init__(strat)
        self.mean_module = gpytorch.means.ConstantMean()
        self.mean_module.constant.data.fill_(1.3)
        self.covar_module = gpytorch.kernels.ScaleKernel(gpytorch.kernels.RBFKernel())

    def forward(self, x):
        return gpytorch.distributions.MultivariateNormal(self.mean_module(x), self.covar_module(x))


def run(dist_cls, Z, X, m, S):
    model = Model(dist_cls, Z)
    strat = model.variational_strategy
    strat.variational_params_initialized.fill_(1)
    vd = strat._variational_distribution
    if dist_cls is NaturalVariationalDistribution:
        P = torch.linalg.inv(S)
        vd.natural_vec.data.copy_(P @ m)
        vd.natural_mat.data.copy_(-0.5 * P)
    else:
        vd.variational_mean.data.copy_(m)
        vd.chol_variational_covar.data.copy_(torch.linalg.cholesky(S))
    model.eval()
    with torch.no_grad(), gpytorch.settings.num_contour_quadrature(40), gpytorch.settings.minres_tolerance(
        1e-10
    ), gpytorch.settings.cg_tolerance(1e-10), gpytorch.settings.eval_cg_tolerance(1e-10), gpytorch.settings.max_cg_iterations(
        2000
    ):
        out = model(X)
        mean, cov = out.mean, out.covariance_matrix
        # closed form; CIQ whitens with the symmetric root: u = mz + Kzz^{1/2} e, e ~ N(m, S)
        Mn = Z.size(0)
        Kzz = model.covar_module(Z).to_dense() + strat.jitter_val * torch.eye(Mn)
        ev, U = torch.linalg.eigh(Kzz)
        A = model.covar_module(X, Z).to_dense() @ (U @ torch.diag(ev**-0.5) @ U.T)
        ref_mean = model.mean_module(X) + A @ m
        ref_cov = model.covar_module(X).to_dense() + A @ (S - torch.eye(Mn)) @ A.T
    return mean, cov, ref_mean, ref_cov


if __name__ == "__main__":
    torch.manual_seed(0)
    Z, X = torch.randn(5, 2), torch.randn(4, 2)
    m = torch.randn(5)
    L = torch.randn(5, 5).tril() * 0.3 + torch.eye(5)
    S = L @ L.T
    res = {}
    for dist_cls in (CholeskyVariationalDistribution, NaturalVariationalDistribution):
        mean, cov, ref_mean, ref_cov = run(dist_cls, Z, X, m, S)
        e_mean = (mean - ref_mean).abs().max().item()
        e_diag = (cov.diagonal() - ref_cov.diagonal()).abs().max().item()
        off = ~torch.eye(4, dtype=torch.bool)
        e_off = (cov - ref_cov)[off].abs().max().item()
        res[dist_cls] = e_off
        print(f"{dist_cls.__name__}: max|mean - ref| = {e_mean:.1e}  max|var - ref| = {e_diag:.1e}  "
              f"max|off-diagonal cov - ref| = {e_off:.3e}")
        if dist_cls is NaturalVariationalDistribution:
            print("  library covariance (eval mode):\n", cov.numpy().round(4))
            print("  closed-form covariance:\n", ref_cov.numpy().round(4))
    violated = res[NaturalVariationalDistribution] > 1e-2 and res[CholeskyVariationalDistribution] < 1e-4
    print("VIOLATION PRESENT" if violated else "no violation")
    sys.exit(1 if violated else 0)
