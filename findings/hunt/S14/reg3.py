# Concerns commit b42b8fb ("variational fantasy models keep their mean cache under every NaN policy").
# The hand-made mean cache (computed from the targets "as they are", i.e. with the formula of the 'ignore' policy) is now
# also stored under the keys 'mask' and 'fill'.  With observation_nan_policy('mask') and a NaN among the fantasy targets
# the cache is NaN everywhere; exact_predictive_mean then regards every training point (inducing points included) as
# unobserved and the fantasy model silently predicts the bare prior mean.  Before the commit the lookup under 'mask'
# missed, the cache was recomputed with the masking formula and the prediction was finite and close to the one of a
# fantasy model built from the observed targets only.
import sys
import warnings

import torch

import gpytorch
from gpytorch.variational import CholeskyVariationalDistribution, VariationalStrategy

warnings.simplefilter("ignore")


class SV(gpytorch.models.ApproximateGP):
    def __init__(self, Z):
        vd = CholeskyVariationalDistribution(Z.size(-2))
        super().__init__(VariationalStrategy(self, Z, vd, learn_inducing_locations=True))
        self.mean_module = gpytorch.means.ConstantMean()
        self.covar_module = gpytorch.kernels.ScaleKernel(gpytorch.kernels.RBFKernel())
        self.likelihood = gpytorch.likelihoods.GaussianLikelihood()

    def forward(self, x):
        return gpytorch.distributions.MultivariateNormal(self.mean_module(x), self.covar_module(x))


torch.manual_seed(0)
Z = torch.linspace(0, 1, 6, dtype=torch.double).unsqueeze(-1)
m = SV(Z).double()
x = torch.rand(30, 1, dtype=torch.double)
y = torch.sin(6 * x[:, 0]) + 0.05 * torch.randn(30, dtype=torch.double)
mll = gpytorch.mlls.VariationalELBO(m.likelihood, m, 30)
opt = torch.optim.Adam(m.parameters(), lr=0.05)
m.train()
for i in range(100):
    opt.zero_grad()
    loss = -mll(m(x), y)
    loss.backward()
    opt.step()
m.eval()

xt = torch.linspace(0.05, 0.95, 5, dtype=torch.double).unsqueeze(-1)
xf = torch.tensor([[0.3], [0.6], [0.8]], dtype=torch.double)
yf = torch.sin(6 * xf[:, 0])
yf_nan = yf.clone()
yf_nan[1] = float("nan")

with torch.no_grad():
    prior_mean = m.mean_module(xt)
    ref = m.get_fantasy_model(xf[[0, 2]], yf[[0, 2]])(xt).mean  # NaN row dropped by hand
    m.variational_strategy._clear_cache()
    with gpytorch.settings.observation_nan_policy("mask"):
        got = m.get_fantasy_model(xf, yf_nan)(xt).mean

print("prior mean                        :", prior_mean)
print("fantasy model, NaN dropped by hand:", ref)
print("fantasy model, 'mask' policy      :", got)
err = float((got - ref).abs().max())
print("max |mask - reference| = %.4f" % err)
if torch.isnan(got).any() or torch.allclose(got, prior_mean, atol=1e-10) or err > 0.3:
    print("PROBLEM: under 'mask' a NaN fantasy target makes the variational fantasy model forget all its data")
    sys.exit(1)
print("ok")
sys.exit(0)
