# Concerns commit b38fdef ("UnwhitenedVariationalStrategy.pseudo_points counts the prior mean twice").
# pseudo_points now reads the memoised property self.prior_distribution.  pseudo_points is evaluated by
# amortized_exact_gp inside torch.no_grad(), so in eval mode (where the memo is not cleared by __call__) the prior
# p(u) gets cached WITHOUT an autograd graph.  Every later kl_divergence() / ELBO evaluated in eval mode then has no
# gradient w.r.t. the inducing points, the kernel hyper-parameters and the mean constant through the prior.
# Before the commit get_fantasy_model did not touch prior_distribution and the KL gradient was complete.
import sys
import warnings

import torch

import gpytorch
from gpytorch.variational import CholeskyVariationalDistribution, UnwhitenedVariationalStrategy

warnings.simplefilter("ignore")


class SV(gpytorch.models.ApproximateGP):
    def __init__(self, Z):
        vd = CholeskyVariationalDistribution(Z.size(-2))
        super().__init__(UnwhitenedVariationalStrategy(self, Z, vd, learn_inducing_locations=True))
        self.mean_module = gpytorch.means.ConstantMean()
        self.mean_module.constant.data.fill_(3.0)
        self.covar_module = gpytorch.kernels.ScaleKernel(gpytorch.kernels.RBFKernel())
        self.likelihood = gpytorch.likelihoods.GaussianLikelihood()

    def forward(self, x):
        return gpytorch.distributions.MultivariateNormal(self.mean_module(x), self.covar_module(x))


torch.manual_seed(0)
Z = torch.linspace(0, 1, 6, dtype=torch.double).unsqueeze(-1)
m = SV(Z).double()
x = torch.rand(20, 1, dtype=torch.double)
y = 3 + torch.sin(6 * x[:, 0])
mll = gpytorch.mlls.VariationalELBO(m.likelihood, m, 20)
opt = torch.optim.Adam(m.parameters(), lr=0.05)
m.train()
for i in range(30):
    opt.zero_grad()
    loss = -mll(m(x), y)
    loss.backward()
    opt.step()
m.eval()


def kl_grads():
    m.zero_grad()
    kl = m.variational_strategy.kl_divergence()
    kl.backward()
    out = {}
    for name, p in (
        ("inducing_points", m.variational_strategy.inducing_points),
        ("raw_lengthscale", m.covar_module.base_kernel.raw_lengthscale),
        ("raw_constant", m.mean_module.raw_constant),
    ):
        out[name] = None if p.grad is None else p.grad.clone().flatten()
    return float(kl.detach()), out


kl0, g0 = kl_grads()  # reference: eval mode, before any fantasy model
m.variational_strategy._clear_cache()
xf = torch.rand(2, 1, dtype=torch.double)
yf = torch.tensor([3.0, 3.5], dtype=torch.double)
m.get_fantasy_model(xf, yf)
kl1, g1 = kl_grads()  # same quantity, after get_fantasy_model

print("KL before / after get_fantasy_model:", kl0, kl1)
bad = False
for k in g0:
    print(k, "\n   grad before:", g0[k], "\n   grad after: ", g1[k])
    if g0[k] is not None and g0[k].abs().max() > 1e-8:
        if g1[k] is None or not torch.allclose(g0[k], g1[k], atol=1e-8):
            bad = True
if bad:
    print("PROBLEM: after get_fantasy_model the KL term has lost its gradient through the prior p(u)")
    sys.exit(1)
print("ok")
sys.exit(0)
