# Concerns commit b42b8fb ("variational fantasy models keep their mean cache under every NaN policy").
# Incomplete repair: a SECOND-level fantasy model (fantasy of the variational fantasy model) gets its carried mean cache
# from DefaultPredictionStrategy.get_fantasy_strategy, which stores it under the key 'ignore' only.  Under
# observation_nan_policy('mask') the lookup misses and the cache is recomputed from the likelihood, i.e. with the
# pseudo-observation covariance of the inducing points replaced by homoskedastic noise - the very defect the commit
# repairs for the first level.  No NaN is involved: 'mask' and 'ignore' must give the same posterior mean.
import sys
import warnings

import torch

import gpytorch
from gpytorch.variational import CholeskyVariationalDistribution, VariationalStrategy

warnings.simplefilter("ignore")


class SV(gpytorch.models.ApproximateGP):
    def __init__(self, Z):
        vd = CholeskyVariationalDistribution(Z.size(-2))
        super().__init__(VariationalStrategy(self, Z, vd, learn_inducing_locations=True))
        self.mean_module = gpytorch.means.ConstantMean()
        self.covar_module = gpytorch.kernels.ScaleKernel(gpytorch.kernels.RBFKernel())
        self.likelihood = gpytorch.likelihoods.GaussianLikelihood()

    def forward(self, x):
        return gpytorch.distributions.MultivariateNormal(self.mean_module(x), self.covar_module(x))


torch.manual_seed(0)
Z = torch.linspace(0, 1, 6, dtype=torch.double).unsqueeze(-1)
m = SV(Z).double()
x = torch.rand(30, 1, dtype=torch.double)
y = torch.sin(6 * x[:, 0]) + 0.05 * torch.randn(30, dtype=torch.double)
mll = gpytorch.mlls.VariationalELBO(m.likelihood, m, 30)
opt = torch.optim.Adam(m.parameters(), lr=0.05)
m.train()
for i in range(100):
    opt.zero_grad()
    loss = -mll(m(x), y)
    loss.backward()
    opt.step()
m.eval()

xt = torch.linspace(0.05, 0.95, 5, dtype=torch.double).unsqueeze(-1)
xf = torch.tensor([[0.3], [0.6], [0.8]], dtype=torch.double)
yf = torch.sin(6 * xf[:, 0])
xf2 = torch.tensor([[0.15], [0.45]], dtype=torch.double)
yf2 = torch.sin(6 * xf2[:, 0])


def go(policy, levels):
    m.variational_strategy._clear_cache()
    with gpytorch.settings.observation_nan_policy(policy), torch.no_grad():
        f = m.get_fantasy_model(xf, yf)
        if levels == 2:
            f = f.get_fantasy_model(xf2, yf2)
        return f(xt).mean


bad = False
for levels in (1, 2):
    a, b = go("ignore", levels), go("mask", levels)
    d = float((a - b).abs().max())
    print("level", levels, "\n   ignore:", a, "\n   mask  :", b, "\n   max difference: %.3e" % d)
    if d > 1e-6:
        bad = True
if bad:
    print("PROBLEM: without any NaN, 'mask' and 'ignore' give different posterior means for a fantasy of a variational fantasy model")
    sys.exit(1)
print("ok")
sys.exit(0)
