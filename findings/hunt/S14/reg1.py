# Concerns commit 4f5076d ("the fantasy strategy's carried mean cache clears itself after a backward pass").
# The new hook wipes the whole cache of the fantasy strategy after ANY backward pass through the carried mean cache
# (also with retain_graph=True).  The cache is then rebuilt by DefaultPredictionStrategy._mean_cache, which DETACHES it
# under the default settings.detach_test_caches(True), whereas the carried cache of get_fantasy_strategy is attached to
# the fantasy inputs / targets.  So the gradient of the same prediction w.r.t. the fantasy targets and inputs is
# different (d/d targets disappears completely) from the second evaluation on, silently.
# Before the commit: with retain_graph=True every pass gave the same (full) gradient; without it the second pass raised.
import sys
import warnings

import torch

import gpytorch

warnings.simplefilter("ignore")


class M(gpytorch.models.ExactGP):
    def __init__(self, x, y, lik):
        super().__init__(x, y, lik)
        self.mean_module = gpytorch.means.ConstantMean()
        self.covar_module = gpytorch.kernels.ScaleKernel(gpytorch.kernels.RBFKernel())

    def forward(self, x):
        return gpytorch.distributions.MultivariateNormal(self.mean_module(x), self.covar_module(x))


def run(retain):
    torch.manual_seed(0)
    x = torch.rand(8, 1, dtype=torch.double)
    y = torch.sin(6 * x[:, 0])
    m = M(x, y, gpytorch.likelihoods.GaussianLikelihood()).double().eval()
    xt = torch.rand(4, 1, dtype=torch.double)
    m(xt)
    xf = torch.rand(3, 1, dtype=torch.double, requires_grad=True)
    yf = torch.randn(3, dtype=torch.double, requires_grad=True)
    fant = m.get_fantasy_model(xf, yf)
    grads = []
    for i in range(2):
        xf.grad = None
        yf.grad = None
        try:
            val = fant(xt).mean.sum()
            val.backward(retain_graph=retain)
        except RuntimeError as e:
            grads.append("RuntimeError: " + str(e)[:60])
            continue
        gy = torch.zeros(3, dtype=torch.double) if yf.grad is None else yf.grad.clone()
        grads.append((gy, xf.grad.flatten().clone()))
    return grads


bad = False
for retain in (True, False):
    g = run(retain)
    print("retain_graph =", retain)
    for i, gi in enumerate(g):
        print("   pass", i + 1, ":", gi if isinstance(gi, str) else "d/dy_f = %s   d/dx_f = %s" % (gi[0].tolist(), gi[1].tolist()))
    if isinstance(g[1], str):
        print("   second pass raised (behaviour before the commit when retain_graph=False)")
        continue
    same = torch.allclose(g[0][0], g[1][0], atol=1e-8) and torch.allclose(g[0][1], g[1][1], atol=1e-8)
    print("   gradients of pass 1 and pass 2 agree:", same)
    bad = bad or not same
if bad:
    print("PROBLEM: the gradient of the fantasy model's prediction changes silently after the first backward pass")
    sys.exit(1)
print("ok")
sys.exit(0)
