"""UnwhitenedVariationalStrategy + DeltaVariationalDistribution: evaluating q(f) AT the inducing points raises a bare
RuntimeError (the x == Z shortcut of forward), although any other x works and the closed form is simply mean = m, cov = ~0."""
import sys, torch, gpytorch
from gpytorch.variational import UnwhitenedVariationalStrategy, DeltaVariationalDistribution
torch.manual_seed(0); torch.set_default_dtype(torch.float64)
M, D = 6, 2

class GP(gpytorch.models.ApproximateGP):
    def __init__(self, Z):
        dist = DeltaVariationalDistribution(M)
        super().__init__(UnwhitenedVariationalStrategy(self, Z, dist, learn_inducing_locations=True))
        self.dist = dist
        self.mean_module = gpytorch.means.ConstantMean()
        self.covar_module = gpytorch.kernels.ScaleKernel(gpytorch.kernels.RBFKernel())
    def forward(self, x):
        return gpytorch.distributions.MultivariateNormal(self.mean_module(x), self.covar_module(x))

Z = torch.randn(M, D)
m = GP(Z).eval()
with torch.no_grad():
    m(torch.randn(3, D))
    m.dist.variational_mean.data = torch.randn(M)
    m.mean_module.constant.data.fill_(0.4)
m.train(); m.eval()
mq = m.dist.variational_mean.detach()

def closed_form(x):
    Kzz = m.covar_module(Z).to_dense() + 1e-6 * torch.eye(M)
    Kzx = m.covar_module(Z, x).to_dense(); Kxx = m.covar_module(x).to_dense()
    sol = torch.linalg.solve(Kzz, Kzx)
    return 0.4 + sol.T @ (mq - 0.4), Kxx - Kzx.T @ sol   # S = 0

bad = False
with torch.no_grad():
    xp = Z + 1e-9  # practically the inducing points: works
    o = m(xp); rm, rc = closed_form(xp)
    print(f"x = Z + 1e-9: mean err {(o.mean - rm).abs().max():.2e}, cov err {(o.covariance_matrix - rc).abs().max():.2e}")
    rm, rc = closed_form(Z)
    for mode in ("eval", "train"):
        m.train(mode == "train")
        try:
            o = m(Z.clone())
            err = max((o.mean - rm).abs().max().item(), (o.variance - rc.diagonal()).abs().max().item())
            print(f"[{mode}] x = Z: max err {err:.2e}"); bad |= err > 1e-4
        except Exception as e:
            print(f"[{mode}] x = Z: raised {type(e).__name__}({e!s}); closed form mean = m = {rm.numpy().round(3)}, variances ~ {rc.diagonal().abs().max():.1e}")
            bad = True
print("VIOLATION" if bad else "ok")
sys.exit(1 if bad else 0)
