"""BatchDecoupledVariationalStrategy(mean_var_batch_dim=-2) with batched inducing points [3, M, D]: an un-batched x [N, D]
(which every other strategy - and the same strategy with mean_var_batch_dim=None - broadcasts against the batch) raises IndexError."""
import sys, torch, gpytorch
from gpytorch.variational import BatchDecoupledVariationalStrategy, CholeskyVariationalDistribution
torch.manual_seed(0); torch.set_default_dtype(torch.float64)
B, M, D, N = 3, 6, 2, 5

class GP(gpytorch.models.ApproximateGP):
    def __init__(self, Z, mvbd):
        dist = CholeskyVariationalDistribution(M, batch_shape=torch.Size([B]))
        super().__init__(BatchDecoupledVariationalStrategy(self, Z, dist, learn_inducing_locations=True, mean_var_batch_dim=mvbd))
        self.dist = dist
        self.mean_module = gpytorch.means.ConstantMean()
        self.covar_module = gpytorch.kernels.ScaleKernel(gpytorch.kernels.RBFKernel())
    def forward(self, x):
        return gpytorch.distributions.MultivariateNormal(self.mean_module(x), self.covar_module(x))

Z = torch.randn(B, M, D)
vm = torch.randn(B, M); vc = torch.tril(torch.randn(B, M, M)) * 0.3 + torch.eye(M)
def make(mvbd):
    m = GP(Z, mvbd).eval()
    with torch.no_grad():
        m(torch.randn(B, 2, D))
        m.dist.variational_mean.data = vm.clone(); m.dist.chol_variational_covar.data = vc.clone()
    m.train(); m.eval()
    return m

x = torch.randn(N, D)
bad = False
with torch.no_grad():
    ref = make(None)(x)            # default layout: un-batched x is broadcast against the inducing batch
    print("mean_var_batch_dim=None, x [N, D]   -> mean shape", tuple(ref.mean.shape))
    m = make(-2)
    o = m(x.expand(B, N, D))
    print("mean_var_batch_dim=-2,   x [B, N, D] -> mean shape", tuple(o.mean.shape),
          " |diff to default layout| mean %.1e cov %.1e" % ((o.mean - ref.mean).abs().max(), (o.covariance_matrix - ref.covariance_matrix).abs().max()))
    try:
        o2 = m(x)
        err = max((o2.mean - ref.mean).abs().max().item(), (o2.covariance_matrix - ref.covariance_matrix).abs().max().item())
        print("mean_var_batch_dim=-2,   x [N, D]    -> mean shape", tuple(o2.mean.shape), "err", err); bad = err > 1e-6
    except Exception as e:
        print("mean_var_batch_dim=-2,   x [N, D]    -> raised", type(e).__name__, e); bad = True
print("VIOLATION" if bad else "ok")
sys.exit(1 if bad else 0)
