"""BatchDecoupledVariationalStrategy: a batch of exactly 2 input sets is mistaken for the internal (mean, variance) axis.
x of shape [2, N, D] -> output of shape [N] (mean from x[0], covariance from x[1]) instead of [2, N]."""
import sys, torch, gpytorch
from gpytorch.variational import BatchDecoupledVariationalStrategy, CholeskyVariationalDistribution
torch.manual_seed(0); torch.set_default_dtype(torch.float64)
M, D, N = 6, 2, 5

class GP(gpytorch.models.ApproximateGP):
    def __init__(self, Z):
        dist = CholeskyVariationalDistribution(M)
        super().__init__(BatchDecoupledVariationalStrategy(self, Z, dist, learn_inducing_locations=True))
        self.dist = dist
        self.mean_module = gpytorch.means.ConstantMean()
        self.covar_module = gpytorch.kernels.ScaleKernel(gpytorch.kernels.RBFKernel())
    def forward(self, x):
        return gpytorch.distributions.MultivariateNormal(self.mean_module(x), self.covar_module(x))

Z = torch.randn(M, D)
m = GP(Z).eval()
with torch.no_grad():
    m(torch.randn(3, D))  # initialise the variational parameters
    m.dist.variational_mean.data = torch.randn(M)
    m.dist.chol_variational_covar.data = torch.tril(torch.randn(M, M)) * 0.3 + torch.eye(M)
    m.mean_module.constant.data.fill_(0.7)
m.train(); m.eval()

def closed_form(x):
    # whitened closed form with the single kernel / inducing set (both copies of Z and of the hyper-parameters coincide)
    Kzz = m.covar_module(Z).to_dense() + 1e-6 * torch.eye(M)  # jitter of the strategy in double precision
    Kzx = m.covar_module(Z, x).to_dense(); Kxx = m.covar_module(x).to_dense()
    L = torch.linalg.cholesky(Kzz); A = torch.linalg.solve_triangular(L, Kzx, upper=False)
    Lq = m.dist.chol_variational_covar.tril(); S = Lq @ Lq.T
    return 0.7 + A.T @ m.dist.variational_mean, Kxx + A.T @ (S - torch.eye(M)) @ A

bad = False
with torch.no_grad():
    x = torch.randn(2, N, D) * 0.7
    ref = [closed_form(x[i]) for i in range(2)]
    ref_mean = torch.stack([r[0] for r in ref]); ref_cov = torch.stack([r[1] for r in ref])
    # sanity: single input sets agree with the closed form
    for i in range(2):
        o = m(x[i])
        print(f"x[{i}] alone: mean err {(o.mean - ref_mean[i]).abs().max():.2e}  cov err {(o.covariance_matrix - ref_cov[i]).abs().max():.2e}")
    # a 3-batch works
    x3 = torch.randn(3, N, D)
    print("batch of 3 input sets -> mean shape", tuple(m(x3).mean.shape))
    try:
        o = m(x)
        print("batch of 2 input sets -> mean shape", tuple(o.mean.shape), " expected", (2, N))
        if tuple(o.mean.shape) != (2, N):
            bad = True
            print("  returned mean == closed-form mean of x[0]:", torch.allclose(o.mean, ref_mean[0], atol=1e-5),
                  "; returned covariance == closed-form covariance of x[1]:", torch.allclose(o.covariance_matrix, ref_cov[1], atol=1e-5))
            print("  |returned cov - cov of x[0]| max =", (o.covariance_matrix - ref_cov[0]).abs().max().item())
        else:
            err = max((o.mean - ref_mean).abs().max().item(), (o.covariance_matrix - ref_cov).abs().max().item())
            print("max err", err); bad = err > 1e-4
    except Exception as e:
        print("exception:", type(e).__name__, e); bad = True
print("VIOLATION" if bad else "ok")
sys.exit(1 if bad else 0)
