# Concerns commit 63a4377 (push on enter, pop on exit); the per-dtype part already appears with 1007395
# (AttributeError '_orig_float_value' there, IndexError now).
# __exit__ is no longer idempotent / callable without a matching __enter__: a second __exit__ of the same object
# (e.g. an explicit ctx.__exit__() in a finally clause followed by the same call in a tearDown), or an __exit__ of an
# object that was never entered (used as a 'restore the value of construction time' token), raises
# IndexError('pop from empty list').  Before the commits both were harmless: they wrote the saved value once more.
import sys

import torch

from gpytorch import settings

bad = False


def check(label, fn):
    global bad
    try:
        print(f"{label}: -> {fn()!r}  ok")
    except Exception as e:
        print(f"{label}: raised {type(e).__name__}: {e}")
        bad = True


def second_exit(cls, *args, **kw):
    def run():
        c = cls(*args, **kw)
        c.__enter__()
        try:
            pass
        finally:
            c.__exit__(None, None, None)
        c.__exit__(None, None, None)  # e.g. tearDown
        return "value restored"

    return run


def exit_only(cls, *args, **kw):
    def run():
        c = cls(*args, **kw)
        c.__exit__(None, None, None)
        return "value restored"

    return run


check("debug: enter, exit, exit", second_exit(settings.debug, False))
check("num_likelihood_samples: enter, exit, exit", second_exit(settings.num_likelihood_samples, 3))
check("fast_pred_var: enter, exit, exit", second_exit(settings.fast_pred_var, True, 3))
check("min_variance: enter, exit, exit", second_exit(settings.min_variance, float_value=1e-3))
check("debug: exit without enter", exit_only(settings.debug, False))
check("eval_cg_tolerance: exit without enter", exit_only(settings.eval_cg_tolerance, 1e-3))
check("min_fixed_noise: exit without enter", exit_only(settings.min_fixed_noise, float_value=1e-3))
print("state afterwards:", settings.debug._state, settings.num_likelihood_samples.value(),
      settings.fast_pred_var.num_probe_vectors(), settings.min_variance.value(torch.float))

print("PROBLEM PRESENT" if bad else "ok")
sys.exit(1 if bad else 0)
