# Concerns commit 63a4377 (push on enter, pop on exit).
# __enter__ now needs the attribute `_saved` (`_saved_num_probe_vectors` for fast_pred_var) that only the new __init__
# creates.  Objects that did not go through it can no longer be entered (AttributeError):
#   (a) settings objects pickled by the code before the commit (bytes below: pickle.dumps(obj, protocol=2) run on the
#       parent commit) - they unpickle fine, and `with obj:` worked with the parent commit;
#   (b) subclasses with their own __init__ that sets the documented state (`state` / `prev`, `_instance_value` /
#       `_orig_value`) without calling super().__init__().
import pickle
import sys

from gpytorch import settings
from gpytorch.settings import _feature_flag, _value_context

bad = False

OLD_PICKLES = {
    "debug(False)": (
        b"\x80\x02cgpytorch.settings\ndebug\nq\x00)\x81q\x01}q\x02(X\x04\x00\x00\x00prevq\x03NX\x05\x00\x00\x00stateq\x04\x89ub.",
        lambda: settings.debug.on(),
        False,
    ),
    "num_likelihood_samples(3)": (
        b"\x80\x02cgpytorch.settings\nnum_likelihood_samples\nq\x00)\x81q\x01}q\x02(X\x0b\x00\x00\x00_orig_valueq\x03K\n"
        b"X\x0f\x00\x00\x00_instance_valueq\x04K\x03ub.",
        lambda: settings.num_likelihood_samples.value(),
        3,
    ),
    "fast_pred_var(True, 4)": (
        b"\x80\x02cgpytorch.settings\nfast_pred_var\nq\x00)\x81q\x01}q\x02(X\n\x00\x00\x00orig_valueq\x03K\x01X\x05\x00\x00\x00valueq\x04K\x04"
        b"X\x04\x00\x00\x00prevq\x05NX\x05\x00\x00\x00stateq\x06\x88ub.",
        lambda: settings.fast_pred_var.num_probe_vectors(),
        4,
    ),
    "min_fixed_noise(float_value=1e-2)": (
        b"\x80\x02cgpytorch.settings\nmin_fixed_noise\nq\x00)\x81q\x01}q\x02(X\x15\x00\x00\x00_instance_float_valueq\x03G?\x84z\xe1G\xae\x14{"
        b"X\x16\x00\x00\x00_instance_double_valueq\x04NX\x14\x00\x00\x00_instance_half_valueq\x05Nub.",
        lambda: settings.min_fixed_noise.value(__import__("torch").float),
        1e-2,
    ),
}
for label, (data, read, expected) in OLD_PICKLES.items():
    obj = pickle.loads(data)
    try:
        with obj:
            got = read()
        ok = got == expected
        print(f"(a) unpickled {label}: inside block {got!r}, expected {expected!r}  {'ok' if ok else 'WRONG'}")
        bad |= not ok
    except Exception as e:
        print(f"(a) unpickled {label}: `with obj:` raised {type(e).__name__}: {e}")
        bad = True


class my_flag(_feature_flag):
    def __init__(self, state=True):
        self.prev = self.__class__._state
        self.state = state


class my_value(_value_context):
    _global_value = 0

    def __init__(self, value):
        self._orig_value = self.__class__.value()
        self._instance_value = int(value)


for label, ctx, read, expected in [
    ("my_flag(True)", my_flag(True), my_flag.on, True),
    ("my_value(5)", my_value(5), my_value.value, 5),
]:
    try:
        with ctx:
            got = read()
        ok = got == expected
        print(f"(b) subclass with its own __init__, {label}: inside block {got!r}, expected {expected!r}  {'ok' if ok else 'WRONG'}")
        bad |= not ok
    except Exception as e:
        print(f"(b) subclass with its own __init__, {label}: `with obj:` raised {type(e).__name__}: {e}")
        bad = True

print("PROBLEM PRESENT" if bad else "ok")
sys.exit(1 if bad else 0)
