# Concerns commits 1007395 / 63a4377 - INCOMPLETE REPAIR, informational: the classes live in the installed
# `linear_operator` package (site-packages), gpytorch.settings only re-exports them, so the gpytorch source alone cannot
# repair them.  The settings gpytorch.settings re-exports from linear_operator.settings (max_cg_iterations, cg_tolerance,
# cholesky_jitter, fast_computations, num_trace_samples, ...) still capture the value to restore at construction:
# an object created before an enclosing block of the same setting restores the default inside that block.
# Same behaviour before and after the commits (not a regression).
import sys

import torch

from gpytorch import settings

bad = False

inner = settings.max_cg_iterations(7)
with settings.max_cg_iterations(5):
    with inner:
        pass
    got = settings.max_cg_iterations.value()
print(f"gpytorch.settings.max_cg_iterations after inner exits inside S(5): {got!r}, expected 5")
bad |= got != 5

inner = settings.cholesky_jitter(float_value=1.0)
with settings.cholesky_jitter(float_value=0.5):
    with inner:
        pass
    got = settings.cholesky_jitter.value(torch.float)
print(f"gpytorch.settings.cholesky_jitter(float) after inner exits inside S(0.5): {got!r}, expected 0.5")
bad |= got != 0.5

inner = settings.fast_computations(solves=False)
with settings.fast_computations(log_prob=False):
    with inner:
        pass
    got = settings.fast_computations.log_prob.on()
print(f"gpytorch.settings.fast_computations.log_prob after inner exits inside S(log_prob=False): {got!r}, expected False")
bad |= got is not False

print("PROBLEM PRESENT" if bad else "ok")
sys.exit(1 if bad else 0)
