# Concerns commit 63a4377 (push on enter, pop on exit): it takes back the repair of 1007395 for everything that reads
# the saved value through the attributes `prev` / `_orig_value` / `orig_value`.
# 1007395 refreshed these attributes in __enter__; 63a4377 moved the saved value to a private stack and left the
# attributes behind as construction-time snapshots that are never updated.  A subclass that overrides __exit__
# (e.g. to log, or to restore through its own hook) and restores `self._orig_value` / `self.prev`, and any code that
# inspects `ctx.prev` inside the block, is back at the defect 1007395 describes:
# inside 'with S(5): with inner:' the value after inner exits is the default, not 5.
import sys

from gpytorch.settings import _feature_flag, _value_context, fast_pred_var

bad = False


class logged_value(_value_context):
    _global_value = 0

    def __exit__(self, *args):
        self.__class__._set_value(self._orig_value)  # what the base class did before 63a4377
        return False


class logged_flag(_feature_flag):
    def __exit__(self, *args):
        self.__class__._set_state(self.prev)  # what the base class did before 63a4377
        return False


inner = logged_value(7)
with logged_value(5):
    with inner:
        pass
    got = logged_value.value()
print(f"_value_context subclass restoring self._orig_value: after inner exits inside S(5): {got!r}, expected 5")
bad |= got != 5
logged_value._set_value(0)

inner = logged_flag(False)
with logged_flag(True):
    with inner:
        pass
    got = logged_flag._state
print(f"_feature_flag subclass restoring self.prev: after inner exits inside F(True): {got!r}, expected True")
bad |= got is not True
logged_flag._set_state(None)

inner = fast_pred_var(True, 3)
with fast_pred_var(True, 8):
    with inner:
        seen = (inner.prev, inner.orig_value)
print(f"fast_pred_var: (inner.prev, inner.orig_value) inside the block: {seen!r}, expected (True, 8)")
bad |= seen != (True, 8)

print("PROBLEM PRESENT" if bad else "ok")
sys.exit(1 if bad else 0)
