# Concerns commit 1007395 (settings capture the value to restore when the block is entered), unchanged by 63a4377.
# History: two settings objects created up front (e.g. stored on two long-lived helpers that call __enter__ in start()
# and __exit__ in stop()), entered a, b and exited a, b (first-in first-out instead of nested).
# Before the commit both objects restored the value of construction time, so after both exits the setting was back at
# its default.  Now b restores what it saw on entry - a's block value - after a has already exited, so a's value stays
# in effect for the rest of the process (num_likelihood_samples = 1 instead of 10, debug stuck at False, ...).
import sys

import torch

from gpytorch import settings

bad = False


def report(name, got, expected):
    global bad
    ok = got == expected
    print(f"{name}: after enter a, enter b, exit a, exit b -> {got!r}; expected {expected!r}  {'ok' if ok else 'LEAKED'}")
    bad |= not ok


S = settings.num_likelihood_samples
default = S.value()
a, b = S(1), S(2)
a.__enter__(); b.__enter__(); a.__exit__(None, None, None); b.__exit__(None, None, None)
report("num_likelihood_samples", S.value(), default)
S._set_value(default)

F = settings.debug
default = (F._state, F.on())
a, b = F(False), F(False)
a.__enter__(); b.__enter__(); a.__exit__(None, None, None); b.__exit__(None, None, None)
report("debug (_state, on())", (F._state, F.on()), default)
F._set_state(None)

P = settings.fast_pred_var
default = (P._state, P.num_probe_vectors())
a, b = P(True, 7), P(True, 9)
a.__enter__(); b.__enter__(); a.__exit__(None, None, None); b.__exit__(None, None, None)
report("fast_pred_var (_state, num_probe_vectors)", (P._state, P.num_probe_vectors()), default)
P._set_state(None); P._set_num_probe_vectors(1)

D = settings.min_fixed_noise
default = D.value(torch.float)
a, b = D(float_value=1e-2), D(float_value=1e-3)
a.__enter__(); b.__enter__(); a.__exit__(None, None, None); b.__exit__(None, None, None)
report("min_fixed_noise float", D.value(torch.float), default)
D._global_float_value = default

print("PROBLEM PRESENT" if bad else "ok")
sys.exit(1 if bad else 0)
