# Concerns commit ba24fe4 (FixedGaussianNoise applies min_fixed_noise to a noise given at call time).
# A call-time `noise` whose dtype has no min_fixed_noise entry (integer-valued tensor, bfloat16) was accepted before the
# commit (DiagLinearOperator(noise), promoted when added to the covariance); now `_lower_bounded` calls
# settings.min_fixed_noise.value(noise.dtype), which raises RuntimeError("Unsupported dtype for min_fixed_noise.").
# Shown for likelihood(dist, noise=...) and for ExactGP.get_fantasy_model(..., noise=...).
import sys
import warnings

import torch

import gpytorch
from gpytorch.distributions import MultivariateNormal
from gpytorch.likelihoods import FixedNoiseGaussianLikelihood

warnings.simplefilter("ignore")
torch.manual_seed(0)
bad = False

lik = FixedNoiseGaussianLikelihood(torch.full((3,), 0.1))
dist = MultivariateNormal(torch.zeros(4), torch.eye(4))
for label, noise, expected in [
    ("int64 noise [1,2,3,4]", torch.tensor([1, 2, 3, 4]), torch.tensor([2.0, 3.0, 4.0, 5.0])),
    ("bfloat16 noise ones", torch.ones(4, dtype=torch.bfloat16), torch.full((4,), 2.0)),
]:
    try:
        var = lik(dist, noise=noise).variance
        ok = torch.allclose(var.float(), expected)
        print(f"likelihood(dist, noise={label}): variance={var.tolist()} expected={expected.tolist()} ok={ok}")
        bad |= not ok
    except Exception as e:
        print(f"likelihood(dist, noise={label}): raised {type(e).__name__}: {e}   (expected variance {expected.tolist()})")
        bad = True


class GP(gpytorch.models.ExactGP):
    def __init__(self, x, y, lik):
        super().__init__(x, y, lik)
        self.mean_module = gpytorch.means.ZeroMean()
        self.covar_module = gpytorch.kernels.RBFKernel()

    def forward(self, x):
        return MultivariateNormal(self.mean_module(x), self.covar_module(x))


x = torch.linspace(0, 1, 5).unsqueeze(-1)
y = torch.sin(x.squeeze(-1))
model = GP(x, y, FixedNoiseGaussianLikelihood(torch.full((5,), 0.1))).eval()
xt = torch.tensor([[0.3], [0.8]])
with torch.no_grad():
    model(xt)
    try:
        fm = model.get_fantasy_model(torch.tensor([[0.5], [0.6]]), torch.tensor([0.1, 0.2]), noise=torch.tensor([1, 2]))
        m_int = fm(xt).mean
        fm2 = model.get_fantasy_model(torch.tensor([[0.5], [0.6]]), torch.tensor([0.1, 0.2]), noise=torch.tensor([1.0, 2.0]))
        m_flt = fm2(xt).mean
        ok = torch.allclose(m_int, m_flt, atol=1e-5)
        print(f"get_fantasy_model(noise=int64 [1,2]): mean={m_int.tolist()} float-noise mean={m_flt.tolist()} ok={ok}")
        bad |= not ok
    except Exception as e:
        print(f"get_fantasy_model(noise=int64 [1,2]): raised {type(e).__name__}: {e}")
        bad = True

print("PROBLEM PRESENT" if bad else "ok")
sys.exit(1 if bad else 0)
