#!/usr/bin/env python3
"""
C05 / bug 2: the derivative kernels raise for a kernel with batch_shape evaluated on un-batched inputs.

RBFKernelGrad / Matern52KernelGrad / RBFKernelGradGrad / PolynomialKernelGrad with batch_shape=[b] (one
lengthscale / offset per batch member) applied to an ordinary n x d input - exactly the example of their own docstrings

    >>> x = torch.randn(10, 5)
    >>> covar_module = gpytorch.kernels.ScaleKernel(gpytorch.kernels.RBFKernelGrad(batch_shape=torch.Size([2])))
    >>> covar = covar_module(x)  # Output: LinearOperator of size (2 x 60 x 60)

- raise a RuntimeError from a .view / .expand, while their base kernels (RBFKernel, MaternKernel, PolynomialKernel)
return the b x n x n batch.  Reference: the same kernel class without batch_shape, evaluated once per batch member.
"""
import sys
import warnings

import torch

warnings.filterwarnings("ignore")
import gpytorch  # noqa: E402
from gpytorch.kernels import (  # noqa: E402
    Matern52KernelGrad,
    MaternKernel,
    PolynomialKernel,
    PolynomialKernelGrad,
    RBFKernel,
    RBFKernelGrad,
    RBFKernelGradGrad,
    ScaleKernel,
)

torch.set_default_dtype(torch.float64)
torch.manual_seed(0)

b, n1, n2, d = 2, 4, 3, 2
x1 = torch.randn(n1, d)
x2 = torch.randn(n2, d)
ls = torch.tensor([0.7, 1.9]).view(b, 1, 1)
off = torch.tensor([0.4, 1.3]).view(b, 1)
bad = False


def build(cls, batch, idx=None):
    kw = dict(batch_shape=torch.Size([b])) if batch else {}
    if cls in (PolynomialKernel, PolynomialKernelGrad):
        k = cls(power=3, **kw)
        k.offset = off if batch else off[idx]
    else:
        k = cls(**kw)
        k.lengthscale = ls if batch else ls[idx]
    return k


# the docstring example itself
for cls in (RBFKernelGrad, Matern52KernelGrad, RBFKernelGradGrad):
    x = torch.randn(10, 5)
    covar_module = ScaleKernel(cls(batch_shape=torch.Size([2])))
    try:
        shape = tuple(covar_module(x).to_dense().shape)
        print(f"docstring example {cls.__name__}: dense shape {shape}")
    except Exception as e:
        bad = True
        print(f"docstring example {cls.__name__}: RAISES {type(e).__name__}: {str(e)[:110]}")

for base, cls in [(RBFKernel, RBFKernelGrad), (MaternKernel, Matern52KernelGrad), (RBFKernel, RBFKernelGradGrad),
                  (PolynomialKernel, PolynomialKernelGrad)]:
    with torch.no_grad():
        base_shape = tuple(build(base, True)(x1, x2).to_dense().shape)
        ref = torch.stack([build(cls, False, i)(x1, x2).to_dense() for i in range(b)])
        ref_diag = torch.stack([build(cls, False, i)(x1, x1).to_dense().diagonal() for i in range(b)])
        for what, f, r in [("full", lambda k: k(x1, x2).to_dense(), ref), ("diag", lambda k: k(x1, diag=True), ref_diag)]:
            try:
                got = f(build(cls, True))
                err = (got - r).abs().max().item() if got.shape == r.shape else float("inf")
                print(f"{cls.__name__}(batch_shape=[{b}]) on {n1}x{d} / {n2}x{d} inputs, {what}: shape {tuple(got.shape)}, "
                      f"max |K - per-member reference| = {err:.2e}")
                bad = bad or err > 1e-9
            except Exception as e:
                bad = True
                print(f"{cls.__name__}(batch_shape=[{b}]) on {n1}x{d} / {n2}x{d} inputs, {what}: RAISES {type(e).__name__}: "
                      f"{str(e)[:90]}   (base kernel {base.__name__} gives {base_shape}; reference {tuple(r.shape)})")

sys.exit(1 if bad else 0)
