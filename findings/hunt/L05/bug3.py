#!/usr/bin/env python3
"""
C05 / bug 3: sums and products of derivative kernels that use active_dims cannot be evaluated.

k = RBFKernelGrad(active_dims=(0, 2)) is a valid derivative kernel on a 4-column input: it models the value and the
two partial derivatives along columns 0 and 2, i.e. 3 outputs per input row ( k(x1, x2) is 3*n1 x 3*n2; this works,
and so does ScaleKernel(k) ).  But  k + k2  (AdditiveKernel) and  k * k2  (ProductKernel) of two such kernels raise

    RuntimeError: The expected shape of the kernel was torch.Size([20, 15]), but got torch.Size([12, 9]).
                  This is likely a bug in GPyTorch.

because AdditiveKernel/ProductKernel.num_outputs_per_input hand the *un-selected* inputs (4 columns) to
kernels[0].num_outputs_per_input, which returns x1.size(-1) + 1 = 5 instead of len(active_dims) + 1 = 3.
Reference: the sum / elementwise product of the dense matrices of the parts.
"""
import sys
import warnings

import torch

warnings.filterwarnings("ignore")
import gpytorch  # noqa: E402
from gpytorch.kernels import (  # noqa: E402
    Matern52KernelGrad,
    PolynomialKernelGrad,
    RBFKernelGrad,
    RBFKernelGradGrad,
    ScaleKernel,
)

torch.set_default_dtype(torch.float64)
torch.manual_seed(0)

n1, n2, D = 4, 3, 4
ad = (0, 2)
x1 = torch.randn(n1, D)
x2 = torch.randn(n2, D)
bad = False


def pair(cls_a, cls_b):
    ka = cls_a(active_dims=ad, **({"power": 2} if cls_a is PolynomialKernelGrad else {}))
    kb = cls_b(active_dims=ad, **({"power": 2} if cls_b is PolynomialKernelGrad else {}))
    for k, v in ((ka, 0.8), (kb, 1.7)):
        if k.has_lengthscale:
            k.lengthscale = v
    return ka, kb


for cls_a, cls_b in [(RBFKernelGrad, Matern52KernelGrad), (RBFKernelGrad, RBFKernelGrad),
                     (PolynomialKernelGrad, RBFKernelGrad), (RBFKernelGradGrad, RBFKernelGradGrad)]:
    ka, kb = pair(cls_a, cls_b)
    with torch.no_grad():
        Ka, Kb = ka(x1, x2).to_dense(), kb(x1, x2).to_dense()  # the parts evaluate fine
        Sa = ScaleKernel(ka)(x1, x2).to_dense()  # ... and so does a scaling
        assert Sa.shape == Ka.shape
        for opname, kern, ref in [("sum", ka + kb, Ka + Kb), ("product", ka * kb, Ka * Kb)]:
            for what, f, r in [
                ("k(x1, x2)", lambda k: k(x1, x2).to_dense(), ref),
                ("k(x1)", None, None),
            ]:
                if f is None:
                    Kaa, Kbb = ka(x1).to_dense(), kb(x1).to_dense()
                    r = Kaa + Kbb if opname == "sum" else Kaa * Kbb
                    f = lambda k: k(x1).to_dense()  # noqa: E731
                try:
                    got = f(kern)
                    err = (got - r).abs().max().item() if got.shape == r.shape else float("inf")
                    print(f"{opname} of {cls_a.__name__}/{cls_b.__name__}(active_dims={ad}), {what}: shape "
                          f"{tuple(got.shape)}, max |K - {opname} of parts| = {err:.2e}")
                    bad = bad or err > 1e-8
                except Exception as e:
                    bad = True
                    print(f"{opname} of {cls_a.__name__}/{cls_b.__name__}(active_dims={ad}), {what}: RAISES "
                          f"{type(e).__name__}: {str(e)[:150]}  (parts are {tuple(r.shape)})")

# without active_dims (same columns selected by hand) the very same sum evaluates
ka, kb = RBFKernelGrad(), Matern52KernelGrad()
ka.lengthscale, kb.lengthscale = 0.8, 1.7
with torch.no_grad():
    ok = (ka + kb)(x1[:, list(ad)], x2[:, list(ad)]).to_dense()
print("same sum on hand-selected columns, no active_dims: shape", tuple(ok.shape))

sys.exit(1 if bad else 0)
