#!/usr/bin/env python3
"""
C05 / bug 1: Kernel.__call__(x, diag=True) returns the wrong values (and shape) when the kernel's batch size
happens to equal the number of rows of an un-batched input.

A kernel with batch_shape=[b] applied to an un-batched n x d input represents b covariance matrices (b x n x n);
its diagonal is b x n.  That is what the library returns for every n != b.  For n == b, Kernel.__call__ mistakes the
(b x n) diagonal for an (n x n) covariance matrix "of a kernel that ignored diag=True" and takes the diagonal of it:
the result is a length-n vector  [k_0(x_0,x_0), k_1(x_1,x_1), ...]  - for x1 != x2 the numbers are simply wrong.
"""
import sys
import warnings

import torch

warnings.filterwarnings("ignore")
import gpytorch  # noqa: E402
from gpytorch.kernels import MaternKernel, RBFKernel, RQKernel, ScaleKernel  # noqa: E402

torch.set_default_dtype(torch.float64)
torch.manual_seed(0)

bad = False
b = 3
ls = torch.tensor([0.5, 1.0, 2.0]).view(b, 1, 1)


def reference(x1, x2):
    # documented RBF covariance, one lengthscale per batch member; diag = k_i(x1[j], x2[j])  ->  b x n
    diff = (x1 - x2).unsqueeze(0) / ls  # b x n x d
    return torch.exp(-0.5 * diff.pow(2).sum(-1))


for n in [2, 3, 4]:
    x1 = torch.randn(n, 2)
    x2 = torch.randn(n, 2)
    k = RBFKernel(batch_shape=torch.Size([b]))
    k.lengthscale = ls
    with torch.no_grad():
        got = k(x1, x2, diag=True)
        dense_diag = k(x1, x2).to_dense().diagonal(dim1=-1, dim2=-2)
    ref = reference(x1, x2)
    ok = got.shape == ref.shape and torch.allclose(got, ref, atol=1e-12)
    print(f"RBFKernel(batch_shape=[{b}]), x1,x2: {n} x 2, diag=True -> shape {tuple(got.shape)}; "
          f"documented formula {tuple(ref.shape)}; diagonal of the dense matrix {tuple(dense_diag.shape)}; "
          + ("OK" if ok else "MISMATCH"))
    if not ok:
        bad = True
        print("   returned       :", got.tolist())
        print("   reference (b x n):", ref.tolist())
        if got.shape != ref.shape:
            print("   -> the returned vector is the diagonal of the (b x n) result, max |ret - diag(ref)| =",
                  (got - ref.diagonal()).abs().max().item())

# the same through other kernels / wrappers, x1 == x2 (a 3-member batch kernel evaluated at 3 points)
x = torch.randn(b, 2)
for name, k in [
    ("MaternKernel(nu=1.5)", MaternKernel(nu=1.5, batch_shape=torch.Size([b]))),
    ("RQKernel", RQKernel(batch_shape=torch.Size([b]))),
    ("ScaleKernel(RBFKernel)", ScaleKernel(RBFKernel(batch_shape=torch.Size([b])), batch_shape=torch.Size([b]))),
]:
    if isinstance(k, ScaleKernel):
        k.outputscale = torch.tensor([1.0, 2.0, 3.0])
    with torch.no_grad():
        got = k(x, diag=True)
        want = k(x).to_dense().diagonal(dim1=-1, dim2=-2)
    ok = got.shape == want.shape and torch.allclose(got, want)
    print(f"{name}: diag=True shape {tuple(got.shape)} vs diagonal of dense {tuple(want.shape)}: "
          + ("OK" if ok else "MISMATCH"))
    bad = bad or not ok

sys.exit(1 if bad else 0)
