#!/usr/bin/env python3
"""
C08 violation 3: ExactMarginalLogLikelihood mis-aligns the log-prior terms of the hyper-parameters when the data
batch has a higher rank than the parameter batch (parameters broadcast against the data).

Element b of the batched MLL must equal the MLL of a non-batched ExactGP that carries the b-th parameter slice and
sees the b-th data slice:   ( log N(y_b | m, K + s2 I) + sum_of_log_priors(theta_b) ) / n.

Case A: NON-batched hyper-parameters (ARD RBF kernel, d = 2, Gamma prior on the lengthscale), data batch shape (3, 2).
        The library treats the two ARD dimensions of the lengthscale as if they were the last BATCH dimension:
        MLL[i, j] receives log p(lengthscale_j) instead of log p(lengthscale_0) + log p(lengthscale_1).
Case B: parameter batch shape (2,) (Gamma prior on the noise), data batch shape (2, 2).
        MLL[i, j] receives the log-prior of noise[i] instead of noise[j]  -> cross-talk between batch elements.

Reference: independent non-batched ExactGP + ExactMarginalLogLikelihood replicas, and (for case A) a from-scratch
dense evaluation with torch.distributions.
Exit code 1 if the violation is present.
"""
import math
import sys
import warnings

import torch

import gpytorch
from gpytorch.priors import GammaPrior

warnings.filterwarnings("ignore")
torch.set_default_dtype(torch.float64)
torch.manual_seed(0)

N, D = 5, 2


class GP(gpytorch.models.ExactGP):
    def __init__(self, x, y, lik, bs, ls_prior):
        super().__init__(x, y, lik)
        self.mean_module = gpytorch.means.ZeroMean()
        self.covar_module = gpytorch.kernels.RBFKernel(
            ard_num_dims=D, batch_shape=bs, lengthscale_prior=GammaPrior(2.0, 3.0) if ls_prior else None
        )

    def forward(self, x):
        return gpytorch.distributions.MultivariateNormal(self.mean_module(x), self.covar_module(x))


def build(x, y, bs, ls, noise, ls_prior, noise_prior):
    lik = gpytorch.likelihoods.GaussianLikelihood(
        batch_shape=bs, noise_prior=GammaPrior(1.1, 2.0) if noise_prior else None
    )
    model = GP(x, y, lik, bs, ls_prior)
    model.covar_module.lengthscale = ls
    lik.noise = noise
    model.train()
    lik.train()
    return model, gpytorch.mlls.ExactMarginalLogLikelihood(lik, model)


def mll_of(model, mll):
    with torch.no_grad():
        return mll(model(*model.train_inputs), model.train_targets)


violated = False

# ------------------------------------------------------------------ case A: non-batched parameters, data batch (3, 2)
ls = torch.tensor([[0.6, 1.7]])
noise = torch.tensor([0.3])
x = torch.randn(3, 2, N, D)
y = torch.randn(3, 2, N)
model, mll = build(x, y, torch.Size([]), ls, noise, ls_prior=True, noise_prior=False)
got = mll_of(model, mll)
print("case A: batched MLL shape", tuple(got.shape))
worst = 0.0
for i in range(3):
    for j in range(2):
        m_r, mll_r = build(x[i, j], y[i, j], torch.Size([]), ls, noise, ls_prior=True, noise_prior=False)
        ref = mll_of(m_r, mll_r).item()
        # from-scratch value
        d2 = ((x[i, j][:, None, :] - x[i, j][None, :, :]) / ls).pow(2).sum(-1)
        cov = torch.exp(-0.5 * d2) + noise * torch.eye(N)
        scratch = (
            torch.distributions.MultivariateNormal(torch.zeros(N), cov).log_prob(y[i, j])
            + torch.distributions.Gamma(2.0, 3.0).log_prob(ls).sum()
        ).item() / N
        assert abs(ref - scratch) < 1e-9, (ref, scratch)
        e = abs(got[i, j].item() - ref)
        worst = max(worst, e)
        print(f"   element [{i},{j}]: batched {got[i, j].item(): .6f}   replica {ref: .6f}   from scratch {scratch: .6f}"
              f"   |diff| {e:.3e}")
lp = torch.distributions.Gamma(2.0, 3.0).log_prob(ls).squeeze(0)
print(f"   log-prior of the two ARD lengthscales: {lp.tolist()} ; expected contribution sum/N = {lp.sum().item() / N:.6f},"
      f" library adds lp[j]/N = {(lp / N).tolist()} to column j")
print(f"case A: max |batched - replica| = {worst:.3e}")
violated |= worst > 1e-8

# ------------------------------------------------------------------ case B: parameter batch (2,), data batch (2, 2)
bs = torch.Size([2])
ls_b = torch.tensor([[[0.6, 1.7]], [[1.1, 0.4]]])  # (2, 1, 2)
noise_b = torch.tensor([[0.05], [1.5]])  # (2, 1)
x = torch.randn(2, 2, N, D)
y = torch.randn(2, 2, N)
model, mll = build(x, y, bs, ls_b, noise_b, ls_prior=False, noise_prior=True)
got = mll_of(model, mll)
print("case B: batched MLL shape", tuple(got.shape))
worst_b = 0.0
for i in range(2):
    for j in range(2):
        m_r, mll_r = build(x[i, j], y[i, j], torch.Size([]), ls_b[j], noise_b[j], ls_prior=False, noise_prior=True)
        ref = mll_of(m_r, mll_r).item()
        m_w, mll_w = build(x[i, j], y[i, j], torch.Size([]), ls_b[j], noise_b[j], ls_prior=False, noise_prior=False)
        wrong = mll_of(m_w, mll_w).item() + torch.distributions.Gamma(1.1, 2.0).log_prob(noise_b[i]).item() / N
        e = abs(got[i, j].item() - ref)
        worst_b = max(worst_b, e)
        print(f"   element [{i},{j}]: batched {got[i, j].item(): .6f}   replica (params {j}) {ref: .6f}   |diff| {e:.3e}"
              f"   | likelihood of params {j} + noise prior of params {i}: {wrong: .6f}")
print(f"case B: max |batched - replica| = {worst_b:.3e}")
violated |= worst_b > 1e-8

if violated:
    print("VIOLATION: batched ExactMarginalLogLikelihood != independent replicas (log-prior terms mis-aligned)")
    sys.exit(1)
print("no violation")
sys.exit(0)
