#!/usr/bin/env python3
"""
C08 violation 2: kernel(x, diag=True) for a batched kernel on shared (non-batched) inputs loses the batch dimension
whenever the number of points equals the (last) batch size.

A kernel with batch_shape=[b] evaluated on a shared `n x d` input must return the `b x n` tensor whose row k is the
diagonal of the k-th independent replica's kernel matrix.  This is what happens for n != b.  For n == b the heuristic
in Kernel.__call__ ("did this kernel eat the diag option?") mistakes the correct `b x n` result for an un-diagonalised
`n x n` kernel matrix and takes ITS diagonal: the result has shape (n,) and element k is replica k's value at point k
only - all other (replica, point) combinations are dropped.

Reference: (a) independent non-batched replicas, (b) the diagonal of the batched full kernel matrix.
Second part: the same heuristic breaks composite kernels: the prior variance of a batch-of-3 ExactGP with an
AdditiveKernel works for 4 shared training points and raises for 3.
Exit code 1 if the violation is present.
"""
import sys
import warnings

import torch

import gpytorch

warnings.filterwarnings("ignore")
torch.set_default_dtype(torch.float64)
torch.manual_seed(0)

B, D = 3, 2
BS = torch.Size([B])


def make_kernels(bs):
    return {
        "RBFKernel": gpytorch.kernels.RBFKernel(batch_shape=bs),
        "MaternKernel(1.5)": gpytorch.kernels.MaternKernel(nu=1.5, batch_shape=bs),
        "LinearKernel": gpytorch.kernels.LinearKernel(batch_shape=bs),
        "ScaleKernel(RBF)": gpytorch.kernels.ScaleKernel(gpytorch.kernels.RBFKernel(batch_shape=bs), batch_shape=bs),
    }


def set_params(kern, seed):
    g = torch.Generator().manual_seed(seed)
    with torch.no_grad():
        for p in kern.parameters():
            p.copy_(torch.randn(p.shape, generator=g))


violated = False
for n in (4, 3):  # n = 4 is fine, n = 3 == batch size is not
    x = torch.randn(n, D)
    batched = make_kernels(BS)
    for name, kb in batched.items():
        set_params(kb, 1)
        kb.eval()
        with torch.no_grad():
            got = kb(x, diag=True)
            got = got if torch.is_tensor(got) else got.to_dense()
            # reference (b): diagonal of the batched full matrix
            ref_full = kb(x).to_dense().diagonal(dim1=-1, dim2=-2)  # (B, n)
            # reference (a): independent replicas
            rows = []
            for k in range(B):
                kr = make_kernels(torch.Size([]))[name]
                with torch.no_grad():
                    for (pn, p), (_, q) in zip(kr.named_parameters(), kb.named_parameters()):
                        p.copy_(q[k])
                kr.eval()
                rows.append(kr(x).to_dense().diagonal(dim1=-1, dim2=-2))
            ref_rep = torch.stack(rows)  # (B, n)
        assert (ref_full - ref_rep).abs().max() < 1e-12
        if got.shape == ref_rep.shape:
            err = (got - ref_rep).abs().max().item()
            print(f"n={n} {name:18s}: diag=True shape {tuple(got.shape)} == expected {tuple(ref_rep.shape)}, "
                  f"max err {err:.2e}")
            violated |= err > 1e-8
        else:
            # show what the returned numbers are
            same_as_diag_of_diag = (
                got.shape == (n,) and (got - ref_rep.diagonal()).abs().max().item() < 1e-12
            )
            print(f"n={n} {name:18s}: diag=True shape {tuple(got.shape)} != expected {tuple(ref_rep.shape)}"
                  f"  ({ref_rep.numel() - got.numel()} of {ref_rep.numel()} values missing; returned values are "
                  f"replica_k(x_k, x_k) only: {same_as_diag_of_diag})")
            violated = True


# ---- downstream: prior of a batched exact GP with a composite kernel -------------------------------------------
class GP(gpytorch.models.ExactGP):
    def __init__(self, x, y, lik):
        super().__init__(x, y, lik)
        self.mean_module = gpytorch.means.ZeroMean()
        self.covar_module = gpytorch.kernels.RBFKernel(batch_shape=BS) + gpytorch.kernels.LinearKernel(batch_shape=BS)

    def forward(self, x):
        return gpytorch.distributions.MultivariateNormal(self.mean_module(x), self.covar_module(x))


for n in (4, 3):
    x, y = torch.randn(n, D), torch.randn(B, n)
    model = GP(x, y, gpytorch.likelihoods.GaussianLikelihood(batch_shape=BS))
    model.train()
    try:
        var = model(x).variance
        ref = model(x).covariance_matrix.diagonal(dim1=-1, dim2=-2)
        print(f"batch-{B} ExactGP prior variance, n={n}: shape {tuple(var.shape)}, "
              f"max err vs dense diagonal {(var - ref).abs().max().item():.2e}")
    except Exception as e:  # noqa
        print(f"batch-{B} ExactGP prior variance, n={n}: {type(e).__name__}: {str(e).splitlines()[0]}")
        violated = True

if violated:
    print("VIOLATION: kernel(x, diag=True) of a batched kernel on n == batch-size shared points is not the stack of "
          "the replicas' diagonals")
    sys.exit(1)
print("no violation")
sys.exit(0)
