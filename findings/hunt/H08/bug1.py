#!/usr/bin/env python3
"""
C08 violation 1: RQKernel with a batch of parameters that is broadcast against a data batch of higher rank.

RQKernel(batch_shape=[2]) applied to data with batch shape [2, 2].  By the usual (trailing-aligned) broadcasting
rule - which the lengthscale of the very same kernel obeys - element [i, j] of the output must be the kernel matrix
of a non-batched RQKernel carrying parameter slice j applied to x[i, j].  The `alpha` parameter is instead aligned
with the LEADING batch dimension (element [i, j] is computed with alpha[i] but lengthscale[j]).

Reference: (a) independent non-batched RQKernel replicas, (b) the closed-form dense formula.
Exit code 1 if the violation is present.
"""
import sys
import warnings

import torch

import gpytorch

warnings.filterwarnings("ignore")
torch.set_default_dtype(torch.float64)
torch.manual_seed(0)

B, N, D = 2, 4, 3
kern = gpytorch.kernels.RQKernel(batch_shape=torch.Size([B]))
alpha = torch.tensor([0.3, 5.0])
ls = torch.tensor([0.7, 1.9])
kern.alpha = alpha.view(B, 1)
kern.lengthscale = ls.view(B, 1, 1)
kern.eval()

x = torch.randn(2, B, N, D)  # data batch shape (2, 2); parameter batch shape (2,) broadcasts over the leading dim

with torch.no_grad():
    K_batch = kern(x).to_dense()  # (2, 2, N, N)
print("batched output shape:", tuple(K_batch.shape))

worst_replica, worst_formula, worst_swapped = 0.0, 0.0, 0.0
for i in range(2):
    for j in range(B):
        # (a) independent replica with the j-th parameter slice on the (i, j)-th data slice
        rep = gpytorch.kernels.RQKernel()
        rep.alpha = alpha[j]
        rep.lengthscale = ls[j]
        rep.eval()
        with torch.no_grad():
            K_rep = rep(x[i, j]).to_dense()
        # (b) dense formula  (1 + |x - x'|^2 / (2 alpha l^2)) ^ (-alpha)
        d2 = torch.cdist(x[i, j], x[i, j]).pow(2)
        K_formula = (1 + d2 / (2 * alpha[j] * ls[j] ** 2)).pow(-alpha[j])
        # what the library actually computes: alpha taken from the leading index i
        K_swapped = (1 + d2 / (2 * alpha[i] * ls[j] ** 2)).pow(-alpha[i])
        e_rep = (K_batch[i, j] - K_rep).abs().max().item()
        e_for = (K_batch[i, j] - K_formula).abs().max().item()
        e_swp = (K_batch[i, j] - K_swapped).abs().max().item()
        print(f"element [{i},{j}]: |batched - replica| = {e_rep:.3e}   |batched - formula| = {e_for:.3e}   "
              f"|batched - formula with alpha[{i}]| = {e_swp:.3e}")
        worst_replica = max(worst_replica, e_rep)
        worst_formula = max(worst_formula, e_for)
        worst_swapped = max(worst_swapped, e_swp)

# Same parameters, rank-2 data batch whose leading dim is not 2: a plain exception instead of a result
exc = None
try:
    with torch.no_grad():
        kern(torch.randn(3, B, N, D)).to_dense()
except Exception as e:  # noqa
    exc = f"{type(e).__name__}: {str(e).splitlines()[0]}"
print("data batch (3, 2) with parameter batch (2,):", "OK" if exc is None else exc)

print(f"max |batched - independent replica| = {worst_replica:.3e}")
print(f"max |batched - dense formula|       = {worst_formula:.3e}")
print(f"max |batched - formula using alpha of the leading index| = {worst_swapped:.3e}  (explains the values)")

if worst_replica > 1e-8 or worst_formula > 1e-8 or exc is not None:
    print("VIOLATION: batched RQKernel is not equal to independent replicas (alpha cross-talk between batch elements)")
    sys.exit(1)
print("no violation")
sys.exit(0)
