"""C16 bug 3: observation_nan_policy('fill') with more than max_cholesky_size (800) training points, default settings.
DefaultPredictionStrategy._mean_cache ('fill' branch) replaces the missing targets by the dummy value -999 and solves
the full n x n system.  Above max_cholesky_size the solve is conjugate gradients with a RELATIVE residual tolerance
(eval_cg_tolerance = 0.01 of the norm of the right-hand side).  The -999 entries inflate that norm by a factor of
several hundred, so CG stops while the observed components are far from converged: the posterior mean is off by ~1
(the signal has amplitude 1), whereas the policy 'mask' and the model with the NaN observations deleted - same data,
same CG settings - are within ~0.01 of the dense reference.  No NaN, no warning about accuracy.
"""
import math
import sys
import warnings

import torch

import gpytorch

warnings.filterwarnings("ignore")
torch.manual_seed(0)
dt = torch.float64


class GP(gpytorch.models.ExactGP):
    def __init__(self, x, y, lik):
        super().__init__(x, y, lik)
        self.mean_module = gpytorch.means.ConstantMean()
        self.covar_module = gpytorch.kernels.ScaleKernel(gpytorch.kernels.RBFKernel())

    def forward(self, x):
        return gpytorch.distributions.MultivariateNormal(self.mean_module(x), self.covar_module(x))


n = 1000
x = torch.rand(n, 2, dtype=dt)
y = torch.sin(6 * x[:, 0]) * torch.cos(4 * x[:, 1]) + 0.1 * torch.randn(n, dtype=dt)
xt = torch.rand(50, 2, dtype=dt)
y_nan = y.clone()
y_nan[torch.randperm(n)[:100]] = math.nan  # 10% missing
keep = ~torch.isnan(y_nan)


def make(xx, yy):
    lik = gpytorch.likelihoods.GaussianLikelihood().double()
    lik.noise = 0.01
    m = GP(xx, yy, lik).double()
    m.covar_module.base_kernel.lengthscale = 0.2
    m.eval()
    return m


with torch.no_grad(), gpytorch.settings.skip_posterior_variances():
    # dense reference: GP regression formula on the data with the NaN observations deleted
    m0 = make(x[keep], y_nan[keep])
    K = m0.covar_module(x[keep]).to_dense() + 0.01 * torch.eye(int(keep.sum()), dtype=dt)
    Ks = m0.covar_module(xt, x[keep]).to_dense()
    c = m0.mean_module.constant
    ref = c + Ks @ torch.linalg.solve(K, y_nan[keep] - c)

    err = {}
    err["deleted"] = (make(x[keep], y_nan[keep])(xt).mean - ref).abs().max().item()
    for pol in ("mask", "fill"):
        with gpytorch.settings.observation_nan_policy(pol):
            err[pol] = (make(x, y_nan)(xt).mean - ref).abs().max().item()

print("max |posterior mean - dense reference on the data-deleted problem| (n = 1000, 100 NaN targets, default settings)")
for k, v in err.items():
    print(f"   {k:8s}: {v:.4e}")
bad = err["fill"] > 10 * max(err["mask"], err["deleted"]) and err["fill"] > 0.1
print("VIOLATION" if bad else "ok")
sys.exit(1 if bad else 0)
