"""C16 bug 2: GammaRobustVariationalELBO ignores observation_nan_policy.
Its _log_likelihood_term re-implements the Gaussian data term from the raw targets (it does not go through
likelihood.expected_log_prob, which handles the policy), so a single NaN target makes the whole objective NaN under
'mask' and under 'fill' - silently, no error.  The reference is the same objective after deleting the NaN observations.
(Same pattern as the repaired LeaveOneOutPseudoLikelihood: an objective for Gaussian likelihoods that bypasses the
NaN handling of its siblings VariationalELBO / PredictiveLogLikelihood.)
"""
import math
import sys
import warnings

import torch

import gpytorch

warnings.filterwarnings("ignore")
torch.manual_seed(0)
dt = torch.float64


class SVGP(gpytorch.models.ApproximateGP):
    def __init__(self, Z):
        vd = gpytorch.variational.CholeskyVariationalDistribution(Z.size(0))
        vs = gpytorch.variational.VariationalStrategy(self, Z, vd, learn_inducing_locations=False)
        super().__init__(vs)
        self.mean_module = gpytorch.means.ConstantMean()
        self.covar_module = gpytorch.kernels.ScaleKernel(gpytorch.kernels.RBFKernel())

    def forward(self, x):
        return gpytorch.distributions.MultivariateNormal(self.mean_module(x), self.covar_module(x))


n = 10
x = torch.linspace(0, 1, n, dtype=dt).unsqueeze(-1)
y = torch.sin(6 * x.squeeze(-1)) + 0.1 * torch.randn(n, dtype=dt)
y_nan = y.clone()
y_nan[3] = math.nan  # one missing observation
keep = ~torch.isnan(y_nan)
n_obs = int(keep.sum())

model = SVGP(torch.linspace(0, 1, 4, dtype=dt).unsqueeze(-1)).double()
lik = gpytorch.likelihoods.GaussianLikelihood().double()
lik.noise = 0.1
model.train()
lik.train()

bad = False
with torch.no_grad():
    ref_ll = gpytorch.mlls.GammaRobustVariationalELBO(lik, model, num_data=n_obs)._log_likelihood_term(
        model(x[keep]), y_nan[keep]
    )
    ref = gpytorch.mlls.GammaRobustVariationalELBO(lik, model, num_data=n_obs)(model(x[keep]), y_nan[keep])
    print(f"after deleting the NaN observation: data-term sum {ref_ll.item():.6f}, objective {ref.item():.6f}")
    for pol in ("mask", "fill"):
        with gpytorch.settings.observation_nan_policy(pol):
            obj = gpytorch.mlls.GammaRobustVariationalELBO(lik, model, num_data=n_obs)
            ll = obj._log_likelihood_term(model(x), y_nan)
            val = obj(model(x), y_nan)
            # control: the sibling objective handles the same input
            elbo = gpytorch.mlls.VariationalELBO(lik, model, num_data=n_obs)(model(x), y_nan)
        print(
            f"policy {pol}: GammaRobustVariationalELBO = {val.item()}, data-term sum = {ll.item()} "
            f"(reference {ref_ll.item():.6f});  VariationalELBO on the same input = {elbo.item():.6f}"
        )
        if not math.isfinite(val.item()) or abs(ll.item() - ref_ll.item()) > 1e-8:
            bad = True

print("VIOLATION" if bad else "ok")
sys.exit(1 if bad else 0)
