"""C16 bug 1: VariationalELBO / PredictiveLogLikelihood under observation_nan_policy('mask' / 'fill')
divide the (correctly masked) log-likelihood sum by the number of rows of the mini-batch INCLUDING the rows whose
target is NaN (num_batch = approximate_dist_f.event_shape[0] in _ApproximateMarginalLogLikelihood.forward).
Deleting the NaN observations gives a different objective: the data term is (n_observed / n_total) x the one of the
data-deleted problem, the KL term is unchanged, so the ELBO is neither equal nor proportional to the deleted one.
(Same defect as the one repaired in ExactMarginalLogLikelihood, which now divides by the observed count.)
"""
import math
import sys
import warnings

import torch

import gpytorch

warnings.filterwarnings("ignore")
torch.manual_seed(0)
dt = torch.float64


class SVGP(gpytorch.models.ApproximateGP):
    def __init__(self, Z):
        vd = gpytorch.variational.CholeskyVariationalDistribution(Z.size(0))
        vs = gpytorch.variational.VariationalStrategy(self, Z, vd, learn_inducing_locations=False)
        super().__init__(vs)
        self.mean_module = gpytorch.means.ConstantMean()
        self.covar_module = gpytorch.kernels.ScaleKernel(gpytorch.kernels.RBFKernel())

    def forward(self, x):
        return gpytorch.distributions.MultivariateNormal(self.mean_module(x), self.covar_module(x))


n = 10
x = torch.linspace(0, 1, n, dtype=dt).unsqueeze(-1)
y = torch.sin(6 * x.squeeze(-1)) + 0.1 * torch.randn(n, dtype=dt)
y_nan = y.clone()
y_nan[[1, 4, 6, 7]] = math.nan
keep = ~torch.isnan(y_nan)
n_obs = int(keep.sum())

Z = torch.linspace(0, 1, 4, dtype=dt).unsqueeze(-1)
model = SVGP(Z).double()
model.variational_strategy.variational_params_initialized.fill_(1)  # keep the values set below
vd = model.variational_strategy._variational_distribution
vd.variational_mean.data = torch.tensor([0.8, -0.5, 0.3, 1.1], dtype=dt)
vd.chol_variational_covar.data = torch.tensor(
    [[0.6, 0, 0, 0], [0.1, 0.5, 0, 0], [0.0, -0.2, 0.7, 0], [0.1, 0.0, 0.1, 0.4]], dtype=dt
)
lik = gpytorch.likelihoods.GaussianLikelihood().double()
lik.noise = 0.1
model.train()
lik.train()

bad = False
with torch.no_grad():
    # the likelihood term itself is masked correctly
    ref_sum = lik.expected_log_prob(y_nan[keep], model(x[keep])).sum().item()
    for pol in ("mask", "fill"):
        with gpytorch.settings.observation_nan_policy(pol):
            s = lik.expected_log_prob(y_nan, model(x)).sum().item()
        print(f"sum of expected_log_prob, policy {pol}: {s:.10f}  after deletion: {ref_sum:.10f}")

    for cls in (gpytorch.mlls.VariationalELBO, gpytorch.mlls.PredictiveLogLikelihood):
        # reference: the NaN observations are deleted (n_obs points, num_data = n_obs)
        ref_ll, ref_kl, _ = cls(lik, model, num_data=n_obs, combine_terms=False)(model(x[keep]), y_nan[keep])
        ref = cls(lik, model, num_data=n_obs)(model(x[keep]), y_nan[keep])
        for pol in ("mask", "fill"):
            with gpytorch.settings.observation_nan_policy(pol):
                ll, kl, _ = cls(lik, model, num_data=n_obs, combine_terms=False)(model(x), y_nan)
                val = cls(lik, model, num_data=n_obs)(model(x), y_nan)
            print(
                f"{cls.__name__:24s} policy {pol}: objective {val.item():+.6f} (deleted {ref.item():+.6f}, "
                f"diff {abs(val.item() - ref.item()):.3e});  data term {ll.item():+.6f} vs {ref_ll.item():+.6f} "
                f"(ratio {ll.item() / ref_ll.item():.4f}, n_obs/n = {n_obs / n:.4f});  "
                f"KL term {kl.item():.6f} vs {ref_kl.item():.6f}"
            )
            if not math.isfinite(val.item()) or abs(val.item() - ref.item()) > 1e-6:
                bad = True

print("VIOLATION" if bad else "ok")
sys.exit(1 if bad else 0)
