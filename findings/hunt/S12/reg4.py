# Regression seed for commit 8d13c60 ("lazy MultivariateNormal broadcasts mean and covariance to the common batch shape").
#
# Many outputs sharing one GP (train targets b x n, un-batched inputs / mean / kernel / likelihood): the posterior of the
# exact GP is MultivariateNormal(mean[b, nt], lazy covar[nt, nt]) - ONE posterior covariance shared by the b outputs.
# Before the commit the distribution kept the shared nt x nt operator, so `.variance` evaluated one diagonal and expanded
# it as a view and `.covariance_matrix` was a single nt x nt matrix.  The commit says it does "as the dense branch does
# through torch", but torch keeps the un-broadcast factor and only expands VIEWS; the lazy branch now wraps every
# component of the operator in a b-fold expansion, and everything computed from it (diagonal of the Matmul correction,
# to_dense, root decompositions, Cholesky) is materialised b times: b-fold time and memory for predictions.
#
# Deterministic check: bytes of storage behind `posterior.covariance_matrix` and behind `posterior.variance` relative to
# one shared nt x nt matrix / one length-nt diagonal.  (Timing of .variance is printed for information only.)
# Exit 1 if the shared covariance is materialised once per output.
import sys
import time
import warnings

import torch

import gpytorch

warnings.filterwarnings("ignore")
torch.manual_seed(0)
b, n, nt = 200, 100, 600  # n + nt > max_eager_kernel_size, so the posterior covariance stays lazy


class GP(gpytorch.models.ExactGP):
    def __init__(self, x, y, lik):
        super().__init__(x, y, lik)
        self.mean_module = gpytorch.means.ZeroMean()
        self.covar_module = gpytorch.kernels.ScaleKernel(gpytorch.kernels.RBFKernel())

    def forward(self, x):
        return gpytorch.distributions.MultivariateNormal(self.mean_module(x), self.covar_module(x))


x = torch.rand(n, 2)
y = torch.sin(3 * x.sum(-1)).unsqueeze(0) * torch.randn(b, 1) + 0.05 * torch.randn(b, n)
xt = torch.rand(nt, 2)
lik = gpytorch.likelihoods.GaussianLikelihood()
model = GP(x, y, lik)
model.eval()

with torch.no_grad():
    model(xt[:3])  # build the caches
    post = model(xt)
    lazy = post.lazy_covariance_matrix
    print(f"posterior: batch_shape {tuple(post.batch_shape)}, mean {tuple(post.mean.shape)}, "
          f"lazy covariance {tuple(lazy.shape)} ({type(lazy).__name__})")
    t = time.perf_counter()
    var = post.variance
    t_var = time.perf_counter() - t
    dense = post.covariance_matrix

one_cov = nt * nt * dense.element_size()
one_diag = nt * var.element_size()
cov_bytes = dense.untyped_storage().nbytes()
var_bytes = var.untyped_storage().nbytes()
print(f".variance          : shape {tuple(var.shape)}, storage {var_bytes} bytes = {var_bytes / one_diag:.0f} x one diagonal, {t_var:.3f}s")
print(f".covariance_matrix : shape {tuple(dense.shape)}, storage {cov_bytes} bytes = {cov_bytes / one_cov:.0f} x one {nt} x {nt} matrix")
# all b outputs really share the covariance
same = bool((dense.expand(b, nt, nt)[0] == dense.expand(b, nt, nt)[-1]).all())
print(f"covariance identical across the {b} outputs: {same}")

bad = same and (cov_bytes > 2 * one_cov or var_bytes > 2 * one_diag)
print("PROBLEM PRESENT (shared covariance materialised once per output)" if bad else "ok")
sys.exit(1 if bad else 0)
