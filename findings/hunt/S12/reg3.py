# Regression seed for commit 8d13c60 ("lazy MultivariateNormal broadcasts mean and covariance to the common batch shape").
#
# An exact GP with an un-batched mean module and batched kernel hyperparameters (kernel batch_shape [2], ConstantMean()
# without batch shape, un-batched train inputs) - e.g. two candidate lengthscales evaluated side by side.  The prior the
# model's forward returns is MultivariateNormal(mean[N], lazy covar[2, N, N]).  Before the commit `.mean` of that
# distribution was the mean as given (N); DefaultPredictionStrategy.get_fantasy_strategy relies on it:
#     batch_shape = full_inputs[0].shape[:-2]          # () here
#     full_mean = full_mean.view(*batch_shape, -1)     # (N)
#     fant_mean = full_mean[..., num_train:]           # (m)
# Since the commit `.mean` is the expanded 2 x N tensor; the view silently flattens the batch dimension into the data
# dimension (2N entries, possible because a constant mean is stride-0; a non-constant mean raises in view instead),
# fant_mean gets 2N - n entries and get_fantasy_model raises in the likelihood call.  Before the commit
# get_fantasy_model worked for this model and agreed with the exact GP re-conditioned on all data to 1e-16.
#
# Exit 1 if get_fantasy_model raises or disagrees with the re-conditioned model.
import sys
import warnings

import torch

import gpytorch

warnings.filterwarnings("ignore")
torch.manual_seed(0)
dtype = torch.float64
n, m, nt = 10, 3, 4


class GP(gpytorch.models.ExactGP):
    def __init__(self, x, y, lik):
        super().__init__(x, y, lik)
        self.mean_module = gpytorch.means.ConstantMean()  # no batch shape
        self.covar_module = gpytorch.kernels.ScaleKernel(
            gpytorch.kernels.RBFKernel(batch_shape=torch.Size([2])), batch_shape=torch.Size([2])
        )

    def forward(self, x):
        return gpytorch.distributions.MultivariateNormal(self.mean_module(x), self.covar_module(x))


x = torch.rand(n, 2, dtype=dtype)
xf = torch.rand(m, 2, dtype=dtype)
xt = torch.rand(nt, 2, dtype=dtype)
y = torch.sin(3 * x.sum(-1))
yf = torch.sin(3 * xf.sum(-1))
lik = gpytorch.likelihoods.GaussianLikelihood().to(dtype)
model = GP(x, y, lik).to(dtype)
model.covar_module.base_kernel.lengthscale = torch.tensor([[[0.3]], [[0.6]]], dtype=dtype)
model.mean_module.constant = 0.2
model.eval()

with torch.no_grad():
    prior = model.forward(torch.cat([x, xf]))
    print(f"prior over [train; fantasy] inputs: mean {tuple(prior.mean.shape)}, covariance {tuple(prior.lazy_covariance_matrix.shape)}")
    model(xt)  # builds the prediction strategy

    ref = GP(torch.cat([x, xf]), torch.cat([y, yf]), lik).to(dtype)
    ref.load_state_dict(model.state_dict())
    ref.eval()
    ref_mean = ref(xt).mean
    print(f"exact GP conditioned on all data: mean shape {tuple(ref_mean.shape)}")

    try:
        fm = model.get_fantasy_model(xf, yf)
        fant_mean = fm(xt).mean
    except Exception as e:  # noqa
        print(f"get_fantasy_model RAISED {type(e).__name__}: {str(e)[:200]}")
        print("PROBLEM PRESENT (before 8d13c60 the fantasy model agreed with the re-conditioned GP)")
        sys.exit(1)

err = (fant_mean - ref_mean).abs().max().item()
print(f"fantasy model mean shape {tuple(fant_mean.shape)}, max |diff| to re-conditioned GP = {err:.3e}")
bad = fant_mean.shape != ref_mean.shape or err > 1e-8
print("PROBLEM PRESENT" if bad else "ok")
sys.exit(1 if bad else 0)
