# Regression seed for commit cdfe3db ("leave-one-out pseudo-likelihood with batched hyperparameters over shared targets").
#
# The commit drops `m = m.reshape(*target.shape)` from LeaveOneOutPseudoLikelihood.forward, claiming it is a no-op
# whenever the shapes agree.  It was not a no-op for a multitask model: the marginal of a MultitaskGaussianLikelihood is
# a MultitaskMultivariateNormal whose `.mean` is n x t while its covariance is (n t) x (n t) (interleaved).  The only way
# to evaluate the LOO pseudo-likelihood of such a model was to pass the targets flattened, `y.reshape(-1)` (the n x t
# form raises in the Cholesky solve before and after the commit); the dropped reshape brought the mean into that
# flattened (interleaved, i.e. covariance-consistent) layout.  After the commit `target - m` is (n t) minus (n x t) and
# raises.
#
# The program evaluates loo(model(x), Y.reshape(-1)) and compares it with a brute-force leave-one-out computation on the
# dense (n t) x (n t) marginal.  Exit 1 if the call raises or disagrees.
import math
import sys
import warnings

import torch

import gpytorch

warnings.filterwarnings("ignore")
torch.manual_seed(0)
dtype = torch.float64
n, t = 8, 2


class MT(gpytorch.models.ExactGP):
    def __init__(self, x, y, lik):
        super().__init__(x, y, lik)
        self.mean_module = gpytorch.means.MultitaskMean(gpytorch.means.ConstantMean(), num_tasks=t)
        self.covar_module = gpytorch.kernels.MultitaskKernel(gpytorch.kernels.RBFKernel(), num_tasks=t, rank=1)

    def forward(self, x):
        return gpytorch.distributions.MultitaskMultivariateNormal(self.mean_module(x), self.covar_module(x))


x = torch.rand(n, 2, dtype=dtype)
Y = torch.stack([torch.sin(3 * x.sum(-1)), torch.cos(3 * x.sum(-1))], -1)
lik = gpytorch.likelihoods.MultitaskGaussianLikelihood(num_tasks=t).to(dtype)
model = MT(x, Y, lik).to(dtype)
loo = gpytorch.mlls.LeaveOneOutPseudoLikelihood(lik, model)

with torch.no_grad():
    out = model(x)
    # brute force: log p(y_i | y_-i) for each of the n*t scalar observations of the dense marginal
    marg = lik(out)
    K = marg.covariance_matrix  # (n t) x (n t), interleaved
    mu = marg.mean.reshape(-1)  # interleaved as well
    yv = Y.reshape(-1)
    N = n * t
    total = 0.0
    for i in range(N):
        keep = torch.arange(N) != i
        Koo = K[keep][:, keep]
        kio = K[i, keep]
        sol = torch.linalg.solve(Koo, (yv[keep] - mu[keep]).unsqueeze(-1)).squeeze(-1)
        mi = mu[i] + kio @ sol
        vi = K[i, i] - kio @ torch.linalg.solve(Koo, kio.unsqueeze(-1)).squeeze(-1)
        total += -0.5 * torch.log(vi) - 0.5 * (yv[i] - mi) ** 2 / vi - 0.5 * math.log(2 * math.pi)
    expected = (total / N).item()

    print(f"multitask model, n = {n}, tasks = {t}; marginal mean shape {tuple(marg.mean.shape)}, covariance {tuple(K.shape)}")
    print(f"brute-force LOO pseudo-likelihood per observation: {expected:.10f}")
    try:
        got = loo(out, Y.reshape(-1))
    except Exception as e:  # noqa
        print(f"LeaveOneOutPseudoLikelihood(output, Y.reshape(-1)) RAISED {type(e).__name__}: {str(e)[:150]}")
        print("PROBLEM PRESENT (the code before cdfe3db returned the brute-force value)")
        sys.exit(1)

print(f"LeaveOneOutPseudoLikelihood(output, Y.reshape(-1))  : {got.item():.10f}")
bad = got.numel() != 1 or abs(got.item() - expected) > 1e-8
print("PROBLEM PRESENT" if bad else "ok")
sys.exit(1 if bad else 0)
