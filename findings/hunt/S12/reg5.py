# Regression seed for commit b70223e ("unsqueeze of a MultivariateNormal whose covariance has fewer batch dimensions than
# its mean").
#
# For a dense MultivariateNormal(mean[b, n], cov[n, n]) torch keeps ONE n x n Cholesky factor (_unbroadcasted_scale_tril)
# and derives variance / log_prob / precision_matrix / entropy from it, broadcasting results as views.  unsqueeze(0) - the
# one position that worked before the commit - used to hand the new distribution the factor as 1 x n x n.  The commit
# expands the factor to the full batch shape before every unsqueeze, so the new distribution's "un-broadcast" factor is
# a stride-0 1 x b x n x n view, and everything torch computes from it (scale_tril.pow(2) in .variance, the triangular
# solves of log_prob with fast_computations.log_prob off, precision_matrix) is materialised b times: b-fold memory and
# time where the old code needed one n x n worth.  (Only positions inside the batch dimensions the factor lacks need no
# expansion at all: there the factor can stay as it is.)
#
# Deterministic check: bytes allocated (torch profiler, CPU) while evaluating .variance and the torch log_prob of
# d.unsqueeze(0), relative to one n x n matrix + one b x n result.  Exit 1 if they scale with b * n * n.
import sys
import warnings

import torch

import gpytorch
from gpytorch.distributions import MultivariateNormal

warnings.filterwarnings("ignore")
torch.manual_seed(0)
b, n = 300, 100
A = torch.randn(n, n)
S = A @ A.T + n * torch.eye(n)
mean = torch.randn(b, n)

d = MultivariateNormal(mean, S)  # dense: b means sharing one covariance
u = d.unsqueeze(0)
ust = u._unbroadcasted_scale_tril
print(f"d: batch_shape {tuple(d.batch_shape)}, factor kept by torch {tuple(d._unbroadcasted_scale_tril.shape)}")
print(f"d.unsqueeze(0): batch_shape {tuple(u.batch_shape)}, factor {tuple(ust.shape)}, strides {ust.stride()}")


def allocated(fn):
    with torch.profiler.profile(activities=[torch.profiler.ProfilerActivity.CPU], profile_memory=True) as prof:
        res = fn()
    return res, sum(e.cpu_memory_usage for e in prof.events() if e.cpu_memory_usage > 0)


budget = 4 * (n * n + b * n) * 4  # a few times (one factor + one b x n result), float32
full = b * n * n * 4
try:
    var, var_bytes = allocated(lambda: u.variance)
    with gpytorch.settings.fast_computations(log_prob=False):
        lp, lp_bytes = allocated(lambda: u.log_prob(torch.zeros(1, b, n)))
except Exception as e:  # profiler unavailable: fall back on the shape of the factor
    print(f"(profiler failed: {e}; falling back on the shape of the factor)")
    var_bytes = lp_bytes = ust.numel() * 4 if ust.dim() > 3 else 0
    var, lp = u.variance, None

# the values must of course be right
ref_var = S.diagonal().expand(1, b, n)
ok_values = torch.allclose(var, ref_var, rtol=1e-4)
print(f".variance            allocates {var_bytes / 1e6:8.2f} MB   (one factor + result: {budget / 4 / 1e6:.2f} MB, b x n x n: {full / 1e6:.2f} MB)")
print(f".log_prob (torch)    allocates {lp_bytes / 1e6:8.2f} MB")
print(f"variance values correct: {ok_values}")

bad = (not ok_values) or var_bytes > max(budget, full / 4) or lp_bytes > max(4 * budget, 0.9 * full)
print("PROBLEM PRESENT (shared Cholesky factor materialised once per batch member after unsqueeze(0))" if bad else "ok")
sys.exit(1 if bad else 0)
