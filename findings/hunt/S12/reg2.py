# Regression seed for commit cdfe3db ("leave-one-out pseudo-likelihood with batched hyperparameters over shared targets").
#
# With `m = m.reshape(*target.shape)` gone, nothing ties the shape of the marginal mean to the shape of the targets any
# more.  Targets given as a column, y of shape n x 1 (a very common slip: y = data[:, -1:]), used to fail loudly
# ("Incompatible matrix sizes for cholesky_solve").  Now `target - m` broadcasts (n x 1) - (n) to n x n, the solve treats
# it as a batch of n right-hand sides, and forward silently returns a length-n vector of meaningless numbers (each divided
# by num_data = target.size(-1) = 1) - an optimiser calling `.sum()`/`.mean()` on the loss would train on garbage.
#
# Exit 1 if the column-target call returns something other than the correct scalar value; raising is fine.
import sys
import warnings

import torch

import gpytorch

warnings.filterwarnings("ignore")
torch.manual_seed(0)
dtype = torch.float64
n = 8


class GP(gpytorch.models.ExactGP):
    def __init__(self, x, y, lik):
        super().__init__(x, y, lik)
        self.mean_module = gpytorch.means.ConstantMean()
        self.covar_module = gpytorch.kernels.ScaleKernel(gpytorch.kernels.RBFKernel())

    def forward(self, x):
        return gpytorch.distributions.MultivariateNormal(self.mean_module(x), self.covar_module(x))


x = torch.rand(n, 2, dtype=dtype)
y = torch.sin(3 * x.sum(-1))
lik = gpytorch.likelihoods.GaussianLikelihood().to(dtype)
model = GP(x, y, lik).to(dtype)
loo = gpytorch.mlls.LeaveOneOutPseudoLikelihood(lik, model)

with torch.no_grad():
    out = model(x)
    correct = loo(out, y)
    print(f"targets of shape ({n},)   -> {correct.item():.10f}")
    try:
        got = loo(out, y.unsqueeze(-1))
    except Exception as e:  # noqa
        print(f"targets of shape ({n}, 1) -> RAISED {type(e).__name__}: {str(e)[:120]}")
        print("ok (the mismatch is reported, as before cdfe3db)")
        sys.exit(0)

print(f"targets of shape ({n}, 1) -> shape {tuple(got.shape)}, values {[round(v, 4) for v in got.flatten().tolist()]}")
bad = got.numel() != 1 or abs(got.item() - correct.item()) > 1e-8
print("PROBLEM PRESENT (silently wrong result for column targets)" if bad else "ok")
sys.exit(1 if bad else 0)
