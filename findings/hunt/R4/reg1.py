#!/usr/bin/env python3
# Concerns commit e32f1a1 ("SoftmaxLikelihood treats its input as the deprecated transposed layout only when the
# documented one does not fit").
#
# A batch MultivariateNormal (num_features independent GPs x num_data points: the deprecated but still supported
# layout) handed to SoftmaxLikelihood.expected_log_prob / log_marginal / marginal does NOT pass through
# SoftmaxLikelihood.__call__ (which converts it with MultitaskMultivariateNormal.from_batch_mvn); its samples reach
# forward() as ... x num_features x num_data.  Before the commit forward() transposed them whenever
# num_data == self.num_features, so this path was right for every num_data.  After the commit a square input
# (num_data == num_features, e.g. a last mini-batch that happens to hold num_features points) is no longer
# transposed: the features of data point n are taken to be f_1(x_n') ... i.e. the class probabilities silently
# belong to the transposed problem.  For num_data != num_features old and new code agree.
import sys
import warnings

import torch

import gpytorch
from gpytorch.distributions import MultitaskMultivariateNormal, MultivariateNormal
from gpytorch.likelihoods import SoftmaxLikelihood

warnings.simplefilter("ignore")
torch.manual_seed(0)

num_features, num_classes = 4, 3
lik = SoftmaxLikelihood(num_features=num_features, num_classes=num_classes)
lik.eval()
W = lik.mixing_weights.detach()

bad = False
for num_data in (6, 4):  # 6: unambiguous legacy layout, 4: square
    torch.manual_seed(1)
    mean = torch.randn(num_features, num_data) * 3.0  # num_features x num_data (legacy layout)
    covar = torch.eye(num_data).expand(num_features, num_data, num_data) * 1e-10  # samples == mean
    batch_mvn = MultivariateNormal(mean, covar)
    y = torch.arange(num_data) % num_classes

    # ground truth: data point n has the latent vector mean[:, n]
    truth = torch.log_softmax(mean.t() @ W.t(), dim=-1)[torch.arange(num_data), y]

    with gpytorch.settings.num_likelihood_samples(3), torch.no_grad():
        elp = lik.expected_log_prob(y, batch_mvn)
        lm = lik.log_marginal(y, batch_mvn)
        marg = lik.marginal(batch_mvn).probs.mean(0)
        # the documented route, for reference
        elp_mt = lik.expected_log_prob(y, MultitaskMultivariateNormal.from_batch_mvn(batch_mvn))
        marg_call = lik(batch_mvn).probs.mean(0)  # __call__ converts the batch MVN itself

    err_elp = (elp - truth).abs().max().item()
    err_lm = (lm - truth).abs().max().item()
    err_marg = (marg - torch.softmax(mean.t() @ W.t(), dim=-1)).abs().max().item()
    err_mt = (elp_mt - truth).abs().max().item()
    err_call = (marg_call - torch.softmax(mean.t() @ W.t(), dim=-1)).abs().max().item()
    print(
        f"num_data={num_data} num_features={num_features}: |expected_log_prob(batch_mvn) - truth| = {err_elp:.2e}, "
        f"|log_marginal - truth| = {err_lm:.2e}, |marginal probs - truth| = {err_marg:.2e}   "
        f"[reference routes: MTMVN {err_mt:.2e}, __call__(batch_mvn) {err_call:.2e}]"
    )
    if max(err_elp, err_lm, err_marg) > 1e-3:
        print("  -> PROBLEM: batch-MVN input gives the class probabilities of the transposed problem")
        bad = True

sys.exit(1 if bad else 0)
