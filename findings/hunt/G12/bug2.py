"""C12 bug 2: DirichletClassificationLikelihood(dist, targets=test_labels) infers the number of classes from the
call-time labels (max + 1) instead of using the number of classes of the likelihood.

If the largest class does not occur among the call-time labels the call-time noise has the wrong number of class rows:
 - labels all of class 0  -> a 1 x n noise that silently BROADCASTS over the C class-GPs (every class gets the small
   noise of the "observed" class)
 - some other proper subset -> shape error.
Reference: sigma^2_{c,i} = log(1 / alpha_{c,i} + 1),  alpha_{c,i} = alpha_eps + [y_i == c],  c = 0..C-1  (Milios et al.),
i.e. exactly what the constructor stores for the same labels when all classes are known.
"""
import sys
import warnings

import torch

from gpytorch.distributions import MultivariateNormal
from gpytorch.likelihoods import DirichletClassificationLikelihood

warnings.simplefilter("ignore")
torch.manual_seed(0)
dtype = torch.float64
eps = 0.05

y_train = torch.tensor([0, 1, 2, 1, 0, 2])
C = 3
lik = DirichletClassificationLikelihood(y_train, alpha_epsilon=eps, dtype=dtype)
assert lik.num_classes == C


def reference_noise(labels):
    alpha = eps + torch.nn.functional.one_hot(labels, C).to(dtype).t()  # C x n
    return torch.log(1.0 / alpha + 1.0)


# sanity: the reference reproduces the stored training noise
assert torch.allclose(reference_noise(y_train), lik.noise_covar.noise)

n = 4
A = torch.randn(C, n, n, dtype=dtype)
cov = A @ A.transpose(-1, -2) + torch.eye(n, dtype=dtype)
dist = MultivariateNormal(torch.zeros(C, n, dtype=dtype), cov)

violated = False
for labels in [torch.tensor([0, 1, 2, 1]), torch.tensor([0, 0, 0, 0]), torch.tensor([0, 1, 0, 1])]:
    ref = reference_noise(labels)
    try:
        out = lik(dist, targets=labels)
        added = (out.covariance_matrix - cov).diagonal(dim1=-1, dim2=-2)
        added = added.expand(C, n)
        err = (added - ref).abs().max().item()
        print(f"targets={labels.tolist()}: max |added noise - reference| = {err:.3e}")
        if err > 1e-10:
            print("   added    :", added.tolist())
            print("   reference:", ref.tolist())
            violated = True
    except Exception as e:  # noqa
        print(f"targets={labels.tolist()}: raised {type(e).__name__}: {e}")
        violated = True

if violated:
    print("VIOLATION: call-time targets that miss the largest class give the wrong noise / an exception")
    sys.exit(1)
print("ok")
sys.exit(0)
