"""C12 bug 3: MultitaskGaussianLikelihood binds positional likelihood parameters (e.g. the inputs x) to the
`add_noise` / `interleaved` arguments of _shaped_noise_covar.

Likelihood.expected_log_prob(y, dist, *params) and likelihood(f_samples, *params) accept additional positional
parameters (GaussianLikelihood ignores them, marginal()/log_marginal() of the multitask likelihood ignore them too).
In _MultitaskGaussianLikelihoodBase.forward and _GaussianLikelihoodBase.expected_log_prob they are forwarded as
    self._shaped_noise_covar(shape, *params, **kwargs)      with signature (shape, add_noise=True, interleaved=True, *params)
so x becomes `add_noise`:  -> RuntimeError for a generic x, and for a single test point x = [[0.]] the global noise
sigma^2 is silently dropped.
Reference: closed forms with R = I_n kron (diag(task_noises) + sigma^2 I_t).
"""
import math
import sys
import warnings

import torch

from gpytorch.distributions import MultitaskMultivariateNormal
from gpytorch.likelihoods import MultitaskGaussianLikelihood

warnings.simplefilter("ignore")
torch.manual_seed(0)
torch.set_default_dtype(torch.float64)

t = 2
lik = MultitaskGaussianLikelihood(num_tasks=t)
lik.noise = torch.tensor([0.3])
lik.task_noises = torch.tensor([0.2, 0.5])
R_task = (lik.task_noises + lik.noise).detach()  # per-task noise variance, shape t

violated = False


def check(name, fn, ref):
    global violated
    try:
        got = fn().detach()
        err = (got - ref).abs().max().item()
        print(f"{name}: max |got - reference| = {err:.3e}")
        if err > 1e-10:
            print("   got      :", got.tolist())
            print("   reference:", ref.tolist())
            violated = True
    except Exception as e:  # noqa
        print(f"{name}: raised {type(e).__name__}: {e}")
        violated = True


for n, x in [(3, torch.randn(3, 1)), (1, torch.zeros(1, 1))]:
    mean = torch.randn(n, t)
    A = torch.randn(n * t, n * t)
    cov = A @ A.t() + torch.eye(n * t)
    dist = MultitaskMultivariateNormal(mean, cov)
    var = cov.diagonal().view(n, t)
    y = torch.randn(n, t)
    f = torch.randn(n, t)
    Rd = R_task.expand(n, t)

    ref_elp = (-0.5 * (((y - mean) ** 2 + var) / Rd + Rd.log() + math.log(2 * math.pi))).sum(-1)
    ref_cond = torch.distributions.Normal(f, Rd.sqrt()).log_prob(y).sum(-1)
    ref_logm = torch.distributions.Normal(mean, (var + Rd).sqrt()).log_prob(y).sum(-1)

    print(f"--- n = {n}, x = {x.flatten().tolist()}")
    check("expected_log_prob(y, dist)      ", lambda: lik.expected_log_prob(y, dist), ref_elp)
    check("expected_log_prob(y, dist, x)   ", lambda: lik.expected_log_prob(y, dist, x), ref_elp)
    check("likelihood(f).log_prob(y)       ", lambda: lik(f).log_prob(y), ref_cond)
    check("likelihood(f, x).log_prob(y)    ", lambda: lik(f, x).log_prob(y), ref_cond)
    check("log_marginal(y, dist, x)        ", lambda: lik.log_marginal(y, dist, x), ref_logm)
    check("likelihood(dist, x) covariance  ", lambda: lik(dist, x).covariance_matrix, cov + torch.diag_embed(Rd.reshape(-1)))

if violated:
    print("VIOLATION: positional parameters change / break the noise of MultitaskGaussianLikelihood")
    sys.exit(1)
print("ok")
sys.exit(0)
