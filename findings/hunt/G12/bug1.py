"""C12 bug 1: DirichletClassificationLikelihood.get_fantasy_likelihood never works.

The fantasy likelihood of a fixed-noise likelihood must carry the noise of the old AND the new observations, so that
calling it on a distribution over the N + m points adds exactly diag(noise(old targets), noise(new targets)).
Reference: a fresh DirichletClassificationLikelihood built on the concatenated labels.
"""
import sys
import warnings

import torch

import gpytorch
from gpytorch.distributions import MultivariateNormal
from gpytorch.likelihoods import DirichletClassificationLikelihood

warnings.simplefilter("ignore")
torch.manual_seed(0)
dtype = torch.float64

y_old = torch.tensor([0, 1, 2, 1, 0])
y_new = torch.tensor([2, 0, 1])
N, m, C = len(y_old), len(y_new), 3

lik = DirichletClassificationLikelihood(y_old, alpha_epsilon=0.05, dtype=dtype)
ref_lik = DirichletClassificationLikelihood(torch.cat([y_old, y_new]), alpha_epsilon=0.05, dtype=dtype)

A = torch.randn(C, N + m, N + m, dtype=dtype)
cov = A @ A.transpose(-1, -2) + torch.eye(N + m, dtype=dtype)
dist = MultivariateNormal(torch.zeros(C, N + m, dtype=dtype), cov)
ref_added = ref_lik(dist).covariance_matrix - cov  # = diag_embed(noise of all N + m labels), C x (N+m) x (N+m)
print("reference: added noise diag of the likelihood on the concatenated labels\n", ref_added.diagonal(dim1=-1, dim2=-2))

violated = False
for name, kwargs in [
    ("get_fantasy_likelihood(targets=y_new)", dict(targets=y_new)),
    ("get_fantasy_likelihood(targets=y_new, noise=y_new)", dict(targets=y_new, noise=y_new)),
]:
    try:
        fant = lik.get_fantasy_likelihood(**kwargs)
        added = fant(dist).covariance_matrix - cov
        err = (added - ref_added).abs().max().item()
        print(f"{name}: max |added noise - reference| = {err:.3e}")
        if err > 1e-10:
            violated = True
    except Exception as e:  # noqa
        print(f"{name}: raised {type(e).__name__}: {e}")
        violated = True

if violated:
    print("VIOLATION: the fantasy likelihood of DirichletClassificationLikelihood cannot be built / adds the wrong noise")
    sys.exit(1)
print("ok")
sys.exit(0)
