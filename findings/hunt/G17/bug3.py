"""Setters that hand a python number straight to constraint.inverse_transform:
IndexKernel.var (default constraint Positive()) and MultitaskGaussianLikelihood.noise / .task_noises (with
noise_constraint=Positive(), or any constraint with a custom exp/log transform pair) raise TypeError for a python float,
although the same assignment works for every other constrained parameter (and for these with GreaterThan, by accident,
because `value - lower_bound` happens to create a tensor).  An out-of-bounds python number is "rejected" with the same
TypeError instead of the out-of-bounds RuntimeError."""
import sys
import warnings

import torch

warnings.filterwarnings("ignore")
import gpytorch  # noqa: E402
from gpytorch.constraints import GreaterThan, Positive  # noqa: E402
from gpytorch.kernels import IndexKernel, LinearKernel  # noqa: E402
from gpytorch.likelihoods import GaussianLikelihood, MultitaskGaussianLikelihood  # noqa: E402

torch.set_default_dtype(torch.float64)
torch.manual_seed(0)
fail = False


def case(label, module, name, value):
    global fail
    try:
        setattr(module, name, value)
        got = getattr(module, name)
        err = (got - value).abs().max().item()
        print(f"{label}: reads back {got.flatten().tolist()} (max err {err:.1e})")
        if err > 1e-10:
            fail = True
    except Exception as e:
        print(f"{label}: RAISES {type(e).__name__}: {e}")
        fail = True


# reference: the same thing with other modules / a tensor value
case("LinearKernel(variance_constraint=Positive()).variance = 0.5          ", LinearKernel(variance_constraint=Positive()),
     "variance", 0.5)
case("GaussianLikelihood(noise_constraint=Positive()).noise = 0.5          ",
     GaussianLikelihood(noise_constraint=Positive()), "noise", 0.5)
case("IndexKernel(num_tasks=3).var = tensor(0.5)                           ", IndexKernel(num_tasks=3), "var",
     torch.tensor(0.5))
case("MultitaskGaussianLikelihood(3, GreaterThan(1e-4)).noise = 0.5        ",
     MultitaskGaussianLikelihood(num_tasks=3, noise_constraint=GreaterThan(1e-4)), "noise", 0.5)

# failing
case("IndexKernel(num_tasks=3).var = 0.5   (default constraint)            ", IndexKernel(num_tasks=3), "var", 0.5)
case("MultitaskGaussianLikelihood(3, noise_constraint=Positive()).noise=0.5",
     MultitaskGaussianLikelihood(num_tasks=3, noise_constraint=Positive()), "noise", 0.5)
case("MultitaskGaussianLikelihood(3, noise_constraint=Positive()).task_noises=0.5",
     MultitaskGaussianLikelihood(num_tasks=3, noise_constraint=Positive()), "task_noises", 0.5)
case("MultitaskGaussianLikelihood(3, Positive(exp, log)).noise = 0.5       ",
     MultitaskGaussianLikelihood(
         num_tasks=3, noise_constraint=Positive(transform=torch.exp, inv_transform=torch.log)), "noise", 0.5)

# initialize with the public name goes through the same setter
try:
    k = IndexKernel(num_tasks=3).initialize(var=0.5)
    print("IndexKernel(num_tasks=3).initialize(var=0.5): var =", k.var.tolist())
except Exception as e:
    print(f"IndexKernel(num_tasks=3).initialize(var=0.5): RAISES {type(e).__name__}: {e}")
    fail = True

sys.exit(1 if fail else 0)
