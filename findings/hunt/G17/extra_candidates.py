"""Further confirmed oddities around C17 (weaker / more arguable than bug1-3). Prints each; exits 1 if any is present."""
import sys
import warnings

import torch

warnings.filterwarnings("ignore")
import gpytorch  # noqa: E402
from gpytorch.constraints import GreaterThan, Interval, LessThan, Positive  # noqa: E402
from gpytorch.priors import MultivariateNormalPrior  # noqa: E402

torch.set_default_dtype(torch.float64)
present = []

# E1: a custom transform without inv_transform keeps the default inv_softplus (the TRANSFORM_REGISTRY is never consulted)
k = gpytorch.kernels.RBFKernel(lengthscale_constraint=GreaterThan(0.1, transform=torch.exp))
k.lengthscale = 2.0
print("E1 GreaterThan(0.1, transform=torch.exp): lengthscale = 2.0 reads back", k.lengthscale.item())
if abs(k.lengthscale.item() - 2.0) > 1e-8:
    present.append("E1")

# E2: MultivariateNormalPrior lazy attributes / expand -> RecursionError (Prior.__setattr__ calls hasattr inside lazy_property)
cov = torch.tensor([[2.0, 0.3], [0.3, 1.0]])
p = MultivariateNormalPrior(torch.zeros(2), covariance_matrix=cov)
for what, fn in [("precision_matrix", lambda: p.precision_matrix), ("scale_tril", lambda: p.scale_tril),
                 ("expand((3, 2))", lambda: p.expand(torch.Size([3, 2])))]:
    try:
        fn()
        print("E2 MultivariateNormalPrior(loc, covariance_matrix=...).%s ok" % what)
    except RecursionError:
        print("E2 MultivariateNormalPrior(loc, covariance_matrix=...).%s -> RecursionError" % what)
        present.append("E2")

# E3: Interval.intersect / register_constraint(replace=False) can never succeed for two distinct constraint objects
k = gpytorch.kernels.RBFKernel(lengthscale_constraint=Interval(0.1, 5.0))
try:
    k.register_constraint("raw_lengthscale", Interval(0.5, 10.0), replace=False)
    print("E3 intersect ok:", k.raw_lengthscale_constraint)
except RuntimeError as e:
    print("E3 register_constraint(Interval(0.5, 10), replace=False) on Interval(0.1, 5) ->", e)
    present.append("E3")

# E4: repr of constraints with one-element (non 0-dim) tensor bounds / LessThan with any tensor bound
for c in (GreaterThan(torch.tensor([0.1])), LessThan(torch.tensor([1.0, 2.0]))):
    try:
        repr(c)
    except TypeError as e:
        print("E4 repr(%s with tensor bound) -> TypeError: %s" % (type(c).__name__, e))
        present.append("E4")

# E5: not-enforced constraint: python float is bounds-checked, tensor is not
k = gpytorch.kernels.RBFKernel(lengthscale_constraint=Interval(0.2, 4.0, transform=None))
res = []
for v in (10.0, torch.tensor(10.0)):
    try:
        k.initialize(raw_lengthscale=v)
        res.append("accepted")
    except RuntimeError:
        res.append("rejected")
print("E5 Interval(0.2, 4, transform=None): initialize(raw_lengthscale=10.0) %s, (=tensor(10.)) %s" % tuple(res))
if res[0] != res[1]:
    present.append("E5")

# E6: rounding: sigmoid(raw) * (u - l) + l can exceed u by one ulp -> the upper bound itself cannot be assigned
c = Interval(-1.0, 0.3)
print("E6 Interval(-1, 0.3).transform(40.) - 0.3 =", (c.transform(torch.tensor(40.0)) - 0.3).item(), " check_raw(40.) =",
      c.check_raw(torch.tensor(40.0)))
if not c.check_raw(torch.tensor(40.0)):
    present.append("E6")

# E7: Interval whose width overflows
c = Interval(-1e308, 1e308)
print("E7 Interval(-1e308, 1e308).transform(0.3) =", c.transform(torch.tensor(0.3)).item())
if not c.check_raw(torch.tensor(0.3)):
    present.append("E7")

print("present:", present)
sys.exit(1 if present else 0)
