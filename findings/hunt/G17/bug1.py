"""LKJCovariancePrior with a scalar sd_prior (the documented usage) does not return the log density of the
covariance matrix: log_prob returns one value PER TASK (correlation term + sd term of that task) instead of
correlation term + sum of the sd terms; the marginal log likelihood then counts the LKJ correlation term n times."""
import sys
import warnings

import torch

warnings.filterwarnings("ignore")
import gpytorch  # noqa: E402
from gpytorch.priors import GammaPrior, LKJCovariancePrior, LKJPrior, SmoothedBoxPrior  # noqa: E402

torch.set_default_dtype(torch.float64)
torch.manual_seed(0)
n, eta = 3, 2.0
B = torch.randn(n, n)
Sigma = B @ B.T + 0.5 * torch.eye(n)  # a covariance matrix

sd = Sigma.diagonal().sqrt()
corr = Sigma / (sd.unsqueeze(-1) * sd.unsqueeze(-2))
lp_corr = LKJPrior(n, eta).log_prob(corr)  # the library's own LKJ term (a scalar)

fail = False

# ---- 1. direct evaluation --------------------------------------------------------------------------------------
prior = LKJCovariancePrior(n, eta, GammaPrior(2.0, 3.0))  # "sd_prior is a scalar Prior over nonnegative numbers"
got = prior.log_prob(Sigma)
ref = lp_corr + torch.distributions.Gamma(2.0, 3.0).log_prob(sd).sum()
print("LKJCovariancePrior(n=3, eta=2, sd_prior=GammaPrior(2, 3)).log_prob(Sigma)")
print("   library  :", got, " shape", tuple(got.shape))
print("   reference: lkj(corr) + sum_i gamma(sd_i) =", ref.item(), " shape ()")
if got.shape != torch.Size([]) or abs(got.sum().item() - ref.item()) > 1e-8:
    print("   -> not the (scalar) log density of the n x n matrix; sum of the entries differs from the reference by",
          abs(got.sum().item() - ref.item()))
    fail = True

# the same class with a sd_prior that has event_shape [1] gives the scalar  lkj + sum_i sd_i  (so that is the intent)
box = SmoothedBoxPrior(0.1, 5.0, 0.1)
got_box = LKJCovariancePrior(n, eta, box).log_prob(Sigma)
ref_box = lp_corr + SmoothedBoxPrior(0.1, 5.0, 0.1).log_prob(sd.unsqueeze(-1)).sum()
print("   (with sd_prior=SmoothedBoxPrior the library returns the scalar", got_box.item(), "; lkj + sum sd =",
      ref_box.item(), ")")

# ---- 2. effect on the marginal log likelihood of a model -------------------------------------------------------
class HadamardGP(gpytorch.models.ExactGP):
    def __init__(self, x, i, y, lik, task_prior):
        super().__init__((x, i), y, lik)
        self.mean_module = gpytorch.means.ZeroMean()
        self.covar_module = gpytorch.kernels.RBFKernel()
        self.task_covar_module = gpytorch.kernels.IndexKernel(num_tasks=n, rank=1, prior=task_prior)

    def forward(self, x, i):
        return gpytorch.distributions.MultivariateNormal(
            self.mean_module(x), self.covar_module(x) * self.task_covar_module(i)
        )


N = 12
x = torch.rand(N, 1)
i = torch.randint(0, n, (N, 1))
y = torch.randn(N)


def mll_value(task_prior):
    torch.manual_seed(1)  # same random initial IndexKernel parameters
    lik = gpytorch.likelihoods.GaussianLikelihood()
    model = HadamardGP(x, i, y, lik, task_prior)
    mll = gpytorch.mlls.ExactMarginalLogLikelihood(lik, model)
    model.train()
    return mll(model(x, i), y).item(), model.task_covar_module._eval_covar_matrix().detach()


v0, _ = mll_value(None)
v1, S = mll_value(LKJCovariancePrior(n, eta, GammaPrior(2.0, 3.0)))
prior_term_lib = (v1 - v0) * N  # the mll divides by the number of data
sdS = S.diagonal().sqrt()
corrS = S / (sdS.unsqueeze(-1) * sdS.unsqueeze(-2))
lkj = LKJPrior(n, eta).log_prob(corrS).item()
gam = torch.distributions.Gamma(2.0, 3.0).log_prob(sdS).sum().item()
print("ExactMarginalLogLikelihood, IndexKernel(prior=LKJCovariancePrior(3, 2, GammaPrior(2, 3))):")
print("   prior term added by the library (N * (mll_with - mll_without)):", prior_term_lib)
print("   reference  lkj(corr) + sum_i gamma(sd_i)                      :", lkj + gam)
print("   n * lkj(corr) + sum_i gamma(sd_i)                             :", n * lkj + gam)
if abs(prior_term_lib - (lkj + gam)) > 1e-6:
    print("   -> discrepancy", abs(prior_term_lib - (lkj + gam)))
    fail = True

sys.exit(1 if fail else 0)
