"""ConstantKernel: the public setter of `constant` / the setting closure of `constant_prior` do value.view(*batch_shape, 1),
so (a) a python float is rejected, (b) for a batched kernel a scalar (or any broadcastable) tensor is rejected and
(c) sample_from_prior("constant_prior") with a scalar prior raises.  Every other kernel (e.g. ScaleKernel.outputscale)
accepts these values and reads them back."""
import sys
import warnings

import torch

warnings.filterwarnings("ignore")
import gpytorch  # noqa: E402
from gpytorch.kernels import ConstantKernel, RBFKernel, ScaleKernel  # noqa: E402
from gpytorch.priors import GammaPrior  # noqa: E402

torch.set_default_dtype(torch.float64)
torch.manual_seed(0)
fail = False


def attempt(label, fn, expected):
    global fail
    try:
        got = fn()
        err = (got - expected).abs().max().item()
        print(f"{label}: reads back {got.flatten().tolist()}  (max err {err:.1e})")
        if err > 1e-10:
            fail = True
    except Exception as e:
        print(f"{label}: RAISES {type(e).__name__}: {e}")
        fail = True


def set_and_get(kernel, name, value):
    setattr(kernel, name, value)
    return getattr(kernel, name)


# reference behaviour: ScaleKernel.outputscale
attempt("ScaleKernel(batch=(2,)).outputscale = 2.5          ",
        lambda: set_and_get(ScaleKernel(RBFKernel(), batch_shape=torch.Size([2])), "outputscale", 2.5),
        torch.full((2,), 2.5))
attempt("ScaleKernel(batch=(2,)).outputscale = tensor(2.5)  ",
        lambda: set_and_get(ScaleKernel(RBFKernel(), batch_shape=torch.Size([2])), "outputscale", torch.tensor(2.5)),
        torch.full((2,), 2.5))

# ConstantKernel
attempt("ConstantKernel().constant = 2.5                    ",
        lambda: set_and_get(ConstantKernel(), "constant", 2.5), torch.full((1,), 2.5))
attempt("ConstantKernel(batch=(2,)).constant = tensor(2.5)  ",
        lambda: set_and_get(ConstantKernel(batch_shape=torch.Size([2])), "constant", torch.tensor(2.5)),
        torch.full((2, 1), 2.5))
attempt("ConstantKernel(batch=(3,2)).constant = tensor([2.5])",
        lambda: set_and_get(ConstantKernel(batch_shape=torch.Size([3, 2])), "constant", torch.tensor([2.5])),
        torch.full((3, 2, 1), 2.5))


def sample(kernel, prior_name, read):
    torch.manual_seed(3)
    expected = kernel._priors[prior_name][0].sample()
    torch.manual_seed(3)
    kernel.sample_from_prior(prior_name)
    return read(kernel), expected


def sample_case(label, make, prior_name, read):
    global fail
    try:
        got, expected = sample(make(), prior_name, read)
        err = (got - expected).abs().max().item()
        print(f"{label}: stored {got.flatten().tolist()}, sampled {expected.item():.6f} (max err {err:.1e})")
        if err > 1e-10:
            fail = True
    except Exception as e:
        print(f"{label}: RAISES {type(e).__name__}: {e}")
        fail = True


sample_case("ScaleKernel(batch=(2,), outputscale_prior=Gamma).sample_from_prior ",
            lambda: ScaleKernel(RBFKernel(), batch_shape=torch.Size([2]), outputscale_prior=GammaPrior(3.0, 2.0)),
            "outputscale_prior", lambda k: k.outputscale)
sample_case("ConstantKernel(batch=(2,), constant_prior=Gamma).sample_from_prior",
            lambda: ConstantKernel(batch_shape=torch.Size([2]), constant_prior=GammaPrior(3.0, 2.0)),
            "constant_prior", lambda k: k.constant)

sys.exit(1 if fail else 0)
