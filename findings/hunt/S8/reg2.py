#!/usr/bin/env python3
# Behaviour change concerning commit f174236 ("variational strategies drop their memo when copied or pickled").
#
# The commit assumes that every memo entry "is recomputed on demand". That is not true for the strategies that use the
# memo as a hand-over slot between forward() and kl_divergence():
#   * NNVariationalStrategy.forward stores "kl_divergence_memo", kl_divergence() pops it and otherwise raises
#     RuntimeError("KL Divergence of variational strategy was called before nearest neighbors were set.")
#   * CiqVariationalStrategy (natural-gradient mode) stores _memoize_cache["kl"], kl_divergence() raises without it.
# A copy taken between the forward call and the evaluation of the KL term (pickle round trip, e.g. sending the model to
# a worker, or copy.deepcopy under torch.no_grad()) used to carry the KL term along and could evaluate
# kl_divergence(); now the copy raises. (copy.deepcopy with a live graph raised before the commit, so that path is not
# worse; pickle and no-grad deepcopy are.)
#
# exit 1 = problem present, exit 0 = absent.
import copy
import pickle
import sys
import warnings

import torch

import gpytorch
from gpytorch.variational import MeanFieldVariationalDistribution, NNVariationalStrategy
from gpytorch.variational._variational_strategy import _VariationalStrategy

warnings.filterwarnings("ignore")


class Model(gpytorch.models.ApproximateGP):
    def __init__(self):
        g = torch.Generator().manual_seed(0)
        Z = torch.rand(16, 1, generator=g)
        vs = NNVariationalStrategy(self, Z, MeanFieldVariationalDistribution(16), k=3, training_batch_size=4)
        super().__init__(vs)
        self.mean_module = gpytorch.means.ZeroMean()
        self.covar_module = gpytorch.kernels.ScaleKernel(gpytorch.kernels.RBFKernel())

    def forward(self, x):
        return gpytorch.distributions.MultivariateNormal(self.mean_module(x), self.covar_module(x))

    def __call__(self, x, prior=False, **kwargs):
        return self.variational_strategy(x=x, prior=False, **kwargs)


def attempt():
    res = {}
    # (a) pickle round trip between forward and kl_divergence (gradients enabled)
    torch.manual_seed(0)
    model = Model().train()
    model(None)
    try:
        clone = pickle.loads(pickle.dumps(model))
        kl = clone.variational_strategy.kl_divergence()
        ref = model.variational_strategy.kl_divergence()
        res["pickle"] = "ok" if torch.allclose(kl, ref) else f"different value {kl.item()} vs {ref.item()}"
    except Exception as e:  # noqa
        res["pickle"] = f"{type(e).__name__}: {str(e)[:80]}"
    # (b) deepcopy under no_grad between forward and kl_divergence
    torch.manual_seed(0)
    model = Model().train()
    with torch.no_grad():
        model(None)
        try:
            clone = copy.deepcopy(model)
            kl = clone.variational_strategy.kl_divergence()
            ref = model.variational_strategy.kl_divergence()
            res["deepcopy(no_grad)"] = "ok" if torch.allclose(kl, ref) else "different value"
        except Exception as e:  # noqa
            res["deepcopy(no_grad)"] = f"{type(e).__name__}: {str(e)[:80]}"
    return res


new = attempt()
print("current code                         :", new)
if "__getstate__" in _VariationalStrategy.__dict__:
    saved = _VariationalStrategy.__getstate__
    del _VariationalStrategy.__getstate__
    try:
        print("without _VariationalStrategy.__getstate__:", attempt())
    finally:
        _VariationalStrategy.__getstate__ = saved

if any(v != "ok" for v in new.values()):
    print("PROBLEM: the copy of an NNVariationalStrategy lost the KL term handed over from forward()")
    sys.exit(1)
print("no problem")
sys.exit(0)
