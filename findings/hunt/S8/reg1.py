#!/usr/bin/env python3
# Regression concerning commit f174236 ("variational strategies drop their memo when copied or pickled").
#
# _VariationalStrategy.__getstate__ is built from self.__dict__.copy() instead of super().__getstate__(), so it
# shadows torch.nn.Module.__getstate__, whose only job is to drop the un-picklable "_compiled_call_impl" entry that
# torch.nn.Module.compile() stores on the module. A variational strategy on which .compile() was called (directly or
# via model.apply(lambda m: m.compile())) could be pickled / torch.save'd before the commit and cannot be any more:
#   PicklingError: Can't pickle <function Module._call_impl ...>: it's not the same object as ...
# (copy.deepcopy still works, but now carries the compiled wrapper of the ORIGINAL object into the copy.)
#
# exit 1 = problem present, exit 0 = absent.
import io
import pickle
import re
import sys
import warnings

import torch

import gpytorch
from gpytorch.variational import CholeskyVariationalDistribution, VariationalStrategy
from gpytorch.variational._variational_strategy import _VariationalStrategy

warnings.filterwarnings("ignore")


class Model(gpytorch.models.ApproximateGP):
    def __init__(self):
        Z = torch.linspace(0, 1, 8).unsqueeze(-1)
        super().__init__(VariationalStrategy(self, Z, CholeskyVariationalDistribution(8)))
        self.mean_module = gpytorch.means.ConstantMean()
        self.covar_module = gpytorch.kernels.ScaleKernel(gpytorch.kernels.RBFKernel())

    def forward(self, x):
        return gpytorch.distributions.MultivariateNormal(self.mean_module(x), self.covar_module(x))


def attempt(model):
    res = {}
    for name, fn in [
        ("pickle", lambda: pickle.loads(pickle.dumps(model))),
        ("torch.save", lambda: torch.save(model, io.BytesIO())),
    ]:
        try:
            fn()
            res[name] = "ok"
        except Exception as e:  # noqa
            res[name] = f"{type(e).__name__}: {re.sub(r" at 0x[0-9a-f]+", "", str(e))[:90]}"
    return res


torch.manual_seed(0)
model = Model()
model.variational_strategy.compile()  # torch.nn.Module.compile: stores _compiled_call_impl on the module

new = attempt(model)
print("current code                         :", new)

# What the code before the commit did: the class had no __getstate__ of its own (torch.nn.Module's was used)
reference = None
if "__getstate__" in _VariationalStrategy.__dict__:
    saved = _VariationalStrategy.__getstate__
    del _VariationalStrategy.__getstate__
    try:
        reference = attempt(model)
    finally:
        _VariationalStrategy.__getstate__ = saved
    print("without _VariationalStrategy.__getstate__:", reference)

copied_state = model.variational_strategy.__getstate__()
print("'_compiled_call_impl' in __getstate__():", "_compiled_call_impl" in copied_state)

bad = any(v != "ok" for v in new.values())
if bad:
    print("PROBLEM: a compiled variational strategy can no longer be pickled / saved")
    sys.exit(1)
print("no problem")
sys.exit(0)
