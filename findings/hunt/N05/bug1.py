"""Derivative kernels constructed with batch_shape (their own docstring example) raise on inputs whose
batch shape is smaller than / broadcasts against the kernel's batch shape; the plain RBFKernel handles it.
Reference: per-batch evaluation with a non-batch kernel carrying the i-th lengthscale / offset."""
import sys, torch, gpytorch
from gpytorch.kernels import RBFKernel, RBFKernelGrad, Matern52KernelGrad, RBFKernelGradGrad, PolynomialKernelGrad
torch.manual_seed(0); torch.set_default_dtype(torch.float64)
n1, n2, d = 3, 4, 2
x1, x2 = torch.randn(n1, d), torch.randn(n2, d)
bad = 0
# sanity: the base kernel broadcasts its batch_shape over non-batch inputs
kb = RBFKernel(batch_shape=torch.Size([2])); kb.lengthscale = torch.tensor([0.7, 1.9]).view(2, 1, 1)
print("RBFKernel(batch_shape=[2])(x1, x2) ->", tuple(kb(x1, x2).to_dense().shape))
for cls, m in [(RBFKernelGrad, d + 1), (Matern52KernelGrad, d + 1), (RBFKernelGradGrad, 2 * d + 1), (PolynomialKernelGrad, d + 1)]:
    kw = dict(power=2) if cls is PolynomialKernelGrad else {}
    k = cls(batch_shape=torch.Size([2]), **kw)
    singles = []
    for i, v in enumerate([0.7, 1.9]):
        s = cls(**kw)
        if cls is PolynomialKernelGrad: s.offset = v
        else: s.lengthscale = v
        singles.append(s(x1, x2).to_dense().detach())
    ref = torch.stack(singles)
    if cls is PolynomialKernelGrad: k.offset = torch.tensor([0.7, 1.9]).view(2, 1)
    else: k.lengthscale = torch.tensor([0.7, 1.9]).view(2, 1, 1)
    try:
        K = k(x1, x2).to_dense().detach()
        err = (K - ref).abs().max().item() if K.shape == ref.shape else float("inf")
        print(f"{cls.__name__}: shape {tuple(K.shape)} expected {tuple(ref.shape)} max err {err:.2e}")
        bad += err > 1e-8
    except Exception as ex:
        print(f"{cls.__name__}(batch_shape=[2])(x1 {tuple(x1.shape)}, x2 {tuple(x2.shape)}) RAISED {type(ex).__name__}: {str(ex)[:110]}"
              f"   (expected a {tuple(ref.shape)} matrix)")
        bad += 1
print("violations:", bad)
sys.exit(1 if bad else 0)
