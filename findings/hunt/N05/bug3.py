"""Derivative kernels raise when x1 and x2 have different (broadcastable) batch shapes, e.g. batched test points
against one shared training set; the base kernels (RBFKernel, PolynomialKernel) broadcast. Reference: loop over the batch."""
import sys, torch, gpytorch
from gpytorch.kernels import RBFKernel, PolynomialKernel, RBFKernelGrad, Matern52KernelGrad, RBFKernelGradGrad, PolynomialKernelGrad
torch.manual_seed(0); torch.set_default_dtype(torch.float64)
n1, n2, d = 3, 5, 3
xa, xs = torch.randn(2, n1, d), torch.randn(n2, d)
bad = 0
for cls in [RBFKernel, PolynomialKernel, RBFKernelGrad, Matern52KernelGrad, RBFKernelGradGrad, PolynomialKernelGrad]:
    k = cls(power=2) if "Polynomial" in cls.__name__ else cls()
    for a, b, nm in [(xa, xs, "x1 2xn1xd, x2 n2xd"), (xs, xa, "x1 n2xd, x2 2xn1xd")]:
        ref = torch.stack([k(a[i] if a.dim() == 3 else a, b[i] if b.dim() == 3 else b).to_dense().detach() for i in range(2)])
        try:
            K = k(a, b).to_dense().detach()
            err = (K - ref).abs().max().item() if K.shape == ref.shape else float("inf")
            print(f"{cls.__name__:22s} {nm}: max err vs per-batch loop {err:.2e}")
            bad += (err > 1e-8) and cls not in (RBFKernel, PolynomialKernel)
        except Exception as ex:
            print(f"{cls.__name__:22s} {nm}: RAISED {type(ex).__name__}: {str(ex)[:90]}")
            bad += cls not in (RBFKernel, PolynomialKernel)
print("violations:", bad)
sys.exit(1 if bad else 0)
