"""PeriodicKernel(ard_num_dims=None) -- the documented default value passed explicitly -- raises TypeError,
while every other kernel accepts it and it should mean the non-ARD kernel exp(-2 sum_i sin^2(pi (x_i-x'_i)/p) / l)."""
import sys, math, torch, gpytorch
from gpytorch.kernels import PeriodicKernel, RBFKernel, RQKernel, MaternKernel, CosineKernel
torch.manual_seed(0); torch.set_default_dtype(torch.float64)
x1, x2 = torch.randn(3, 2), torch.randn(5, 2)
for cls in [RBFKernel, RQKernel, MaternKernel, CosineKernel]:
    cls(ard_num_dims=None)
print("RBF / RQ / Matern / Cosine accept ard_num_dims=None")
ref_k = PeriodicKernel(); ref_k.lengthscale = 0.8; ref_k.period_length = 1.7
ref = torch.exp(-2 * (torch.sin(math.pi * (x1[:, None] - x2[None]) / 1.7) ** 2 / 0.8).sum(-1))
print("PeriodicKernel() vs formula:", (ref_k(x1, x2).to_dense().detach() - ref).abs().max().item())
try:
    k = PeriodicKernel(ard_num_dims=None); k.lengthscale = 0.8; k.period_length = 1.7
    err = (k(x1, x2).to_dense().detach() - ref).abs().max().item()
    print("PeriodicKernel(ard_num_dims=None) vs formula:", err)
    sys.exit(1 if err > 1e-10 else 0)
except Exception as ex:
    print(f"PeriodicKernel(ard_num_dims=None) RAISED {type(ex).__name__}: {str(ex)[:150]}")
    sys.exit(1)
