"""C10 / indexing: a boolean mask as index of a MultivariateNormal raises, on the event dimension as well as on a
batch dimension, although mean[mask] is an ordinary selection of components (marginal) / batch members."""
import sys
import warnings

import torch

from gpytorch.distributions import MultivariateNormal
from linear_operator import to_linear_operator

warnings.simplefilter("ignore")
torch.manual_seed(0)
torch.set_default_dtype(torch.float64)


def spd(*shape):
    A = torch.randn(*shape, shape[-1])
    return A @ A.transpose(-1, -2) + shape[-1] * torch.eye(shape[-1])


failures = 0


def check(name, dist, idx, ref_mean, ref_cov):
    global failures
    try:
        res = dist[idx]
        err = max((res.mean - ref_mean).abs().max().item(), (res.covariance_matrix - ref_cov).abs().max().item())
        print(f"{name}: ok, max error {err:.2e}")
        if err > 1e-10:
            failures += 1
    except Exception as e:
        failures += 1
        print(f"{name}: RAISED {type(e).__name__}: {str(e)[:110]}")


for lazy in (False, True):
    tag = "lazy" if lazy else "dense"
    # (a) event mask on a non-batch distribution: marginal of components 0, 2, 3
    mean, C = torch.randn(4), spd(4)
    d = MultivariateNormal(mean, to_linear_operator(C) if lazy else C)
    mask = torch.tensor([True, False, True, True])
    sel = mask.nonzero().squeeze(-1)
    check(f"{tag} event mask   d[mask]      ", d, mask, mean[mask], C[sel][:, sel])
    # the same selection written with integer indices works
    check(f"{tag} same as ints d[[0, 2, 3]]  (control)", d, [0, 2, 3], mean[mask], C[sel][:, sel])

    # (b) batch mask on a batch of 3 distributions: members 0 and 2
    mean, C = torch.randn(3, 4), spd(3, 4)
    d = MultivariateNormal(mean, to_linear_operator(C) if lazy else C)
    bmask = torch.tensor([True, False, True])
    check(f"{tag} batch mask   d[bmask]     ", d, bmask, mean[bmask], C[bmask])
    check(f"{tag} batch mask   d[bmask, 1:3]", d, (bmask, slice(1, 3)), mean[bmask, 1:3], C[bmask][:, 1:3, 1:3])
    check(f"{tag} event mask   d[..., mask] ", d, (Ellipsis, mask), mean[..., mask], C[..., sel, :][..., sel])

print("violations:", failures)
sys.exit(1 if failures else 0)
