"""C10 / indexing: an integer index on the event dimension that is not a python int (numpy integer, 0-dim tensor)
gives a distribution with a wrong (non-square, cross-batch) covariance, or raises; the python int gives the right marginal."""
import sys
import warnings

import numpy as np
import torch

from gpytorch.distributions import MultivariateNormal
from linear_operator import to_linear_operator

warnings.simplefilter("ignore")
torch.manual_seed(0)
torch.set_default_dtype(torch.float64)


def spd(*shape):
    A = torch.randn(*shape, shape[-1])
    return A @ A.transpose(-1, -2) + shape[-1] * torch.eye(shape[-1])


failures = 0
for lazy in (False, True):
    for batch in [(3,), (2, 3)]:
        mean, C = torch.randn(*batch, 4), spd(*batch, 4)
        d = MultivariateNormal(mean, to_linear_operator(C) if lazy else C)
        # reference = what the library itself returns for the python int 1: component 1 of every batch member,
        # the members of the last batch dimension become the (independent) event
        ref = d[..., 1]
        ref_mean = mean[..., 1]
        ref_cov = torch.diag_embed(C[..., 1, 1])
        assert torch.allclose(ref.mean, ref_mean) and torch.allclose(ref.covariance_matrix, ref_cov)
        value = torch.randn(*ref_mean.shape)
        ref_lp = torch.distributions.MultivariateNormal(ref_mean, ref_cov).log_prob(value)
        for name, k in [("np.int64(1)", np.int64(1)), ("np.argmax -> np.intp", np.argmax(np.array([0, 5, 1, 2]))),
                        ("torch.tensor(1)", torch.tensor(1))]:
            tag = f"{'lazy ' if lazy else 'dense'} batch {batch} d[..., {name}]"
            try:
                res = d[..., k]
                cov = res.covariance_matrix
                ok = cov.shape == ref_cov.shape and torch.allclose(cov, ref_cov)
                print(f"{tag}: mean {tuple(res.mean.shape)} covariance shape {tuple(cov.shape)} "
                      f"(expected {tuple(ref_cov.shape)}) -> {'ok' if ok else 'WRONG'}")
                if not ok:
                    failures += 1
                    try:
                        lp = res.log_prob(value)
                        print(f"      log_prob {lp.flatten()[:3].tolist()} vs reference {ref_lp.flatten()[:3].tolist()}")
                    except Exception as e:
                        print(f"      log_prob of the returned object raises {type(e).__name__}: {str(e)[:90]}")
            except Exception as e:
                failures += 1
                print(f"{tag}: RAISED {type(e).__name__}: {str(e)[:100]}")

print("violations:", failures)
sys.exit(1 if failures else 0)
