"""C20: two threads, each running a perfectly nested with-block, leave the setting changed for good
(and a thread that is outside all blocks sees the value of another thread's block)."""
import sys
import threading
import warnings

warnings.simplefilter("ignore")
import torch  # noqa: E402
from gpytorch import settings  # noqa: E402

torch.manual_seed(0)
bad = 0

# (a) a thread outside all blocks does not see the documented default
seen = []
with settings.fast_pred_var(True, num_probe_vectors=9):
    t = threading.Thread(target=lambda: seen.append((settings.fast_pred_var.on(), settings.fast_pred_var.num_probe_vectors())))
    t.start()
    t.join()
print("fresh thread, not inside any block, sees fast_pred_var (on, num_probe_vectors) =", seen[0], "expected (False, 1)")
bad += seen[0] != (False, 1)

# (b) deterministic interleaving: T1 enters, T2 enters, T1 exits, T2 exits
for S, v1, v2, read in [
    (settings.max_eager_kernel_size, 5, 7, lambda: settings.max_eager_kernel_size.value()),
    (settings.skip_posterior_variances, True, True, lambda: settings.skip_posterior_variances.on()),
    (settings.min_variance, 0.5, 0.25, lambda: settings.min_variance.value(torch.float)),
]:
    default = read()
    e1, e2, e3 = threading.Event(), threading.Event(), threading.Event()

    def t1():
        with S(v1):
            e1.set()
            e2.wait()
        e3.set()

    def t2():
        e1.wait()
        with S(v2):
            e2.set()
            e3.wait()

    a, b = threading.Thread(target=t1), threading.Thread(target=t2)
    a.start(), b.start()
    a.join(), b.join()
    after = read()
    print(f"{S.__name__}: default {default!r}; after both threads have left their blocks: {after!r}")
    bad += after != default

sys.exit(1 if bad else 0)
