"""C20: a nested deterministic_probes block does not restore the probe_vectors field of the enclosing block:
the enclosing block stops being deterministic."""
import sys
import warnings

warnings.simplefilter("ignore")
import torch  # noqa: E402
from gpytorch import settings  # noqa: E402
from linear_operator import to_linear_operator  # noqa: E402

torch.manual_seed(0)
n = 50
A = torch.randn(n, n, dtype=torch.float64)
K = A @ A.T + n * torch.eye(n, dtype=torch.float64)


def logdet():
    with settings.max_cholesky_size(0), settings.fast_computations(log_prob=True):
        return to_linear_operator(K).logdet().item()


with settings.deterministic_probes(True):
    a = logdet()
    b = logdet()
    pv_before = settings.deterministic_probes.probe_vectors
    with settings.deterministic_probes(True):  # nested block with the same value: should be a no-op after exit
        pass
    pv_after = settings.deterministic_probes.probe_vectors
    c = logdet()

print("exact logdet                         ", torch.logdet(K).item())
print("stochastic logdet, 1st call in block ", a)
print("stochastic logdet, 2nd call in block ", b, "(same probes: diff", abs(a - b), ")")
print("after a nested deterministic_probes  ", c, "(diff to 1st", abs(a - c), ")")
print("probe_vectors field before nested block is None:", pv_before is None, "; after nested block is None:", pv_after is None)
bad = (pv_before is not None and pv_after is None) or abs(a - c) > 1e-8
sys.exit(1 if bad and abs(a - b) < 1e-10 else 0)
