#!/usr/bin/env python3
"""
C02 bug 2: LeaveOneOutPseudoLikelihood on a multitask exact GP (MultitaskKernel + MultitaskGaussianLikelihood,
the Kronecker multitask model of the examples) does not return the average leave-one-out predictive log density.

LeaveOneOutPseudoLikelihood.forward works on `output.mean` / `target`, which for a MultitaskMultivariateNormal are
n x t matrices, while the Cholesky factor belongs to the flattened (n t) x (n t) covariance. The solve
`L._cholesky_solve((target - m).unsqueeze(-1))` therefore gets an `n x t x 1` right-hand side for an `nt x nt` matrix
and raises; `num_data = target.size(-1)` would be the number of tasks instead of the number of observations.
ExactMarginalLogLikelihood accepts the very same model / likelihood / output and is correct.

Reference: explicit leave-one-out predictive densities log N(y_i | mu_i, s_i^2), each obtained by conditioning the
dense joint Gaussian N(m, K + S) of all n*t observations on the other n*t - 1 observations (RW eq. 5.10-5.12).
"""
import sys
import warnings

import torch

import gpytorch
from gpytorch.distributions import MultitaskMultivariateNormal

warnings.simplefilter("ignore")
torch.manual_seed(0)
torch.set_default_dtype(torch.float64)

n, T = 5, 3


class MultitaskGP(gpytorch.models.ExactGP):
    def __init__(self, x, y, likelihood):
        super().__init__(x, y, likelihood)
        self.mean_module = gpytorch.means.MultitaskMean(gpytorch.means.ConstantMean(), num_tasks=T)
        self.covar_module = gpytorch.kernels.MultitaskKernel(gpytorch.kernels.RBFKernel(), num_tasks=T, rank=1)

    def forward(self, x):
        return MultitaskMultivariateNormal(self.mean_module(x), self.covar_module(x))


x = torch.randn(n, 2)
y = torch.randn(n, T)
likelihood = gpytorch.likelihoods.MultitaskGaussianLikelihood(num_tasks=T)
model = MultitaskGP(x, y, likelihood)
with torch.no_grad():
    for p in model.parameters():
        p.copy_(torch.randn_like(p) * 0.5)
model.train()

# dense joint of all observations (point-major flattening, the layout of MultitaskKernel)
marginal = likelihood(model(x))
m = marginal.loc.detach()
C = marginal.covariance_matrix.detach()
yf = y.reshape(-1)
N = n * T
total = 0.0
for i in range(N):
    rest = torch.arange(N) != i
    Coo, Cio = C[rest][:, rest], C[i, rest]
    mu_i = m[i] + Cio @ torch.linalg.solve(Coo, yf[rest] - m[rest])
    var_i = C[i, i] - Cio @ torch.linalg.solve(Coo, Cio)
    total = total + torch.distributions.Normal(mu_i, var_i.sqrt()).log_prob(yf[i])
ref = total / N
print(f"explicit leave-one-out average log density over the {N} observations: {ref.item():+.10f}")

# sanity: the exact MLL of the same objects works and equals the dense value
mll = gpytorch.mlls.ExactMarginalLogLikelihood(likelihood, model)
mll_val = mll(model(x), y)
mll_ref = torch.distributions.MultivariateNormal(m, C).log_prob(yf) / N
print(f"ExactMarginalLogLikelihood: {mll_val.item():+.10f}  dense: {mll_ref.item():+.10f}")

loo = gpytorch.mlls.LeaveOneOutPseudoLikelihood(likelihood, model)
try:
    val = loo(model(x), y)
except Exception as e:  # noqa: BLE001
    print(f"LeaveOneOutPseudoLikelihood raised {type(e).__name__}: {e}")
    print("VIOLATION: the leave-one-out objective cannot be evaluated for a multitask Gaussian model")
    sys.exit(1)

print(f"LeaveOneOutPseudoLikelihood: {val}")
if val.shape != ref.shape or (val - ref).abs().max().item() > 1e-8:
    print("VIOLATION: the leave-one-out objective differs from the explicit leave-one-out densities")
    sys.exit(1)
sys.exit(0)
