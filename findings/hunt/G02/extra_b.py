#!/usr/bin/env python3
"""
C02 extra B: the prior closure of MultitaskGaussianLikelihood(rank>0, task_prior=...) (`_eval_covar_matrix`)
 (a) reads `self.noise` unconditionally, so with has_global_noise=False the exact MLL raises AttributeError;
 (b) builds the global-noise part as `noise * torch.eye(num_tasks)` with `noise` of shape `*batch x 1`, which aligns the
     likelihood's batch dimension with the task dimension: for batch_shape=(b,) it raises when b != num_tasks and silently
     evaluates the prior at the wrong matrices (F F^T + diag_i(noise_i) instead of F_b F_b^T + noise_b I) when b == num_tasks.
Reference: the task noise covariance F F^T + sigma^2 I that the likelihood itself adds to the covariance.
"""
import sys
import warnings

import torch

import gpytorch
from gpytorch.distributions import MultitaskMultivariateNormal
from gpytorch.priors import GammaPrior, LKJCovariancePrior

warnings.simplefilter("ignore")
torch.manual_seed(0)
torch.set_default_dtype(torch.float64)
n, T = 4, 3
bad = False


class MultitaskGP(gpytorch.models.ExactGP):
    def __init__(self, x, y, likelihood, bs):
        super().__init__(x, y, likelihood)
        self.mean_module = gpytorch.means.MultitaskMean(gpytorch.means.ConstantMean(batch_shape=bs), num_tasks=T)
        self.covar_module = gpytorch.kernels.MultitaskKernel(
            gpytorch.kernels.RBFKernel(batch_shape=bs), num_tasks=T, rank=1, batch_shape=bs
        )

    def forward(self, x):
        return MultitaskMultivariateNormal(self.mean_module(x), self.covar_module(x))


x = torch.randn(n, 2)
for bs, gn in [((), False), ((2,), True), ((3,), True)]:
    bs = torch.Size(bs)
    y = torch.randn(*bs, n, T)
    likelihood = gpytorch.likelihoods.MultitaskGaussianLikelihood(
        num_tasks=T, rank=T, batch_shape=bs, has_global_noise=gn, task_prior=LKJCovariancePrior(T, 2.0, GammaPrior(2.0, 3.0))
    )
    model = MultitaskGP(x, y, likelihood, bs)
    with torch.no_grad():
        for p in model.parameters():
            p.copy_(torch.randn_like(p) * 0.5)
    model.train()
    mll = gpytorch.mlls.ExactMarginalLogLikelihood(likelihood, model)
    try:
        val = mll(model(x), y)
    except Exception as e:  # noqa: BLE001
        print(f"batch_shape={tuple(bs)} has_global_noise={gn}: MLL raised {type(e).__name__}: {str(e)[:110]}")
        bad = True
        continue
    F = likelihood.task_noise_covar_factor
    true_cov = F @ F.mT + likelihood.noise.unsqueeze(-1) * torch.eye(T)
    used = likelihood._eval_covar_matrix()
    err = (used - true_cov).abs().max().item()
    print(f"batch_shape={tuple(bs)} has_global_noise={gn}: MLL={val.tolist()}  |prior argument - (FF^T + s2 I)|={err:.3e}")
    bad = bad or err > 1e-8
if bad:
    print("VIOLATION: task_prior of MultitaskGaussianLikelihood is evaluated on the wrong matrix / raises")
    sys.exit(1)
sys.exit(0)
