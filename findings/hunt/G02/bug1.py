#!/usr/bin/env python3
"""
C02 bug 1: ExactMarginalLogLikelihood under observation_nan_policy("mask") with a NON-INTERLEAVED
MultitaskMultivariateNormal (interleaved=False, covariance stored task-major).

The mask branch of ExactMarginalLogLikelihood.forward flattens mean / target / mask point-major (row-major over the
n x t event) but applies that mask to the task-major covariance, so rows/columns of the covariance are paired with
the wrong mean / target entries. The value differs from the dense log N(y_obs; m_obs, (K+S)_obs,obs) / #observed
(with NaNs present, and even when nothing is missing at all).

Reference: dense torch.distributions.MultivariateNormal on the observed entries; the same model in the interleaved
layout (which is correct) is printed as a cross-check.
"""
import sys
import warnings

import torch

import gpytorch
from gpytorch.distributions import MultitaskMultivariateNormal
from linear_operator.operators import KroneckerProductLinearOperator

warnings.simplefilter("ignore")
torch.manual_seed(0)
torch.set_default_dtype(torch.float64)

n, T = 5, 3


class MultitaskGP(gpytorch.models.ExactGP):
    def __init__(self, x, y, likelihood, interleaved):
        super().__init__(x, y, likelihood)
        self.mean_module = gpytorch.means.MultitaskMean(gpytorch.means.ConstantMean(), num_tasks=T)
        self.data_covar = gpytorch.kernels.RBFKernel()
        self.task_covar = gpytorch.kernels.IndexKernel(num_tasks=T, rank=1)
        self.interleaved = interleaved

    def forward(self, x):
        mean = self.mean_module(x)  # n x T
        Kx, Kt = self.data_covar(x), self.task_covar.covar_matrix
        if self.interleaved:
            covar = KroneckerProductLinearOperator(Kx, Kt)  # point-major
        else:
            covar = KroneckerProductLinearOperator(Kt, Kx)  # task-major
        return MultitaskMultivariateNormal(mean, covar, interleaved=self.interleaved)


x = torch.randn(n, 2)
y_full = torch.randn(n, T)
y_nan = y_full.clone()
y_nan[1, 0] = float("nan")
y_nan[3, 2] = float("nan")
y_nan[4, 1] = float("nan")

state = None
worst = 0.0
for y, label in [(y_nan, "3 NaNs"), (y_full, "no NaN")]:
    for interleaved in [True, False]:
        likelihood = gpytorch.likelihoods.MultitaskGaussianLikelihood(num_tasks=T, rank=0)
        model = MultitaskGP(x, y, likelihood, interleaved)
        if state is None:
            with torch.no_grad():
                for p in model.parameters():
                    p.copy_(torch.randn_like(p) * 0.5)
            state = model.state_dict()
        model.load_state_dict(state)
        model.train()
        mll = gpytorch.mlls.ExactMarginalLogLikelihood(likelihood, model)

        # dense reference (point-major flattening)
        Kx = model.data_covar(x).to_dense()
        Kt = model.task_covar.covar_matrix.to_dense()
        mean = model.mean_module(x).reshape(-1)
        D = torch.diag(likelihood.task_noises) + likelihood.noise * torch.eye(T)
        C = torch.kron(Kx, Kt) + torch.kron(torch.eye(n), D)
        obs = ~torch.isnan(y).reshape(-1)
        ref = torch.distributions.MultivariateNormal(mean[obs], C[obs][:, obs]).log_prob(y.reshape(-1)[obs]) / obs.sum()

        with gpytorch.settings.observation_nan_policy("mask"):
            val = mll(model(x), y)
        err = (val - ref).abs().item()
        print(f"{label:7s} interleaved={interleaved!s:5s}  mll={val.item():+.10f}  dense={ref.item():+.10f}  |diff|={err:.3e}")
        if not interleaved:
            worst = max(worst, err)

print(f"largest discrepancy for the non-interleaved layout: {worst:.3e}")
if worst > 1e-8:
    print("VIOLATION: masked exact MLL of a non-interleaved multitask model differs from the dense definition")
    sys.exit(1)
sys.exit(0)
