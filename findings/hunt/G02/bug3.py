#!/usr/bin/env python3
"""
C02 bug 3: an LKJCovariancePrior with a scalar sd_prior (the documented usage: "sd_prior is a scalar Prior ... which
is used for each of the n marginal standard deviations") is counted wrongly by ExactMarginalLogLikelihood: the
log density of the LKJ correlation prior enters the objective n times instead of once.

LKJCovariancePrior.log_prob returns `log_prob_corr + log_prob_sd` where log_prob_corr has the batch shape of the matrix
(a scalar here) but log_prob_sd has one entry per marginal standard deviation (shape [n]). The result is an n-vector
whose every entry contains the correlation term, and ExactMarginalLogLikelihood._add_other_terms sums all entries of
prior.log_prob(...). The prior term of the MLL becomes  n * log LKJ(R) + sum_i log p(sd_i)  instead of
log LKJ(R) + sum_i log p(sd_i).

Reference: dense log N(y; m, K + S) + log LKJCholesky(chol(R)) + sum_i log Gamma(sd_i), all divided by the number of
observations, with torch's own distributions; gradients w.r.t. the raw task-covariance parameters are compared too.
"""
import sys
import warnings

import torch

import gpytorch
from gpytorch.distributions import MultitaskMultivariateNormal
from gpytorch.priors import GammaPrior, LKJCovariancePrior

warnings.simplefilter("ignore")
torch.manual_seed(0)
torch.set_default_dtype(torch.float64)

n, T, eta = 5, 3, 3.0


class MultitaskGP(gpytorch.models.ExactGP):
    def __init__(self, x, y, likelihood):
        super().__init__(x, y, likelihood)
        self.mean_module = gpytorch.means.MultitaskMean(gpytorch.means.ConstantMean(), num_tasks=T)
        self.covar_module = gpytorch.kernels.MultitaskKernel(
            gpytorch.kernels.RBFKernel(),
            num_tasks=T,
            rank=2,
            task_covar_prior=LKJCovariancePrior(T, eta, GammaPrior(2.0, 3.0)),
        )

    def forward(self, x):
        return MultitaskMultivariateNormal(self.mean_module(x), self.covar_module(x))


x = torch.randn(n, 2)
y = torch.randn(n, T)
likelihood = gpytorch.likelihoods.MultitaskGaussianLikelihood(num_tasks=T)
model = MultitaskGP(x, y, likelihood)
with torch.no_grad():
    for p in model.parameters():
        p.copy_(torch.randn_like(p) * 0.5)
model.train()

priors = list(model.named_priors())
print("registered priors:", [name for name, *_ in priors])
assert len(priors) == 1

mll = gpytorch.mlls.ExactMarginalLogLikelihood(likelihood, model)
val = mll(model(x), y)

# dense definition
B = model.covar_module.task_covar_module.covar_matrix.to_dense()  # task covariance, the argument of the prior
sd = B.diagonal().sqrt()
R = B / sd[:, None] / sd[None, :]
lp_corr = torch.distributions.LKJCholesky(T, eta).log_prob(torch.linalg.cholesky(R))
lp_sd = torch.distributions.Gamma(2.0, 3.0).log_prob(sd).sum()
Kx = model.covar_module.data_covar_module(x).to_dense()
D = torch.diag(likelihood.task_noises) + likelihood.noise * torch.eye(T)
C = torch.kron(Kx, B) + torch.kron(torch.eye(n), D)
loglik = torch.distributions.MultivariateNormal(model.mean_module(x).reshape(-1), C).log_prob(y.reshape(-1))
ref = (loglik + lp_corr + lp_sd) / (n * T)

task_params = list(model.covar_module.task_covar_module.parameters())
g_val = torch.autograd.grad(val, task_params)
g_ref = torch.autograd.grad(ref, task_params)
gdiff = max((a - b).abs().max().item() for a, b in zip(g_val, g_ref))

diff = (val - ref).item()
print(f"log LKJ(R) = {lp_corr.item():+.8f}   sum_i log Gamma(sd_i) = {lp_sd.item():+.8f}   log N = {loglik.item():+.8f}")
print(f"ExactMarginalLogLikelihood = {val.item():+.10f}")
print(f"dense definition           = {ref.item():+.10f}")
print(f"difference                 = {diff:+.3e}   ((T-1) * log LKJ(R) / (n T) = {((T - 1) * lp_corr / (n * T)).item():+.3e})")
print(f"max gradient difference w.r.t. the task covariance parameters = {gdiff:.3e}")
print(f"shape of LKJCovariancePrior.log_prob(B) for one {T}x{T} matrix: {tuple(priors[0][2].log_prob(B).shape)}")

if abs(diff) > 1e-8 or gdiff > 1e-8:
    print("VIOLATION: the LKJ correlation log density is counted n times in the exact MLL")
    sys.exit(1)
sys.exit(0)
