#!/usr/bin/env python3
"""
C02 extra A: exact MLL with MultitaskGaussianLikelihood(rank>0, has_global_noise=False) on a Kronecker multitask model.

The noise covariance is I_n (x) F F^T with an n_tasks x rank factor F, which is singular for rank < num_tasks, although
K + S is positive definite. MultitaskGaussianLikelihood.marginal deliberately keeps the Kronecker structure ("ensure that
sumKroneckerLT is actually called"), and the SumKroneckerLinearOperator it produces evaluates logdet / solves through the
inverse root of the *second* summand, i.e. of the singular noise. With nt = 15 << max_cholesky_size the objective should be
exact, yet it is off by ~0.4-0.8 per observation; fast_computations(log_prob=False) gives the dense value.
"""
import sys
import warnings

import torch

import gpytorch
from gpytorch.distributions import MultitaskMultivariateNormal

warnings.simplefilter("ignore")
torch.manual_seed(0)
torch.set_default_dtype(torch.float64)
n, T = 5, 3


class MultitaskGP(gpytorch.models.ExactGP):
    def __init__(self, x, y, likelihood):
        super().__init__(x, y, likelihood)
        self.mean_module = gpytorch.means.MultitaskMean(gpytorch.means.ConstantMean(), num_tasks=T)
        self.covar_module = gpytorch.kernels.MultitaskKernel(gpytorch.kernels.RBFKernel(), num_tasks=T, rank=1)

    def forward(self, x):
        return MultitaskMultivariateNormal(self.mean_module(x), self.covar_module(x))


x = torch.randn(n, 2)
y = torch.randn(n, T)
worst = 0.0
for rank in [1, 2]:
    torch.manual_seed(rank)
    likelihood = gpytorch.likelihoods.MultitaskGaussianLikelihood(num_tasks=T, rank=rank, has_global_noise=False)
    model = MultitaskGP(x, y, likelihood)
    with torch.no_grad():
        for p in model.parameters():
            p.copy_(torch.randn_like(p) * 0.5)
    model.train()
    mll = gpytorch.mlls.ExactMarginalLogLikelihood(likelihood, model)
    val = mll(model(x), y)
    with gpytorch.settings.fast_computations(log_prob=False):
        val_slow = mll(model(x), y)
    Kx = model.covar_module.data_covar_module(x).to_dense()
    B = model.covar_module.task_covar_module.covar_matrix.to_dense()
    F = likelihood.task_noise_covar_factor
    C = torch.kron(Kx, B) + torch.kron(torch.eye(n), F @ F.T)
    ref = torch.distributions.MultivariateNormal(model.mean_module(x).reshape(-1), C).log_prob(y.reshape(-1)) / (n * T)
    print(
        f"rank={rank}: min eig(K+S)={torch.linalg.eigvalsh(C).min().item():.3e}  mll={val.item():+.8f}  "
        f"mll(log_prob fast off)={val_slow.item():+.8f}  dense={ref.item():+.8f}  |diff|={(val - ref).abs().item():.3e}"
    )
    worst = max(worst, (val - ref).abs().item())
if worst > 1e-6:
    print("VIOLATION: exact MLL differs from the dense definition for a low-rank task noise without global noise")
    sys.exit(1)
sys.exit(0)
