# Regression review of commit bf83f69 (SoftmaxLikelihood._draw_likelihood_samples).
# The `sample_shape` keyword of _draw_likelihood_samples is cut relative to the batch shape of the distribution:
# sample_shape[: -len(batch_shape) - 1].  The override converts the caller's batch MVN (batch t, event n) into a
# MultitaskMVN (batch (), event n x t) *before* handing over, so the caller's shape (S x t x n) is cut one dimension
# too late: S x t samples are drawn and expected_log_prob returns t x n instead of n values.
import sys
import warnings

import torch

from gpytorch.distributions import MultivariateNormal
from gpytorch.likelihoods import SoftmaxLikelihood

warnings.simplefilter("ignore")
torch.manual_seed(0)
t, n, C = 3, 5, 4
dist = MultivariateNormal(torch.randn(t, n), torch.eye(n).expand(t, n, n) * 1e-6)
lik = SoftmaxLikelihood(num_features=t, num_classes=C)
y = torch.randint(0, C, (n,))
failed = False
for train in (True, False):
    lik.train(train)
    ref = lik.expected_log_prob(y, dist)
    res = lik.expected_log_prob(y, dist, sample_shape=torch.Size([7, t, n]))
    same = res.shape == ref.shape and torch.allclose(res, ref, atol=1e-2)
    print(f"train={train}: without sample_shape {tuple(ref.shape)}, with sample_shape=(7,{t},{n}) {tuple(res.shape)}, agree {same}")
    failed |= not same
print("PROBLEM PRESENT" if failed else "ok")
sys.exit(1 if failed else 0)
