# Regression review of commit bf83f69 (and of e32f1a1, which it follows up).
# A batch MultivariateNormal in the *documented* layout - batch num_data, event num_features (one MVN over the
# features per point) - went through expected_log_prob / log_marginal untouched before the commit: forward saw
# num_data x num_features, no warning (that is the case e32f1a1 protects).  Now it is first re-interpreted as
# tasks x data; for num_data != num_features forward transposes it back and emits a DeprecationWarning (an error under
# -W error), and for num_data == num_features nothing transposes it back: the class probabilities are those of the
# transposed input - the silent transposition e32f1a1 removed is back for this input.
import sys
import warnings

import torch

from gpytorch.distributions import MultivariateNormal
from gpytorch.likelihoods import SoftmaxLikelihood

torch.manual_seed(0)
C = 4
lik = SoftmaxLikelihood(num_classes=C, mixing_weights=False)
failed = False
for n in (6, C):
    mean = torch.arange(n * C, dtype=torch.float).reshape(n, C) ** 1.5 / 5
    dist = MultivariateNormal(mean, torch.eye(C).expand(n, C, C) * 1e-8)
    y = torch.arange(n) % C
    ref = torch.distributions.Categorical(logits=mean).log_prob(y)
    for train in (True, False):
        lik.train(train)
        with warnings.catch_warnings(record=True) as ws:
            warnings.simplefilter("always")
            res = lik.expected_log_prob(y, dist)
        dep = [w for w in ws if issubclass(w.category, DeprecationWarning)]
        err = float((res - ref).abs().max())
        print(f"num_data={n} num_features={C} train={train}: max err vs. Categorical(logits=mean) {err:.3f}, "
              f"DeprecationWarnings {len(dep)}")
        failed |= err > 1e-2 or len(dep) > 0
print("PROBLEM PRESENT" if failed else "ok")
sys.exit(1 if failed else 0)
