# Regression review of commit 396bf1f (LikelihoodList.get_fantasy_likelihood returns a copy of the list).
# The new code calls deepcopy(self) on the whole list *including* its members.  FixedNoiseGaussianLikelihood
# .get_fantasy_likelihood deliberately takes its noise_covar out before copying itself, so that a noise tensor
# that carries an autograd graph (noise = f(parameter), or the fantasy noise of an earlier round) is never
# deep-copied.  The list-level deepcopy undoes that: RuntimeError "Only Tensors created explicitly by the user
# (graph leaves) support the deepcopy protocol".  The code before the commit (self.__class__(*members)) worked.
import sys
import warnings

import torch

from gpytorch.likelihoods import FixedNoiseGaussianLikelihood, GaussianLikelihood, LikelihoodList

warnings.simplefilter("ignore")
torch.manual_seed(0)
failed = False

# history 1: fixed noise computed from a parameter (non-leaf, requires grad)
p = torch.nn.Parameter(torch.zeros(5))
member = FixedNoiseGaussianLikelihood(noise=p.exp() * 0.1)
lst = LikelihoodList(GaussianLikelihood(), member)
new_noise = torch.full((2,), 0.2)
alone = member.get_fantasy_likelihood(noise=new_noise)
print("member alone          :", tuple(alone.noise.shape), "requires_grad", alone.noise.requires_grad)
try:
    fant = lst.get_fantasy_likelihood(noise=[None, new_noise])
    print("through LikelihoodList:", tuple(fant.likelihoods[1].noise.shape))
except RuntimeError as e:
    print("through LikelihoodList: RuntimeError:", str(e)[:90])
    failed = True

# history 2: two fantasy rounds, the fantasy noise of round 1 carries a graph
member = FixedNoiseGaussianLikelihood(noise=torch.full((5,), 0.1))
lst = LikelihoodList(GaussianLikelihood(), member)
round1 = lst.get_fantasy_likelihood(noise=[None, p[:2].exp() * 0.2])
print("round 1               :", tuple(round1.likelihoods[1].noise.shape))
try:
    round2 = round1.get_fantasy_likelihood(noise=[None, p[:3].exp() * 0.3])
    print("round 2               :", tuple(round2.likelihoods[1].noise.shape))
except RuntimeError as e:
    print("round 2               : RuntimeError:", str(e)[:90])
    failed = True

print("PROBLEM PRESENT" if failed else "ok")
sys.exit(1 if failed else 0)
