# Regression review of commit 396bf1f (LikelihoodList.get_fantasy_likelihood): incomplete repair.
# The commit keeps "members that are one object" tied - but only in the branch without a noise list.  With a
# per-member noise list (needed as soon as one member is a FixedNoiseGaussianLikelihood) a likelihood that
# appears twice in the list (entries None for it) is still copied twice, so the fantasy list has untied members
# and one parameter more than the original - the defect named in the commit message, on the sibling branch.
import sys
import warnings

import torch

from gpytorch.likelihoods import FixedNoiseGaussianLikelihood, GaussianLikelihood, LikelihoodList

warnings.simplefilter("ignore")
g = GaussianLikelihood()
fixed = FixedNoiseGaussianLikelihood(noise=torch.full((5,), 0.1))

no_noise = LikelihoodList(g, g).get_fantasy_likelihood()
tied_a = no_noise.likelihoods[0] is no_noise.likelihoods[1]
print("no noise list   : tied", tied_a, "| parameters", len(list(no_noise.parameters())))

lst = LikelihoodList(g, g, fixed)
fant = lst.get_fantasy_likelihood(noise=[None, None, torch.full((2,), 0.2)])
tied_b = fant.likelihoods[0] is fant.likelihoods[1]
n_orig, n_fant = len(list(lst.parameters())), len(list(fant.parameters()))
print("with noise list : tied", tied_b, "| parameters original", n_orig, "fantasy", n_fant)

bad = tied_a and not (tied_b and n_orig == n_fant)
print("PROBLEM PRESENT" if bad else "ok")
sys.exit(1 if bad else 0)
