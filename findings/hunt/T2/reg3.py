# Regression review of commit bf83f69 (SoftmaxLikelihood._draw_likelihood_samples converts every
# non-MultitaskMultivariateNormal with from_batch_mvn).
# expected_log_prob / log_marginal / marginal are typed `function_dist: Distribution` and the base class only needs
# .mean/.variance (training) or .rsample (eval).  Before the commit they accepted
#   (a) any torch Distribution in the documented num_data x num_features layout (e.g. Independent(Normal)),
#   (b) a MultivariateNormal without batch dimension over the features of one point;
# now (a) raises AttributeError (no lazy_covariance_matrix) and (b) raises ValueError (task_dim of -1 ...).
import sys
import warnings

import torch

from gpytorch.distributions import MultivariateNormal
from gpytorch.likelihoods import SoftmaxLikelihood

warnings.simplefilter("ignore")
torch.manual_seed(0)
C, n = 4, 5
lik = SoftmaxLikelihood(num_classes=C, mixing_weights=False)
mean = torch.arange(n * C, dtype=torch.float).reshape(n, C) / 3
y = torch.arange(n) % C
ref = torch.distributions.Categorical(logits=mean).log_prob(y)
failed = False
for train in (True, False):
    lik.train(train)
    dist = torch.distributions.Independent(torch.distributions.Normal(mean, torch.full_like(mean, 1e-4)), 1)
    for name in ("expected_log_prob", "log_marginal"):
        try:
            res = getattr(lik, name)(y, dist)
            print(f"train={train} {name}(Independent Normal): max err {float((res - ref).abs().max()):.2e}")
            failed |= not torch.allclose(res, ref, atol=1e-2)
        except Exception as e:
            print(f"train={train} {name}(Independent Normal): {type(e).__name__}: {str(e)[:70]}")
            failed = True
    one_point = MultivariateNormal(mean[0], torch.eye(C) * 1e-8)
    try:
        res = lik.expected_log_prob(y[0], one_point)
        print(f"train={train} expected_log_prob(non-batch MVN over features): err {float((res - ref[0]).abs()):.2e}")
    except Exception as e:
        print(f"train={train} expected_log_prob(non-batch MVN over features): {type(e).__name__}: {str(e)[:70]}")
        failed = True
print("PROBLEM PRESENT" if failed else "ok")
sys.exit(1 if failed else 0)
