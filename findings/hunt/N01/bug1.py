"""C01 violation: exact GP whose batch shape has a singleton in position 1 of three batch dims, e.g. (2, 1, 3).
DefaultPredictionStrategy.exact_predictive_mean squeezes dim 1 of any 4-dimensional mean cache, so the
batch dims of the cache no longer line up with those of K_{*x}: the posterior comes back with batch shape
(2, 2, 3) and entries that mix the data of different batch members."""
import sys, warnings
import torch, gpytorch
warnings.filterwarnings("ignore")
torch.set_default_dtype(torch.float64)
torch.manual_seed(0)

class GP(gpytorch.models.ExactGP):
    def __init__(self, x, y, lik):
        super().__init__(x, y, lik)
        self.mean_module = gpytorch.means.ConstantMean()
        self.covar_module = gpytorch.kernels.ScaleKernel(gpytorch.kernels.RBFKernel())
    def forward(self, x):
        return gpytorch.distributions.MultivariateNormal(self.mean_module(x), self.covar_module(x))

B = (2, 1, 3); n, m, d = 6, 4, 2
x = torch.randn(*B, n, d); y = torch.randn(*B, n); t = torch.randn(*B, m, d)
lik = gpytorch.likelihoods.GaussianLikelihood(); lik.noise = 0.25
model = GP(x, y, lik); model.eval(); lik.eval()

with torch.no_grad():
    out = model(t)
    mean = out.mean
    # closed-form conditional of the model's own prior
    with gpytorch.settings.lazily_evaluate_kernels(False):
        K = model.covar_module
        Kxx, Ktx, Ktt = K(x).to_dense(), K(t, x).to_dense(), K(t).to_dense()
    A = Kxx + lik.noise * torch.eye(n)
    mx, mt = model.mean_module(x), model.mean_module(t)
    ref_mean = mt + (Ktx @ torch.linalg.solve(A, (y - mx).unsqueeze(-1))).squeeze(-1)
    ref_cov = Ktt - Ktx @ torch.linalg.solve(A, Ktx.transpose(-1, -2))

print("batch shape of the model            :", B)
print("reference posterior mean shape      :", tuple(ref_mean.shape))
print("model(test_x).mean shape            :", tuple(mean.shape))
bad = tuple(mean.shape) != tuple(ref_mean.shape)
try:
    err = (mean - ref_mean).abs().max().item()
    print("max |mean - reference| (broadcast)  : %.3e" % err)
    bad = bad or err > 1e-8
except RuntimeError as e:
    print("not even broadcastable:", e); bad = True
# control: the same data with batch shape (2, 3) is fine
model2 = GP(x.squeeze(1), y.squeeze(1), lik); model2.eval()
with torch.no_grad():
    err2 = (model2(t.squeeze(1)).mean - ref_mean.squeeze(1)).abs().max().item()
print("control, batch shape (2, 3): max err  : %.3e" % err2)
print("VIOLATION" if bad else "ok")
sys.exit(1 if bad else 0)
