"""C01 violation: ExactGP with ScaleKernel(RFFKernel(...), batch_shape=[3]) (a batch of output scales over one shared,
un-batched random-feature kernel).  The (3,1,1) scale times an un-batched RootLinearOperator is not a ConstantMulLinearOperator
but a dense operator, and RFFPredictionStrategy.exact_predictive_covar then asks it for `.root`: model(test_x) raises
AttributeError on the default (lazy) path.  With lazily_evaluate_kernels(False) the same model returns the closed-form conditional."""
import sys, warnings
import torch, gpytorch
warnings.filterwarnings("ignore")
torch.set_default_dtype(torch.float64)
torch.manual_seed(0)

class GP(gpytorch.models.ExactGP):
    def __init__(self, x, y, lik):
        super().__init__(x, y, lik)
        self.mean_module = gpytorch.means.ConstantMean()
        self.covar_module = gpytorch.kernels.ScaleKernel(gpytorch.kernels.RFFKernel(num_samples=5, num_dims=2), batch_shape=torch.Size([3]))
        self.covar_module.outputscale = torch.tensor([0.5, 1.0, 2.0])
    def forward(self, x):
        return gpytorch.distributions.MultivariateNormal(self.mean_module(x), self.covar_module(x))

n, m = 6, 4
x = torch.randn(n, 2); y = torch.randn(n); t = torch.randn(m, 2)
lik = gpytorch.likelihoods.GaussianLikelihood(); lik.noise = 0.25
model = GP(x, y, lik); model.eval(); lik.eval()

with torch.no_grad():
    with gpytorch.settings.lazily_evaluate_kernels(False):
        K = model.covar_module
        Kxx, Ktx, Ktt = K(x).to_dense(), K(t, x).to_dense(), K(t).to_dense()     # each 3 x . x .
    A = Kxx + lik.noise * torch.eye(n)
    mx, mt = model.mean_module(x), model.mean_module(t)
    ref_mean = mt + (Ktx @ torch.linalg.solve(A, (y - mx).unsqueeze(-1).expand(3, n, 1))).squeeze(-1)
    ref_cov = Ktt - Ktx @ torch.linalg.solve(A, Ktx.transpose(-1, -2))

    with gpytorch.settings.lazily_evaluate_kernels(False):
        o = model(t)
        print("eager kernels: mean err %.2e, cov err %.2e" % ((o.mean - ref_mean).abs().max(), (o.covariance_matrix - ref_cov).abs().max()))
    model.train(); model.eval()
    bad = False
    try:
        o = model(t)   # default settings
        em, ec = (o.mean - ref_mean).abs().max().item(), (o.covariance_matrix - ref_cov).abs().max().item()
        print("lazy kernels : mean err %.2e, cov err %.2e" % (em, ec))
        bad = em > 1e-6 or ec > 1e-6
    except Exception as e:
        print("lazy kernels : model(test_x) raised %s: %s" % (type(e).__name__, e)); bad = True
print("VIOLATION" if bad else "ok")
sys.exit(1 if bad else 0)
