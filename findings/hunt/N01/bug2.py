"""C01 violation: ExactGP with ScaleKernel(InducingPointKernel(...)).  ScaleKernel forwards .prediction_strategy to its
base kernel, so the model gets an SGPRPredictionStrategy, whose exact_predictive_covar cannot handle the
ConstantMulLinearOperator that ScaleKernel produces: model(test_x) raises ValueError ('This is likely a bug in GPyTorch')
on the default (lazy) path, while with lazily_evaluate_kernels(False) the same model predicts the closed-form conditional."""
import sys, warnings
import torch, gpytorch
warnings.filterwarnings("ignore")
torch.set_default_dtype(torch.float64)
torch.manual_seed(0)

class GP(gpytorch.models.ExactGP):
    def __init__(self, x, y, lik):
        super().__init__(x, y, lik)
        self.mean_module = gpytorch.means.ConstantMean()
        ipk = gpytorch.kernels.InducingPointKernel(gpytorch.kernels.RBFKernel(), inducing_points=torch.rand(4, 2), likelihood=lik)
        self.covar_module = gpytorch.kernels.ScaleKernel(ipk)
        self.covar_module.outputscale = 2.0
    def forward(self, x):
        return gpytorch.distributions.MultivariateNormal(self.mean_module(x), self.covar_module(x))

n, m = 12, 5
x = torch.rand(n, 2); y = torch.randn(n); t = torch.rand(m, 2)
lik = gpytorch.likelihoods.GaussianLikelihood(); lik.noise = 0.25
model = GP(x, y, lik); model.eval(); lik.eval()

with torch.no_grad(), gpytorch.settings.sgpr_diagonal_correction(False):
    with gpytorch.settings.lazily_evaluate_kernels(False):
        K = model.covar_module
        Kxx, Ktx, Ktt = K(x).to_dense(), K(t, x).to_dense(), K(t).to_dense()
    A = Kxx + lik.noise * torch.eye(n)
    mx, mt = model.mean_module(x), model.mean_module(t)
    ref_mean = mt + Ktx @ torch.linalg.solve(A, y - mx)
    ref_cov = Ktt - Ktx @ torch.linalg.solve(A, Ktx.T)

    with gpytorch.settings.lazily_evaluate_kernels(False):
        o = model(t)
        print("eager kernels : mean err %.2e, cov err %.2e" % ((o.mean - ref_mean).abs().max(), (o.covariance_matrix - ref_cov).abs().max()))
    model.train(); model.eval()
    bad = False
    try:
        o = model(t)   # default settings (lazily evaluated kernels)
        em, ec = (o.mean - ref_mean).abs().max().item(), (o.covariance_matrix - ref_cov).abs().max().item()
        print("lazy kernels  : mean err %.2e, cov err %.2e" % (em, ec))
        bad = em > 1e-6 or ec > 1e-6
    except Exception as e:
        print("lazy kernels  : model(test_x) raised %s: %s" % (type(e).__name__, e)); bad = True
    model.train(); model.eval()
    try:
        with gpytorch.settings.skip_posterior_variances(True):
            o = model(t)
        print("skip variances: mean err %.2e" % (o.mean - ref_mean).abs().max())
    except Exception as e:
        print("skip variances: model(test_x) raised %s" % type(e).__name__); bad = True
print("VIOLATION" if bad else "ok")
sys.exit(1 if bad else 0)
