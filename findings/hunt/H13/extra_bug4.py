#!/usr/bin/env python3
"""
C13 extra finding 4: BernoulliLikelihood.log_marginal saturates at log(eps) although the analytic marginal
Phi(m / sqrt(1+v)) is perfectly representable.

marginal() builds torch Bernoulli(probs=Phi(link)); Bernoulli(probs=...) converts to logits with probs clamped to
[eps, 1-eps], so log_marginal(y=1) can never be below log(eps) (-36.04 in float64, -15.94 in float32) and its
gradient w.r.t. the mean is exactly 0 there.  The true value is log Phi((2y-1) m / sqrt(1+v)), which the library
can compute (expected_log_prob uses log_normal_cdf for exactly this reason).
"""
import sys
import warnings

import torch
from scipy.special import log_ndtr

warnings.simplefilter("ignore")
from gpytorch.distributions import MultivariateNormal  # noqa: E402
from gpytorch.likelihoods import BernoulliLikelihood  # noqa: E402
from linear_operator.operators import DiagLinearOperator  # noqa: E402

torch.manual_seed(0)
bad = False
for dtype, means in [(torch.float64, [-9.0, -12.0, -20.0, 12.0]), (torch.float32, [-6.0, -8.0, -12.0, 8.0])]:
    lik = BernoulliLikelihood().to(dtype)
    m = torch.tensor(means, dtype=dtype, requires_grad=True)
    v = torch.full_like(m, 0.21).detach()
    y = torch.tensor([1.0, 1.0, 1.0, 0.0], dtype=dtype)
    fd = MultivariateNormal(m, DiagLinearOperator(v))
    marg = lik(fd)
    lm = lik.log_marginal(y, fd)
    (g,) = torch.autograd.grad(lm.sum(), m)
    link = ((2 * y - 1) * m.detach() / torch.sqrt(1 + v)).double()
    ref = torch.tensor(log_ndtr(link.numpy()))
    # d/dm log Phi(s m / sqrt(1+v)) = s phi/Phi / sqrt(1+v)
    refg = (2 * y.double() - 1) * torch.exp(-0.5 * link ** 2 - ref) / (2 * torch.pi) ** 0.5 / torch.sqrt(1 + v.double())
    print(dtype, "means", means, "labels", y.tolist())
    print("  marginal probs (exact Phi)  ", marg.probs.detach().tolist())
    print("  log_marginal (library)      ", lm.detach().tolist())
    print("  log Phi((2y-1)m/sqrt(1+v))  ", ref.tolist())
    print("  d log_marginal / d mean     ", g.tolist())
    print("  reference gradient          ", refg.tolist())
    err = (lm.detach().double() - ref).abs().max().item()
    print("  max abs error of log_marginal = %.3e" % err)
    bad = bad or err > 1.0
print("VIOLATION PRESENT" if bad else "ok")
sys.exit(1 if bad else 0)
