#!/usr/bin/env python3
"""
C13 bug 2: the Gauss-Hermite nodes and weights are rounded to float32 when the rule is built, so a float64 rule
(GaussHermiteQuadrature1D(...).double(), or any likelihood.double().quadrature) is NOT exact for polynomials of degree
< 2 * num_locs: even the constant 1 is integrated with a relative error of ~2e-8 (1e8 ulps), and the error of
expected_log_prob does not shrink below ~1e-8 when nodes are added.

Reference values: closed-form Gaussian moments; the same rule with numpy's float64 nodes reaches ~1e-15.
"""
import math
import sys
import warnings
from math import comb

import numpy as np
import torch

warnings.simplefilter("ignore")
import gpytorch  # noqa: E402
from gpytorch.distributions import MultivariateNormal  # noqa: E402
from gpytorch.likelihoods import StudentTLikelihood  # noqa: E402
from gpytorch.utils.quadrature import GaussHermiteQuadrature1D  # noqa: E402
from linear_operator.operators import DiagLinearOperator  # noqa: E402

torch.manual_seed(0)
assert torch.get_default_dtype() == torch.float32  # the library default; the usual way to get float64 is .double()

NUM = 20
quad = GaussHermiteQuadrature1D(NUM).double()
print("dtype of the rule after .double():", quad.locations.dtype)

x64, w64 = np.polynomial.hermite.hermgauss(NUM)
print("max |node - float64 node|     = %.3e" % np.abs(quad.locations.numpy() - x64).max())
print("|sum(w)/sqrt(pi) - 1|         = %.3e" % abs(quad.weights.sum().item() / math.sqrt(math.pi) - 1))

m = torch.tensor([0.3, -1.2, 5.0], dtype=torch.float64)
v = torch.tensor([1.0, 0.5, 4.0], dtype=torch.float64)
dist = torch.distributions.Normal(m, v.sqrt())


def moment(k):
    """E[x^k] for x ~ N(m, v), closed form."""
    tot = torch.zeros_like(m)
    for j in range(0, k + 1, 2):
        dfac = 1.0
        for t in range(j - 1, 0, -2):
            dfac *= t
        tot = tot + float(comb(k, j)) * m ** (k - j) * v ** (j // 2) * dfac
    return tot


worst = 0.0
worst64 = 0.0
for k in [0, 1, 2, 3, 6, 10, 20, 30, 2 * NUM - 1]:
    ref = moment(k)
    res = quad(lambda x: x ** k, dist)
    xs = torch.sqrt(2 * v) * torch.tensor(x64)[:, None] + m
    res64 = (torch.tensor(w64)[:, None] * xs ** k).sum(0) / math.sqrt(math.pi)
    rel = ((res - ref) / ref).abs().max().item()
    rel64 = ((res64 - ref) / ref).abs().max().item()
    worst, worst64 = max(worst, rel), max(worst64, rel64)
    print("degree %2d: rel. error of library rule = %.3e   (same rule with float64 nodes: %.3e)" % (k, rel, rel64))

# the same through a likelihood: the error floor of expected_log_prob does not shrink with more nodes
print()
fd = MultivariateNormal(torch.tensor([0.2], dtype=torch.float64), DiagLinearOperator(torch.tensor([0.3], dtype=torch.float64)))
y = torch.tensor([0.7], dtype=torch.float64)
from scipy import integrate  # noqa: E402
from scipy.stats import t as sp_t  # noqa: E402

floor = None
for n in [20, 40, 80]:
    with gpytorch.settings.num_gauss_hermite_locs(n):
        lik = StudentTLikelihood().double()
    lik.noise = 0.5
    df, sc = lik.deg_free.item(), math.sqrt(lik.noise.item())
    ref = integrate.quad(
        lambda f: sp_t.logpdf(0.7, df, loc=f, scale=sc) * math.exp(-0.5 * (f - 0.2) ** 2 / 0.3) / math.sqrt(2 * math.pi * 0.3),
        0.2 - 12 * math.sqrt(0.3), 0.2 + 12 * math.sqrt(0.3), epsabs=1e-14, epsrel=1e-14, limit=400)[0]
    got = lik.expected_log_prob(y, fd).item()
    xn, wn = np.polynomial.hermite.hermgauss(n)
    got64 = float((wn * sp_t.logpdf(0.7, df, loc=math.sqrt(0.6) * xn + 0.2, scale=sc)).sum() / math.sqrt(math.pi))
    floor = abs(got - ref) / abs(ref)
    print("StudentT expected_log_prob, %2d nodes: rel. error %.3e   (float64 nodes: %.3e)" % (n, floor, abs(got64 - ref) / abs(ref)))

bad = worst > 1e-10 and worst64 < 1e-12
print("worst polynomial rel. error: library %.3e, float64 nodes %.3e" % (worst, worst64))
print("VIOLATION PRESENT" if bad else "ok")
sys.exit(1 if bad else 0)
