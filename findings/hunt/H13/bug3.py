#!/usr/bin/env python3
"""
C13 bug 3: the quadrature node axis collides with batch axes of the observations / likelihood parameters.

GaussHermiteQuadrature1D.forward puts the node axis in front of the *function distribution's* dimensions
(locations padded with means.dim() singletons).  When the integrand has more batch dimensions than the function
distribution (a batch of observation vectors Y[b, n] against one q(f)[n], or a likelihood with batch_shape=[b]
against a non-batch q(f)), the leading batch axis of the integrand is aligned with the node axis:
  * b != num_locs -> RuntimeError (shape mismatch) on an input that broadcasts fine everywhere else
    (BernoulliLikelihood.log_marginal, GaussianLikelihood.expected_log_prob accept it);
  * b == num_locs (default 20) -> NO error, but node i is paired with batch row i and the batch axis is summed
    away: the result has shape [n] instead of [b, n] and its values are not the integral for any row.
Reference: the same call row by row / with the function distribution expanded explicitly.
"""
import sys
import warnings

import torch

warnings.simplefilter("ignore")
import gpytorch  # noqa: E402
from gpytorch.distributions import MultivariateNormal  # noqa: E402
from gpytorch.likelihoods import BernoulliLikelihood, LaplaceLikelihood  # noqa: E402
from linear_operator.operators import DiagLinearOperator  # noqa: E402

torch.manual_seed(0)
torch.set_default_dtype(torch.float64)

n = 4
mean = torch.randn(n)
var = torch.rand(n) + 0.1
fd = MultivariateNormal(mean, DiagLinearOperator(var))

bad = False
for b in [3, gpytorch.settings.num_gauss_hermite_locs.value()]:
    print("=== batch size b = %d (num_gauss_hermite_locs = %d)" % (b, gpytorch.settings.num_gauss_hermite_locs.value()))

    # (a) Bernoulli: a batch of label vectors against one function distribution
    lik = BernoulliLikelihood()
    Y = (torch.rand(b, n) > 0.5).double()
    ref = torch.stack([lik.expected_log_prob(Y[i], fd) for i in range(b)])  # [b, n], row by row
    ref2 = lik.expected_log_prob(Y, fd.expand(torch.Size([b])))  # explicit expansion
    assert torch.allclose(ref, ref2, atol=1e-12)
    print("Bernoulli.log_marginal(Y[b,n], q[n]) broadcasts fine: shape", tuple(lik.log_marginal(Y, fd).shape))
    try:
        res = lik.expected_log_prob(Y, fd)
        print("Bernoulli.expected_log_prob(Y[b,n], q[n]): shape", tuple(res.shape), "expected", tuple(ref.shape))
        if res.shape != ref.shape:
            bad = True
            print("   wrong shape; |res - ref[0]| max = %.3e, |res - ref.sum(0)| max = %.3e"
                  % ((res - ref[0]).abs().max().item(), (res - ref.sum(0)).abs().max().item()))
        else:
            d = (res - ref).abs().max().item()
            print("   max abs diff to row-by-row reference = %.3e" % d)
            bad = bad or d > 1e-8
    except RuntimeError as e:
        bad = True
        print("Bernoulli.expected_log_prob(Y[b,n], q[n]) raised:", e)

    # (b) Laplace likelihood with batch_shape=[b] against a non-batch function distribution
    lap = LaplaceLikelihood(batch_shape=torch.Size([b])).double()
    lap.noise = torch.rand(b, 1) + 0.5
    y = torch.randn(n)
    ref = lap.expected_log_prob(y, fd.expand(torch.Size([b]))).detach()  # [b, n]
    for name in ["expected_log_prob", "log_marginal"]:
        ref = getattr(lap, name)(y, fd.expand(torch.Size([b]))).detach()
        try:
            res = getattr(lap, name)(y, fd).detach()
            print("Laplace(batch_shape=[b]).%s(y[n], q[n]): shape" % name, tuple(res.shape), "expected", tuple(ref.shape))
            if res.shape != ref.shape:
                bad = True
                print("   wrong shape; |res - ref[0]| max = %.3e" % (res - ref[0]).abs().max().item())
            else:
                d = (res - ref).abs().max().item()
                print("   max abs diff = %.3e" % d)
                bad = bad or d > 1e-8
        except RuntimeError as e:
            bad = True
            print("Laplace(batch_shape=[b]).%s(y[n], q[n]) raised:" % name, e)

print("VIOLATION PRESENT" if bad else "ok")
sys.exit(1 if bad else 0)
