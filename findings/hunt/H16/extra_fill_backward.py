"""C16 extra (weaker, needs the non-default setting detach_test_caches(False)): back-propagating through the posterior
mean under observation_nan_policy('fill') raises, because DefaultPredictionStrategy._mean_cache overwrites the output of
the Solve autograd Function in place (`mean_cache[missing] = torch.nan`).  'mask' gives the same gradients as the
deleted data set."""
import sys
import warnings

import torch

import gpytorch
from gpytorch import settings

warnings.filterwarnings("ignore")
torch.manual_seed(0)
torch.set_default_dtype(torch.float64)


class GP(gpytorch.models.ExactGP):
    def __init__(self, x, y, lik):
        super().__init__(x, y, lik)
        self.mean_module = gpytorch.means.ConstantMean()
        self.covar_module = gpytorch.kernels.ScaleKernel(gpytorch.kernels.RBFKernel())

    def forward(self, x):
        return gpytorch.distributions.MultivariateNormal(self.mean_module(x), self.covar_module(x))


def make(x, y):
    m = GP(x, y, gpytorch.likelihoods.GaussianLikelihood())
    m.eval()
    return m


n = 8
x = torch.rand(n, 2)
y = torch.sin(3 * x.sum(-1))
xt = torch.rand(5, 2)
y_nan = y.clone()
y_nan[[1, 4]] = float("nan")
keep = ~torch.isnan(y_nan)

mr = make(x[keep], y[keep])
with settings.detach_test_caches(False):
    mr(xt).mean.sum().backward()
ref = torch.cat([p.grad.flatten() for p in mr.parameters()])
bad = 0
for policy in ["mask", "fill"]:
    m = make(x, y_nan)
    try:
        with settings.observation_nan_policy(policy), settings.detach_test_caches(False):
            m(xt).mean.sum().backward()
        g = torch.cat([p.grad.flatten() for p in m.parameters()])
        print(policy, "gradient max diff vs deleted:", (g - ref).abs().max().item())
    except RuntimeError as e:
        print(policy, "RAISES:", str(e)[:160])
        bad += 1
sys.exit(1 if bad else 0)
