"""C16 bug 3: a batch of GPs (batch-shaped hyper-parameters, here 2 lengthscales) sharing ONE un-batched training
set (train_x: n x d, train_y: n).  With the default policy 'ignore' the model predicts fine (mean: 2 x m) and
ExactMarginalLogLikelihood under 'mask' handles the NaNs correctly, but the posterior mean under 'mask' and under
'fill' raises (even when the targets contain no NaN at all):  DefaultPredictionStrategy._mean_cache allocates /
indexes the cache with the shape of train_labels (n) instead of the broadcast shape (2 x n).
When n happens to equal the batch size, 'fill' does not raise but silently returns garbage (the boolean `missing`
mask of length n indexes the BATCH dimension of the cache)."""
import sys
import warnings

import torch

import gpytorch
from gpytorch import settings

warnings.filterwarnings("ignore")
torch.manual_seed(0)
torch.set_default_dtype(torch.float64)


class GP(gpytorch.models.ExactGP):
    def __init__(self, x, y, lik, bs):
        super().__init__(x, y, lik)
        self.mean_module = gpytorch.means.ConstantMean(batch_shape=bs)
        self.covar_module = gpytorch.kernels.ScaleKernel(gpytorch.kernels.RBFKernel(batch_shape=bs), batch_shape=bs)

    def forward(self, x):
        return gpytorch.distributions.MultivariateNormal(self.mean_module(x), self.covar_module(x))


def make(x, y, b):
    bs = torch.Size([b])
    lik = gpytorch.likelihoods.GaussianLikelihood(batch_shape=bs)
    m = GP(x, y, lik, bs)
    m.covar_module.base_kernel.lengthscale = torch.linspace(0.3, 0.9, b).view(b, 1, 1)
    m.mean_module.constant.data = torch.linspace(0.3, -0.2, b)
    m.eval()
    lik.eval()
    return m


violations = 0

# ---------------------------------------------------------------- part A: exceptions
n, b = 8, 2
x = torch.rand(n, 2)
y = torch.sin(3 * x.sum(-1))
xt = torch.rand(5, 2)
y_nan = y.clone()
y_nan[[1, 4]] = float("nan")
keep = ~torch.isnan(y_nan)

with torch.no_grad():
    print("policy 'ignore', NaN-free targets: mean shape", tuple(make(x, y, b)(xt).mean.shape), "(works)")
    ref = make(x[keep], y[keep], b)(xt).mean  # NaN observations deleted by hand

    m = make(x, y_nan, b)
    m.train()
    mr = make(x[keep], y[keep], b)
    mr.train()
    with settings.observation_nan_policy("mask"):
        v = gpytorch.mlls.ExactMarginalLogLikelihood(m.likelihood, m)(m(x), y_nan)
    vr = gpytorch.mlls.ExactMarginalLogLikelihood(mr.likelihood, mr)(mr(x[keep]), y[keep])
    print("MLL under 'mask' vs deleted: max diff %.2e (works)" % (v - vr).abs().max().item())

    for name, targets in [("targets with 2 NaNs", y_nan), ("NaN-free targets", y)]:
        for policy in ["mask", "fill"]:
            try:
                with settings.observation_nan_policy(policy):
                    pm = make(x, targets, b)(xt).mean
                r = ref if targets is y_nan else make(x, y, b)(xt).mean
                err = (pm - r).abs().max().item()
                print("posterior mean, %s, policy %-4s: max err vs deleted = %.2e" % (name, policy, err))
                violations += err > 1e-8
            except Exception as e:  # noqa
                print("posterior mean, %s, policy %-4s: RAISES %s: %s" % (name, policy, type(e).__name__, e))
                violations += 1

# ---------------------------------------------------------------- part B: silent garbage when n == batch size
n = b = 3
x = torch.rand(n, 2)
y = torch.sin(3 * x.sum(-1))
y_nan = y.clone()
y_nan[0] = float("nan")
keep = ~torch.isnan(y_nan)
with torch.no_grad():
    ref = make(x[keep], y[keep], b)(xt).mean
    with settings.observation_nan_policy("fill"):
        pm = make(x, y_nan, b)(xt).mean
err = (pm - ref).abs().max().item()
print("n == batch size == 3, policy fill: max |mean - mean(deleted)| = %.3e" % err)
print("   fill    :", pm[1].tolist())
print("   deleted :", ref[1].tolist())
violations += err > 1e-8

if violations:
    print("VIOLATION (%d failing checks)" % violations)
    sys.exit(1)
sys.exit(0)
