"""C16 bug 1: ExactMarginalLogLikelihood under observation_nan_policy('mask') on an SGPR model
(InducingPointKernel) is NOT the MLL of the data set with the NaN observations deleted: the SGPR trace
("added loss") term is still summed over ALL training inputs, including those whose target is NaN."""
import sys
import warnings

import torch

import gpytorch
from gpytorch import settings

warnings.filterwarnings("ignore")
torch.manual_seed(0)
torch.set_default_dtype(torch.float64)


class SGPR(gpytorch.models.ExactGP):
    def __init__(self, x, y, lik, Z):
        super().__init__(x, y, lik)
        self.mean_module = gpytorch.means.ConstantMean()
        self.covar_module = gpytorch.kernels.InducingPointKernel(
            gpytorch.kernels.ScaleKernel(gpytorch.kernels.RBFKernel()), inducing_points=Z.clone(), likelihood=lik
        )

    def forward(self, x):
        return gpytorch.distributions.MultivariateNormal(self.mean_module(x), self.covar_module(x))


def make(x, y, Z):
    lik = gpytorch.likelihoods.GaussianLikelihood()
    lik.noise = 0.2
    m = SGPR(x, y, lik, Z)
    m.mean_module.constant.data.fill_(0.3)
    m.train()
    lik.train()
    return m, lik


n = 12
x = torch.rand(n, 2)
y = torch.sin(3 * x.sum(-1)) + 0.1 * torch.randn(n)
Z = torch.rand(4, 2)
y_nan = y.clone()
y_nan[[1, 4, 7, 8]] = float("nan")
keep = ~torch.isnan(y_nan)

# (a) library: NaN targets + policy 'mask'
m, lik = make(x, y_nan, Z)
mll = gpytorch.mlls.ExactMarginalLogLikelihood(lik, m)
with settings.observation_nan_policy("mask"):
    val_mask = mll(m(x), y_nan).item()

# (b) reference: the same model (same hyper-parameters / inducing points) on the data with the NaN rows deleted
mr, likr = make(x[keep], y[keep], Z)
mllr = gpytorch.mlls.ExactMarginalLogLikelihood(likr, mr)
val_del = mllr(mr(x[keep]), y[keep]).item()

# (c) explanation: trace term of the *missing* points, divided by the number of observed values
with torch.no_grad():
    base = m.covar_module.base_kernel
    Kzz = base(Z).to_dense()
    Kxz = base(x, Z).to_dense()
    q_diag = (Kxz @ torch.linalg.solve(Kzz + 1e-12 * torch.eye(4), Kxz.T)).diagonal()
    k_diag = base(x, diag=True)
    extra = (-0.5 * ((k_diag - q_diag)[~keep] / lik.noise).sum() / keep.sum()).item()

print("MLL  policy='mask' with NaN targets :", val_mask)
print("MLL  NaN observations deleted       :", val_del)
print("difference                           :", val_mask - val_del)
print("trace term of the MISSING points / n_observed :", extra)
err = abs(val_mask - val_del)
print("discrepancy = %.3e" % err)
if err > 1e-6:
    print("VIOLATION: masked MLL differs from MLL after deleting the NaN observations")
    sys.exit(1)
sys.exit(0)
