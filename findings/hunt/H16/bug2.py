"""C16 bug 2: with observation_nan_policy('fill') and more than max_cholesky_size (800) training points the
posterior mean is off by O(1) from the posterior mean after deleting the NaN observations.  The NaN residuals are
replaced by -999 before the (CG) solve in DefaultPredictionStrategy._mean_cache; linear_cg stops on the residual
RELATIVE to ||rhs||, and ||rhs|| is dominated by the -999 dummies, so the solve "converges" while the block of the
real observations is still far from solved.  'mask' and the deleted data set, solved with the very same CG settings,
are accurate to ~1e-2."""
import sys
import warnings

import torch

import gpytorch
from gpytorch import settings

warnings.filterwarnings("ignore")
torch.manual_seed(0)
torch.set_default_dtype(torch.float64)


class GP(gpytorch.models.ExactGP):
    def __init__(self, x, y, lik):
        super().__init__(x, y, lik)
        self.mean_module = gpytorch.means.ConstantMean()
        self.covar_module = gpytorch.kernels.ScaleKernel(gpytorch.kernels.RBFKernel())

    def forward(self, x):
        return gpytorch.distributions.MultivariateNormal(self.mean_module(x), self.covar_module(x))


NOISE, LS = 0.01, 0.3


def make(x, y):
    lik = gpytorch.likelihoods.GaussianLikelihood()
    lik.noise = NOISE
    m = GP(x, y, lik)
    m.covar_module.base_kernel.lengthscale = LS
    m.eval()
    lik.eval()
    return m


n = 1000
x = torch.rand(n, 2)
y = torch.sin(6 * x.sum(-1)) + 0.1 * torch.randn(n)
y_nan = y.clone()
y_nan[::10] = float("nan")  # 10% missing
keep = ~torch.isnan(y_nan)
xt = torch.rand(20, 2)

# dense reference on the data set with the NaN rows deleted (plain torch)
with torch.no_grad():
    ref_model = make(x[keep], y[keep])
    k = ref_model.covar_module
    K = k(x[keep]).to_dense() + NOISE * torch.eye(int(keep.sum()))
    c = ref_model.mean_module.constant
    exact = c + k(xt, x[keep]).to_dense() @ torch.linalg.solve(K, y[keep] - c)

    # library, NaNs deleted by hand (uses CG since 900 > max_cholesky_size): shows the normal CG accuracy
    cg_deleted = make(x[keep], y[keep])(xt).mean
    with settings.observation_nan_policy("mask"):
        mean_mask = make(x, y_nan)(xt).mean
    with settings.observation_nan_policy("fill"):
        mean_fill = make(x, y_nan)(xt).mean

e_del = (cg_deleted - exact).abs().max().item()
e_mask = (mean_mask - exact).abs().max().item()
e_fill = (mean_fill - exact).abs().max().item()
print("n_train = %d, observed = %d, targets have amplitude ~1" % (n, int(keep.sum())))
print("max |posterior mean - dense reference (NaN rows deleted)|")
print("   library on deleted data (CG)  : %.3e" % e_del)
print("   policy 'mask'                 : %.3e" % e_mask)
print("   policy 'fill'                 : %.3e" % e_fill)
print("   any NaN in 'fill' output      :", bool(torch.isnan(mean_fill).any()))
if e_fill > 0.1 and e_fill > 10 * max(e_del, e_mask):
    print("VIOLATION: 'fill' posterior mean differs from the deleted-data posterior mean far beyond CG tolerance")
    sys.exit(1)
sys.exit(0)
