"""SGPR (InducingPointKernel) predictions depend on settings.lazily_evaluate_kernels.

With the default (lazy) setting SGPRPredictionStrategy.exact_prediction replaces the test-test block by the base kernel
K(X*, X*), which gives the SGPR / Titsias predictive covariance  K** - Q*x (Qxx + D)^-1 Qx*.
With lazily_evaluate_kernels(False) the joint covariance arrives already evaluated, the isinstance(LazyEvaluatedKernelTensor)
test fails and the test-test block stays the Nystrom matrix Q** (+ the diagonal correction): the predictive covariance is
no longer the SGPR predictive equation (off-diagonal with the diagonal correction, and the variances themselves without it).
"""
import sys
import warnings

import torch

import gpytorch
from gpytorch.kernels import InducingPointKernel, RBFKernel

warnings.filterwarnings("ignore")
torch.set_default_dtype(torch.float64)
torch.manual_seed(0)

x = torch.rand(15, 2)
y = torch.sin(3 * x.sum(-1))
xs = torch.rand(6, 2)
Z = torch.rand(5, 2)


class M(gpytorch.models.ExactGP):
    def __init__(self, x, y, lik, covar):
        super().__init__(x, y, lik)
        self.mean_module = gpytorch.means.ZeroMean()
        self.covar_module = covar

    def forward(self, x):
        return gpytorch.distributions.MultivariateNormal(self.mean_module(x), self.covar_module(x))


def predict(lazy, diag_corr):
    lik = gpytorch.likelihoods.GaussianLikelihood()
    lik.noise = 0.05
    base = RBFKernel()
    base.lengthscale = 0.4
    m = M(x, y, lik, InducingPointKernel(base, Z.clone(), lik)).eval()
    with gpytorch.settings.lazily_evaluate_kernels(lazy), gpytorch.settings.sgpr_diagonal_correction(diag_corr):
        p = m(xs)
        return p.mean.detach(), p.covariance_matrix.detach(), base


def sgpr_equations(base, diag_corr):
    # Titsias / SGPR predictive equations for the (optionally diagonally corrected) training covariance
    with torch.no_grad():
        Kzz = base(Z, Z).to_dense()
        Kxz = base(x, Z).to_dense()
        Ksz = base(xs, Z).to_dense()
        Kzzi = torch.linalg.inv(Kzz)
        Qxx = Kxz @ Kzzi @ Kxz.mT
        Qsx = Ksz @ Kzzi @ Kxz.mT
        A = Qxx + 0.05 * torch.eye(15)
        if diag_corr:
            A = A + torch.diag((base(x, x, diag=True) - Qxx.diagonal()).clamp(0))
        Ai = torch.linalg.inv(A)
        mean = Qsx @ Ai @ y
        cov = base(xs, xs).to_dense() - Qsx @ Ai @ Qsx.mT
    return mean, cov


bad = False
for diag_corr in (True, False):
    mu_l, cov_l, base = predict(True, diag_corr)
    mu_e, cov_e, _ = predict(False, diag_corr)
    mu_r, cov_r = sgpr_equations(base, diag_corr)
    print(f"sgpr_diagonal_correction={diag_corr}")
    print("  lazy  vs SGPR equations: mean %.2e  covar %.2e" % ((mu_l - mu_r).abs().max(), (cov_l - cov_r).abs().max()))
    print("  eager vs SGPR equations: mean %.2e  covar %.2e  variances %.2e" % (
        (mu_e - mu_r).abs().max(), (cov_e - cov_r).abs().max(), (cov_e.diagonal() - cov_r.diagonal()).abs().max()))
    print("  lazy  vs eager         : covar %.2e" % (cov_l - cov_e).abs().max())
    if (cov_l - cov_e).abs().max() > 1e-6 or (cov_e - cov_r).abs().max() > 1e-6:
        bad = True

print("VIOLATION" if bad else "ok")
sys.exit(1 if bad else 0)
