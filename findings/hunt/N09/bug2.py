"""GridKernel with batched inputs that lie on its grid raises "expected shape of the kernel ... likely a bug in GPyTorch".

GridKernel.forward expands its full grid to the batch shape of x1 in order to recognise batched grid inputs
(full_grid.expand(*x1.shape[:-2], ...)), but the structured branch then returns the un-batched Kronecker/Toeplitz operator:
LazyEvaluatedKernelTensor's shape check fails.  A batch of GPs on a common grid (b x n x d inputs, b x n targets) therefore
can neither be trained nor used for prediction, with use_toeplitz on or off; the dense base kernel handles the same inputs.
"""
import sys
import warnings

import torch

import gpytorch
from gpytorch.kernels import GridKernel, RBFKernel
from gpytorch.utils.grid import create_data_from_grid

warnings.filterwarnings("ignore")
torch.set_default_dtype(torch.float64)
torch.manual_seed(0)

grid = [torch.linspace(0, 1, 5, dtype=torch.float64), torch.linspace(0, 2, 4, dtype=torch.float64)]
X = create_data_from_grid(grid)  # 20 x 2
Xb = X.expand(3, *X.shape).contiguous()  # 3 x 20 x 2, every batch member is the grid
yb = torch.sin(Xb.sum(-1)) + torch.arange(3.0).view(3, 1)

base = RBFKernel()
kern = GridKernel(base, grid)

bad = False
# non-batch: fine
err = (kern(X, X).to_dense() - base(X, X).to_dense()).abs().max().item()
print("non-batch grid input: max |GridKernel - dense| = %.2e" % err)

dense = base(Xb, Xb).to_dense()
for tz in (True, False):
    with gpytorch.settings.use_toeplitz(tz):
        try:
            got = kern(Xb, Xb).to_dense()
            print("use_toeplitz=%s batch grid input: shape %s, max err %.2e" % (tz, tuple(got.shape), (got - dense).abs().max()))
            if got.shape != dense.shape or (got - dense).abs().max() > 1e-8:
                bad = True
        except Exception as e:
            print("use_toeplitz=%s batch grid input: RAISES %s: %s" % (tz, type(e).__name__, str(e)[:160]))
            bad = True


class M(gpytorch.models.ExactGP):
    def __init__(self, x, y, lik, covar):
        super().__init__(x, y, lik)
        self.mean_module = gpytorch.means.ZeroMean()
        self.covar_module = covar

    def forward(self, x):
        return gpytorch.distributions.MultivariateNormal(self.mean_module(x), self.covar_module(x))


for name, cov in (("dense RBF", base), ("GridKernel", kern)):
    lik = gpytorch.likelihoods.GaussianLikelihood()
    lik.noise = 0.1
    m = M(Xb, yb, lik, cov)
    mll = gpytorch.mlls.ExactMarginalLogLikelihood(lik, m)
    try:
        print(name, "batch MLL:", mll(m(Xb), yb).detach().tolist())
    except Exception as e:
        print(name, "batch MLL RAISES", type(e).__name__, str(e)[:160])
        bad = True

print("VIOLATION" if bad else "ok")
sys.exit(1 if bad else 0)
