"""KISS-GP fantasy update + fast_pred_samples (fast_pred_var off) raises NotImplementedError.

model.get_fantasy_model(...) of a GridInterpolationKernel model returns a model whose InterpolatedPredictionStrategy has
uses_wiski=True.  Predicting with it under settings.fast_pred_samples() (without fast_pred_var) goes to
InterpolatedPredictionStrategy.fantasy_covar_cache, whose `else` branch calls
    current_qmatrix.solve(inducing_compression_matrix.transpose(-1, -2))
with a MatmulLinearOperator as right-hand side -> NotImplementedError.  Every other combination of the two settings works
and equals the dense conditional of the interpolated kernel on the concatenated data.
"""
import sys
import warnings

import torch

import gpytorch
from gpytorch.kernels import GridInterpolationKernel, RBFKernel

warnings.filterwarnings("ignore")
torch.set_default_dtype(torch.float64)
torch.manual_seed(0)

x = torch.rand(12, 1)
y = torch.sin(6 * x.squeeze(-1))
xf = torch.rand(3, 1)
yf = torch.sin(6 * xf.squeeze(-1))
xs = torch.rand(5, 1)


class DenseK(gpytorch.kernels.Kernel):
    # same kernel matrix, but dense: the model then uses the DefaultPredictionStrategy
    def __init__(self, k):
        super().__init__()
        self.k = k

    def forward(self, x1, x2, diag=False, **kw):
        r = self.k(x1, x2).to_dense()
        return r.diagonal(dim1=-1, dim2=-2) if diag else r


class M(gpytorch.models.ExactGP):
    def __init__(self, x, y, lik, covar):
        super().__init__(x, y, lik)
        self.mean_module = gpytorch.means.ZeroMean()
        self.covar_module = covar

    def forward(self, x):
        return gpytorch.distributions.MultivariateNormal(self.mean_module(x), self.covar_module(x))


lik = gpytorch.likelihoods.GaussianLikelihood()
lik.noise = 0.1
kern = GridInterpolationKernel(RBFKernel(), grid_size=20, num_dims=1, grid_bounds=[(0.0, 1.0)])

# reference: dense conditional of the interpolated kernel on the concatenated data
ref = M(torch.cat([x, xf]), torch.cat([y, yf]), lik, DenseK(kern)).eval()
with torch.no_grad():
    p = ref(xs)
    mu_ref, cov_ref = p.mean, p.covariance_matrix

bad = False
for fpv in (False, True):
    for fps in (False, True):
        model = M(x, y, lik, kern).eval()
        with torch.no_grad(), gpytorch.settings.fast_pred_var(fpv), gpytorch.settings.fast_pred_samples(fps):
            model(xs)
            fant = model.get_fantasy_model(xf, yf)
            try:
                p = fant(xs)
                mu, cov = p.mean, p.covariance_matrix
                print("fast_pred_var=%s fast_pred_samples=%s: mean err %.2e covar err %.2e" % (
                    fpv, fps, (mu - mu_ref).abs().max(), (cov - cov_ref).abs().max()))
                if (mu - mu_ref).abs().max() > 1e-4 or (cov - cov_ref).abs().max() > 1e-4:
                    bad = True
            except Exception as e:
                print("fast_pred_var=%s fast_pred_samples=%s: RAISES %s: %s" % (fpv, fps, type(e).__name__, str(e)[:120]))
                bad = True

print("VIOLATION" if bad else "ok")
sys.exit(1 if bad else 0)
