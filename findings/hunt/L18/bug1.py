"""C18 / SGPR: copy.deepcopy of a model whose InducingPointKernel carries a registered prior silently drops the prior
(and un-freezes frozen inducing points).

InducingPointKernel.__deepcopy__ (gpytorch/kernels/inducing_point_kernel.py:122) does not copy the module: it builds a
NEW kernel from (base_kernel, inducing_points, likelihood, active_dims) only.  Everything else that was registered on the
kernel - priors (Module.register_prior), their buffers, the requires_grad flag of the inducing points - is lost.
The training objective (ExactMarginalLogLikelihood adds the log prior of every registered prior) of the copy therefore
differs from the original's, and the copy's state_dict no longer has the prior's keys.

Reference: the original model, and its pickle round trip (exact).
"""
import copy
import pickle
import sys
import warnings

import torch

import gpytorch

warnings.filterwarnings("ignore")
torch.set_default_dtype(torch.float64)
torch.manual_seed(0)

X = torch.rand(30, 2)
Y = torch.sin(3 * X.sum(-1)) + 0.05 * torch.randn(30)


def inducing_points_of(module):  # module-level closures keep the model picklable
    return module.inducing_points


def set_inducing_points(module, value):
    module.initialize(inducing_points=value)


class SGPR(gpytorch.models.ExactGP):
    def __init__(self):
        likelihood = gpytorch.likelihoods.GaussianLikelihood()
        super().__init__(X, Y, likelihood)
        self.mean_module = gpytorch.means.ConstantMean()
        self.base_covar_module = gpytorch.kernels.ScaleKernel(gpytorch.kernels.RBFKernel())
        self.covar_module = gpytorch.kernels.InducingPointKernel(
            self.base_covar_module, inducing_points=X[:6].clone(), likelihood=likelihood
        )
        # keep the inducing points inside the unit square
        self.covar_module.register_prior(
            "inducing_points_prior", gpytorch.priors.NormalPrior(0.5, 0.2), inducing_points_of, set_inducing_points
        )

    def forward(self, x):
        return gpytorch.distributions.MultivariateNormal(self.mean_module(x), self.covar_module(x))


def objective(model):
    model.train()
    mll = gpytorch.mlls.ExactMarginalLogLikelihood(model.likelihood, model)
    return mll(model(X), Y).item()


model = SGPR()
model.covar_module.inducing_points.requires_grad_(False)  # fixed inducing points
clone = copy.deepcopy(model)
pickled = pickle.loads(pickle.dumps(model))

ref, got, pk = objective(model), objective(clone), objective(pickled)
priors_ref = [name for name, *_ in model.named_priors()]
priors_got = [name for name, *_ in clone.named_priors()]
missing_keys = sorted(set(model.state_dict()) - set(clone.state_dict()))
print("priors of the original :", priors_ref)
print("priors of the deep copy:", priors_got)
print("state_dict keys the deep copy lost:", missing_keys)
print("inducing_points.requires_grad  original:", model.covar_module.inducing_points.requires_grad,
      " deep copy:", clone.covar_module.inducing_points.requires_grad)
print(f"training objective (MLL incl. log prior): original {ref:.6f}  deepcopy {got:.6f}  |diff| {abs(ref - got):.3e}")
print(f"                                          pickle round trip {pk:.6f}  |diff| {abs(ref - pk):.3e}")
try:
    clone.load_state_dict(model.state_dict())
    print("loading the original's state_dict into the copy: ok")
except RuntimeError as e:
    print("loading the original's state_dict into the copy raises:", str(e).splitlines()[1].strip()[:120])

bad = abs(ref - got) > 1e-8 or priors_ref != priors_got
print("VIOLATION" if bad else "ok")
sys.exit(1 if bad else 0)
