"""
C04 / extra candidate (not one of the three main deliverables): IndependentModelList.get_fantasy_model raises
TypeError for sub-models that take several inputs, when the per-model fantasy locations are given in the same
form that IndependentModelList.__call__ and ExactGP.get_fantasy_model accept ([x1, x2] per model).
model_list.py:68 calls  model.get_fantasy_model(*inputs_, *targets_)  -> the list is unpacked into positional args.
exit 1 if present.
"""
import sys
import warnings

import torch

import gpytorch
from gpytorch.likelihoods import GaussianLikelihood
from gpytorch.models import ExactGP, IndependentModelList

warnings.filterwarnings("ignore")
torch.set_default_dtype(torch.float64)


class GP2(ExactGP):
    def __init__(self, x1, x2, y, lik):
        super().__init__((x1, x2), y, lik)
        self.mean_module = gpytorch.means.ConstantMean()
        self.k1 = gpytorch.kernels.ScaleKernel(gpytorch.kernels.RBFKernel())
        self.k2 = gpytorch.kernels.MaternKernel(1.5)

    def forward(self, x1, x2):
        return gpytorch.distributions.MultivariateNormal(self.mean_module(x1), self.k1(x1) * self.k2(x2))


torch.manual_seed(0)
n, m = 6, 2
X1, X2, y = torch.rand(n, 2), torch.rand(n, 3), torch.randn(n)
a, b = GP2(X1, X2, y, GaussianLikelihood()), GP2(X1, X2, y + 1, GaussianLikelihood())
ml = IndependentModelList(a, b).eval()
T1, T2 = torch.rand(4, 2), torch.rand(4, 3)
ml([T1, T2], [T1, T2])  # the list-per-model convention works for __call__
F1, F2, yf = torch.rand(m, 2), torch.rand(m, 3), torch.randn(m)
single = a.get_fantasy_model([F1, F2], yf)(T1, T2).mean  # and for the sub-model itself
try:
    fml = ml.get_fantasy_model([[F1, F2], [F1, F2]], [yf, yf])
    err = (fml([T1, T2], [T1, T2])[0].mean - single).abs().max().item()
    print("model list fantasy ok, err vs sub-model fantasy %.2e" % err)
    sys.exit(0)
except TypeError as e:
    print("IndependentModelList.get_fantasy_model RAISES TypeError:", e)
    print("VIOLATION PRESENT")
    sys.exit(1)
