import sys; sys.path.insert(0, "/tmp/seeds/G04/scratch")
from h import *
from t1 import run
import t1
# monkeypatch: after get fantasy, do train/eval round trip. Simplest: copy of run with hook
orig = ExactGP.get_fantasy_model
mode = {"k": None}
def patched(self, *a, **k):
    fm = orig(self, *a, **k)
    if mode["k"] == "traineval":
        fm.train(); fm.eval()
    elif mode["k"] == "deepcopy":
        import copy; fm = copy.deepcopy(fm); 
    elif mode["k"] == "statedict":
        fm.load_state_dict(fm.state_dict())
    elif mode["k"] == "double":
        fm = fm.double()
    return fm
ExactGP.get_fantasy_model = patched
bad=0
for k in ["traineval", "deepcopy", "statedict", "double"]:
  mode["k"]=k
  for lik_kind in ["homo", "fixed", "fixed+"]:
    for model_b in [(), (2,)]:
      for fant_b in [(), (3,)]:
          for shared in [True, False]:
            for fpv in [False, True]:
                cfg = (k, lik_kind, model_b, fant_b, shared, fpv)
                try:
                    for r in run(model_b, fant_b, shared, 2, fpv, True, lik_kind, "const"):
                        if max(r[1:6]) > 1e-6 or r[6] != r[7]:
                            bad += 1
                            print("BAD", cfg, r)
                except Exception as e:
                    bad += 1
                    import traceback
                    tb = traceback.extract_tb(e.__traceback__)
                    print("EXC", cfg, type(e).__name__, str(e)[:200], [(f.name, f.lineno) for f in tb[-3:]])
print("bad", bad)
