import sys; sys.path.insert(0, "/tmp/seeds/G04/scratch")
from kg import *
torch.manual_seed(0)
n,m,d=30,3,1
X=torch.rand(n,d); y=torch.sin(4*X.sum(-1))+0.1*torch.randn(n)
mod=KG(X,y,GaussianLikelihood(),"const",False,d=d)
with torch.no_grad(): mod.likelihood.noise=0.05; mod.mean_module.constant.fill_(0.7)
mod.eval(); Xt=torch.rand(5,d)
Xf=torch.rand(m,d); yf=torch.randn(m)
ref=KG(torch.cat([X,Xf],-2),torch.cat([y,yf],-1),GaussianLikelihood(),"const",False,d=d)
ref.load_state_dict(mod.state_dict()); ref.eval()
b=ref(Xt)
with gpytorch.settings.fast_pred_samples(True):
    p=mod(Xt); print("source ok", p.covariance_matrix.shape)
    r=ref(Xt); print("scratch under fps ok", cmp(r.covariance_matrix,b.covariance_matrix))
    fm=mod.get_fantasy_model(Xf,yf); print("fantasy created")
    import traceback
    try:
        a=fm(Xt); print(cmp(a.mean,b.mean),cmp(a.covariance_matrix,b.covariance_matrix))
    except Exception as e:
        traceback.print_exc()
