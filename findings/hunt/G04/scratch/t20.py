import sys; sys.path.insert(0, "/tmp/seeds/G04/scratch")
from t13 import *
torch.manual_seed(0)
d=2
Z=torch.rand(8,d); X=torch.rand(20,d); y=torch.randn(20); Xt=torch.rand(4,d)
mod=SV(Z.clone(),VariationalStrategy,torch.Size(),"const")
with torch.no_grad():
    mod.mean_module.constant.fill_(0.5); mod.covar_module.outputscale=1.3; mod.covar_module.base_kernel.lengthscale=0.4; mod.likelihood.noise=0.1
set_optimal(mod,X,y,True); mod.eval()
with gpytorch.settings.fast_pred_var(True):
    for i in range(2):
        Xf=torch.rand(3,d); yf=torch.randn(3)
        fm=mod.get_fantasy_model(Xf,yf); a=fm(Xt); rm,rc=cond_ref(mod,Xf,yf,Xt)
        print("call",i,"%.2e %.2e"%(cmp(a.mean,rm),cmp(a.covariance_matrix,rc)))
    # fantasy of fantasy
    Xg=torch.rand(2,d); yg=torch.randn(2)
    fm2=fm.get_fantasy_model(Xg,yg); a=fm2(Xt); rm,rc=cond_ref(mod,torch.cat([Xf,Xg]),torch.cat([yf,yg]),Xt)
    print("fantasy of fantasy %.2e %.2e"%(cmp(a.mean,rm),cmp(a.covariance_matrix,rc)))
    # new data, round trip
    mod.train(); y2=torch.randn(20); set_optimal(mod,X,y2,True); mod.eval()
    fm=mod.get_fantasy_model(Xf,yf); a=fm(Xt); rm,rc=cond_ref(mod,Xf,yf,Xt)
    print("after retrain %.2e %.2e"%(cmp(a.mean,rm),cmp(a.covariance_matrix,rc)))
    # change variational params in eval mode (no train round trip)
    y3=torch.randn(20); set_optimal(mod,X,y3,True)
    p=mod(Xt)
    fm=mod.get_fantasy_model(Xf,yf); a=fm(Xt); rm,rc=cond_ref(mod,Xf,yf,Xt)
    print("after eval-mode change %.2e %.2e"%(cmp(a.mean,rm),cmp(a.covariance_matrix,rc)))
    # fantasy model round trip
    fm.train(); fm.eval(); a=fm(Xt); print("fantasy train/eval round trip %.2e %.2e"%(cmp(a.mean,rm),cmp(a.covariance_matrix,rc)))
