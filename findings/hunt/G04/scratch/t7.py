import sys; sys.path.insert(0, "/tmp/seeds/G04/scratch")
from h import *
from gpytorch.models import IndependentModelList
torch.manual_seed(0)
n,d,m=6,2,2
def mk(lk, seed, nn=n):
    X=torch.rand(nn,d); y=torch.randn(nn)
    if lk=="homo": lik=GaussianLikelihood()
    else: lik=FixedNoiseGaussianLikelihood(noise=torch.rand(nn)*0.3+0.05)
    mod=GP(X,y,lik); randomize(mod,seed); return mod
for kinds in [("homo","homo"),("fixed","fixed"),("homo","fixed"),("fixed","homo")]:
  for fb in [(),(3,)]:
    try:
        m1,m2=mk(kinds[0],1),mk(kinds[1],2,nn=7)
        ml=IndependentModelList(m1,m2); ml.eval()
        T=torch.rand(4,d)
        p0=ml(T,T)
        p0=[(p.mean.clone(),p.covariance_matrix.clone()) for p in p0]
        F=[torch.rand(m,d),torch.rand(m,d)]; yf=[torch.randn(*fb,m),torch.randn(*fb,m)]
        noises=[torch.rand(m)*0.3+0.05 if k=="fixed" else None for k in kinds]
        kw={} if all(x is None for x in noises) else {"noise":noises}
        fml=ml.get_fantasy_model(F,yf,**kw)
        out=fml(T,T)
        for i,(mod,k) in enumerate(zip([m1,m2],kinds)):
            tb=torch.Size(fb); nn=mod.train_inputs[0].shape[0]
            fullX=torch.cat([mod.train_inputs[0].expand(*tb,nn,d),F[i].expand(*tb,m,d)],-2); fully=torch.cat([mod.train_targets.expand(*tb,nn),yf[i]],-1)
            if k=="homo": rl=GaussianLikelihood()
            else: rl=FixedNoiseGaussianLikelihood(noise=torch.cat([mod.likelihood.noise_covar.noise,noises[i]]))
            ref=GP(fullX,fully,rl); ref.load_state_dict(mod.state_dict(),strict=False); ref.eval()
            b=ref(T)
            print(kinds,fb,i,cmp(out[i].mean,b.mean),cmp(out[i].covariance_matrix,b.covariance_matrix))
            # likelihood of list
        # check fml.likelihood consistent with submodels
        ly=fml.likelihood(*out, **({} if "noise" not in kw else {"noise":[torch.rand(4)*.1+.05 if k=="fixed" else None for k in kinds]})) if False else None
        print("  lik ids match:", all(a is b.likelihood for a,b in zip(fml.likelihood.likelihoods, fml.models)))
        p1=ml(T,T)
        print("  source untouched:", max(max(cmp(p.mean,q[0]),cmp(p.covariance_matrix,q[1])) for p,q in zip(p1,p0)))
        # second level
        fml2=fml.get_fantasy_model(F,yf,**kw)
        o2=fml2(T,T); print("  2nd level ok", [o.mean.shape for o in o2])
    except Exception as e:
        import traceback
        tbk = traceback.extract_tb(e.__traceback__)
        print("EXC",kinds,fb,type(e).__name__,str(e)[:200], [(f.name, f.lineno) for f in tbk[-3:]])
