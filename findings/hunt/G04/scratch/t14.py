import sys; sys.path.insert(0, "/tmp/seeds/G04/scratch")
from t13 import *
torch.manual_seed(0)
d=2
for c in [0.0, 0.5, 2.0]:
    Z=torch.rand(8,d); X=torch.rand(20,d); y=torch.randn(20)+c; Xt=torch.rand(4,d); Xf=torch.rand(3,d); yf=torch.randn(3)+c
    res={}
    for strat in [VariationalStrategy, UnwhitenedVariationalStrategy]:
        mod=SV(Z.clone(),strat,torch.Size(),"const")
        with torch.no_grad():
            mod.mean_module.constant.fill_(c); mod.covar_module.outputscale=1.3; mod.covar_module.base_kernel.lengthscale=0.4; mod.likelihood.noise=0.1
        set_optimal(mod,X,y,strat is VariationalStrategy)
        mod.eval()
        with gpytorch.settings.fast_pred_var(True):
            p=mod(Xt)
            fm=mod.get_fantasy_model(Xf,yf); a=fm(Xt)
            rm,rc=cond_ref(mod,Xf,yf,Xt)
        res[strat.__name__]=(p.mean.detach(),a.mean.detach(),rm)
        print(c,strat.__name__,"svgp pred",p.mean.detach().numpy().round(4),"\n    fantasy",a.mean.detach().numpy().round(4),"\n    ref    ",rm.numpy().round(4), "err %.2e"%cmp(a.mean,rm))
