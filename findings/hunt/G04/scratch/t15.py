import sys; sys.path.insert(0, "/tmp/seeds/G04/scratch")
from h import *
torch.manual_seed(0)
d,m=2,2
# (a) lazy path: joint size > max_eager_kernel_size
for n in [6]:
  for fb in [(),(3,)]:
    for shared in [True,False]:
      for fpv in [False,True]:
        try:
          with gpytorch.settings.max_eager_kernel_size(2), gpytorch.settings.fast_pred_var(fpv):
            X=torch.rand(n,d); y=torch.randn(n)
            mod=GP(X,y,GaussianLikelihood()); randomize(mod); mod.eval()
            Xt=torch.rand(4,d); mod(Xt)
            tb=torch.Size(fb); ib=torch.Size() if shared else tb
            Xf=torch.rand(*ib,m,d); yf=torch.randn(*tb,m)
            fm=mod.get_fantasy_model(Xf,yf)
            ref=GP(torch.cat([X.expand(*tb,n,d),Xf.expand(*tb,m,d)],-2),torch.cat([y.expand(*tb,n),yf],-1),GaussianLikelihood()); ref.load_state_dict(mod.state_dict()); ref.eval()
            a=fm(Xt); b=ref(Xt)
            print("lazy",fb,shared,fpv,cmp(a.mean,b.mean),cmp(a.covariance_matrix,b.covariance_matrix))
        except Exception as e:
            import traceback
            tbk = traceback.extract_tb(e.__traceback__)
            print("EXC lazy",fb,shared,fpv,type(e).__name__,str(e)[:200], [(f.name, f.lineno) for f in tbk[-3:]])
# (b) targets-only batch
n=6
for fpv in [False,True]:
  for case in ["same","shared_f"]:
    try:
      with gpytorch.settings.fast_pred_var(fpv):
        X=torch.rand(n,d); y=torch.randn(3,n)
        mod=GP(X,y,GaussianLikelihood()); randomize(mod); mod.eval()
        Xt=torch.rand(4,d); p=mod(Xt); print("src pred shape",p.mean.shape)
        Xf=torch.rand(m,d); yf=torch.randn(3,m)
        fm=mod.get_fantasy_model(Xf,yf)
        ref=GP(torch.cat([X,Xf],-2),torch.cat([y,yf],-1),GaussianLikelihood()); ref.load_state_dict(mod.state_dict()); ref.eval()
        a=fm(Xt); b=ref(Xt)
        print("tbatch",fpv,cmp(a.mean,b.mean),cmp(a.covariance_matrix,b.covariance_matrix.expand_as(a.covariance_matrix)),a.mean.shape,b.mean.shape)
        ref2=GP(torch.cat([X,Xf],-2).expand(3,n+m,d),torch.cat([y,yf],-1),GaussianLikelihood()); ref2.load_state_dict(mod.state_dict()); ref2.eval()
        b=ref2(Xt); print("   vs expanded ref",cmp(a.mean,b.mean),cmp(a.covariance_matrix,b.covariance_matrix))
    except Exception as e:
        import traceback
        tbk = traceback.extract_tb(e.__traceback__)
        print("EXC tbatch",fpv,type(e).__name__,str(e)[:200], [(f.name, f.lineno) for f in tbk[-3:]])
