import sys; sys.path.insert(0, "/tmp/seeds/G04/scratch")
from h import *
from t1 import run
bad = 0
for lik_kind in ["homo", "fixed"]:
    for model_b in [(), (2,)]:
      for fant_b in [(), (3,)]:
        for second_fb in [(4,), (1,)]:
          for shared in [True, False]:
            for fpv in [False, True]:
                cfg = (lik_kind, model_b, fant_b, second_fb, shared, fpv)
                try:
                    for r in run(model_b, fant_b, shared, 3, fpv, True, lik_kind, "const", second_fb=second_fb):
                        if max(r[1:6]) > 1e-6 or r[6] != r[7]:
                            bad += 1
                            print("BAD", cfg, r)
                except Exception as e:
                    bad += 1
                    import traceback
                    tb = traceback.extract_tb(e.__traceback__)
                    print("EXC", cfg, type(e).__name__, str(e)[:200], [(f.name, f.lineno) for f in tb[-3:]])
print("bad", bad)
