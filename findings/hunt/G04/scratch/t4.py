import sys; sys.path.insert(0, "/tmp/seeds/G04/scratch")
from h import *
torch.manual_seed(0)
n,d,m=6,2,2
def build(X,y):
    lik = GaussianLikelihood(); mod = GP(X,y,lik); randomize(mod); mod.eval(); return mod
X=torch.rand(n,d); y=torch.randn(n); Xt=torch.rand(4,d)
for fpv in [False, True]:
  with gpytorch.settings.detach_test_caches(False), gpytorch.settings.fast_pred_var(fpv):
    # reference behaviour: scratch model, two backward passes
    Xf=torch.rand(m,d); yf=torch.randn(m)
    ref=build(torch.cat([X,Xf]),torch.cat([y,yf]))
    for i in range(2):
        o=ref(Xt); (o.mean.sum()+o.variance.sum()).backward()
    print("scratch two backward ok")
    mod=build(X,y); mod(Xt)
    fm=mod.get_fantasy_model(Xf,yf)
    try:
        for i in range(2):
            o=fm(Xt); (o.mean.sum()+o.variance.sum()).backward()
            print("fantasy backward", i, "ok")
    except Exception as e:
        print("fantasy EXC", type(e).__name__, str(e)[:200])
    # source after backward through fantasy
    try:
        o=mod(Xt); (o.mean.sum()+o.variance.sum()).backward(); print("source backward ok")
        o=mod(Xt); (o.mean.sum()+o.variance.sum()).backward(); print("source backward 2 ok")
    except Exception as e:
        print("source EXC", type(e).__name__, str(e)[:200])
