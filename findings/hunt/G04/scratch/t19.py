import sys; sys.path.insert(0, "/tmp/seeds/G04/scratch")
from h import *
from gpytorch.likelihoods import _GaussianLikelihoodBase
from gpytorch.likelihoods.noise_models import HeteroskedasticNoise
torch.manual_seed(0)
n,d,m=6,2,2
def mk_noise_model():
    Xn=torch.rand(5,d); yn=torch.randn(5)*0.3
    nm=GP(Xn,yn,GaussianLikelihood()); randomize(nm,7); return nm
for fb in [(),(3,)]:
  for shared in [True,False]:
    for fpv in [False,True]:
      try:
        nm=mk_noise_model()
        lik=_GaussianLikelihoodBase(HeteroskedasticNoise(nm))
        X=torch.rand(n,d); y=torch.randn(n)
        mod=GP(X,y,lik); randomize(mod); mod.eval()
        Xt=torch.rand(4,d)
        with gpytorch.settings.fast_pred_var(fpv):
            p0=mod(Xt); m0=p0.mean.clone(); c0=p0.covariance_matrix.clone()
            tb=torch.Size(fb); ib=torch.Size() if shared else tb
            Xf=torch.rand(*ib,m,d); yf=torch.randn(*tb,m)
            fm=mod.get_fantasy_model(Xf,yf)
            import copy
            ref=GP(torch.cat([X.expand(*tb,n,d),Xf.expand(*tb,m,d)],-2),torch.cat([y.expand(*tb,n),yf],-1),copy.deepcopy(lik)); ref.load_state_dict(mod.state_dict()); ref.eval()
            a=fm(Xt); b=ref(Xt)
            p1=mod(Xt)
            print("hetero",fb,shared,fpv,cmp(a.mean,b.mean),cmp(a.covariance_matrix,b.covariance_matrix),"src",cmp(p1.mean,m0),cmp(p1.covariance_matrix,c0))
      except Exception as e:
        import traceback
        tbk = traceback.extract_tb(e.__traceback__)
        print("EXC",fb,shared,fpv,type(e).__name__,str(e)[:160], [(f.name, f.lineno) for f in tbk[-4:]])
