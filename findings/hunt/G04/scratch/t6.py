import sys; sys.path.insert(0, "/tmp/seeds/G04/scratch")
from h import *
torch.manual_seed(0)
class GP2(ExactGP):
    def __init__(self, x1, x2, y, lik):
        super().__init__((x1, x2), y, lik)
        self.mean_module = gpytorch.means.ConstantMean()
        self.k1 = gpytorch.kernels.ScaleKernel(gpytorch.kernels.RBFKernel())
        self.k2 = gpytorch.kernels.MaternKernel(1.5)
    def forward(self, x1, x2):
        return gpytorch.distributions.MultivariateNormal(self.mean_module(x1), self.k1(x1) * self.k2(x2))
n,m=6,2
for d1,d2 in [(2,3),(1,1)]:
  for fb in [(), (3,)]:
    for shared in [True, False]:
      for oned in [False, True]:
        if oned and (d1,d2)!=(1,1): continue
        try:
            X1=torch.rand(n,d1); X2=torch.rand(n,d2); y=torch.randn(n)
            if oned: X1=X1.squeeze(-1); X2=X2.squeeze(-1)
            mod=GP2(X1,X2,y,GaussianLikelihood()); randomize(mod); mod.eval()
            T1=torch.rand(4,d1); T2=torch.rand(4,d2)
            mod(T1,T2)
            tb=torch.Size(fb); ib = tb if not shared else torch.Size()
            F1=torch.rand(*ib,m,d1); F2=torch.rand(*ib,m,d2); yf=torch.randn(*tb,m)
            if oned and not ib: F1=F1.squeeze(-1); F2=F2.squeeze(-1)
            fm=mod.get_fantasy_model([F1,F2],yf)
            def u(t): return t.unsqueeze(-1) if t.dim()==1 else t
            fullX1=torch.cat([u(X1).expand(*tb,n,d1),u(F1).expand(*tb,m,d1)],-2); fullX2=torch.cat([u(X2).expand(*tb,n,d2),u(F2).expand(*tb,m,d2)],-2)
            fully=torch.cat([y.expand(*tb,n),yf],-1)
            ref=GP2(fullX1,fullX2,fully,GaussianLikelihood()); ref.load_state_dict(mod.state_dict()); ref.eval()
            a=fm(T1,T2); b=ref(T1,T2)
            print(d1,d2,fb,shared,oned, cmp(a.mean,b.mean), cmp(a.covariance_matrix,b.covariance_matrix), a.mean.shape, b.mean.shape)
            # second-level fantasy
            G1=torch.rand(*tb,m,d1); G2=torch.rand(*tb,m,d2); yg=torch.randn(*tb,m)
            fm2=fm.get_fantasy_model([G1,G2],yg)
            ref2=GP2(torch.cat([fullX1,G1],-2),torch.cat([fullX2,G2],-2),torch.cat([fully,yg],-1),GaussianLikelihood()); ref2.load_state_dict(mod.state_dict()); ref2.eval()
            a=fm2(T1,T2); b=ref2(T1,T2)
            print("   2nd", cmp(a.mean,b.mean), cmp(a.covariance_matrix,b.covariance_matrix))
            # tuple inputs
            fm3=mod.get_fantasy_model((F1,F2),yf)
            a=fm3(T1,T2); print("   tuple ok", cmp(a.mean, ref(T1,T2).mean))
        except Exception as e:
            import traceback
            tbk = traceback.extract_tb(e.__traceback__)
            print("EXC",d1,d2,fb,shared,oned,type(e).__name__,str(e)[:200], [(f.name, f.lineno) for f in tbk[-3:]])
