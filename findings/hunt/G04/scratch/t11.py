import sys; sys.path.insert(0, "/tmp/seeds/G04/scratch")
from kg import *
torch.manual_seed(0)
n,m,d=30,3,1
for fb,ib in [((3,),(3,)), ((4,3),(3,)), ((4,3),(4,3))]:
  for fpv in [False,True]:
    for fps in [False, True]:
      try:
        X=torch.rand(n,d); y=torch.sin(4*X.sum(-1))+0.1*torch.randn(n)
        mod=KG(X,y,GaussianLikelihood(),"const",False,d=d)
        with torch.no_grad(): mod.likelihood.noise=0.05; mod.mean_module.constant.fill_(0.7)
        mod.eval(); Xt=torch.rand(5,d)
        with gpytorch.settings.fast_pred_var(fpv), gpytorch.settings.fast_pred_samples(fps):
            mod(Xt)
            tb=torch.Size(fb)
            Xf=torch.rand(*ib,m,d); yf=torch.randn(*fb,m)
            fm=mod.get_fantasy_model(Xf,yf)
            ref=KG(torch.cat([X.expand(*tb,n,d),Xf.expand(*tb,m,d)],-2),torch.cat([y.expand(*tb,n),yf],-1),GaussianLikelihood(),"const",False,d=d)
            ref.load_state_dict(mod.state_dict()); ref.eval()
            a=fm(Xt)
            with gpytorch.settings.fast_pred_var(False), gpytorch.settings.fast_pred_samples(False):
                b=ref(Xt)
            print(fb,ib,fpv,fps,cmp(a.mean,b.mean),cmp(a.covariance_matrix,b.covariance_matrix),a.mean.shape,b.mean.shape)
            fm.train();fm.eval(); a=fm(Xt); print("   rt",cmp(a.mean,b.mean),cmp(a.covariance_matrix,b.covariance_matrix))
      except Exception as e:
        import traceback
        tbk = traceback.extract_tb(e.__traceback__)
        print("EXC",fb,ib,fpv,fps,type(e).__name__,str(e)[:200], [(f.name, f.lineno) for f in tbk[-3:]])
