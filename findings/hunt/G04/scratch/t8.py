import sys; sys.path.insert(0, "/tmp/seeds/G04/scratch")
from h import *
from gpytorch.models import IndependentModelList
class GP2(ExactGP):
    def __init__(self, x1, x2, y, lik):
        super().__init__((x1, x2), y, lik)
        self.mean_module = gpytorch.means.ConstantMean()
        self.k1 = gpytorch.kernels.ScaleKernel(gpytorch.kernels.RBFKernel())
        self.k2 = gpytorch.kernels.MaternKernel(1.5)
    def forward(self, x1, x2):
        return gpytorch.distributions.MultivariateNormal(self.mean_module(x1), self.k1(x1) * self.k2(x2))
torch.manual_seed(0)
n,m=6,2
X1=torch.rand(n,2); X2=torch.rand(n,3); y=torch.randn(n)
a=GP2(X1,X2,y,GaussianLikelihood()); b=GP2(X1,X2,y+1,GaussianLikelihood())
ml=IndependentModelList(a,b); ml.eval()
T1=torch.rand(4,2);T2=torch.rand(4,3)
out=ml([T1,T2],[T1,T2]); print("call ok",[o.mean.shape for o in out])
F1=torch.rand(m,2);F2=torch.rand(m,3); yf=torch.randn(m)
print("single:", a.get_fantasy_model([F1,F2],yf)(T1,T2).mean)
for form in ["list","tuple","wrapped"]:
    try:
        inp={"list":[[F1,F2],[F1,F2]],"tuple":[(F1,F2),(F1,F2)],"wrapped":[[[F1,F2]],[[F1,F2]]]}[form]
        f=ml.get_fantasy_model(inp,[yf,yf])
        print(form,"ok",f([T1,T2],[T1,T2])[0].mean)
    except Exception as e:
        print(form,"EXC",type(e).__name__,str(e)[:200])
