import sys; sys.path.insert(0, "/tmp/seeds/G04/scratch")
from h import *
class KG(ExactGP):
    def __init__(self, x, y, lik, mean="const", scale_outside=False, grid=20, d=1):
        super().__init__(x, y, lik)
        self.mean_module = gpytorch.means.ConstantMean() if mean=="const" else gpytorch.means.ZeroMean()
        base = gpytorch.kernels.RBFKernel()
        if scale_outside:
            self.covar_module = gpytorch.kernels.ScaleKernel(gpytorch.kernels.GridInterpolationKernel(base, grid_size=grid, num_dims=d, grid_bounds=[(-0.2,1.2)]*d))
        else:
            self.covar_module = gpytorch.kernels.GridInterpolationKernel(gpytorch.kernels.ScaleKernel(base), grid_size=grid, num_dims=d, grid_bounds=[(-0.2,1.2)]*d)
    def forward(self, x):
        return gpytorch.distributions.MultivariateNormal(self.mean_module(x), self.covar_module(x))
torch.manual_seed(0)
n,m=30,3
for d in [1,2]:
 for mean in ["const","zero"]:
  for scale_outside in [False,True]:
   for fb in [(),(3,)]:
    for fpv in [False,True]:
      try:
        X=torch.rand(n,d); y=torch.sin(4*X.sum(-1))+0.1*torch.randn(n)
        mod=KG(X,y,GaussianLikelihood(),mean,scale_outside,d=d,grid=20 if d==1 else 10)
        with torch.no_grad():
            mod.likelihood.noise=0.05
            if mean=="const": mod.mean_module.constant.fill_(0.7)
        mod.eval()
        Xt=torch.rand(5,d)
        with gpytorch.settings.fast_pred_var(fpv):
            p0=mod(Xt); m0=p0.mean.clone(); c0=p0.covariance_matrix.clone()
            Xf=torch.rand(m,d); yf=torch.randn(*fb,m)
            fm=mod.get_fantasy_model(Xf,yf)
            tb=torch.Size(fb)
            ref=KG(torch.cat([X.expand(*tb,n,d),Xf.expand(*tb,m,d)],-2),torch.cat([y.expand(*tb,n),yf],-1),GaussianLikelihood(),mean,scale_outside,d=d,grid=20 if d==1 else 10)
            ref.load_state_dict(mod.state_dict()); ref.eval()
            a=fm(Xt); 
            with gpytorch.settings.fast_pred_var(False):
                b=ref(Xt)
            print(d,mean,scale_outside,fb,fpv,"lvl1",cmp(a.mean,b.mean),cmp(a.covariance_matrix,b.covariance_matrix), a.mean.shape,b.mean.shape)
            Xg=torch.rand(m,d); yg=torch.randn(*fb,m)
            fm2=fm.get_fantasy_model(Xg,yg)
            ref2=KG(torch.cat([X.expand(*tb,n,d),Xf.expand(*tb,m,d),Xg.expand(*tb,m,d)],-2),torch.cat([y.expand(*tb,n),yf,yg],-1),GaussianLikelihood(),mean,scale_outside,d=d,grid=20 if d==1 else 10)
            ref2.load_state_dict(mod.state_dict()); ref2.eval()
            a=fm2(Xt)
            with gpytorch.settings.fast_pred_var(False):
                b=ref2(Xt)
            print("    lvl2",cmp(a.mean,b.mean),cmp(a.covariance_matrix,b.covariance_matrix))
            p1=mod(Xt); print("    src",cmp(p1.mean,m0),cmp(p1.covariance_matrix,c0))
      except Exception as e:
        import traceback
        tbk = traceback.extract_tb(e.__traceback__)
        print("EXC",d,mean,scale_outside,fb,fpv,type(e).__name__,str(e)[:200], [(f.name, f.lineno) for f in tbk[-3:]])
