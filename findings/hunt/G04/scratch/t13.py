import sys; sys.path.insert(0, "/tmp/seeds/G04/scratch")
from h import *
from gpytorch.models import ApproximateGP
from gpytorch.variational import CholeskyVariationalDistribution, VariationalStrategy, UnwhitenedVariationalStrategy
class SV(ApproximateGP):
    def __init__(self, Z, strat=VariationalStrategy, bs=torch.Size(), mean="const"):
        vd = CholeskyVariationalDistribution(Z.size(-2), batch_shape=bs)
        vs = strat(self, Z, vd, learn_inducing_locations=True)
        super().__init__(vs)
        self.mean_module = gpytorch.means.ConstantMean(batch_shape=bs) if mean=="const" else gpytorch.means.LinearMean(Z.shape[-1], batch_shape=bs)
        self.covar_module = gpytorch.kernels.ScaleKernel(gpytorch.kernels.RBFKernel(batch_shape=bs), batch_shape=bs)
        self.likelihood = GaussianLikelihood(batch_shape=bs)
    def forward(self, x):
        return gpytorch.distributions.MultivariateNormal(self.mean_module(x), self.covar_module(x))
def set_optimal(mod, X, y, whitened):
    with torch.no_grad():
        Z = mod.variational_strategy.inducing_points
        Kzz = mod.covar_module(Z).to_dense() ; Kzx = mod.covar_module(Z, X).to_dense()
        s2 = mod.likelihood.noise.unsqueeze(-1)
        A = Kzz + Kzx @ Kzx.transpose(-1,-2) / s2
        S = Kzz @ torch.linalg.solve(A, Kzz)
        r = (y - mod.mean_module(X)).unsqueeze(-1)
        mu = Kzz @ torch.linalg.solve(A, Kzx @ r / s2)
        if whitened:
            L = torch.linalg.cholesky(Kzz + 1e-10*torch.eye(Kzz.shape[-1]))
            Li = torch.linalg.inv(L)
            S = Li @ S @ Li.transpose(-1,-2); mu = Li @ mu
        else:
            mu = mu + mod.mean_module(Z).unsqueeze(-1)
        vd = mod.variational_strategy._variational_distribution
        vd.variational_mean.copy_(mu.squeeze(-1))
        vd.chol_variational_covar.copy_(torch.linalg.cholesky(S))
        mod.variational_strategy.variational_params_initialized.fill_(1)
def cond_ref(model, Xf, yf, Xt):
    with torch.no_grad():
        m = Xf.shape[-2]
        joint = model(torch.cat([Xf, Xt], -2))
        mu, K = joint.mean, joint.covariance_matrix
        s2 = model.likelihood.noise
        Kff = K[..., :m, :m] + s2.unsqueeze(-1) * torch.eye(m)
        Ktf = K[..., m:, :m]
        sol = torch.linalg.solve(Kff, (yf - mu[..., :m]).unsqueeze(-1)).squeeze(-1)
        mean = mu[..., m:] + (Ktf @ sol.unsqueeze(-1)).squeeze(-1)
        cov = K[..., m:, m:] - Ktf @ torch.linalg.solve(Kff, Ktf.transpose(-1, -2))
    return mean, cov
if __name__ == "__main__":
  torch.manual_seed(0)
  d=2
  for strat in [VariationalStrategy, UnwhitenedVariationalStrategy]:
   for bs in [(),(2,)]:
    for mean in ["const","linear"]:
     for fb in [(),(3,)]:
      for fpv in [True, False]:
        try:
            bs_=torch.Size(bs)
            Z=torch.rand(*bs_,8,d)
            mod=SV(Z,strat,bs_,mean)
            g=torch.Generator().manual_seed(3)
            with torch.no_grad():
                for nme,p in mod.named_parameters():
                    if "variational" in nme: continue
                    p.copy_(torch.randn(p.shape,generator=g)*0.5)
            X=torch.rand(*bs_,20,d); y=torch.randn(*bs_,20)
            set_optimal(mod,X,y,strat is VariationalStrategy)
            mod.eval(); mod.likelihood.eval()
            Xt=torch.rand(*bs_,4,d)
            with gpytorch.settings.fast_pred_var(fpv):
                p0=mod(Xt); m0=p0.mean.detach().clone(); c0=p0.covariance_matrix.detach().clone()
                tb=torch.Size(fb)
                Xf=torch.rand(*bs_,3,d); yf=torch.randn(*tb,*bs_,3)
                fm=mod.get_fantasy_model(Xf,yf)
                a=fm(Xt)
                rm,rc=cond_ref(mod,Xf,yf,Xt)
                p1=mod(Xt)
                print(strat.__name__[:6],bs,mean,fb,fpv,"mean %.2e"%cmp(a.mean,rm),"cov %.2e"%cmp(a.covariance_matrix,rc.expand_as(a.covariance_matrix)),"src",cmp(p1.mean,m0),cmp(p1.covariance_matrix,c0))
        except Exception as e:
            import traceback
            tbk = traceback.extract_tb(e.__traceback__)
            print("EXC",strat.__name__[:6],bs,mean,fb,fpv,type(e).__name__,str(e)[:200], [(f.name, f.lineno) for f in tbk[-3:]])
