import sys; sys.path.insert(0, "/tmp/seeds/G04/scratch")
from h import *
torch.manual_seed(0)
n,d,m=6,2,2
def go(mb, ib, tb, fpv=False, hyper_b=None):
    mb,ib,tb=map(torch.Size,(mb,ib,tb))
    hb = mb if hyper_b is None else torch.Size(hyper_b)
    X=torch.rand(*mb,n,d); y=torch.randn(*mb,n)
    mod=GP(X,y,GaussianLikelihood(batch_shape=hb),hb); randomize(mod); mod.eval()
    full_b=torch.broadcast_shapes(mb,tb)
    Xt=torch.rand(*full_b,4,d)
    with gpytorch.settings.fast_pred_var(fpv):
        mod(Xt)
        Xf=torch.rand(*ib,m,d); yf=torch.randn(*tb,m)
        fm=mod.get_fantasy_model(Xf,yf)
        ref=GP(torch.cat([X.expand(*full_b,n,d),Xf.expand(*full_b,m,d)],-2),torch.cat([y.expand(*full_b,n),yf.expand(*full_b,m)],-1),GaussianLikelihood(batch_shape=hb),hb); ref.load_state_dict(mod.state_dict()); ref.eval()
        a=fm(Xt); b=ref(Xt)
        return cmp(a.mean,b.mean),cmp(a.covariance_matrix,b.covariance_matrix),tuple(a.mean.shape),tuple(b.mean.shape)
cases=[((2,),(1,),(1,)),((1,),(3,),(3,)),((1,),(1,),(3,1)),((1,),(),(3,)),((2,1),(2,3),(2,3)),((2,1),(2,1),(4,2,1)),((2,3),(1,3),(1,3)),((2,3),(3,),(3,)),((2,3),(3,),(2,3)),((3,),(1,),(3,)), ((3,),(3,),(1,)), ((1,3),(3,),(3,)), ((1,3),(3,),(5,3)), ((2,),(),()), ((2,),(),(2,)), ((2,1),(1,),(2,1)),((2,1),(2,1),(2,3))]
for c in cases:
  for fpv in [False,True]:
    try: print(c,fpv,go(*c,fpv=fpv))
    except Exception as e:
        import traceback
        tbk = traceback.extract_tb(e.__traceback__)
        print("EXC",c,fpv,type(e).__name__,str(e)[:160], [(f.name, f.lineno) for f in tbk[-3:]])
