import sys; sys.path.insert(0, "/tmp/seeds/G04/scratch")
from h import *
class KG(ExactGP):
    def __init__(self, x, y, lik, mean="const", scale_outside=False, grid=20, d=1):
        super().__init__(x, y, lik)
        self.mean_module = gpytorch.means.ConstantMean() if mean=="const" else gpytorch.means.ZeroMean()
        base = gpytorch.kernels.RBFKernel()
        if scale_outside:
            self.covar_module = gpytorch.kernels.ScaleKernel(gpytorch.kernels.GridInterpolationKernel(base, grid_size=grid, num_dims=d, grid_bounds=[(-0.2,1.2)]*d))
        else:
            self.covar_module = gpytorch.kernels.GridInterpolationKernel(gpytorch.kernels.ScaleKernel(base), grid_size=grid, num_dims=d, grid_bounds=[(-0.2,1.2)]*d)
    def forward(self, x):
        return gpytorch.distributions.MultivariateNormal(self.mean_module(x), self.covar_module(x))
