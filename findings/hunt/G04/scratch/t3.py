import sys; sys.path.insert(0, "/tmp/seeds/G04/scratch")
from h import *
torch.manual_seed(0)
n,d,m=6,2,2
def build(X,y,lik_kind="homo",noise=None):
    lik = GaussianLikelihood() if lik_kind=="homo" else FixedNoiseGaussianLikelihood(noise=noise)
    mod = GP(X,y,lik); randomize(mod); mod.eval(); return mod
X=torch.rand(n,d); y=torch.randn(n); Xt=torch.rand(4,d)
for detach in [True, False]:
  for fpv in [False, True]:
    for shared_f in [None, 3]:
        with gpytorch.settings.detach_test_caches(detach), gpytorch.settings.fast_pred_var(fpv):
            mod=build(X,y); mod(Xt)
            Xf=torch.rand(m,d,requires_grad=True)
            yf=torch.randn(m) if shared_f is None else torch.randn(shared_f,m)
            yf.requires_grad_(True)
            fm=mod.get_fantasy_model(Xf,yf)
            out=fm(Xt)
            obj=(out.mean.sum()+out.variance.sum())
            gX,gy=torch.autograd.grad(obj,[Xf,yf],allow_unused=True)
            # hyper grads
            # reference
            Xf2=Xf.detach().clone().requires_grad_(True); yf2=yf.detach().clone().requires_grad_(True)
            tb=yf2.shape[:-1]
            fullX=torch.cat([X.expand(*tb,n,d),Xf2.expand(*tb,m,d)],-2); fully=torch.cat([y.expand(*tb,n),yf2],-1)
            ref=build(fullX,fully)
            o2=ref(Xt)
            obj2=o2.mean.sum()+o2.variance.sum()
            gX2,gy2=torch.autograd.grad(obj2,[Xf2,yf2],allow_unused=True)
            print(detach,fpv,shared_f,"gX",None if gX is None else cmp(gX,gX2) if gX2 is not None else "refNone","gy",None if gy is None else (cmp(gy,gy2) if gy2 is not None else "refNone"), "ref none?", gX2 is None, gy2 is None)
            # hyperparameter grads with detach off
            if not detach:
                mod=build(X,y); mod(Xt)
                fm=mod.get_fantasy_model(Xf.detach(),yf.detach())
                out=fm(Xt); obj=(out.mean.sum()+out.variance.sum())
                ps=[p for p in fm.parameters()]
                names=[k for k,_ in fm.named_parameters()]
                g=torch.autograd.grad(obj,ps,allow_unused=True)
                ref=build(fullX.detach(),fully.detach()); o2=ref(Xt); obj2=o2.mean.sum()+o2.variance.sum()
                g2=torch.autograd.grad(obj2,list(ref.parameters()),allow_unused=True)
                print("   hyper grads (fantasy params):",[(k,None if a is None else round(cmp(a,b),8)) for k,a,b in zip(names,g,g2)])
                mod=build(X,y); mod(Xt)
                fm=mod.get_fantasy_model(Xf.detach(),yf.detach())
                out=fm(Xt); obj=(out.mean.sum()+out.variance.sum())
                g=torch.autograd.grad(obj,list(mod.parameters()),allow_unused=True)
                print("   hyper grads (source params):",[(k,None if a is None else round(cmp(a,b),8)) for k,a,b in zip(names,g,g2)])
