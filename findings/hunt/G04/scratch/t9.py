import sys; sys.path.insert(0, "/tmp/seeds/G04/scratch")
from h import *
from gpytorch.likelihoods import MultitaskGaussianLikelihood
class MT(ExactGP):
    def __init__(self, x, y, lik, T=2, bs=torch.Size(), kind="mt"):
        super().__init__(x, y, lik)
        self.mean_module = gpytorch.means.MultitaskMean(gpytorch.means.ConstantMean(batch_shape=bs), num_tasks=T)
        self.covar_module = gpytorch.kernels.MultitaskKernel(gpytorch.kernels.RBFKernel(batch_shape=bs), num_tasks=T, rank=1, batch_shape=bs)
    def forward(self, x):
        return gpytorch.distributions.MultitaskMultivariateNormal(self.mean_module(x), self.covar_module(x))
torch.manual_seed(0)
n,d,T=5,2,2
for bs in [(),(2,)]:
  for rank in [0,1]:
    for fpv in [False,True]:
      try:
        bs_=torch.Size(bs)
        X=torch.rand(*bs_,n,d); y=torch.randn(*bs_,n,T)
        lik=MultitaskGaussianLikelihood(num_tasks=T,rank=rank,batch_shape=bs_)
        mod=MT(X,y,lik,T,bs_); randomize(mod); mod.eval()
        Xt=torch.rand(*bs_,3,d)
        with gpytorch.settings.fast_pred_var(fpv):
            p0=mod(Xt); m0=p0.mean.clone(); c0=p0.covariance_matrix.clone()
            Xf=torch.rand(*bs_,1,d); yf=torch.randn(*bs_,1,T)
            fm=mod.get_fantasy_model(Xf,yf)
            ref=MT(torch.cat([X,Xf],-2),torch.cat([y,yf],-2),MultitaskGaussianLikelihood(num_tasks=T,rank=rank,batch_shape=bs_),T,bs_); ref.load_state_dict(mod.state_dict()); ref.eval()
            a=fm(Xt); b=ref(Xt)
            print(bs,rank,fpv,"lvl1",cmp(a.mean,b.mean),cmp(a.covariance_matrix,b.covariance_matrix))
            Xg=torch.rand(*bs_,1,d); yg=torch.randn(*bs_,1,T)
            fm2=fm.get_fantasy_model(Xg,yg)
            ref2=MT(torch.cat([X,Xf,Xg],-2),torch.cat([y,yf,yg],-2),MultitaskGaussianLikelihood(num_tasks=T,rank=rank,batch_shape=bs_),T,bs_); ref2.load_state_dict(mod.state_dict()); ref2.eval()
            a=fm2(Xt); b=ref2(Xt)
            print(bs,rank,fpv,"lvl2",cmp(a.mean,b.mean),cmp(a.covariance_matrix,b.covariance_matrix))
            p1=mod(Xt); print("   src",cmp(p1.mean,m0),cmp(p1.covariance_matrix,c0))
            fm.train(); fm.eval(); a=fm(Xt); b=ref(Xt); print("   roundtrip",cmp(a.mean,b.mean),cmp(a.covariance_matrix,b.covariance_matrix))
      except Exception as e:
        import traceback
        tbk = traceback.extract_tb(e.__traceback__)
        print("EXC",bs,rank,fpv,type(e).__name__,str(e)[:200], [(f.name, f.lineno) for f in tbk[-3:]])
