import sys; sys.path.insert(0, "/tmp/seeds/G04/scratch")
from h import *
import gpytorch.kernels as K
class G(ExactGP):
    def __init__(self,x,y,lik,kern,mean=None):
        super().__init__(x,y,lik); self.mean_module=mean or gpytorch.means.ConstantMean(); self.covar_module=kern
    def forward(self,x): return gpytorch.distributions.MultivariateNormal(self.mean_module(x),self.covar_module(x))
torch.manual_seed(0)
n,d,m=8,3,2
kerns={
 "linear":lambda: K.LinearKernel(),
 "scale_linear":lambda: K.ScaleKernel(K.LinearKernel()),
 "poly":lambda: K.PolynomialKernel(2),
 "periodic":lambda: K.ScaleKernel(K.PeriodicKernel()),
 "sm":lambda: K.SpectralMixtureKernel(num_mixtures=2,ard_num_dims=3),
 "prod":lambda: K.RBFKernel(active_dims=[0])*K.MaternKernel(active_dims=[1,2]),
 "sum":lambda: K.ScaleKernel(K.RBFKernel())+K.LinearKernel(),
 "addstruct":lambda: K.AdditiveStructureKernel(K.ScaleKernel(K.RBFKernel()),num_dims=3),
 "prodstruct":lambda: K.ProductStructureKernel(K.ScaleKernel(K.RBFKernel()),num_dims=3),
 "rq_ard":lambda: K.ScaleKernel(K.RQKernel(ard_num_dims=3)),
 "cosine":lambda: K.CosineKernel()+K.RBFKernel(),
 "piecewise":lambda: K.PiecewisePolynomialKernel(),
 "const":lambda: K.ConstantKernel()+K.RBFKernel(),
 "arc":lambda: K.ArcKernel(K.MaternKernel(2.5),ard_num_dims=3) ,
 "polygrad":None,
}
for name,mk in kerns.items():
  if mk is None: continue
  for fb in [(),(3,)]:
   for shared in [True,False]:
    for fpv in [False,True]:
      try:
        X=torch.rand(n,d); y=torch.randn(n)
        mod=G(X,y,GaussianLikelihood(),mk()); 
        g=torch.Generator().manual_seed(5)
        with torch.no_grad():
            for p in mod.parameters(): p.add_(torch.randn(p.shape,generator=g)*0.3)
        mod.eval()
        Xt=torch.rand(4,d)
        with gpytorch.settings.fast_pred_var(fpv):
            p0=mod(Xt); m0=p0.mean.clone(); c0=p0.covariance_matrix.clone()
            tb=torch.Size(fb); ib=torch.Size() if shared else tb
            Xf=torch.rand(*ib,m,d); yf=torch.randn(*tb,m)
            fm=mod.get_fantasy_model(Xf,yf)
            ref=G(torch.cat([X.expand(*tb,n,d),Xf.expand(*tb,m,d)],-2),torch.cat([y.expand(*tb,n),yf],-1),GaussianLikelihood(),mk()); ref.load_state_dict(mod.state_dict()); ref.eval()
            a=fm(Xt)
            with gpytorch.settings.fast_pred_var(False): b=ref(Xt)
            Xg=torch.rand(*tb,m,d); yg=torch.randn(*tb,m)
            fm2=fm.get_fantasy_model(Xg,yg)
            ref2=G(torch.cat([X.expand(*tb,n,d),Xf.expand(*tb,m,d),Xg],-2),torch.cat([y.expand(*tb,n),yf,yg],-1),GaussianLikelihood(),mk()); ref2.load_state_dict(mod.state_dict()); ref2.eval()
            a2=fm2(Xt)
            with gpytorch.settings.fast_pred_var(False): b2=ref2(Xt)
            p1=mod(Xt)
            errs=(cmp(a.mean,b.mean),cmp(a.covariance_matrix,b.covariance_matrix),cmp(a2.mean,b2.mean),cmp(a2.covariance_matrix,b2.covariance_matrix),cmp(p1.mean,m0),cmp(p1.covariance_matrix,c0))
            flag="BAD" if max(errs)>1e-6 else "ok"
            print(flag,name,fb,shared,fpv,["%.1e"%e for e in errs])
      except Exception as e:
        import traceback
        tbk = traceback.extract_tb(e.__traceback__)
        print("EXC",name,fb,shared,fpv,type(e).__name__,str(e)[:160], [(f.name, f.lineno) for f in tbk[-3:]])
