import sys; sys.path.insert(0, "/tmp/seeds/G04/scratch")
from h import *
import functools
from gpytorch.utils.memoize import clear_cache_hook
torch.manual_seed(0)
n,d,m=6,2,2
def build(X,y):
    lik = GaussianLikelihood(); mod = GP(X,y,lik); randomize(mod); mod.eval(); return mod
X=torch.rand(n,d); y=torch.randn(n); Xt=torch.rand(4,d,requires_grad=True)
Xf=torch.rand(m,d); yf=torch.randn(m)
for hook in [False, True]:
  for only_mean in [True, False]:
    with gpytorch.settings.detach_test_caches(False):
        mod=build(X,y); mod(Xt)
        fm=mod.get_fantasy_model(Xf,yf)
        if hook:
            mc=fm.prediction_strategy.mean_cache
            mc.grad_fn.register_hook(functools.partial(clear_cache_hook, fm.prediction_strategy))
        try:
            for i in range(3):
                o=fm(Xt); (o.mean.sum() if only_mean else o.mean.sum()+o.variance.sum()).backward()
            print("hook",hook,"only_mean",only_mean,"3 backward ok")
        except Exception as e:
            print("hook",hook,"only_mean",only_mean,"iteration",i,"EXC",str(e)[:60])
