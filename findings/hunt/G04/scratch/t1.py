import sys; sys.path.insert(0, "/tmp/seeds/G04/scratch")
from h import *

def run(model_b, fant_b, shared, steps, fpv, detach, lik_kind="homo", mean="const", m=2, ntest=4, second_fb=None):
    torch.manual_seed(0)
    n, d = 6, 2
    bs = torch.Size(model_b)
    X = torch.rand(*bs, n, d); y = torch.randn(*bs, n)
    if lik_kind == "homo":
        lik = GaussianLikelihood(batch_shape=bs)
    else:
        lik = FixedNoiseGaussianLikelihood(noise=torch.rand(*bs, n) * 0.3 + 0.05, learn_additional_noise=(lik_kind == "fixed+"), batch_shape=bs)
    model = GP(X, y, lik, bs, mean)
    randomize(model)
    model.eval()
    Xt = torch.rand(*bs, ntest, d)
    with gpytorch.settings.fast_pred_var(fpv), gpytorch.settings.detach_test_caches(detach):
        p0 = model(Xt)
        m0, c0 = p0.mean.detach().clone(), p0.covariance_matrix.detach().clone()
        cur = model
        curX, cury = X, y
        curnoise = lik.noise_covar.noise if lik_kind != "homo" else None
        for s in range(steps):
            fb = torch.Size(fant_b) if (s == 0 or second_fb is None) else torch.Size(second_fb)
            cur_bs = curX.shape[:-2]
            if s > 0 and second_fb is None:
                fb = torch.Size()  # plain second step in existing batch
            tb = fb + cur_bs
            yf = torch.randn(*tb, m)
            if shared:
                Xf = torch.rand(*cur_bs, m, d)
            else:
                Xf = torch.rand(*tb, m, d)
            kw = {}
            if lik_kind != "homo":
                nf = torch.rand(*(Xf.shape[:-1])) * 0.3 + 0.05
                kw["noise"] = nf
            new = cur.get_fantasy_model(Xf, yf, **kw)
            # reference
            fullX = torch.cat([curX.expand(*tb, *curX.shape[-2:]), Xf.expand(*tb, m, d)], -2)
            fully = torch.cat([cury.expand(*tb, cury.shape[-1]), yf], -1)
            if lik_kind == "homo":
                rl = GaussianLikelihood(batch_shape=bs)
            else:
                fulln = torch.cat([curnoise.expand(*tb, curnoise.shape[-1]), nf.expand(*tb, m)], -1)
                rl = FixedNoiseGaussianLikelihood(noise=fulln, learn_additional_noise=(lik_kind == "fixed+"), batch_shape=bs)
                curnoise = fulln
            ref = GP(fullX, fully, rl, bs, mean)
            sd = {k: v for k, v in model.state_dict().items()}
            ref.load_state_dict(sd, strict=False)
            ref.eval()
            Xt2 = torch.rand(*tb, ntest, d)
            pf = new(Xt2); pr = ref(Xt2)
            em = cmp(pf.mean, pr.mean); ec = cmp(pf.covariance_matrix, pr.covariance_matrix)
            # second call
            pf2 = new(Xt2)
            em2 = cmp(pf2.mean, pr.mean); ec2 = cmp(pf2.covariance_matrix, pr.covariance_matrix)
            # source untouched
            p1 = cur(Xt) if cur is model else None
            es = 0.0
            if p1 is not None:
                es = max(cmp(p1.mean, m0), cmp(p1.covariance_matrix, c0))
            yield s, em, ec, em2, ec2, es, tuple(pf.mean.shape), tuple(pr.mean.shape)
            cur, curX, cury = new, fullX, fully

if __name__ == "__main__":
    bad = 0
    for lik_kind in ["homo", "fixed", "fixed+"]:
      for mean in ["const", "linear"]:
        for model_b in [(), (2,), (3, 2)]:
          for fant_b in [(), (3,)]:
            for shared in [True, False]:
              for fpv in [False, True]:
                for detach in [True, False]:
                  cfg = (lik_kind, mean, model_b, fant_b, shared, fpv, detach)
                  try:
                    for r in run(model_b, fant_b, shared, 2, fpv, detach, lik_kind, mean):
                        if max(r[1:6]) > 1e-6 or r[6] != r[7]:
                            bad += 1
                            print("BAD", cfg, r)
                  except Exception as e:
                    bad += 1
                    print("EXC", cfg, type(e).__name__, str(e)[:150])
    print("bad", bad)
