import sys; sys.path.insert(0, "/tmp/seeds/G04/scratch")
from t13 import *
from gpytorch.variational.unwhitened_variational_strategy import UnwhitenedVariationalStrategy as U
class UFix(U):
    @property
    def pseudo_points(self):
        cov, mean = U.pseudo_points.fget.__wrapped__(self) if hasattr(U.pseudo_points.fget,"__wrapped__") else U.pseudo_points.fget(self)
        return cov, mean
torch.manual_seed(0)
d=2; c=2.0
Z=torch.rand(8,d); X=torch.rand(20,d); y=torch.randn(20)+c; Xt=torch.rand(4,d); Xf=torch.rand(3,d); yf=torch.randn(3)+c
mod=SV(Z.clone(),U,torch.Size(),"const")
with torch.no_grad():
    mod.mean_module.constant.fill_(c); mod.covar_module.outputscale=1.3; mod.covar_module.base_kernel.lengthscale=0.4; mod.likelihood.noise=0.1
set_optimal(mod,X,y,False); mod.eval()
vs=mod.variational_strategy
cov, pm = vs.pseudo_points
with torch.no_grad():
    S=vs.variational_distribution.covariance_matrix; m=vs.variational_distribution.mean
    Kzz=mod.covar_module(Z).to_dense(); mu=mod.mean_module(Z)
    R=Kzz-S
    correct = mu + (torch.eye(8)+S@torch.linalg.inv(R))@(m-mu)
    code_total = pm.squeeze(-1)+mu   # what amortized_exact_gp uses as pseudo targets
    print("pseudo targets used by code :",code_total.numpy().round(3))
    print("pseudo targets (derivation) :",correct.numpy().round(3))
    print("difference vs (I+S R^-1) mu :",cmp(code_total-correct,(torch.eye(8)+S@torch.linalg.inv(R))@mu))
