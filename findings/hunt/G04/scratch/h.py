import torch, gpytorch, warnings, itertools, sys
warnings.filterwarnings("ignore")
torch.set_default_dtype(torch.float64)
from gpytorch.models import ExactGP
from gpytorch.likelihoods import GaussianLikelihood, FixedNoiseGaussianLikelihood

class GP(ExactGP):
    def __init__(self, x, y, lik, batch_shape=torch.Size(), mean="const"):
        super().__init__(x, y, lik)
        if mean == "const":
            self.mean_module = gpytorch.means.ConstantMean(batch_shape=batch_shape)
        elif mean == "linear":
            self.mean_module = gpytorch.means.LinearMean(x.shape[-1], batch_shape=batch_shape)
        else:
            self.mean_module = gpytorch.means.ZeroMean()
        self.covar_module = gpytorch.kernels.ScaleKernel(gpytorch.kernels.MaternKernel(2.5, batch_shape=batch_shape), batch_shape=batch_shape)
    def forward(self, x):
        return gpytorch.distributions.MultivariateNormal(self.mean_module(x), self.covar_module(x))

def randomize(m, seed=1):
    g = torch.Generator().manual_seed(seed)
    with torch.no_grad():
        for n, p in m.named_parameters():
            p.copy_(torch.randn(p.shape, generator=g) * 0.5)

def cmp(a, b):
    return (a - b).abs().max().item()
