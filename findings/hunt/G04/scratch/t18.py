import sys; sys.path.insert(0, "/tmp/seeds/G04/scratch")
from h import *
import gpytorch.kernels as K
class G(ExactGP):
    def __init__(self,x,y,lik,kern,mean=None):
        super().__init__(x,y,lik); self.mean_module=mean or gpytorch.means.ConstantMean(); self.covar_module=kern
    def forward(self,x): return gpytorch.distributions.MultivariateNormal(self.mean_module(x),self.covar_module(x))
n,d,m=8,3,2
for kname,mk in [("cos+rbf",lambda: K.CosineKernel()+K.RBFKernel()),("cos",lambda: K.CosineKernel()),("scalecos",lambda: K.ScaleKernel(K.CosineKernel()))]:
  for seed in range(3):
    torch.manual_seed(seed)
    X=torch.rand(n,d); y=torch.randn(n)
    mod=G(X,y,GaussianLikelihood(),mk()); mod.eval()
    print(kname,"noise",mod.likelihood.noise.item())
    Xt=torch.rand(4,d); mod(Xt)
    for ib in [(),(3,),(1,)]:
        Xf=torch.rand(*ib,m,d); yf=torch.randn(*ib,m)
        try:
            fm=mod.get_fantasy_model(Xf,yf)
            tb=torch.Size(ib)
            ref=G(torch.cat([X.expand(*tb,n,d),Xf],-2),torch.cat([y.expand(*tb,n),yf],-1),GaussianLikelihood(),mk()); ref.load_state_dict(mod.state_dict()); ref.eval()
            a=fm(Xt); b=ref(Xt); print("  ",ib,"ok",cmp(a.mean,b.mean),cmp(a.covariance_matrix,b.covariance_matrix))
        except Exception as e:
            print("  ",ib,"EXC",type(e).__name__,str(e)[:100])
