"""
C04 / bug 1: ApproximateGP.get_fantasy_model with an UnwhitenedVariationalStrategy and a NON-ZERO prior mean
returns a fantasy model whose predictive mean is wrong by O(|prior mean|).

Reference values
  (a) dense Gaussian conditioning of the variational posterior q(f) on the new data (X_f, y_f) with the
      likelihood noise  (this is what "online variational conditioning" computes in closed form), and
  (b) an independent replica: the same SVGP written with the (whitened) VariationalStrategy, whose
      fantasy model agrees with (a) to ~1e-5.
Control: the identical unwhitened set-up with prior mean 0 agrees with (a) to ~1e-3 (jitter of the method).

exit 1 if the violation is present, 0 otherwise
"""
import sys
import warnings

import torch

import gpytorch
from gpytorch.likelihoods import GaussianLikelihood
from gpytorch.models import ApproximateGP
from gpytorch.variational import CholeskyVariationalDistribution, UnwhitenedVariationalStrategy, VariationalStrategy

warnings.filterwarnings("ignore")
torch.set_default_dtype(torch.float64)


class SVGP(ApproximateGP):
    def __init__(self, Z, strategy_cls):
        vd = CholeskyVariationalDistribution(Z.size(-2))
        super().__init__(strategy_cls(self, Z, vd, learn_inducing_locations=True))
        self.mean_module = gpytorch.means.ConstantMean()
        self.covar_module = gpytorch.kernels.ScaleKernel(gpytorch.kernels.RBFKernel())
        self.likelihood = GaussianLikelihood()

    def forward(self, x):
        return gpytorch.distributions.MultivariateNormal(self.mean_module(x), self.covar_module(x))


def set_optimal_q(model, X, y, whitened):
    """Closed-form optimal q(u) = N(m, S) of the collapsed bound (so that S <= K_zz holds, as the method requires)."""
    with torch.no_grad():
        Z = model.variational_strategy.inducing_points
        Kzz = model.covar_module(Z).to_dense()
        Kzx = model.covar_module(Z, X).to_dense()
        s2 = model.likelihood.noise
        A = Kzz + Kzx @ Kzx.mT / s2
        S = Kzz @ torch.linalg.solve(A, Kzz)
        m = Kzz @ torch.linalg.solve(A, Kzx @ (y - model.mean_module(X)).unsqueeze(-1) / s2)
        if whitened:
            Li = torch.linalg.inv(torch.linalg.cholesky(Kzz))
            S, m = Li @ S @ Li.mT, Li @ m
        else:
            m = m + model.mean_module(Z).unsqueeze(-1)  # the unwhitened q(u) lives in function space
        vd = model.variational_strategy._variational_distribution
        vd.variational_mean.copy_(m.squeeze(-1))
        vd.chol_variational_covar.copy_(torch.linalg.cholesky(S))
        model.variational_strategy.variational_params_initialized.fill_(1)


def dense_conditioning(model, Xf, yf, Xt):
    """q(f) is a GP; condition it on y_f = f(X_f) + eps, eps ~ N(0, sigma^2)."""
    with torch.no_grad():
        mf = Xf.shape[-2]
        joint = model(torch.cat([Xf, Xt], -2))
        mu, K = joint.mean, joint.covariance_matrix
        Kff = K[:mf, :mf] + model.likelihood.noise * torch.eye(mf)
        Ktf = K[mf:, :mf]
        mean = mu[mf:] + Ktf @ torch.linalg.solve(Kff, yf - mu[:mf])
        cov = K[mf:, mf:] - Ktf @ torch.linalg.solve(Kff, Ktf.mT)
    return mean, cov


def run(strategy_cls, c):
    torch.manual_seed(0)
    d = 2
    Z, X, Xt, Xf = torch.rand(8, d), torch.rand(20, d), torch.rand(4, d), torch.rand(3, d)
    y, yf = torch.randn(20) + c, torch.randn(3) + c
    model = SVGP(Z.clone(), strategy_cls)
    with torch.no_grad():
        model.mean_module.constant.fill_(c)
        model.covar_module.outputscale = 1.3
        model.covar_module.base_kernel.lengthscale = 0.4
        model.likelihood.noise = 0.1
    set_optimal_q(model, X, y, whitened=strategy_cls is VariationalStrategy)
    model.eval()
    with gpytorch.settings.fast_pred_var(True), torch.no_grad():
        svgp_mean = model(Xt).mean.clone()
        fantasy = model.get_fantasy_model(Xf, yf)
        fant_mean = fantasy(Xt).mean.clone()
        src_after = model(Xt).mean
    ref_mean, _ = dense_conditioning(model, Xf, yf, Xt)
    return svgp_mean, fant_mean, ref_mean, (src_after - svgp_mean).abs().max().item()


c = 2.0
sv_w, f_w, r_w, _ = run(VariationalStrategy, c)
sv_u, f_u, r_u, _ = run(UnwhitenedVariationalStrategy, c)
_, f_u0, r_u0, _ = run(UnwhitenedVariationalStrategy, 0.0)

print("both parametrisations describe the same SVGP posterior: max |mean_w - mean_u| = %.2e" % (sv_w - sv_u).abs().max())
print("prior mean constant c = %.1f" % c)
print("  reference (dense conditioning of q(f) on the fantasy data):", r_u.numpy().round(4))
print("  whitened   strategy fantasy mean                          :", f_w.numpy().round(4))
print("  unwhitened strategy fantasy mean                          :", f_u.numpy().round(4))
err_w = (f_w - r_w).abs().max().item()
err_u = (f_u - r_u).abs().max().item()
err_u0 = (f_u0 - r_u0).abs().max().item()
err_replica = (f_u - f_w).abs().max().item()
print("max abs error, whitened,   c=%.1f : %.3e" % (c, err_w))
print("max abs error, unwhitened, c=0.0 : %.3e   (control: only the jitter of the method)" % err_u0)
print("max abs error, unwhitened, c=%.1f : %.3e   <-- violation" % (c, err_u))
print("unwhitened fantasy vs whitened replica fantasy: %.3e" % err_replica)

violated = err_u > 0.1 and err_w < 1e-2 and err_u0 < 1e-2
print("VIOLATION PRESENT" if violated else "no violation")
sys.exit(1 if violated else 0)
