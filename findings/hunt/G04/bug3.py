"""
C04 / bug 3: the fantasy model of a KISS-GP (GridInterpolationKernel) ExactGP cannot predict inside
`gpytorch.settings.fast_pred_samples(True)` when fast_pred_var is off (its default): NotImplementedError.

The from-scratch KISS-GP model on the concatenated data predicts fine under exactly the same settings, and
the same fantasy model predicts fine (and correctly) with fast_pred_samples off, so the input is valid and
supported; only the fantasy ("WISKI") covariance cache of the kernel-specific strategy breaks.

exit 1 if the violation is present, 0 otherwise
"""
import sys
import warnings

import torch

import gpytorch
from gpytorch.likelihoods import GaussianLikelihood
from gpytorch.models import ExactGP

warnings.filterwarnings("ignore")
torch.set_default_dtype(torch.float64)


class KissGP(ExactGP):
    def __init__(self, x, y, lik):
        super().__init__(x, y, lik)
        self.mean_module = gpytorch.means.ConstantMean()
        self.covar_module = gpytorch.kernels.GridInterpolationKernel(
            gpytorch.kernels.ScaleKernel(gpytorch.kernels.RBFKernel()), grid_size=20, num_dims=1, grid_bounds=[(-0.2, 1.2)]
        )

    def forward(self, x):
        return gpytorch.distributions.MultivariateNormal(self.mean_module(x), self.covar_module(x))


torch.manual_seed(0)
n, m = 30, 3
X = torch.rand(n, 1)
y = torch.sin(4 * X.squeeze(-1)) + 0.1 * torch.randn(n)
Xf, yf = torch.rand(m, 1), torch.randn(m)
Xt = torch.rand(5, 1)

model = KissGP(X, y, GaussianLikelihood())
with torch.no_grad():
    model.likelihood.noise = 0.05
    model.mean_module.constant.fill_(0.7)
model.eval()

scratch = KissGP(torch.cat([X, Xf]), torch.cat([y, yf]), GaussianLikelihood())
scratch.load_state_dict(model.state_dict())
scratch.eval()

with torch.no_grad():
    ref = scratch(Xt)
    ref_mean, ref_cov = ref.mean.clone(), ref.covariance_matrix.clone()

    # the fantasy model itself is fine with default settings
    model(Xt)
    fm = model.get_fantasy_model(Xf, yf)
    out = fm(Xt)
    print(
        "default settings:            fantasy vs scratch  mean err %.2e  cov err %.2e"
        % ((out.mean - ref_mean).abs().max(), (out.covariance_matrix - ref_cov).abs().max())
    )

    violated = False
    with gpytorch.settings.fast_pred_samples(True):  # fast_pred_var stays off (default)
        scratch.train()
        scratch.eval()
        s = scratch(Xt)
        print(
            "fast_pred_samples(True):     scratch model works, cov err vs exact %.2e"
            % (s.covariance_matrix - ref_cov).abs().max()
        )
        model.train()
        model.eval()
        model(Xt)
        fm = model.get_fantasy_model(Xf, yf)
        try:
            out = fm(Xt)
            print(
                "fast_pred_samples(True):     fantasy model works, mean err %.2e cov err %.2e"
                % ((out.mean - ref_mean).abs().max(), (out.covariance_matrix - ref_cov).abs().max())
            )
        except Exception as e:  # noqa
            violated = True
            print("fast_pred_samples(True):     fantasy model RAISES %s: %s" % (type(e).__name__, str(e)[:120]))

print("VIOLATION PRESENT" if violated else "no violation")
sys.exit(1 if violated else 0)
