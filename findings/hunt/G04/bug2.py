"""
C04 / bug 2: with gpytorch.settings.detach_test_caches(False) a fantasy model can be back-propagated through
only ONCE; the second forward + backward raises
    RuntimeError: Trying to backward through the graph a second time ...
A from-scratch ExactGP on the concatenated data (same hyper-parameters, same settings, same loop) supports any
number of forward/backward rounds, because its mean cache carries a hook that drops the cache after a backward
pass (DefaultPredictionStrategy._mean_cache).  get_fantasy_strategy stores the incrementally updated mean cache
with add_to_cache(...) WITHOUT that hook, so after the first backward the fantasy model keeps a cache whose
autograd graph has been freed.

The first round agrees with the from-scratch model (values and gradients), so the set-up is valid.

exit 1 if the violation is present, 0 otherwise
"""
import sys
import warnings

import torch

import gpytorch
from gpytorch.likelihoods import GaussianLikelihood
from gpytorch.models import ExactGP

warnings.filterwarnings("ignore")
torch.set_default_dtype(torch.float64)


class GP(ExactGP):
    def __init__(self, x, y, lik):
        super().__init__(x, y, lik)
        self.mean_module = gpytorch.means.ConstantMean()
        self.covar_module = gpytorch.kernels.ScaleKernel(gpytorch.kernels.MaternKernel(2.5))

    def forward(self, x):
        return gpytorch.distributions.MultivariateNormal(self.mean_module(x), self.covar_module(x))


def build(X, y):
    model = GP(X, y, GaussianLikelihood())
    with torch.no_grad():
        model.likelihood.noise = 0.3
        model.mean_module.constant.fill_(0.4)
        model.covar_module.outputscale = 1.7
        model.covar_module.base_kernel.lengthscale = 0.6
    return model.eval()


def objective(model, Xt):
    out = model(Xt)
    return out.mean.sum() + out.variance.sum()


torch.manual_seed(0)
n, d, m = 6, 2, 2
X, y = torch.rand(n, d), torch.randn(n)
Xf, yf = torch.rand(m, d), torch.randn(m)
Xt0 = torch.rand(4, d)
ROUNDS = 3


def loop(model, name):
    """a few rounds of 'evaluate at test points, back-propagate to the test points'"""
    grads = []
    for i in range(ROUNDS):
        Xt = Xt0.clone().requires_grad_(True)
        try:
            objective(model, Xt).backward()
        except RuntimeError as e:
            print("  %-12s round %d RAISES RuntimeError: %s" % (name, i, str(e)[:60]))
            return grads, False
        grads.append(Xt.grad.clone())
        print("  %-12s round %d ok" % (name, i))
    return grads, True


with gpytorch.settings.detach_test_caches(False), gpytorch.settings.fast_pred_var(False):
    scratch = build(torch.cat([X, Xf]), torch.cat([y, yf]))
    g_ref, ok_ref = loop(scratch, "from scratch")

    source = build(X, y)
    source(Xt0)
    fantasy = source.get_fantasy_model(Xf, yf)
    g_fan, ok_fan = loop(fantasy, "fantasy")

if g_fan:
    print("round 0: max |grad_fantasy - grad_scratch| = %.2e" % (g_fan[0] - g_ref[0]).abs().max())
print("from-scratch model survived %d rounds: %s;  fantasy model survived %d rounds: %s" % (ROUNDS, ok_ref, ROUNDS, ok_fan))
violated = ok_ref and not ok_fan
print("VIOLATION PRESENT" if violated else "no violation")
sys.exit(1 if violated else 0)
