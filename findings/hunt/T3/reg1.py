# Regression review of commit 1685e08 ("MultivariateNormal._new_like passes mean and covariance positionally").
#
# Before _new_like existed (c411886^) the operators were MIXED: `mvn + mvn`, `mvn * c` and the lazy `unsqueeze`
# built the result with self.__class__(mean=..., covariance_matrix=...) (keywords), only add_jitter and
# `mvn + number` were positional.  c411886 made everything keyword, 1685e08 makes everything positional: a
# sub-class whose constructor takes mean / covariance_matrix by keyword (keyword-only, or in another position)
# worked for `+ mvn`, `* c`, `/ c`, `c * mvn`, unsqueeze both in the original code and directly before 1685e08,
# and raises TypeError now.  (expand and __getitem__ still use the keyword form, so such a sub-class is the one
# the rest of the class is written for.)
import sys

import torch
from linear_operator.operators import DiagLinearOperator

from gpytorch.distributions import MultivariateNormal


class TaggedMVN(MultivariateNormal):
    # keyword-only constructor, same parameter NAMES as the base class
    def __init__(self, *, mean, covariance_matrix, validate_args=False, tag="t"):
        super().__init__(mean, covariance_matrix, validate_args=validate_args)
        self.tag = tag


mean = torch.zeros(3)
covar = DiagLinearOperator(torch.ones(3))
a = TaggedMVN(mean=mean, covariance_matrix=covar)
b = TaggedMVN(mean=mean + 1, covariance_matrix=covar)

failures = []
ops = {
    "a + b": lambda: a + b,
    "a * 2.0": lambda: a * 2.0,
    "2.0 * a": lambda: 2.0 * a,
    "a / 2.0": lambda: a / 2.0,
    "sum([a, b])": lambda: sum([a, b]),
    "a.unsqueeze(0)": lambda: a.unsqueeze(0),
    # these two use the keyword form in every version and work:
    "a.expand([2])": lambda: a.expand(torch.Size([2])),
    "a[:2]": lambda: a[:2],
}
for name, op in ops.items():
    try:
        res = op()
        print(f"{name:16s} -> {type(res).__name__} mean={res.mean.tolist()}")
    except TypeError as e:
        print(f"{name:16s} -> TypeError: {e}")
        failures.append(name)

if failures:
    print("PROBLEM: operators that were keyword-based before _new_like (and before 1685e08) now fail for a "
          "keyword-constructed sub-class:", failures)
    sys.exit(1)
print("ok")
sys.exit(0)
