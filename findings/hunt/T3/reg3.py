# Regression review of commit 04159d1 ("InducingPointKernel hands out the cached (detached) matrices on the call
# that fills the cache") - INCOMPLETE REPAIR, sibling call path.
#
# aceae32 made three eval-mode kernel caches honour detach_test_caches: InducingPointKernel._inducing_mat,
# InducingPointKernel._inducing_inv_root and GridKernel._cached_kernel_mat.  All three stored the detached value
# but RETURNED the graph-carrying one on the call that fills the cache.  04159d1 repairs the two InducingPointKernel
# properties only; GridKernel.forward (hence GridInterpolationKernel / KISS-GP) still has
#     self._cached_kernel_mat = covar.detach() if settings.detach_test_caches.on() else covar
#     return covar
# so the first eval-mode evaluation of a GridKernel / GridInterpolationKernel has a gradient w.r.t. the base-kernel
# hyper-parameters and every later one has none (an ExactGP KISS-GP prediction happens to be consistent - check 4 -
# because the prediction strategy fills the cache before the value is used; the kernel itself is not).
import sys
import warnings

import torch

import gpytorch
from gpytorch.kernels import GridInterpolationKernel, GridKernel, InducingPointKernel, RBFKernel

warnings.simplefilter("ignore")
torch.manual_seed(0)
problems = []


def lengthscale_grads(module, value_fn, ncalls=3):
    res = []
    for _ in range(ncalls):
        for p in module.parameters():
            p.grad = None
        value = value_fn()
        if value.requires_grad:
            value.backward()
        g = dict(module.named_parameters())[[n for n, _ in module.named_parameters() if "raw_lengthscale" in n][0]].grad
        res.append(None if g is None else round(g.abs().sum().item(), 6))
    return res


# 1. the repaired kernel: consistent
xx = torch.rand(7, 1)
ipk = InducingPointKernel(RBFKernel(), torch.rand(4, 1), gpytorch.likelihoods.GaussianLikelihood()).eval()
g = lengthscale_grads(ipk, lambda: ipk(xx, xx).to_dense().sum())
print("InducingPointKernel      d/d lengthscale over three eval-mode calls:", g)
if len(set(g)) != 1:
    problems.append("InducingPointKernel")

# 2. GridKernel on its own grid
grid = [torch.linspace(0, 1, 5)]
xg = gpytorch.utils.grid.create_data_from_grid(grid)
gk = GridKernel(RBFKernel(), grid=grid).eval()
g = lengthscale_grads(gk, lambda: gk(xg, xg).to_dense().sum())
print("GridKernel               d/d lengthscale over three eval-mode calls:", g)
if len(set(g)) != 1:
    problems.append("GridKernel")

# 3. GridInterpolationKernel
gik = GridInterpolationKernel(RBFKernel(), grid_size=8, grid_bounds=[(0.0, 1.0)]).eval()
g = lengthscale_grads(gik, lambda: gik(xx, xx).to_dense().sum())
print("GridInterpolationKernel  d/d lengthscale over three eval-mode calls:", g)
if len(set(g)) != 1:
    problems.append("GridInterpolationKernel")


# 4. a KISS-GP model (informative; consistent in this version): predictive variance, first eval-mode prediction vs. later
class KissGP(gpytorch.models.ExactGP):
    def __init__(self, x, y, lik):
        super().__init__(x, y, lik)
        self.mean_module = gpytorch.means.ZeroMean()
        self.covar_module = GridInterpolationKernel(RBFKernel(), grid_size=8, grid_bounds=[(0.0, 1.0)])

    def forward(self, x):
        return gpytorch.distributions.MultivariateNormal(self.mean_module(x), self.covar_module(x))


train_x = torch.rand(10, 1)
train_y = torch.sin(6 * train_x.squeeze(-1))
model = KissGP(train_x, train_y, gpytorch.likelihoods.GaussianLikelihood()).eval()
test_x = torch.rand(4, 1)
g = lengthscale_grads(model, lambda: model(test_x).variance.sum())
print("KISS-GP predictive var   d/d lengthscale over three eval-mode calls:", g)
if len(set(g)) != 1:
    problems.append("KISS-GP prediction")

if problems:
    print("PROBLEM: the filling call still hands out the graph-carrying value for:", problems)
    sys.exit(1)
print("ok")
sys.exit(0)
