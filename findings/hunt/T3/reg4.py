# Regression review of commit bcd3d13 ("MultitaskKernel expands its factors only when their batch shapes differ")
# - INCOMPLETE REPAIR (not a regression: never worked).
#
# The commit skips the expand of the data covariance when it is a no-op, because expand of the structured
# covariance an AdditiveStructureKernel returns (a SumBatchLinearOperator) prepends singleton batch dimensions.
# When the expand is genuinely needed - a MultitaskKernel WITH batch_shape (batched task covariance, the
# configuration 9986a29 introduced the expand for) around an AdditiveStructureKernel, evaluated on un-batched
# inputs - the same mis-shaped expand still happens (covar_x gets an extra singleton batch dimension) and
#   * kernel.forward(x, x)        raises "Batch shapes of LinearOperators ... are incompatible for a Kronecker product"
#   * kernel(x, x, diag=True)     raises "The size of tensor a (4) must match the size of tensor b (2) ..."
# although kernel(x, x).to_dense() (2 x nt x nt) works and the same kernel around a plain RBFKernel works on all paths.
# Same behaviour directly before bcd3d13; before 9986a29 these calls returned a mis-shaped 2 x 2 x nt result.
import sys
import warnings

import torch

from gpytorch.kernels import AdditiveStructureKernel, MultitaskKernel, RBFKernel

warnings.simplefilter("ignore")
torch.manual_seed(0)
x = torch.rand(5, 3)
problems = []

for data_name, make_data in (("RBFKernel", lambda: RBFKernel()), ("AdditiveStructureKernel", lambda: AdditiveStructureKernel(RBFKernel(), 3))):
    kernel = MultitaskKernel(make_data(), num_tasks=2, batch_shape=torch.Size([2]))
    full = kernel(x, x).to_dense()
    print(f"{data_name}: kernel(x, x).to_dense() shape {tuple(full.shape)}")
    want_diag = full.diagonal(dim1=-1, dim2=-2)
    for call_name, call, want in (
        ("kernel(x, x, diag=True)", lambda: kernel(x, x, diag=True), want_diag),
        ("kernel.forward(x, x).to_dense()", lambda: kernel.forward(x, x).to_dense(), full),
        ("kernel.forward(x, x, diag=True)", lambda: kernel.forward(x, x, diag=True), want_diag),
    ):
        try:
            got = call()
            ok = tuple(got.shape) == tuple(want.shape) and torch.allclose(got, want, atol=1e-5)
            print(f"  {call_name}: shape {tuple(got.shape)} expected {tuple(want.shape)} -> {'ok' if ok else 'WRONG'}")
        except RuntimeError as e:
            ok = False
            print(f"  {call_name}: RuntimeError: {str(e)[:100]}")
        if not ok:
            problems.append(f"{data_name}: {call_name}")

if problems:
    print("PROBLEM: a genuinely needed expand of the structured data covariance is still mis-shaped:", problems)
    sys.exit(1)
print("ok")
sys.exit(0)
