# Regression review of commit 2e10bce ("LogNormalCDF.backward is differentiable again").
#
# The commit removes @once_differentiable (added by ade9306 so that a second differentiation through graph-free
# intermediates RAISES instead of returning wrong numbers).  For z >= -1 the backward pass is a differentiable
# expression of the saved input / output and the second derivative is now right.  For z < -1 the backward pass
# multiplies by ctx.denominator / ctx.numerator, which forward computed with autograd off: the second derivative
# of log Phi(z) comes out as exactly 0 (true value -r (z + r), r = phi/Phi, e.g. -0.886 at z = -2) WITHOUT an error,
# i.e. the defect ade9306 repaired is re-opened for every entry below -1 (a mis-classified point of a probit
# likelihood).  Directly before 2e10bce the same calls raised a RuntimeError.
import sys

import torch

from gpytorch.functions import log_normal_cdf

torch.set_default_dtype(torch.float64)


def hessian_diag(fn, zs, outer):
    z = torch.tensor(zs, requires_grad=True)
    (g,) = torch.autograd.grad(outer(fn(z)), z, create_graph=True)
    (h,) = torch.autograd.grad(g.sum(), z)
    return h


bad = False
for zs in ([0.5, -0.5, 0.1], [0.5, -2.0, -3.0]):
    for name, outer in (("sum(log Phi)", lambda o: o.sum()), ("sum(log Phi ** 2)", lambda o: (o**2).sum())):
        ref = hessian_diag(torch.special.log_ndtr, zs, outer)
        try:
            got = hessian_diag(log_normal_cdf, zs, outer)
        except RuntimeError as e:
            print(f"z={zs} {name}: raises ({str(e)[:60]}...) - acceptable, reference {ref.tolist()}")
            continue
        ok = torch.allclose(got, ref, rtol=1e-4, atol=1e-6)
        print(f"z={zs} {name}: second derivative {got.tolist()} reference {ref.tolist()} -> {'ok' if ok else 'WRONG'}")
        bad = bad or not ok

if bad:
    print("PROBLEM: silent wrong second derivatives of log_normal_cdf for z < -1")
    sys.exit(1)
print("ok")
sys.exit(0)
