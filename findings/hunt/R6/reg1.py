# Concerns commit 856f652 "fix: MultivariateNormal defines __rmul__".
#
# The new __rmul__ forwards every left operand to __mul__, which raises RuntimeError for anything that is
# not an int / float instead of returning NotImplemented.  Consequences compared with the parent commit:
#   (a) `tensor * mvn`, `None * mvn`, `"a" * mvn` ... used to end in Python's TypeError ("unsupported operand"),
#       the exception every caller of a binary operator expects; they now raise RuntimeError.
#   (b) `numpy_array * mvn` used to raise TypeError; it now SILENTLY returns an object ndarray holding one
#       MultivariateNormal per array element (numpy loops over the elements and finds a working __rmul__).
# Informational (not counted): `np.float32(2) * mvn` works while `mvn * np.float32(2)` raises.
#
# exit 1 if the problem is present, 0 otherwise
import sys
import warnings

import numpy as np
import torch

from gpytorch.distributions import MultivariateNormal

warnings.simplefilter("ignore")
d = MultivariateNormal(torch.ones(3), torch.eye(3) * 2)

problems = []

# sanity: the behaviour the commit introduces
try:
    r = 2 * d
    print("2 * d           -> mean", r.mean.tolist(), "variance", [round(v, 4) for v in r.variance.tolist()])
except TypeError as e:
    print("2 * d           -> TypeError (tree without the commit):", e)

# (a) unsupported left operands must give TypeError (NotImplemented protocol), as before the commit
for name, left in [("0-dim tensor", torch.tensor(2.0)), ("tensor[3]", torch.full((3,), 2.0)), ("None", None), ("str", "a")]:
    try:
        res = left * d
        print(f"{name} * d -> returned {type(res).__name__}")
        problems.append(f"{name} * d returned {type(res).__name__}")
    except TypeError as e:
        print(f"{name} * d -> TypeError (as before the commit): {str(e)[:60]}")
    except Exception as e:  # noqa
        print(f"{name} * d -> {type(e).__name__}: {e}   [before the commit: TypeError]")
        problems.append(f"{name} * d raises {type(e).__name__} instead of TypeError")

# (b) an ndarray on the left must not silently produce an object array of distributions
try:
    res = np.array([1.0, 2.0]) * d
    print(f"ndarray * d -> {type(res).__name__} dtype={getattr(res, 'dtype', None)} shape={getattr(res, 'shape', None)}"
          "   [before the commit: TypeError]")
    if isinstance(res, np.ndarray) and res.dtype == object:
        problems.append("ndarray * d silently returns an object ndarray of MultivariateNormals")
except TypeError as e:
    print(f"ndarray * d -> TypeError (as before the commit): {str(e)[:60]}")
except Exception as e:  # noqa
    print(f"ndarray * d -> {type(e).__name__}: {e}")

# informational: asymmetry for numpy scalars that are not python floats
for name, s in [("np.float32(2)", np.float32(2)), ("np.int64(2)", np.int64(2))]:
    out = []
    for label, f in [("s * d", lambda: s * d), ("d * s", lambda: d * s)]:
        try:
            f()
            out.append(f"{label}: ok")
        except Exception as e:  # noqa
            out.append(f"{label}: {type(e).__name__}")
    print(f"[info] {name}: " + ", ".join(out))

if problems:
    print("PROBLEM PRESENT:")
    for p in problems:
        print("  -", p)
    sys.exit(1)
print("no problem")
sys.exit(0)
