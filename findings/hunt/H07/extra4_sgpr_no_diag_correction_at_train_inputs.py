#!/usr/bin/env python3
"""
C07 / extra 4: an SGPR model (InducingPointKernel) cannot return a posterior covariance at its own training inputs when
settings.sgpr_diagonal_correction(False) is active: SGPRPredictionStrategy.exact_predictive_covar raises
"ValueError: Expected SGPR output to be a MatmulLinearOperator or AddedDiagLinearOperator. Got LowRankRootLinearOperator
instead. This is likely a bug in GPyTorch."   The same inputs perturbed by 1e-13, or the default setting, work.
"""
import sys
import warnings

import torch

import gpytorch
from gpytorch.distributions import MultivariateNormal
from gpytorch.kernels import InducingPointKernel, RBFKernel, ScaleKernel
from gpytorch.likelihoods import GaussianLikelihood
from gpytorch.means import ZeroMean

warnings.filterwarnings("ignore")
torch.set_default_dtype(torch.float64)
torch.manual_seed(0)
n, d, M = 30, 2, 5
x = torch.randn(n, d)
y = torch.sin(x.sum(-1))


class SGPR(gpytorch.models.ExactGP):
    def __init__(self):
        lik = GaussianLikelihood()
        lik.noise = 0.01
        super().__init__(x, y, lik)
        self.mean_module = ZeroMean()
        self.covar_module = InducingPointKernel(ScaleKernel(RBFKernel()), torch.randn(M, d), lik)

    def forward(self, inp):
        return MultivariateNormal(self.mean_module(inp), self.covar_module(inp))


bad = False
for corr in (True, False):
    for name, xt in (("training inputs", x.clone()), ("training inputs + 1e-13", x + 1e-13)):
        torch.manual_seed(1)
        model = SGPR().double()
        model.eval()
        try:
            with torch.no_grad(), gpytorch.settings.sgpr_diagonal_correction(corr):
                C = model(xt).covariance_matrix
            print(f"sgpr_diagonal_correction={corr!s:5s} {name:24s}: ok, min eig {torch.linalg.eigvalsh(C).min().item():.2e}")
        except Exception as e:
            bad = True
            print(f"sgpr_diagonal_correction={corr!s:5s} {name:24s}: RAISED {type(e).__name__}: {str(e)[:110]}")
print("VIOLATION PRESENT" if bad else "no violation")
sys.exit(1 if bad else 0)
