#!/usr/bin/env python3
"""
C07 / bug 3: an exact multitask GP whose prior is a NON-interleaved MultitaskMultivariateNormal
(`interleaved=False`, i.e. task-major covariance  B (x) K_x , a documented option of the distribution) returns a
posterior "covariance" that is not PSD (eigenvalues of order -1e-2), negative variances (silently clamped to
settings.min_variance), and drops the interleaved flag.

ExactGP.__call__ / DefaultPredictionStrategy.exact_prediction split the joint (train+test) prior with
`joint_mean[..., num_train:]`, `joint_covar[..., num_train:, :num_train]`, which is only the train/test split for the
interleaved (data-major) layout.  For the task-major layout the first n*T entries are "task 0: train+test, task 1: ...",
so cross-covariances of the wrong variables are combined with (K_train + noise)^-1 of the right ones: the result is not
a Schur complement of anything.  Finally `full_output.__class__(predictive_mean, predictive_covar)` re-labels the result
as interleaved.

Reference: the very same GP written with the interleaved layout ( K_x (x) B ), and the dense textbook formula.
"""
import sys
import warnings

import torch

import gpytorch
from gpytorch.distributions import MultitaskMultivariateNormal
from gpytorch.kernels import RBFKernel
from gpytorch.likelihoods import MultitaskGaussianLikelihood
from linear_operator.operators import KroneckerProductLinearOperator
from linear_operator import to_linear_operator

warnings.filterwarnings("ignore")
torch.set_default_dtype(torch.float64)
torch.manual_seed(0)

T, n, m = 2, 6, 4
B = torch.tensor([[1.0, 0.2], [0.2, 0.05]])  # inter-task covariance (PSD: det = 0.01)
NOISE = 0.01


class MTGP(gpytorch.models.ExactGP):
    def __init__(self, x, y, likelihood, interleaved):
        super().__init__(x, y, likelihood)
        self.data_kernel = RBFKernel()
        self.data_kernel.lengthscale = 0.4
        self.interleaved = interleaved

    def forward(self, x):
        Kx = self.data_kernel(x).evaluate_kernel()
        Bt = to_linear_operator(B)
        mean = torch.zeros(*x.shape[:-1], T)
        if self.interleaved:  # data-major: cov[(i,t),(j,s)] at [i*T+t, j*T+s]
            return MultitaskMultivariateNormal(mean, KroneckerProductLinearOperator(Kx, Bt), interleaved=True)
        # task-major: cov[(i,t),(j,s)] at [t*N+i, s*N+j]
        return MultitaskMultivariateNormal(mean, KroneckerProductLinearOperator(Bt, Kx), interleaved=False)


x = torch.linspace(0, 1, n).unsqueeze(-1)
y = torch.stack([torch.sin(6 * x[:, 0]), 0.2 * torch.cos(3 * x[:, 0])], -1)
xt = torch.tensor([[0.05], [0.33], [0.61], [0.97]])


def posterior(interleaved):
    lik = MultitaskGaussianLikelihood(num_tasks=T, has_task_noise=False)
    lik.noise = NOISE
    model = MTGP(x, y, lik, interleaved).double()
    model.eval()
    with torch.no_grad(), warnings.catch_warnings(record=True) as w:
        warnings.simplefilter("always")
        post = model(xt)
        prior = model.forward(xt)
        var = post.variance
        clamped = any("Negative variance" in str(wi.message) for wi in w)
    return post, prior, var, clamped


with torch.no_grad():
    # dense textbook reference (data-major layout)
    k = RBFKernel().double()
    k.lengthscale = 0.4
    Kxx = torch.kron(k(x).to_dense(), B) + NOISE * torch.eye(n * T)
    Ksx = torch.kron(k(xt, x).to_dense(), B)
    Kss = torch.kron(k(xt).to_dense(), B)
    ref_mean = (Ksx @ torch.linalg.solve(Kxx, y.reshape(-1))).view(m, T)
    ref_cov = Kss - Ksx @ torch.linalg.solve(Kxx, Ksx.T)
    ref_var = ref_cov.diagonal().view(m, T)

    bad = False
    for inter in (True, False):
        post, prior, var, clamped = posterior(inter)
        C = post.covariance_matrix
        ev = torch.linalg.eigvalsh((C + C.T) / 2)
        raw_diag = C.diagonal()
        # bring the covariance to the data-major layout according to the flag the posterior carries
        print(f"--- prior interleaved={inter}:  prior flag={prior._interleaved}  posterior flag={post._interleaved}")
        print("    prior variances (n x T)      :", prior.variance.flatten().numpy().round(4))
        print("    posterior variances reported :", var.flatten().numpy().round(6))
        print("    reference posterior variances:", ref_var.flatten().numpy().round(6))
        print(f"    min eigenvalue of posterior covariance : {ev.min().item():.3e}")
        print(f"    min raw diagonal of posterior covariance: {raw_diag.min().item():.3e}   (variance clamp warning: {clamped})")
        print(f"    max |variance - reference| = {(var - ref_var).abs().max().item():.3e}   "
              f"max |mean - reference| = {(post.mean - ref_mean).abs().max().item():.3e}")
        if ev.min().item() < -1e-8 or (var - ref_var).abs().max().item() > 1e-6 or post._interleaved != prior._interleaved:
            bad = True

print("\nVIOLATION PRESENT" if bad else "\nno violation")
sys.exit(1 if bad else 0)
