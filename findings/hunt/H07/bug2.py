#!/usr/bin/env python3
"""
C07 / bug 2: KISS-GP (GridInterpolationKernel with its DEFAULT automatically determined grid, i.e. no `grid_bounds`)
hands out a posterior covariance that is far from PSD (eigenvalues -0.4 ... -6) and negative predictive variances
(silently clamped to settings.min_variance) as soon as some test inputs lie outside the range of the training inputs.

Cause: GridInterpolationKernel.forward re-fits the interpolation grid to the inputs of *each call* (grid_is_dynamic;
`has_initialized_grid` is never set).  In eval mode the prediction strategy holds K_train = W_x K_UU W_x^T (+ caches
derived from it) on the grid fitted to the training inputs, while the joint train+test call re-fits the grid to
train U test and the test/train and test/test blocks live on that second grid.  "K** - K*x (Kxx + s2 I)^-1 Kx*" then
mixes two different kernels and is no Schur complement of any PSD matrix.

With fast_pred_var off the damage is "only" as large as the difference between the two grid approximations (coarse
grid: eigenvalue -0.38, variance -0.17; fine grid: harmless).  With fast_pred_var on (the setting recommended for KISS-GP)
the caches are indexed by grid point, so the result is garbage for every grid size (eigenvalue -3, variance error 0.69).

References: the same model with a hard-coded grid covering both ranges (valid covariance), and the exact GP.
"""
import sys
import warnings

import torch

import gpytorch
from gpytorch.distributions import MultivariateNormal
from gpytorch.kernels import GridInterpolationKernel, RBFKernel, ScaleKernel
from gpytorch.likelihoods import GaussianLikelihood
from gpytorch.means import ZeroMean

torch.set_default_dtype(torch.float64)
torch.manual_seed(0)

n, LS, NOISE = 40, 0.1, 0.01
x = torch.rand(n, 1)
y = torch.sin(6 * x[:, 0]) + 0.05 * torch.randn(n)
xt = torch.linspace(-0.5, 2.0, 26).unsqueeze(-1)  # partly outside [0, 1]


class GP(gpytorch.models.ExactGP):
    def __init__(self, kern):
        lik = GaussianLikelihood()
        lik.noise = NOISE
        super().__init__(x, y, lik)
        self.mean_module = ZeroMean()
        self.covar_module = kern

    def forward(self, inp):
        return MultivariateNormal(self.mean_module(inp), self.covar_module(inp))


def kiss(bounds, grid_size):
    k = ScaleKernel(GridInterpolationKernel(RBFKernel(), grid_size=grid_size, num_dims=1, grid_bounds=bounds))
    k.base_kernel.base_kernel.lengthscale = LS
    return k


def exact_reference():
    k = ScaleKernel(RBFKernel()).double()
    k.base_kernel.lengthscale = LS
    with torch.no_grad():
        K = k(x).to_dense() + NOISE * torch.eye(n)
        Ks = k(xt, x).to_dense()
        return (k(xt).to_dense() - Ks @ torch.linalg.solve(K, Ks.T)).diagonal()


ref = exact_reference()
bad = False
for grid_size, fpv in ((30, False), (30, True), (100, False), (100, True)):
    for name, bounds in (("default (dynamic) grid", None), ("static grid [-0.6, 2.1]", [(-0.6, 2.1)])):
        model = GP(kiss(bounds, grid_size)).double()
        model.eval()
        with torch.no_grad(), gpytorch.settings.fast_pred_var(fpv), warnings.catch_warnings(record=True) as w:
            warnings.simplefilter("always")
            post = model(xt)
            C = post.covariance_matrix
            var = post.variance
            clamp = any("Negative variance" in str(wi.message) for wi in w)
            prior = model.covar_module(xt).to_dense()
        ev = torch.linalg.eigvalsh((C + C.T) / 2).min().item()
        raw = C.diagonal().min().item()
        print(f"grid_size={grid_size:3d} fast_pred_var={fpv!s:5s} {name:24s}: min eig of posterior cov = {ev: .3e}   min raw variance = {raw: .3e}"
              f"   clamped-to-min_variance warning = {clamp!s:5s}   max|var - exact GP| = {(var - ref).abs().max().item():.2e}")
        if bounds is None and (ev < -1e-6 or raw < -1e-6):
            bad = True

print("\n(the prior K** = W K_UU W^T of the default-grid model is PSD: min eig "
      f"{torch.linalg.eigvalsh(prior).min().item():.1e}; only the posterior is broken)")
print("VIOLATION PRESENT" if bad else "no violation")
sys.exit(1 if bad else 0)
