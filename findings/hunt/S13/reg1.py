# Regression review of commit ade9306 ("hand-written backward passes that use graph-free intermediates are
# once-differentiable").
#
# LogNormalCDF.backward got @once_differentiable together with the kernels.  But for every z >= -1 its backward is
# written with differentiable torch ops on the *saved input z and saved output log_phi_z* (both are tracked by
# autograd when saved through ctx.save_for_backward), so the second derivative of gpytorch.functions.log_normal_cdf
# was CORRECT before the commit on that region (only the z < -1 branch uses the graph-free ctx.numerator /
# ctx.denominator).  After the commit no second derivative is available, e.g. the Hessian of a Bernoulli (probit)
# log-likelihood that a Laplace approximation / Newton step needs.  Worse, it does not even "raise instead" as the
# commit message promises: once_differentiable only installs its error node when the incoming grad_output requires
# grad; for out.sum() it does not, so the first derivative comes back as a constant and
# torch.autograd.functional.hessian(...) silently returns an all-zero Hessian (old code: the correct one).
#
# Exits 1 if double backward of log_normal_cdf on z >= -1 does not give the analytic second derivative.
import sys
import math
import torch
import gpytorch

torch.manual_seed(0)
z = torch.tensor([-0.9, -0.5, -0.1, 0.0, 0.05, 0.3, 1.0, 2.5], dtype=torch.double, requires_grad=True)

# analytic: d/dz log Phi = h,  d2/dz2 log Phi = -h (z + h),  h = phi / Phi
zz = z.detach()
Phi = 0.5 * (1 + torch.erf(zz / math.sqrt(2)))
phi = torch.exp(-0.5 * zz**2) / math.sqrt(2 * math.pi)
h = phi / Phi
expected_first = h
expected_second = -h * (zz + h)

out = gpytorch.functions.log_normal_cdf(z)
(g,) = torch.autograd.grad(out.sum(), z, create_graph=True)
print("first derivative max err :", (g.detach() - expected_first).abs().max().item())
bad = False
try:
    (gg,) = torch.autograd.grad(g.sum(), z)
    err = (gg - expected_second).abs().max().item()
    print("second derivative        :", gg.tolist())
    print("analytic                 :", expected_second.tolist())
    print("second derivative max err:", err)
    bad = not err < 1e-5
except RuntimeError as e:
    print("second derivative raised :", type(e).__name__, str(e)[:120])
    bad = True

# The user-facing consequence: Hessian of the Bernoulli log-likelihood w.r.t. the latent function values
lik = gpytorch.likelihoods.BernoulliLikelihood()
f = torch.tensor([0.2, -0.3, 0.7], dtype=torch.double, requires_grad=True)
y = torch.tensor([1.0, 0.0, 1.0], dtype=torch.double)
try:
    H = torch.autograd.functional.hessian(lambda f_: gpytorch.functions.log_normal_cdf(f_ * (2 * y - 1)).sum(), f)
    s_ = (f * (2 * y - 1)).detach()
    h_ = (torch.exp(-0.5 * s_**2) / math.sqrt(2 * math.pi)) / (0.5 * (1 + torch.erf(s_ / math.sqrt(2))))
    print("probit log-lik Hessian diag:", H.diagonal().tolist())
    print("analytic                   :", (-h_ * (s_ + h_)).tolist())
    if not (H.diagonal() - (-h_ * (s_ + h_))).abs().max().item() < 1e-5:
        print("-> torch.autograd.functional.hessian silently returns a wrong (zero) Hessian")
        bad = True
except RuntimeError as e:
    print("probit log-lik Hessian raised:", str(e)[:100])
    bad = True

print("PROBLEM PRESENT" if bad else "ok")
sys.exit(1 if bad else 0)
