# Regression review of commit cbb9d90 ("CylindricalKernel defines the setter its angular_weights prior closure calls").
#
# Before the commit the prior closure called the non-existent  m._set_angular_weights(v).  The obvious user-side
# workaround was a subclass that supplies the missing method in terms of the (working) property setter:
#       def _set_angular_weights(self, value): self.angular_weights = value
# After the commit the property setter itself delegates to self._set_angular_weights, so such a subclass recurses
# without bound: plain  kernel.angular_weights = ...  , sample_from_prior and pyro_load_from_samples all die with
# RecursionError, where all three worked with the old code.
#
# Exits 1 if the subclass can no longer set / sample its angular weights.
import sys
import torch
import gpytorch
from gpytorch.kernels import CylindricalKernel, MaternKernel
from gpytorch.priors import GammaPrior


class PatchedCylindricalKernel(CylindricalKernel):
    # work-around for "AttributeError: ... has no attribute '_set_angular_weights'"
    def _set_angular_weights(self, value):
        self.angular_weights = value


torch.manual_seed(0)
k = PatchedCylindricalKernel(4, MaternKernel(nu=2.5), angular_weights_prior=GammaPrior(2.0, 1.0))
bad = False
for label, action in [
    ("kernel.angular_weights = ones", lambda: setattr(k, "angular_weights", torch.ones(4))),
    ("sample_from_prior('angular_weights_prior')", lambda: k.sample_from_prior("angular_weights_prior")),
    ("pyro_load_from_samples", lambda: k.pyro_load_from_samples({"angular_weights_prior": torch.rand(3, 4) + 0.1})),
]:
    try:
        action()
        print(f"{label}: ok -> angular_weights shape {tuple(k.angular_weights.shape)}")
    except RecursionError:
        print(f"{label}: RecursionError")
        bad = True

print("PROBLEM PRESENT" if bad else "ok")
sys.exit(1 if bad else 0)
