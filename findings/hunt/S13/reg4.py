# Regression review of commit 38fd34c ("Module.initialize accepts python floats and ints for constrained parameters").
#
# The bound check now converts the python number with  torch.as_tensor(val).to(param):  as_tensor(float) is a tensor
# of the *current default dtype* (float32), so the value is rounded to float32 BEFORE it is cast to the parameter's
# dtype.  For a double parameter the value that is checked is therefore not the value that  .data.fill_(val)  stores.
# It matters for constraints that are not enforced through a transform (transform=None - the one branch in which the
# old check already worked with python floats; the "bounds are handled by the optimizer" configuration):
#   (1) module.double(): a float that violates the bound by less than float32 resolution is now accepted and stored
#       out of bounds (old code: rejected with the RuntimeError);
#   (2) bounds that carry double precision (constraint built while the default dtype was double): a float that lies
#       within the bounds is now rejected, because its float32 rounding falls outside (0.7 -> 0.699999988 < 0.7).
# The old code compared the python float itself and handled both.
# Fix: torch.as_tensor(val, dtype=param.dtype, device=param.device).
#
# Exits 1 if an in-bounds float is rejected, or an out-of-bounds float accepted, for a double parameter.
import sys
import torch
import gpytorch
from gpytorch.constraints import GreaterThan


class Mod(gpytorch.Module):
    def __init__(self, constraint):
        super().__init__()
        self.register_parameter("raw_x", torch.nn.Parameter(torch.ones(1)))
        self.register_constraint("raw_x", constraint)


bad = False

# (1) float32-built module converted with .double(); bound is double(float32(1e-4)) = 9.99999974737875e-05
m = Mod(GreaterThan(1e-4, transform=None)).double()
lb = m.raw_x_constraint.lower_bound.item()
val = 9.9999997e-05
assert val < lb
try:
    m.initialize(raw_x=val)
    print(f"(1) lower bound {lb!r}: initialize(raw_x={val!r}) accepted, stored {m.raw_x.item()!r} "
          f"-> constraint.check(raw_x) = {m.raw_x_constraint.check(m.raw_x)}")
    if not m.raw_x_constraint.check(m.raw_x):
        bad = True
except RuntimeError:
    print(f"(1) lower bound {lb!r}: initialize(raw_x={val!r}) rejected (correct)")

# (2) module built under a double default dtype, used under the float32 default
torch.set_default_dtype(torch.double)
m = Mod(GreaterThan(0.7, transform=None))
torch.set_default_dtype(torch.float32)
lb = m.raw_x_constraint.lower_bound.item()
for val in (0.7, 0.7 + 1e-9):
    try:
        m.initialize(raw_x=val)
        print(f"(2) lower bound {lb!r}: initialize(raw_x={val!r}) accepted, stored {m.raw_x.item()!r}")
    except RuntimeError as e:
        print(f"(2) lower bound {lb!r}: initialize(raw_x={val!r}) REJECTED although in bounds: {str(e)[:60]}...")
        bad = True

print("PROBLEM PRESENT" if bad else "ok")
sys.exit(1 if bad else 0)
