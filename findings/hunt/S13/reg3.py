# Regression review of commit ade9306 (@once_differentiable on RBFCovariance / MaternCovariance backward).
#
# Repair incomplete, for exactly the scenario of the commit message (Hessian of an exact-GP negative log likelihood
# w.r.t. the lengthscale on the fast kernel path).  once_differentiable hangs its error node *behind freshly detached
# leaves*, so the node is only executed by a full  g.backward().  torch.autograd.grad(g, raw_lengthscale)  - which is
# what torch.autograd.functional.hessian / hvp / jacobian and every Hessian-vector-product helper use - only runs the
# nodes on a path to the requested input, never reaches the error node, and silently returns a second derivative that
# contains just the softplus'' term of the constraint: still a wrong number, still no error.
#
# Exits 1 if torch.autograd.grad of dL/d(raw_lengthscale) neither raises nor agrees with the generic kernel path.
import sys
import torch
import gpytorch

torch.manual_seed(0)
dt = torch.double
x = torch.linspace(0, 1, 12, dtype=dt).unsqueeze(-1)
y = torch.sin(6 * x.squeeze(-1)) + 0.1 * torch.randn(12, dtype=dt)


class GP(gpytorch.models.ExactGP):
    def __init__(self, kernel):
        super().__init__(x, y, gpytorch.likelihoods.GaussianLikelihood())
        self.mean_module = gpytorch.means.ZeroMean()
        self.covar_module = gpytorch.kernels.ScaleKernel(kernel)

    def forward(self, x_):
        return gpytorch.distributions.MultivariateNormal(self.mean_module(x_), self.covar_module(x_))


def second_derivative(kernel, fast):
    model = GP(kernel).double()
    model.train()
    mll = gpytorch.mlls.ExactMarginalLogLikelihood(model.likelihood, model)
    xin = x if fast else x.clone().requires_grad_(True)  # inputs that require grad disable the custom Function
    model.set_train_data(xin, y, strict=False)
    raw_ls = model.covar_module.base_kernel.raw_lengthscale
    with gpytorch.settings.fast_computations(False, False, False):
        loss = -mll(model(xin), y)
        (g,) = torch.autograd.grad(loss, raw_ls, create_graph=True)
        return torch.autograd.grad(g.sum(), raw_ls)[0].item()


bad = False
for name, mk in [("RBF", lambda: gpytorch.kernels.RBFKernel()), ("Matern1.5", lambda: gpytorch.kernels.MaternKernel(1.5))]:
    ref = second_derivative(mk(), fast=False)
    print(f"{name}: generic path d2(-mll)/d(raw_ls)2 = {ref:.8f}")
    try:
        got = second_derivative(mk(), fast=True)
        print(f"{name}: fast path                        = {got:.8f}   (no error raised)")
        if abs(got - ref) > 1e-6 * max(1.0, abs(ref)):
            print(f"{name}: -> silently wrong second derivative")
            bad = True
    except RuntimeError as e:
        print(f"{name}: fast path raised (acceptable): {str(e)[:100]}")

print("PROBLEM PRESENT" if bad else "ok")
sys.exit(1 if bad else 0)
