# Regression review of commit ade9306 (@once_differentiable on RBFCovariance / MaternCovariance backward).
#
# Problem A (new code worse than old): the backward  lengthscale_grad = grad_output * d_output_d_input  is LINEAR in
# grad_output, so differentiating dL/d(lengthscale) w.r.t. any parameter that reaches it only through grad_output
# (noise, outputscale, mean constant, ...) was correct before the commit: the mixed second derivatives
# d/d(noise) [dL/d(lengthscale)] of an exact-GP marginal log likelihood agreed with the generic kernel path.
# After the commit the error node cuts the graph: torch.autograd.grad(dL/dls, [noise, outputscale]) raises
# ("appears to not have been used in the graph"; with allow_unused=True it returns None, i.e. a silent zero).
#
# Problem B (repair incomplete): the commit message promises "double backward raises instead", but
# once_differentiable only installs its error node when grad_output requires grad.  When the kernel matrix enters the
# loss linearly (grad_output is a constant), dL/d(lengthscale) comes back as a constant and
# torch.autograd.functional.hessian silently returns 0 for d2L/d(lengthscale)2 - wrong, and no error.
#
# Exits 1 if either problem is present.
import sys
import torch
import gpytorch

torch.manual_seed(0)
dt = torch.double
x = torch.linspace(0, 1, 12, dtype=dt).unsqueeze(-1)
y = torch.sin(6 * x.squeeze(-1)) + 0.1 * torch.randn(12, dtype=dt)


class GP(gpytorch.models.ExactGP):
    def __init__(self, kernel):
        lik = gpytorch.likelihoods.GaussianLikelihood()
        super().__init__(x, y, lik)
        self.mean_module = gpytorch.means.ZeroMean()
        self.covar_module = gpytorch.kernels.ScaleKernel(kernel)

    def forward(self, x_):
        return gpytorch.distributions.MultivariateNormal(self.mean_module(x_), self.covar_module(x_))


def mixed(kernel, fast):
    """d/d(raw_noise, raw_outputscale) of dL/d(raw_lengthscale);  fast=False forces the generic autograd path."""
    model = GP(kernel).double()
    model.train()
    mll = gpytorch.mlls.ExactMarginalLogLikelihood(model.likelihood, model)
    xin = x if fast else x.clone().requires_grad_(True)  # inputs that require grad disable the custom Function
    model.set_train_data(xin, y, strict=False)
    with gpytorch.settings.fast_computations(False, False, False):
        loss = -mll(model(xin), y)
        raw_ls = model.covar_module.base_kernel.raw_lengthscale
        (g_ls,) = torch.autograd.grad(loss, raw_ls, create_graph=True)
        others = [model.likelihood.noise_covar.raw_noise, model.covar_module.raw_outputscale]
        res = torch.autograd.grad(g_ls.sum(), others)
    return torch.stack([r.reshape(()) for r in res])


bad = False
for name, mk in [("RBF", lambda: gpytorch.kernels.RBFKernel()), ("Matern2.5", lambda: gpytorch.kernels.MaternKernel(2.5))]:
    ref = mixed(mk(), fast=False)
    print(f"[A] {name}: generic path  d/d(noise,outputscale) dL/dls = {ref.tolist()}")
    try:
        got = mixed(mk(), fast=True)
        print(f"[A] {name}: fast path                                 = {got.tolist()}")
        if not torch.allclose(got, ref, rtol=1e-6, atol=1e-9):
            bad = True
    except RuntimeError as e:
        print(f"[A] {name}: fast path raised: {str(e)[:110]}")
        bad = True

# Problem B: kernel matrix used linearly
W = torch.randn(12, 12, dtype=dt)


def lin_loss(kernel, raw_ls, fast):
    kernel.raw_lengthscale.data = raw_ls.data  # placeholder; value passed explicitly below
    xin = x if fast else x.clone().requires_grad_(True)
    ls = kernel.raw_lengthscale_constraint.transform(raw_ls)
    if fast:
        from gpytorch.functions import RBFCovariance
        K = RBFCovariance.apply(xin, xin, ls, lambda a, b: kernel.covar_dist(a, b, square_dist=True))
    else:
        K = torch.exp(-0.5 * kernel.covar_dist(xin / ls, xin / ls, square_dist=True))
    return (W * K).sum()


k = gpytorch.kernels.RBFKernel().double()
r0 = torch.zeros(1, 1, dtype=dt)
H_ref = torch.autograd.functional.hessian(lambda r: lin_loss(k, r, False), r0).reshape(())
print(f"[B] linear use, generic path d2L/dls2 = {H_ref.item():.6f}")
try:
    H_fast = torch.autograd.functional.hessian(lambda r: lin_loss(k, r, True), r0).reshape(())
    print(f"[B] linear use, RBFCovariance d2L/dls2 = {H_fast.item():.6f}  (no error raised)")
    if not torch.allclose(H_fast, H_ref, rtol=1e-6):
        print("[B] -> silently wrong second derivative, the promised error is not raised")
        bad = True
except RuntimeError as e:
    print(f"[B] RBFCovariance raised (acceptable): {str(e)[:100]}")

print("PROBLEM PRESENT" if bad else "ok")
sys.exit(1 if bad else 0)
