"""C02 extra (bug 4): the log prior of the task-noise covariance of a MultitaskGaussianLikelihood(rank>0, task_prior=...)
(a) batched likelihood (batch_shape (b,)): MultitaskGaussianLikelihood._eval_covar_matrix multiplies the (b, 1) noise with
    eye(t) without un-squeezing -> for b == t the prior is evaluated at F F^T + diag(noise_0..noise_{t-1}) (the noises of
    the DIFFERENT batch elements on the diagonal) instead of F_i F_i^T + noise_i I; for b != t the MLL raises.
(b) has_global_noise=False: _eval_covar_matrix reads self.noise, which does not exist -> the MLL raises AttributeError."""
import sys
import warnings

import torch

import gpytorch
from gpytorch.priors import GammaPrior, LKJCovariancePrior

warnings.filterwarnings("ignore")
torch.manual_seed(0)
torch.set_default_dtype(torch.float64)
n, t = 5, 3


class MT(gpytorch.models.ExactGP):
    def __init__(self, x, y, lik, bs):
        super().__init__(x, y, lik)
        self.mean_module = gpytorch.means.MultitaskMean(gpytorch.means.ConstantMean(batch_shape=bs), num_tasks=t)
        self.covar_module = gpytorch.kernels.MultitaskKernel(
            gpytorch.kernels.RBFKernel(batch_shape=bs), num_tasks=t, rank=1, batch_shape=bs
        )

    def forward(self, x):
        return gpytorch.distributions.MultitaskMultivariateNormal(self.mean_module(x), self.covar_module(x))


def run(bs, has_global_noise):
    torch.manual_seed(3)
    X, Y = torch.randn(*bs, n, 2), torch.randn(*bs, n, t)
    prior = LKJCovariancePrior(t, 1.5, GammaPrior(2.0, 2.0))
    lik = gpytorch.likelihoods.MultitaskGaussianLikelihood(
        t, rank=t, batch_shape=bs, task_prior=prior, has_global_noise=has_global_noise
    )
    if has_global_noise:
        lik.noise = torch.linspace(0.2, 1.5, max(bs.numel(), 1)).view(*bs, 1)  # a different noise per batch element
    model = MT(X, Y, lik, bs)
    mll = gpytorch.mlls.ExactMarginalLogLikelihood(lik, model)
    tag = f"batch_shape={tuple(bs)} has_global_noise={has_global_noise}"
    try:
        val = mll(model(X), Y).detach()
    except Exception as e:  # noqa
        print(f"{tag}: MLL raised {type(e).__name__}: {str(e)[:110]}")
        return True
    f = model(X)
    F = lik.task_noise_covar_factor.detach()
    S = F @ F.transpose(-1, -2)
    if has_global_noise:
        S = S + lik.noise.detach().unsqueeze(-1) * torch.eye(t)
    noise_cov = torch.stack([torch.kron(torch.eye(n), Si) for Si in S.reshape(-1, t, t)]).reshape(*bs, n * t, n * t)
    lp = torch.distributions.MultivariateNormal(f.mean.reshape(*bs, -1), f.covariance_matrix + noise_cov).log_prob(
        Y.reshape(*bs, -1)
    )
    ref = ((lp + prior.log_prob(S)) / (n * t)).detach()
    err = (val - ref).abs().max().item()
    print(f"{tag}: library {val}  dense {ref}  max |diff| {err:.3e}")
    return err > 1e-8


bad = False
bad |= run(torch.Size(), True)  # control, fine
bad |= run(torch.Size([3]), True)  # b == t: silently wrong prior term
bad |= run(torch.Size([2]), True)  # b != t: raises
bad |= run(torch.Size(), False)  # no global noise: raises
sys.exit(1 if bad else 0)
