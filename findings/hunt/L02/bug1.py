"""C02 bug 1: ExactMarginalLogLikelihood / LeaveOneOutPseudoLikelihood add the log prior of a batched
hyper-parameter to the WRONG batch element when the model output has more batch dimensions than the
module that owns the prior (kernel batch_shape (b,), data batch shape (a, b))."""
import sys
import warnings

import torch

import gpytorch

warnings.filterwarnings("ignore")
torch.manual_seed(0)
torch.set_default_dtype(torch.float64)

a, b, n, d = 2, 2, 6, 2
X = torch.randn(a, b, n, d)
Y = torch.randn(a, b, n)
ALPHA, BETA = 2.0, 3.0


class Model(gpytorch.models.ExactGP):
    def __init__(self, x, y, lik):
        super().__init__(x, y, lik)
        self.mean_module = gpytorch.means.ZeroMean()
        # one lengthscale per element of the LAST batch dimension; broadcast over the first one
        self.covar_module = gpytorch.kernels.RBFKernel(
            batch_shape=torch.Size([b]), lengthscale_prior=gpytorch.priors.GammaPrior(ALPHA, BETA)
        )

    def forward(self, x):
        return gpytorch.distributions.MultivariateNormal(self.mean_module(x), self.covar_module(x))


lik = gpytorch.likelihoods.GaussianLikelihood()
model = Model(X, Y, lik)
model.covar_module.lengthscale = torch.tensor([0.5, 2.0]).view(b, 1, 1)
ls = model.covar_module.lengthscale.detach().view(b)
noise = lik.noise.item()


def dense_terms(i, j):
    D = (X[i, j][:, None, :] - X[i, j][None, :, :]).pow(2).sum(-1)
    K = torch.exp(-0.5 * D / ls[j] ** 2) + noise * torch.eye(n)
    mu = torch.zeros(n)
    lp = torch.distributions.MultivariateNormal(mu, K).log_prob(Y[i, j])
    # true leave-one-out predictive densities, computed by actually leaving one out
    loo = 0.0
    for k in range(n):
        idx = [q for q in range(n) if q != k]
        Koo, kio = K[idx][:, idx], K[k, idx]
        m_k = kio @ torch.linalg.solve(Koo, Y[i, j][idx])
        v_k = K[k, k] - kio @ torch.linalg.solve(Koo, kio)
        loo = loo + torch.distributions.Normal(m_k, v_k.sqrt()).log_prob(Y[i, j][k])
    prior = torch.distributions.Gamma(ALPHA, BETA).log_prob(ls[j])
    return lp, loo, prior


ref_mll = torch.zeros(a, b)
ref_loo = torch.zeros(a, b)
for i in range(a):
    for j in range(b):
        lp, loo, prior = dense_terms(i, j)
        ref_mll[i, j] = (lp + prior) / n
        ref_loo[i, j] = (loo + prior) / n

bad = False
for name, cls, ref in (
    ("ExactMarginalLogLikelihood", gpytorch.mlls.ExactMarginalLogLikelihood, ref_mll),
    ("LeaveOneOutPseudoLikelihood", gpytorch.mlls.LeaveOneOutPseudoLikelihood, ref_loo),
):
    val = cls(lik, model)(model(X), Y).detach()
    err = (val - ref).abs().max().item()
    print(f"{name}: batch shape (a, b) = ({a}, {b}), kernel batch_shape ({b},)")
    print("  library:\n", val)
    print("  dense [log N(y; 0, K+S) + log Gamma(lengthscale_j)] / n:\n", ref)
    print(f"  max abs error = {err:.3e}")
    bad = bad or err > 1e-8

# the off-diagonal elements got the prior of the other lengthscale: [i, j] received log p(ls_i) instead of log p(ls_j)
pr = torch.distributions.Gamma(ALPHA, BETA).log_prob(ls)
print("log p(lengthscale) per kernel batch element:", pr)
print("(prior[0]-prior[1])/n =", ((pr[0] - pr[1]) / n).item(), " <- equals the off-diagonal error")

# with a != b the same call does not even run
a2 = 3
X2, Y2 = torch.randn(a2, b, n, d), torch.randn(a2, b, n)
model2 = Model(X2, Y2, lik)
try:
    gpytorch.mlls.ExactMarginalLogLikelihood(lik, model2)(model2(X2), Y2)
    print(f"a={a2}, b={b}: ran")
except Exception as e:  # noqa
    print(f"a={a2}, b={b}: raised {type(e).__name__}: {str(e)[:120]}")
    bad = True

# ---- second manifestation of the same root cause: a NON-batched parameter whose leading dimension is not a batch
# dimension (the (t,) task noises of a shared MultitaskGaussianLikelihood) inside a batched model
t = 2
for bb in (2, 3):
    Xm, Ym = torch.randn(bb, n, 2), torch.randn(bb, n, t)

    class MT(gpytorch.models.ExactGP):
        def __init__(self, x, y, lik):
            super().__init__(x, y, lik)
            self.mean_module = gpytorch.means.MultitaskMean(gpytorch.means.ZeroMean(), num_tasks=t)
            self.covar_module = gpytorch.kernels.MultitaskKernel(gpytorch.kernels.RBFKernel(), num_tasks=t, rank=1)

        def forward(self, x):
            return gpytorch.distributions.MultitaskMultivariateNormal(self.mean_module(x), self.covar_module(x))

    mlik = gpytorch.likelihoods.MultitaskGaussianLikelihood(
        t, noise_prior=gpytorch.priors.GammaPrior(ALPHA, BETA), has_global_noise=False
    )
    mlik.task_noises = torch.tensor([0.2, 1.5])
    mm = MT(Xm, Ym, mlik)
    try:
        val = gpytorch.mlls.ExactMarginalLogLikelihood(mlik, mm)(mm(Xm), Ym).detach()
    except Exception as e:  # noqa
        print(f"shared multitask likelihood with noise_prior, model batch ({bb},): raised {type(e).__name__}: {str(e)[:100]}")
        bad = True
        continue
    f = mm(Xm)
    Sig = f.covariance_matrix + torch.kron(torch.eye(n), torch.diag(mlik.task_noises.detach()))
    lp = torch.distributions.MultivariateNormal(f.mean.reshape(bb, -1), Sig).log_prob(Ym.reshape(bb, -1))
    ref = ((lp + torch.distributions.Gamma(ALPHA, BETA).log_prob(mlik.task_noises).sum()) / (n * t)).detach()
    err = (val - ref).abs().max().item()
    print(f"shared multitask likelihood with noise_prior, model batch ({bb},): library {val}, dense {ref}, err {err:.3e}")
    bad = bad or err > 1e-8

sys.exit(1 if bad else 0)
