"""C02 bug 3: multitask Kronecker model with MultitaskGaussianLikelihood(num_tasks=3, rank=2, has_global_noise=False).
The task-noise covariance F F^T is rank deficient, the marginal covariance K_x (x) K_t + I (x) F F^T is still positive
definite, but the exact MLL (Cholesky sizes, default settings) is off by tens of nats."""
import sys
import warnings

import torch

import gpytorch

warnings.filterwarnings("ignore")
torch.manual_seed(0)
torch.set_default_dtype(torch.float64)

n, t = 8, 3
X = torch.randn(n, 2)
Y = torch.randn(n, t)


class MT(gpytorch.models.ExactGP):
    def __init__(self, x, y, lik):
        super().__init__(x, y, lik)
        self.mean_module = gpytorch.means.MultitaskMean(gpytorch.means.ConstantMean(), num_tasks=t)
        self.covar_module = gpytorch.kernels.MultitaskKernel(gpytorch.kernels.RBFKernel(), num_tasks=t, rank=1)

    def forward(self, x):
        return gpytorch.distributions.MultitaskMultivariateNormal(self.mean_module(x), self.covar_module(x))


def run(rank, has_global_noise, seed=1):
    torch.manual_seed(seed)
    lik = gpytorch.likelihoods.MultitaskGaussianLikelihood(t, rank=rank, has_global_noise=has_global_noise)
    model = MT(X, Y, lik)
    for p in model.parameters():  # generic hyper-parameter values instead of the initial ones
        p.data.add_(0.5 * torch.randn_like(p))
    mll = gpytorch.mlls.ExactMarginalLogLikelihood(lik, model)
    params = [p for p in model.parameters()]
    val = mll(model(X), Y)
    grad = torch.autograd.grad(val, params, allow_unused=True)

    f = model(X)
    F = lik.task_noise_covar_factor
    S = F @ F.transpose(-1, -2)
    if has_global_noise:
        S = S + lik.noise * torch.eye(t)
    Sigma = f.covariance_matrix + torch.kron(torch.eye(n), S)  # interleaved layout
    min_eig = torch.linalg.eigvalsh(Sigma).min().item()
    ref = torch.distributions.MultivariateNormal(f.mean.reshape(-1), Sigma).log_prob(Y.reshape(-1)) / (n * t)
    gref = torch.autograd.grad(ref, params, allow_unused=True)
    gerr = max(
        ((a if a is not None else torch.zeros(1)) - (b if b is not None else torch.zeros(1))).abs().max().item()
        for a, b in zip(grad, gref)
    )
    err = abs(val.item() - ref.item())
    print(
        f"seed={seed} rank={rank} has_global_noise={has_global_noise}: min eig of K+S = {min_eig:.3e}; "
        f"library MLL {val.item():.8f}  dense {ref.item():.8f}  |diff| {err:.3e}  max grad diff {gerr:.3e}"
    )
    return err > 1e-6 or gerr > 1e-6


bad = False
bad |= run(rank=2, has_global_noise=True)  # control, fine
bad |= run(rank=3, has_global_noise=False)  # control: full-rank task noise, fine
bad |= run(rank=2, has_global_noise=False)  # rank-deficient task noise: wrong
bad |= run(rank=1, has_global_noise=False)
for seed in range(2, 8):
    bad |= run(rank=2, has_global_noise=False, seed=seed)
sys.exit(1 if bad else 0)
