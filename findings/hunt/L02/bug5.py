"""C02 extra (bug 5): LeaveOneOutPseudoLikelihood.forward does not accept the likelihood keyword arguments that
ExactMarginalLogLikelihood.forward (and its own docstring) accept, so the LOO objective of a
FixedNoiseGaussianLikelihood with per-call noise (`noise=`) raises TypeError instead of returning the LOO value."""
import sys
import warnings

import torch

import gpytorch

warnings.filterwarnings("ignore")
torch.manual_seed(0)
torch.set_default_dtype(torch.float64)
n = 6
X, Y = torch.randn(n, 2), torch.randn(n)


class M(gpytorch.models.ExactGP):
    def __init__(self, x, y, lik):
        super().__init__(x, y, lik)
        self.mean_module = gpytorch.means.ConstantMean()
        self.covar_module = gpytorch.kernels.ScaleKernel(gpytorch.kernels.RBFKernel())

    def forward(self, x):
        return gpytorch.distributions.MultivariateNormal(self.mean_module(x), self.covar_module(x))


def loo_ref(mean, K, y):
    tot = 0.0
    for i in range(n):
        idx = [j for j in range(n) if j != i]
        Koo, kio = K[idx][:, idx], K[i, idx]
        mu = mean[i] + kio @ torch.linalg.solve(Koo, y[idx] - mean[idx])
        var = K[i, i] - kio @ torch.linalg.solve(Koo, kio)
        tot = tot + torch.distributions.Normal(mu, var.sqrt()).log_prob(y[i])
    return tot / n


lik = gpytorch.likelihoods.FixedNoiseGaussianLikelihood(torch.rand(n) * 0.5 + 0.1, learn_additional_noise=True)
model = M(X, Y, lik)
out = model(X)
call_noise = torch.rand(n) + 0.2
K = out.covariance_matrix + torch.diag(call_noise + lik.second_noise)

bad = False
val = gpytorch.mlls.ExactMarginalLogLikelihood(lik, model)(out, Y, noise=call_noise).item()
ref = (torch.distributions.MultivariateNormal(out.mean, K).log_prob(Y) / n).item()
print(f"ExactMarginalLogLikelihood(out, y, noise=...): library {val:.10f} dense {ref:.10f}")
bad |= abs(val - ref) > 1e-8
ref = loo_ref(out.mean, K, Y).item()
try:
    val = gpytorch.mlls.LeaveOneOutPseudoLikelihood(lik, model)(out, Y, noise=call_noise).item()
    print(f"LeaveOneOutPseudoLikelihood(out, y, noise=...): library {val:.10f} leave-one-out reference {ref:.10f}")
    bad |= abs(val - ref) > 1e-8
except Exception as e:  # noqa
    print(f"LeaveOneOutPseudoLikelihood(out, y, noise=...): raised {type(e).__name__}: {e}  (reference {ref:.10f})")
    bad = True
sys.exit(1 if bad else 0)
