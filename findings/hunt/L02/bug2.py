"""C02 bug 2: ExactMarginalLogLikelihood under observation_nan_policy('mask') with a MultitaskMultivariateNormal
that is NOT interleaved: mean/targets are masked in point-major order, the (task-major) covariance is masked with the
same flat mask, so rows of the covariance are paired with the wrong observations."""
import sys
import warnings

import torch
from linear_operator.operators import BlockDiagLinearOperator

import gpytorch

warnings.filterwarnings("ignore")
torch.manual_seed(0)
torch.set_default_dtype(torch.float64)

n, t = 5, 2
X = torch.randn(n, 2)
Y = torch.randn(n, t)
Ynan = Y.clone()
Ynan[1, 0] = float("nan")
Ynan[3, 1] = float("nan")
Ynan[4, 1] = float("nan")


class IndependentOutputs(gpytorch.models.ExactGP):
    """t independent GPs, returned as a task-major (interleaved=False) multitask distribution"""

    def __init__(self, x, y, lik):
        super().__init__(x, y, lik)
        bs = torch.Size([t])
        self.mean_module = gpytorch.means.ConstantMean(batch_shape=bs)
        self.covar_module = gpytorch.kernels.ScaleKernel(gpytorch.kernels.RBFKernel(batch_shape=bs), batch_shape=bs)

    def forward(self, x):
        mean = self.mean_module(x)  # t x n
        covar = self.covar_module(x).evaluate_kernel()  # t x n x n
        return gpytorch.distributions.MultitaskMultivariateNormal(
            mean.transpose(-1, -2), BlockDiagLinearOperator(covar), interleaved=False
        )


def dense_reference(model, lik, targets):
    f = model(X)
    mean = f.mean.reshape(-1)  # point-major (n x t flattened)
    K_task_major = f.covariance_matrix  # documented layout for interleaved=False: block-diagonal w.r.t. tasks
    perm = torch.arange(n * t).view(t, n).t().reshape(-1)  # point-major position -> task-major position
    K = K_task_major[perm][:, perm]
    S = torch.kron(torch.eye(n), torch.diag(lik.task_noises + lik.noise))
    y = targets.reshape(-1)
    obs = ~torch.isnan(y)
    Sigma = (K + S)[obs][:, obs]
    lp = torch.distributions.MultivariateNormal(mean[obs], Sigma).log_prob(y[obs])
    return (lp / obs.sum()).item()


lik = gpytorch.likelihoods.MultitaskGaussianLikelihood(t)
lik.task_noises = torch.tensor([0.3, 1.1])
model = IndependentOutputs(X, Y, lik)
model.covar_module.outputscale = torch.tensor([0.5, 2.0])
model.mean_module.constant.data = torch.tensor([0.3, -1.0])
mll = gpytorch.mlls.ExactMarginalLogLikelihood(lik, model)

bad = False
# control: without NaNs everything agrees
val = mll(model(X), Y).item()
ref = dense_reference(model, lik, Y)
print(f"no NaN, policy ignore       : library {val:.10f}  dense {ref:.10f}  |diff| {abs(val - ref):.2e}")
bad = bad or abs(val - ref) > 1e-8

with gpytorch.settings.observation_nan_policy("mask"):
    val = mll(model(X), Y).item()
ref = dense_reference(model, lik, Y)
print(f"no NaN, policy mask         : library {val:.10f}  dense {ref:.10f}  |diff| {abs(val - ref):.2e}")
bad = bad or abs(val - ref) > 1e-8

with gpytorch.settings.observation_nan_policy("mask"):
    val = mll(model(X), Ynan).item()
ref = dense_reference(model, lik, Ynan)
print(f"3 NaN targets, policy mask  : library {val:.10f}  dense {ref:.10f}  |diff| {abs(val - ref):.2e}")
bad = bad or abs(val - ref) > 1e-8

sys.exit(1 if bad else 0)
