#!/usr/bin/env python3
"""
C15 violation 1: with OrthogonallyDecoupledVariationalStrategy the VariationalELBO is NOT a lower bound on the exact log
marginal likelihood.  The strategy returns the process q(f) with
    mean(x)   = mu_gamma(x) + Sigma_q(x, Z_beta) a          (Sigma_q = covariance of the covariance-strategy's q, S included)
    cov(x,x') = Sigma_q(x, x')
but kl_divergence() returns KL(q(u_gamma)||p(u_gamma)) + 0.5 a^T Sigma_q(Z_beta, Z_beta) a, which is not the KL divergence of
that process from the prior (it would be if Sigma_q were the prior conditional covariance K - K_g K_gg^-1 K_g, i.e. S = 0).

Part A: Gaussian likelihood, both inducing sets equal to the training inputs, variational parameters set in closed form so
        that q(f) is the exact posterior:  N * ELBO  >  exact log marginal likelihood  (by 0.5 m*^T S (I+S)^-1 m*).
Part B: two distinct inducing sets, random variational parameters: strategy.kl_divergence() differs from the dense
        KL( q(u_gamma, u_beta) || p(u_gamma, u_beta) ) of the very process q(f) that the strategy returns.
Exit code 1 if the violation is present.
"""
import sys
import warnings

import torch

import gpytorch
from gpytorch.variational import (
    CholeskyVariationalDistribution,
    DeltaVariationalDistribution,
    OrthogonallyDecoupledVariationalStrategy,
    VariationalStrategy,
)

warnings.filterwarnings("ignore")
torch.manual_seed(0)
torch.set_default_dtype(torch.float64)


class Model(gpytorch.models.ApproximateGP):
    def __init__(self, Z_covar, Z_mean):
        covar_vs = VariationalStrategy(
            self, Z_covar, CholeskyVariationalDistribution(Z_covar.size(-2)), learn_inducing_locations=True
        )
        vs = OrthogonallyDecoupledVariationalStrategy(covar_vs, Z_mean, DeltaVariationalDistribution(Z_mean.size(-2)))
        super().__init__(vs)
        self.mean_module = gpytorch.means.ZeroMean()
        self.covar_module = gpytorch.kernels.ScaleKernel(gpytorch.kernels.RBFKernel())

    def forward(self, x):
        return gpytorch.distributions.MultivariateNormal(self.mean_module(x), self.covar_module(x))


def set_params(model, a, m_w, S_w_chol):
    vs = model.variational_strategy
    with torch.no_grad():
        vs._variational_distribution.variational_mean.copy_(a)
        base = vs.base_variational_strategy._variational_distribution
        base.variational_mean.copy_(m_w)
        base.chol_variational_covar.copy_(S_w_chol)


failed = False

# ------------------------------------------------------------------------------------------------------------------ Part A
N = 10
X = torch.linspace(0, 1, N).unsqueeze(-1)
y = 3.0 * torch.sin(6 * X[:, 0]) + 0.1 * torch.randn(N)
model = Model(X.clone(), X.clone())
lik = gpytorch.likelihoods.GaussianLikelihood()
lik.noise = 0.05
model.covar_module.base_kernel.lengthscale = 0.25
model.train()
lik.train()
model(X)  # initialises the variational parameters

with torch.no_grad():
    s2 = lik.noise.squeeze()
    K = model.covar_module(X).to_dense()
    jitter = model.variational_strategy.base_variational_strategy.jitter_val
    L = torch.linalg.cholesky(K + jitter * torch.eye(N))
    exact_lml = torch.distributions.MultivariateNormal(torch.zeros(N), K + s2 * torch.eye(N)).log_prob(y)
    # exact posterior over u = f(X):  mean m*, covariance S*;  whitened: u = L e
    alpha = torch.linalg.solve(K + s2 * torch.eye(N), y)  # m* = K alpha
    S_w = torch.linalg.inv(torch.eye(N) + L.T @ L / s2)  # whitened optimal covariance
    m_w_full = L.T @ alpha  # whitened optimal mean   (L m_w = K alpha)
    # q(f) stays the exact posterior as long as  m_w + S_w L^T a = m_w*;  put part of the mean on the Delta basis:
    b_w = torch.linalg.solve(torch.eye(N) + S_w, m_w_full)
    a = torch.linalg.solve_triangular(L.T, b_w.unsqueeze(-1), upper=True).squeeze(-1)
    set_params(model, a=a, m_w=m_w_full - S_w @ b_w, S_w_chol=torch.linalg.cholesky(S_w))
    predicted_excess = 0.5 * m_w_full @ S_w @ b_w

mll = gpytorch.mlls.VariationalELBO(lik, model, num_data=N)
elbo = (mll(model(X), y) * N).item()
print("Part A  (Gaussian likelihood, full batch, Z_mean = Z_covar = X)")
print(f"  N * VariationalELBO           = {elbo:.6f}")
print(f"  exact log marginal likelihood = {exact_lml.item():.6f}")
print(f"  N * ELBO - exact              = {elbo - exact_lml.item():+.6f}   (must be <= 0 for a lower bound)")
print(f"  predicted excess              = {predicted_excess.item():+.6f}   (0.5 m*^T S (I + S)^-1 m*, whitened)")
if elbo > exact_lml.item() + 1e-3:
    failed = True

# ------------------------------------------------------------------------------------------------------------------ Part B
Zc = torch.tensor([0.05, 0.35, 0.6, 0.9]).unsqueeze(-1)
Zm = torch.tensor([0.15, 0.3, 0.5, 0.7, 0.8]).unsqueeze(-1)
model = Model(Zc, Zm)
model.covar_module.base_kernel.lengthscale = 0.15
model.train()
model(X)
Mc, Mm = Zc.size(0), Zm.size(0)
a = torch.randn(Mm)
m_w = torch.randn(Mc)
S_chol = torch.eye(Mc) * 0.7 + 0.2 * torch.randn(Mc, Mc).tril()
set_params(model, a, m_w, S_chol)
model(X)
kl_reported = model.variational_strategy.kl_divergence().item()

with torch.no_grad():
    # q(f) at the union of the two inducing sets, read off the strategy itself (evaluation of the public model call)
    Zall = torch.cat([Zc, Zm], 0)
    q_all = model(Zall)
    K_all = model.covar_module(Zall).to_dense()
    eye = torch.eye(Mc + Mm)
    q = torch.distributions.MultivariateNormal(q_all.mean, q_all.covariance_matrix + 1e-9 * eye)
    p = torch.distributions.MultivariateNormal(torch.zeros(Mc + Mm), K_all + 1e-9 * eye)
    kl_dense = torch.distributions.kl_divergence(q, p).item()
    Kcc = model.covar_module(Zc).to_dense() + jitter * torch.eye(Mc)
    Lc = torch.linalg.cholesky(Kcc)
    Kmc = model.covar_module(Zm, Zc).to_dense()
    b_w = torch.linalg.solve_triangular(Lc, (Kmc.T @ a).unsqueeze(-1), upper=False).squeeze(-1)
    S_w = S_chol.tril() @ S_chol.tril().T
    cross = (m_w @ S_w @ b_w - 0.5 * b_w @ (torch.eye(Mc) - S_w) @ S_w @ b_w).item()
print("Part B  (distinct inducing sets, random variational parameters)")
print(f"  strategy.kl_divergence()                              = {kl_reported:.6f}")
print(f"  dense KL(q(u_gamma,u_beta) || p(u_gamma,u_beta))      = {kl_dense:.6f}")
print(f"  difference                                            = {kl_dense - kl_reported:+.6f}")
print(f"  predicted  m^T S b - b^T (I - S) S b / 2              = {cross:+.6f}    (b = K_gg^(-1/2) K_gb a, whitened m, S)")
if abs(kl_dense - kl_reported) > 1e-2 and abs((kl_dense - kl_reported) - cross) < 1e-2 * max(1.0, abs(cross)):
    failed = True

print("VIOLATION PRESENT" if failed else "no violation")
sys.exit(1 if failed else 0)
