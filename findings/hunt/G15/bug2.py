#!/usr/bin/env python3
"""
C15 violation 2: AdditiveGridInterpolationVariationalStrategy (sum_output=True, the default) models ONE function
f(x) = sum_d g_d(x_d) with num_dim independent inducing vectors u_1 .. u_D, so
    q(u) = prod_d q_d(u_d),  p(u) = prod_d p(u_d),  KL(q(u)||p(u)) = sum_d KL(q_d||p_d).
strategy.kl_divergence() returns the D separate KLs as a vector, and VariationalELBO therefore returns a vector of D
numbers  ll - beta/N * KL_d  for a model whose output q(f) has no batch dimension.  No reduction of that vector gives the
ELBO:  .sum() counts the likelihood term D times,  .mean() counts only 1/D of the KL.
Reference: dense closed-form KL of the joint (block-diagonal) Gaussians + per-point Gaussian expected log-likelihood.
Exit code 1 if the violation is present.
"""
import math
import sys
import warnings

import torch

import gpytorch
from gpytorch.variational import AdditiveGridInterpolationVariationalStrategy, CholeskyVariationalDistribution

warnings.filterwarnings("ignore")
torch.manual_seed(0)
torch.set_default_dtype(torch.float64)

D, G = 3, 8  # input dimensions (= additive components), grid size per component
N, B, beta = 40, 9, 1.0  # declared data size, minibatch size


class Model(gpytorch.models.ApproximateGP):
    def __init__(self):
        vd = CholeskyVariationalDistribution(G, batch_shape=torch.Size([D]))
        vs = AdditiveGridInterpolationVariationalStrategy(
            self, grid_size=G, grid_bounds=[(0.0, 1.0)], num_dim=D, variational_distribution=vd
        )
        super().__init__(vs)
        self.mean_module = gpytorch.means.ConstantMean()
        self.covar_module = gpytorch.kernels.ScaleKernel(gpytorch.kernels.RBFKernel())

    def forward(self, x):
        return gpytorch.distributions.MultivariateNormal(self.mean_module(x), self.covar_module(x))


X = torch.rand(B, D)
y = torch.randn(B)
model = Model()
lik = gpytorch.likelihoods.GaussianLikelihood()
lik.noise = 0.3
model.train()
lik.train()
model(X)  # initialise the variational parameters, then move them away from the prior
with torch.no_grad():
    vd = model.variational_strategy._variational_distribution
    vd.variational_mean.add_(0.5 * torch.randn_like(vd.variational_mean))
    vd.chol_variational_covar.add_(0.2 * torch.randn_like(vd.chol_variational_covar).tril())

out = model(X)
mll = gpytorch.mlls.VariationalELBO(lik, model, num_data=N, beta=beta)
value = mll(out, y)

with torch.no_grad():
    # dense reference ------------------------------------------------------------------------------------------------
    mean, var, noise = out.mean, out.variance, lik.noise
    ell = (-0.5 * math.log(2 * math.pi) - 0.5 * noise.log() - 0.5 * ((y - mean) ** 2 + var) / noise).sum() / B
    # joint q(u), p(u) over all D * G inducing values: block diagonal
    q_d = model.variational_strategy._variational_distribution()
    Z = model.variational_strategy.inducing_points
    p_mean = model.mean_module(Z)
    p_cov = model.covar_module(Z).to_dense() + 1e-3 * torch.eye(G)  # the jitter of the strategy's prior
    q_joint = torch.distributions.MultivariateNormal(
        q_d.mean.reshape(-1), torch.block_diag(*q_d.covariance_matrix)
    )
    p_joint = torch.distributions.MultivariateNormal(p_mean.repeat(D), torch.block_diag(*([p_cov] * D)))
    kl_joint = torch.distributions.kl_divergence(q_joint, p_joint)
    reference = ell - beta * kl_joint / N

print(f"q(f): batch_shape = {tuple(out.batch_shape)}, event_shape = {tuple(out.event_shape)}  (one additive function)")
print(f"VariationalELBO returned       : shape {tuple(value.shape)}, values {value.detach().tolist()}")
print(f"definition  ll - beta/N * KL   : {reference.item():.6f}   (ll = {ell.item():.6f}, KL(q(u)||p(u)) = {kl_joint.item():.4f})")
print(f"strategy.kl_divergence()       : {model.variational_strategy.kl_divergence().detach().tolist()}  (sum = "
      f"{model.variational_strategy.kl_divergence().sum().item():.4f})")
cands = {"value.sum()": value.sum().item(), "value.mean()": value.mean().item()}
cands.update({f"value[{i}]": v for i, v in enumerate(value.detach().reshape(-1).tolist())})
best = min(abs(v - reference.item()) for v in cands.values())
for k, v in cands.items():
    print(f"  {k:13s} = {v:12.6f}   |diff to definition| = {abs(v - reference.item()):.6f}")
failed = value.shape != out.batch_shape or best > 1e-6 * max(1.0, abs(reference.item()))
print("VIOLATION PRESENT" if failed else "no violation")
sys.exit(1 if failed else 0)
