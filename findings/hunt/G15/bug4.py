#!/usr/bin/env python3
"""
C15 violation 4 (extra): likelihood arguments are not forwarded consistently to the two objectives.
 (a) _OneDimensionalLikelihood.log_marginal calls `self.forward(function_samples)` WITHOUT the extra *args / **kwargs, so
     PredictiveLogLikelihood(...)(output, y, **kwargs) silently evaluates  log E_q[p(y|f)]  with the likelihood's DEFAULT
     arguments (the docstring of PredictiveLogLikelihood.forward promises they are passed on); VariationalELBO, which goes
     through expected_log_prob, honours them.
 (b) Likelihood.expected_log_prob (sampling version, used when pyro is not installed) passes the extra arguments on to
     torch's Distribution.log_prob, so VariationalELBO raises a TypeError for any (non one-dimensional) likelihood with an
     extra argument, while PredictiveLogLikelihood works.
Likelihood used: y ~ N(f, scale_i^2) with a per-point `scale` argument (closed-form references).
Exit code 1 if the violation is present.
"""
import math
import sys
import warnings

import torch

import gpytorch
from gpytorch.variational import CholeskyVariationalDistribution, VariationalStrategy

warnings.filterwarnings("ignore")
torch.manual_seed(0)
torch.set_default_dtype(torch.float64)


class Model(gpytorch.models.ApproximateGP):
    def __init__(self, Z):
        vs = VariationalStrategy(self, Z, CholeskyVariationalDistribution(Z.size(-2)), learn_inducing_locations=True)
        super().__init__(vs)
        self.mean_module = gpytorch.means.ConstantMean()
        self.covar_module = gpytorch.kernels.ScaleKernel(gpytorch.kernels.RBFKernel())

    def forward(self, x):
        return gpytorch.distributions.MultivariateNormal(self.mean_module(x), self.covar_module(x))


class HetGauss1D(gpytorch.likelihoods._OneDimensionalLikelihood):
    def forward(self, function_samples, scale=None, **kwargs):
        if scale is None:
            scale = torch.ones(function_samples.shape[-1])
        return torch.distributions.Normal(function_samples, scale)


class HetGaussSampled(gpytorch.likelihoods.Likelihood):
    def forward(self, function_samples, scale=None, **kwargs):
        if scale is None:
            scale = torch.ones(function_samples.shape[-1])
        return torch.distributions.Normal(function_samples, scale)


N, B = 30, 7
X, y, scale = torch.rand(B, 2), torch.randn(B), torch.rand(B) * 0.5 + 0.2
model = Model(torch.rand(5, 2))
model.train()
out = model(X)
fm, fv = out.mean.detach(), out.variance.detach()
kl = model.variational_strategy.kl_divergence().detach()
ref_elbo = (-0.5 * math.log(2 * math.pi) - scale.log() - 0.5 * ((y - fm) ** 2 + fv) / scale**2).sum() / B - kl / N
ref_pll = torch.distributions.Normal(fm, (fv + scale**2).sqrt()).log_prob(y).sum() / B - kl / N
ref_pll_default = torch.distributions.Normal(fm, (fv + 1.0).sqrt()).log_prob(y).sum() / B - kl / N

failed = False
print("(a) one-dimensional (Gauss-Hermite) likelihood with a `scale` argument")
lik = HetGauss1D()
elbo = gpytorch.mlls.VariationalELBO(lik, model, num_data=N)(out, y, scale=scale).item()
pll = gpytorch.mlls.PredictiveLogLikelihood(lik, model, num_data=N)(out, y, scale=scale).item()
print(f"  VariationalELBO         = {elbo:.6f}   closed form {ref_elbo.item():.6f}   diff {abs(elbo - ref_elbo.item()):.2e}")
print(f"  PredictiveLogLikelihood = {pll:.6f}   closed form {ref_pll.item():.6f}   diff {abs(pll - ref_pll.item()):.2e}")
print(f"     closed form with the argument ignored (scale = 1): {ref_pll_default.item():.6f}")
if abs(pll - ref_pll.item()) > 1e-3:
    failed = True

print("(b) generic (sampled) likelihood with a `scale` argument")
lik = HetGaussSampled()
with gpytorch.settings.num_likelihood_samples(2000):
    torch.manual_seed(1)
    pll = gpytorch.mlls.PredictiveLogLikelihood(lik, model, num_data=N)(out, y, scale=scale).item()
    print(f"  PredictiveLogLikelihood = {pll:.4f}   closed form {ref_pll.item():.4f}  (Monte-Carlo)")
    try:
        elbo = gpytorch.mlls.VariationalELBO(lik, model, num_data=N)(out, y, scale=scale).item()
        print(f"  VariationalELBO         = {elbo:.4f}   closed form {ref_elbo.item():.4f}  (Monte-Carlo)")
    except TypeError as e:
        print(f"  VariationalELBO         : TypeError: {e}")
        failed = True

print("VIOLATION PRESENT" if failed else "no violation")
sys.exit(1 if failed else 0)
