#!/usr/bin/env python3
"""
C15 violation 3: DeepPredictiveLogLikelihood (the DSPP objective) mis-aligns the quadrature weights when the inputs carry a
batch dimension (a batch of data sets, `b x n x d`, which DSPPLayer explicitly supports: "Mean, stdv are q x ... x n x t").
The per-site log marginals have shape  q x b x n,  the log quadrature weights (shape q) are added as `quad_weights.unsqueeze(-1)`
(shape q x 1), which broadcasts them along the BATCH dimension instead of the quadrature dimension:
  * b != q : RuntimeError (valid input rejected)
  * b == q : silently wrong value - data set j is weighted with w_j for every quadrature site instead of
             log sum_k w_k p_k(y).
Reference: (i) the same objective evaluated data set by data set with un-batched inputs, (ii) the dense formula
  (1/B) sum_i log sum_k w_k N(y_i; mu_ki, var_ki + noise) - beta/N * sum_layers KL.
Exit code 1 if the violation is present.
"""
import sys
import warnings

import torch

import gpytorch
from gpytorch.models.deep_gps.dspp import DSPP, DSPPLayer
from gpytorch.variational import CholeskyVariationalDistribution, VariationalStrategy

warnings.filterwarnings("ignore")
torch.manual_seed(0)
torch.set_default_dtype(torch.float64)
Q = 3  # quadrature sites
N, B, beta = 70, 11, 0.8


class Layer(DSPPLayer):
    def __init__(self, input_dims, output_dims, M=4):
        if output_dims is None:
            Z, bs = torch.rand(M, input_dims), torch.Size([])
        else:
            Z, bs = torch.rand(output_dims, M, input_dims), torch.Size([output_dims])
        vs = VariationalStrategy(self, Z, CholeskyVariationalDistribution(M, batch_shape=bs), learn_inducing_locations=True)
        super().__init__(vs, input_dims, output_dims, Q)
        self.mean_module = gpytorch.means.ConstantMean(batch_shape=bs)
        self.covar_module = gpytorch.kernels.ScaleKernel(gpytorch.kernels.RBFKernel(batch_shape=bs), batch_shape=bs)

    def forward(self, x):
        return gpytorch.distributions.MultivariateNormal(self.mean_module(x), self.covar_module(x))


class Model(DSPP):
    def __init__(self):
        super().__init__(Q)
        self.hidden = Layer(2, 1)
        self.last = Layer(1, None)
        self.likelihood = gpytorch.likelihoods.GaussianLikelihood()

    def forward(self, x):
        return self.last(self.hidden(x))


model = Model()
model.train()
model(torch.rand(B, 2))  # initialise the variational parameters, then move them away from the prior
with torch.no_grad():
    model.raw_quad_weights.copy_(torch.tensor([0.0, 1.5, -1.0]))
    for layer in (model.hidden, model.last):
        vd = layer.variational_strategy._variational_distribution
        vd.variational_mean.add_(0.5 * torch.randn_like(vd.variational_mean))
        vd.chol_variational_covar.add_(0.2 * torch.randn_like(vd.chol_variational_covar).tril())
lik = model.likelihood
mll = gpytorch.mlls.DeepPredictiveLogLikelihood(lik, model, num_data=N, beta=beta)

failed = False
for b in (Q, Q + 1):
    X = torch.rand(b, B, 2)
    Y = torch.randn(b, B)
    print(f"--- batch of {b} data sets, {Q} quadrature sites")
    with torch.no_grad():
        # reference (i): one data set at a time
        single = torch.stack([mll(model(X[j]), Y[j]) for j in range(b)])
        out = model(X)  # q x b x n
        # reference (ii): dense formula
        logp = torch.distributions.Normal(out.mean, (out.variance + lik.noise).sqrt()).log_prob(Y)  # q x b x n
        dense = (logp + model.quad_weights.view(Q, 1, 1)).logsumexp(0).sum(-1) / B
        dense = dense - beta * model.variational_strategy.kl_divergence() / N
        print(f"  one data set at a time : {single.tolist()}")
        print(f"  dense formula          : {dense.tolist()}")
        try:
            batched = mll(out, Y)
            err = (batched - single).abs().max().item()
            print(f"  batched call           : {batched.tolist()}")
            print(f"  max |batched - single| = {err:.6f}   (|dense - single| = {(dense - single).abs().max().item():.2e})")
            if err > 1e-8:
                failed = True
        except RuntimeError as e:
            print(f"  batched call           : RuntimeError: {e}")
            failed = True

print("VIOLATION PRESENT" if failed else "no violation")
sys.exit(1 if failed else 0)
