"""
C09 / bug 2: the training objective of the Kronecker-multitask SGPR model is not the Titsias collapsed bound.

Model (the configuration of test/examples/test_kronecker_multitask_sgpr_regression.py):
    covar_module = MultitaskKernel(InducingPointKernel(RBF, Z, likelihood), num_tasks=T, rank=r)
    likelihood   = MultitaskGaussianLikelihood(num_tasks=T)
Its prior covariance is K = K_xx (x) B, its Nystrom matrix is Q = Q_xx (x) B with Q_xx = K_xz K_zz^-1 K_zx (the script
checks that this is exactly the covariance the model returns in training mode). With the diagonal noise matrix
S = I_n (x) diag(s_t^2 + s^2) the collapsed bound (Titsias 2009, eq. 9) is

    log N(y | mu, Q + S)  -  1/2 tr( S^-1 (K - Q) )
        = log N(y | mu, Q + S)  -  1/2 sum_i sum_t (K_xx - Q_xx)_ii  B_tt / (s_t^2 + s^2).

InducingPointKernelAddedLossTerm.loss computes  -1/2 sum_i sum_t (K_xx - Q_xx)_ii / (s_t^2 + s^2): the task variance
B_tt is missing. The objective equals the bound only if every B_tt happens to be 1; for B_tt > 1 the penalty is too
small, so the value exceeds the collapsed bound (it is no longer guaranteed to be a lower bound of the exact evidence).
"""
import math
import sys
import warnings

import torch

import gpytorch
from gpytorch.kernels import InducingPointKernel, MultitaskKernel, RBFKernel

warnings.filterwarnings("ignore")
torch.manual_seed(0)
torch.set_default_dtype(torch.float64)

n, T, rank = 12, 3, 2
x = torch.rand(n, 2)
y = torch.randn(n, T)
z = torch.rand(5, 2)


class KroneckerSGPR(gpytorch.models.ExactGP):
    def __init__(self, x, y, lik):
        super().__init__(x, y, lik)
        self.mean_module = gpytorch.means.MultitaskMean(gpytorch.means.ConstantMean(), num_tasks=T)
        self.base = RBFKernel()
        self.covar_module = MultitaskKernel(
            InducingPointKernel(self.base, inducing_points=z.clone(), likelihood=lik), num_tasks=T, rank=rank
        )

    def forward(self, x):
        return gpytorch.distributions.MultitaskMultivariateNormal(self.mean_module(x), self.covar_module(x))


lik = gpytorch.likelihoods.MultitaskGaussianLikelihood(num_tasks=T)
lik.task_noises = torch.tensor([0.1, 0.3, 0.7])
lik.noise = 0.05
model = KroneckerSGPR(x, y, lik)
model.base.lengthscale = 0.4
model.train()
lik.train()
mll = gpytorch.mlls.ExactMarginalLogLikelihood(lik, model)

with torch.no_grad():
    out = model(x)
    objective = mll(out, y).item()
    added = [t.loss().item() for t in model.added_loss_terms()]

    # ---- the collapsed bound from scratch ---------------------------------------------------------------------------
    B = model.covar_module.task_covar_module.covar_factor
    B = B @ B.T + torch.diag(model.covar_module.task_covar_module.var)
    sq = lambda a, b: ((a[:, None, :] - b[None, :, :]) ** 2).sum(-1)
    rbf = lambda a, b: torch.exp(-0.5 * sq(a, b) / model.base.lengthscale**2)
    Kxx, Kzz, Kzx = rbf(x, x), rbf(z, z), rbf(z, x)
    Qxx = Kzx.T @ torch.linalg.solve(Kzz, Kzx)
    K, Q = torch.kron(Kxx, B), torch.kron(Qxx, B)  # point-major / task fastest, like MultitaskMultivariateNormal
    noise = (lik.task_noises + lik.noise).repeat(n)
    resid = (y - model.mean_module(x)).reshape(-1)
    A = Q + torch.diag(noise)
    log_marg = -0.5 * resid @ torch.linalg.solve(A, resid) - 0.5 * torch.logdet(A) - 0.5 * n * T * math.log(2 * math.pi)
    trace_term = -0.5 * ((K.diagonal() - Q.diagonal()) / noise).sum()
    bound = ((log_marg + trace_term) / (n * T)).item()  # ExactMarginalLogLikelihood divides by the number of data
    what_is_computed = -0.5 * ((Kxx.diagonal() - Qxx.diagonal())[:, None] / (lik.task_noises + lik.noise)[None, :]).sum()

    cov_err = (out.covariance_matrix - Q).abs().max().item()

print(f"model's training covariance vs Q_xx (x) B           : max abs diff {cov_err:.2e}")
print(f"task variances B_tt                                 : {B.diagonal().tolist()}")
print(f"regularisation trace term, library (added loss)     : {added}")
print(f"regularisation trace term, -1/2 tr(S^-1 (K - Q))    : {trace_term.item():.6f}")
print(f"  (library value reproduced when B_tt is dropped    : {what_is_computed.item():.6f})")
print(f"log-marginal part  (objective*nT - added)           : {objective * n * T - added[0]:.6f}  vs  {log_marg.item():.6f}")
print(f"training objective mll(output, y)                   : {objective:.8f}")
print(f"Titsias collapsed bound / (nT)                      : {bound:.8f}")
err = abs(objective - bound)
print(f"|objective - bound| = {err:.3e}   (trace terms differ by {abs(added[0] - trace_term.item()):.3e})")

if cov_err < 1e-8 and err > 1e-6:
    print("VIOLATION: the SGPR training objective is not the Titsias collapsed bound")
    sys.exit(1)
print("no violation")
sys.exit(0)
