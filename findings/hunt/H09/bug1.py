"""
C09 / bug 1: KISS-GP (GridInterpolationKernel without grid_bounds) re-fits its inducing grid in the middle of a
prediction, AFTER the prediction strategy has cached the training-side quantities on the old grid.

The test points reach beyond the range of the training inputs (ordinary extrapolation). The InterpolatedPredictionStrategy
then combines a mean cache  K_UU(old grid) W_train(old grid)^T (K + s^2 I)^-1 (y - mu)  with test interpolation weights
that index the NEW grid. The result is not the dense conditional of any kernel matrix.

References:
  (a) the default dense conditional  mu + K*x (Kxx + s^2 I)^-1 (y - mu)  with the matrices the very same kernel object
      returns (after the call, i.e. on the grid it now uses),
  (b) an independent replica of the model that is given the final grid bounds up front (grid_bounds=...), so that its
      grid never moves. Same hyper-parameters, same data.
"""
import sys
import warnings

import torch

import gpytorch
from gpytorch.utils.interpolation import Interpolation

warnings.filterwarnings("ignore")
torch.manual_seed(0)
torch.set_default_dtype(torch.float64)


class KissGP(gpytorch.models.ExactGP):
    def __init__(self, x, y, lik, grid_bounds=None):
        super().__init__(x, y, lik)
        self.mean_module = gpytorch.means.ConstantMean()
        self.covar_module = gpytorch.kernels.ScaleKernel(
            gpytorch.kernels.GridInterpolationKernel(
                gpytorch.kernels.RBFKernel(), grid_size=30, num_dims=1, grid_bounds=grid_bounds
            )
        )

    def forward(self, x):
        return gpytorch.distributions.MultivariateNormal(self.mean_module(x), self.covar_module(x))


def make(grid_bounds=None):
    lik = gpytorch.likelihoods.GaussianLikelihood()
    lik.noise = 0.05
    m = KissGP(train_x, train_y, lik, grid_bounds)
    m.covar_module.base_kernel.base_kernel.lengthscale = 0.2
    m.covar_module.outputscale = 1.0
    m.mean_module.constant = 0.1
    m.eval()
    lik.eval()
    return m, lik


train_x = torch.linspace(0, 1, 25).unsqueeze(-1)
train_y = torch.sin(6 * train_x.squeeze(-1)) + 0.05 * torch.randn(25)
test_x = torch.linspace(0.2, 1.6, 9).unsqueeze(-1)  # partly outside [0, 1]

model, lik = make()
with torch.no_grad():
    pred = model(test_x)
    mean, var = pred.mean, pred.variance
    mean2 = model(test_x).mean  # second call on the same model: the stale cache persists

    # the grid the kernel uses now (read before anything else can move it again)
    gik = model.covar_module.base_kernel
    final_bounds = tuple(gik.grid_bounds)
    final_grid = [g.clone() for g in gik.grid]

    # (a) dense conditional, written out by hand on that grid: K(a, b) = s * W_a K_UU W_b^T
    def interp_matrix(x):
        idx, val = Interpolation().interpolate(final_grid, x)
        W = torch.zeros(x.shape[0], final_grid[0].numel())
        return W.scatter_add_(1, idx, val)

    u = final_grid[0].to(torch.float64).unsqueeze(-1)
    ell = gik.base_kernel.lengthscale
    Kuu = model.covar_module.outputscale * torch.exp(-0.5 * (u - u.T) ** 2 / ell**2)
    Wx, Ws = interp_matrix(train_x), interp_matrix(test_x)
    Kxx, Ksx, Kss = Wx @ Kuu @ Wx.T, Ws @ Kuu @ Wx.T, Ws @ Kuu @ Ws.T
    A = Kxx + lik.noise * torch.eye(25)
    mu = model.mean_module.constant
    ref_mean = mu + Ksx @ torch.linalg.solve(A, train_y - mu)
    ref_var = (Kss - Ksx @ torch.linalg.solve(A, Ksx.T)).diagonal()

    # (b) replica whose grid is fixed to the final bounds from the start
    model_b, _ = make(grid_bounds=final_bounds)
    grid_same = max(
        (g1.double() - g2.double()).abs().max().item() for g1, g2 in zip(final_grid, model_b.covar_module.base_kernel.grid)
    )
    pred_b = model_b(test_x)

print("test_x                        ", test_x.squeeze(-1))
print("KISS-GP strategy mean         ", mean)
print("(a) dense conditional mean    ", ref_mean)
print("(b) fixed-grid replica mean   ", pred_b.mean)
print("grids of model and replica differ by", grid_same)
err_a = (mean - ref_mean).abs().max().item()
err_b = (mean - pred_b.mean).abs().max().item()
err_ab = (ref_mean - pred_b.mean).abs().max().item()
err_2 = (mean2 - ref_mean).abs().max().item()
err_v = (var - ref_var).abs().max().item()
print(f"max |strategy - dense|      mean: {err_a:.3e}   variance: {err_v:.3e}")
print(f"max |strategy - replica|    mean: {err_b:.3e}")
print(f"max |dense - replica|       mean: {err_ab:.3e}   (the two references agree)")
print(f"second call, |strategy - dense| mean: {err_2:.3e}")

if err_a > 1e-3 and err_ab < 1e-5:
    print("VIOLATION: the interpolation prediction strategy does not return the dense conditional")
    sys.exit(1)
print("no violation")
sys.exit(0)
