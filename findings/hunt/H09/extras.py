"""
C09 - further confirmed findings (beyond bug1..bug3). Each block prints what happens; the script exits 1 if any of
them is (still) present.
"""
import sys
import warnings

import torch

import gpytorch
from gpytorch.kernels import (
    GridInterpolationKernel,
    GridKernel,
    InducingPointKernel,
    MultitaskKernel,
    RBFKernel,
    ScaleKernel,
)
from gpytorch.utils.grid import create_data_from_grid

warnings.filterwarnings("ignore")
torch.set_default_dtype(torch.float64)
found = []


def report(tag, present, msg):
    print(f"[{tag}] {'PRESENT' if present else 'absent '} - {msg}")
    if present:
        found.append(tag)


# E1 ------------------------------------------------------------------------------------------------------------------
# MultitaskKernel with batch_shape=[2] evaluated on inputs of batch shape [2]: forward() repeats the (already batched)
# task covariance by x1.shape[:-2] -> batch 4 vs batch 2 -> RuntimeError. (multitask_kernel.py, forward, covar_i.repeat)
torch.manual_seed(0)
k = MultitaskKernel(RBFKernel(batch_shape=torch.Size([2])), num_tasks=3, rank=2, batch_shape=torch.Size([2]))
x1, x2 = torch.randn(2, 4, 2), torch.randn(2, 5, 2)
try:
    dense = k(x1, x2).to_dense()
    B = k.task_covar_module.covar_factor @ k.task_covar_module.covar_factor.mT + torch.diag_embed(k.task_covar_module.var)
    Kx = k.data_covar_module(x1, x2).to_dense()
    ref = torch.stack([torch.kron(Kx[b], B[b]) for b in range(2)])
    err = (dense - ref).abs().max().item()
    report("E1", err > 1e-8, f"batched MultitaskKernel vs K_x (x) B: max abs diff {err:.2e}")
except Exception as e:  # noqa
    report("E1", True, f"batched MultitaskKernel on batched inputs raises {type(e).__name__}: {str(e)[:120]}")


# E2 / E3 -------------------------------------------------------------------------------------------------------------
class KissGP(gpytorch.models.ExactGP):
    def __init__(self, x, y, lik):
        super().__init__(x, y, lik)
        self.mean_module = gpytorch.means.ConstantMean()
        self.covar_module = ScaleKernel(GridInterpolationKernel(RBFKernel(), grid_size=20, grid_bounds=[(0.0, 1.0)]))

    def forward(self, x):
        return gpytorch.distributions.MultivariateNormal(self.mean_module(x), self.covar_module(x))


torch.manual_seed(1)
x = torch.rand(30, 1)
y = torch.sin(4 * x.squeeze(-1)) + 0.05 * torch.randn(30)
xf, yf, xt = torch.rand(5, 1), torch.randn(5), torch.rand(7, 1)

# E2: KISS-GP fantasy model, fast_pred_samples(True) with fast_pred_var(False):
# exact_prediction_strategies.py, InterpolatedPredictionStrategy.fantasy_covar_cache, line ~596 solves against a
# MatmulLinearOperator right-hand side -> NotImplementedError. (fast_pred_var(True) + fast_pred_samples(True) works.)
lik = gpytorch.likelihoods.GaussianLikelihood()
m = KissGP(x, y, lik)
m.eval()
try:
    with torch.no_grad(), gpytorch.settings.fast_pred_var(False), gpytorch.settings.fast_pred_samples(True):
        m(xt)
        fm = m.get_fantasy_model(xf, yf)
        fm(xt).covariance_matrix
    report("E2", False, "KISS-GP fantasy prediction with fast_pred_samples only works")
except Exception as e:  # noqa
    report("E2", True, f"KISS-GP fantasy + fast_pred_samples(True) + fast_pred_var(False) raises {type(e).__name__}: {str(e)[:90]}")

# E3: KISS-GP fantasy update with a FixedNoiseGaussianLikelihood: get_fantasy_strategy asks the *fantasy* likelihood (whose
# fixed noise already has n+m entries) for the noise of the m fantasy points -> ZeroLinearOperator -> IndexError.
lik = gpytorch.likelihoods.FixedNoiseGaussianLikelihood(noise=0.02 + 0.1 * torch.rand(30))
m = KissGP(x, y, lik)
m.eval()
try:
    with torch.no_grad():
        m(xt)
        fm = m.get_fantasy_model(xf, yf, noise=0.02 + 0.1 * torch.rand(5))
        fm(xt).mean
    report("E3", False, "KISS-GP fantasy update with fixed noise works")
except Exception as e:  # noqa
    report("E3", True, f"KISS-GP fantasy update with FixedNoiseGaussianLikelihood raises {type(e).__name__}: {str(e)[:90]}")


# E4 ------------------------------------------------------------------------------------------------------------------
# ScaleKernel(InducingPointKernel(...)): ScaleKernel forwards prediction_strategy to the SGPR strategy, which cannot read the
# ConstantMulLinearOperator it then receives -> ValueError at prediction time.
class ScaledSGPR(gpytorch.models.ExactGP):
    def __init__(self, x, y, lik, z):
        super().__init__(x, y, lik)
        self.mean_module = gpytorch.means.ZeroMean()
        self.covar_module = ScaleKernel(InducingPointKernel(RBFKernel(), inducing_points=z, likelihood=lik))

    def forward(self, x):
        return gpytorch.distributions.MultivariateNormal(self.mean_module(x), self.covar_module(x))


torch.manual_seed(2)
x2d, y2d, z = torch.rand(20, 2), torch.randn(20), torch.rand(6, 2)
lik = gpytorch.likelihoods.GaussianLikelihood()
m = ScaledSGPR(x2d, y2d, lik, z)
m.eval()
try:
    with torch.no_grad():
        m(torch.rand(5, 2)).covariance_matrix
    report("E4", False, "ScaleKernel(InducingPointKernel) predicts")
except Exception as e:  # noqa
    report("E4", True, f"ScaleKernel(InducingPointKernel) raises {type(e).__name__}: {str(e)[:100]}")

# E5 ------------------------------------------------------------------------------------------------------------------
# GridKernel(ScaleKernel(RBF)) on a d-dimensional grid: the Kronecker product multiplies d one-dimensional *scaled* kernels,
# so the grid-grid matrix carries outputscale**d while every other block (base_kernel.forward) carries outputscale.
grid = [torch.linspace(0, 1, 5), torch.linspace(0, 2, 4)]
base = ScaleKernel(RBFKernel())
base.outputscale = 2.3
gk = GridKernel(base, grid)
X = create_data_from_grid(grid)
with torch.no_grad():
    err = (gk(X, X).to_dense() - base(X, X).to_dense()).abs().max().item()
report("E5", err > 1e-8, f"GridKernel(ScaleKernel(RBF)) on its grid vs base kernel: max abs diff {err:.3f} (2.3**2 - 2.3 = 2.99)")

print("present:", found)
sys.exit(1 if found else 0)
