"""
C09 / bug 3: the inducing-point (SGPR) prediction strategy mishandles test inputs that are equal to the training inputs
(evaluating the fitted model at its own training locations - residuals, in-sample fit ...).

InducingPointKernel._get_covariance switches representation on `torch.equal(x1, x2)`. When the model is evaluated at
test_x == train_x, the TEST-TRAIN block K(test_x, train_x) therefore takes the "x1 is x2" branch:

 (A) settings.sgpr_diagonal_correction(False): the block is a LowRankRootLinearOperator, which
     SGPRPredictionStrategy.exact_predictive_covar does not accept -> ValueError("... This is likely a bug in GPyTorch").
     The SGPR predictive equations are perfectly well defined there; evaluating at train_x + 1e-9 works and matches them.

 (B) settings.sgpr_diagonal_correction(True) (default): the block becomes Q_xx + diag(K_xx - Q_xx), i.e. the diagonal
     correction of the train-train matrix leaks into the cross-covariance. The predictive MEAN uses this block, the
     predictive COVARIANCE (which reads only the low-rank root) uses Q_xx. Mean and covariance no longer belong to one
     conditional, and the mean jumps when the test inputs are moved by 1e-9.

Reference: the SGPR predictive equations written out densely,
     mean = mu + Q_*x (Q_xx + D + s^2 I)^-1 (y - mu),   cov = K_** - Q_*x (Q_xx + D + s^2 I)^-1 Q_x*
with D = 0 (A) or D = diag(K_xx - Q_xx) (B); these are what the same strategy returns for every test set that is not
bit-identical to train_x (checked below for train_x + 1e-9).
"""
import sys
import warnings

import torch

import gpytorch

warnings.filterwarnings("ignore")
torch.manual_seed(0)
torch.set_default_dtype(torch.float64)

n = 20
train_x = torch.rand(n, 2)
train_y = torch.sin(3 * train_x[:, 0]) + train_x[:, 1] + 0.05 * torch.randn(n)
z = torch.rand(6, 2)


class SGPR(gpytorch.models.ExactGP):
    def __init__(self, x, y, lik):
        super().__init__(x, y, lik)
        self.mean_module = gpytorch.means.ConstantMean()
        self.base = gpytorch.kernels.ScaleKernel(gpytorch.kernels.RBFKernel())
        self.covar_module = gpytorch.kernels.InducingPointKernel(self.base, inducing_points=z.clone(), likelihood=lik)

    def forward(self, x):
        return gpytorch.distributions.MultivariateNormal(self.mean_module(x), self.covar_module(x))


def make():
    lik = gpytorch.likelihoods.GaussianLikelihood()
    lik.noise = 0.1
    m = SGPR(train_x, train_y, lik)
    m.base.base_kernel.lengthscale = 0.5
    m.mean_module.constant = 0.3
    m.eval()
    lik.eval()
    return m, lik


def sgpr_equations(m, lik, xt, correction):
    K = m.base
    Kzz, Kzx, Kzs = K(z).to_dense(), K(z, train_x).to_dense(), K(z, xt).to_dense()
    Qxx = Kzx.T @ torch.linalg.solve(Kzz, Kzx)
    Qsx = Kzs.T @ torch.linalg.solve(Kzz, Kzx)
    D = torch.diag((K(train_x).to_dense() - Qxx).diagonal().clamp_min(0)) if correction else torch.zeros(n, n)
    A = Qxx + D + lik.noise * torch.eye(n)
    mu = m.mean_module.constant
    mean = mu + Qsx @ torch.linalg.solve(A, train_y - mu)
    cov = K(xt).to_dense() - Qsx @ torch.linalg.solve(A, Qsx.T)
    return mean, cov


violations = 0
for correction in (False, True):
    print(f"--- sgpr_diagonal_correction({correction}) ---")
    for name, xt in (("train_x + 1e-9", train_x + 1e-9), ("train_x        ", train_x.clone())):
        m, lik = make()
        with torch.no_grad(), gpytorch.settings.sgpr_diagonal_correction(correction):
            ref_mean, ref_cov = sgpr_equations(m, lik, xt, correction)
            try:
                pred = m(xt)
                e_mean = (pred.mean - ref_mean).abs().max().item()
                e_cov = (pred.covariance_matrix - ref_cov).abs().max().item()
                print(f"test = {name}: max|mean - SGPR eq.| = {e_mean:.3e}   max|cov - SGPR eq.| = {e_cov:.3e}")
                if e_mean > 1e-6 or e_cov > 1e-6:
                    violations += 1
            except Exception as e:  # noqa
                print(f"test = {name}: raised {type(e).__name__}: {str(e)[:110]}")
                violations += 1

if violations:
    print(f"VIOLATION: {violations} of 4 cases deviate from the SGPR predictive equations (only the bit-identical inputs)")
    sys.exit(1)
print("no violation")
sys.exit(0)
