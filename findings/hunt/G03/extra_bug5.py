#!/usr/bin/env python3
"""
C03 extra finding 5 (exceptions under detach_test_caches(False)): prediction-strategy caches that keep a freed autograd
graph.
  (i)   DefaultPredictionStrategy + fast_pred_var: the hook clears the strategy's memo, but the operator-level cache of
        `lik_train_train_covar` ('cholesky', 'root_inv_decomposition') survives -> second variance backward raises.
  (ii)  InterpolatedPredictionStrategy (KISS-GP): mean_cache / covar_cache have no hook, GridKernel._cached_kernel_mat
        keeps its graph.
  (iii) SGPRPredictionStrategy.covar_cache and RFFPredictionStrategy.covar_cache: no hook.
  (iv)  KISS-GP: after ONE prediction under detach_test_caches(False) (no backward needed), get_fantasy_model under the
        default settings raises in deepcopy(self) because GridKernel._cached_kernel_mat is a non-leaf tensor.
Exit code 1 if any is present.
"""
import sys, warnings
import torch, gpytorch
from gpytorch import settings as S
warnings.filterwarnings("ignore")
torch.set_default_dtype(torch.float64)


class GP(gpytorch.models.ExactGP):
    def __init__(self, X, y, kind):
        lik = gpytorch.likelihoods.GaussianLikelihood()
        super().__init__(X, y, lik)
        self.mean_module = gpytorch.means.ConstantMean()
        base = gpytorch.kernels.RBFKernel()
        if kind == "default":
            self.covar_module = gpytorch.kernels.ScaleKernel(base)
        elif kind == "kiss":
            self.covar_module = gpytorch.kernels.ScaleKernel(
                gpytorch.kernels.GridInterpolationKernel(base, grid_size=32, grid_bounds=[(-0.5, 1.5)]))
        elif kind == "sgpr":
            self.covar_module = gpytorch.kernels.InducingPointKernel(
                gpytorch.kernels.ScaleKernel(base), torch.linspace(0, 1, 6).unsqueeze(-1), lik)
        elif kind == "rff":
            torch.manual_seed(5)
            self.covar_module = gpytorch.kernels.ScaleKernel(gpytorch.kernels.RFFKernel(num_samples=20, num_dims=1))

    def forward(self, x):
        return gpytorch.distributions.MultivariateNormal(self.mean_module(x), self.covar_module(x))


g = torch.Generator().manual_seed(0)
X = torch.rand(12, 1, generator=g); y = torch.sin(6 * X.squeeze(-1))
xt = torch.linspace(0.05, 0.95, 7).unsqueeze(-1)
bad = 0
for kind, fpv in [("default", True), ("kiss", False), ("sgpr", False), ("rff", False)]:
    m = GP(X, y, kind); m.eval()
    msg = "ok"
    with S.detach_test_caches(False), S.fast_pred_var(fpv):
        for i in range(2):
            p = m(xt)
            try:
                (p.mean.sum() + p.variance.sum()).backward()
            except RuntimeError as e:
                msg = f"backward {i + 1} raised: " + str(e).split(".")[0]; bad += 1; break
    print(f"[{kind}, fast_pred_var={fpv}] predict/backward twice on the same eval-mode model:", msg)

m = GP(X, y, "kiss"); m.eval()
with S.detach_test_caches(False):
    m(xt).mean
m(xt)
try:
    m.get_fantasy_model(torch.rand(2, 1), torch.zeros(2)); print("[kiss] get_fantasy_model after a non-detached call: ok")
except RuntimeError as e:
    print("[kiss] get_fantasy_model after a non-detached call raised:", str(e).split(".")[0]); bad += 1
f = GP(X, y, "kiss"); f.eval(); f(xt); f.get_fantasy_model(torch.rand(2, 1), torch.zeros(2)); print("[kiss] fresh model: get_fantasy_model ok")
print("VIOLATION" if bad else "no violation")
sys.exit(1 if bad else 0)
