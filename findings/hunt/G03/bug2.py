#!/usr/bin/env python3
"""
C03 violation 2: the fantasy model of a variational GP (ApproximateGP.get_fantasy_model, "online variational
conditioning") keeps the pseudo-observation covariance of the inducing points ONLY inside the caches of its prediction
strategy (lik_train_train_covar / mean_cache), not in its likelihood or data.  Every documented cache invalidation point
therefore silently changes its predictions, although no parameter and no training datum changed:

  (a) predict -> backward pass through the (non-detached) predictive mean -> predict    (the clear_cache_hook fires)
  (b) predict -> fantasy_model.train(); fantasy_model.eval() -> predict                 (ExactGP._clear_cache)

All calls below run under the default settings.  Exit code 1 if the violation is present, 0 otherwise.
"""
import sys
import warnings

import torch

import gpytorch

warnings.filterwarnings("ignore")
torch.set_default_dtype(torch.float64)


class SVGP(gpytorch.models.ApproximateGP):
    def __init__(self, whitened=True):
        Z = torch.linspace(0, 1, 8).unsqueeze(-1)
        vd = gpytorch.variational.CholeskyVariationalDistribution(8)
        cls = gpytorch.variational.VariationalStrategy if whitened else gpytorch.variational.UnwhitenedVariationalStrategy
        super().__init__(cls(self, Z, vd, learn_inducing_locations=True))
        self.mean_module = gpytorch.means.ConstantMean()
        self.covar_module = gpytorch.kernels.ScaleKernel(gpytorch.kernels.RBFKernel())
        self.likelihood = gpytorch.likelihoods.GaussianLikelihood()

    def forward(self, x):
        return gpytorch.distributions.MultivariateNormal(self.mean_module(x), self.covar_module(x))


def trained_model(whitened):
    torch.manual_seed(0)
    X = torch.rand(20, 1)
    y = torch.sin(6 * X.squeeze(-1)) + 0.05 * torch.randn(20)
    model = SVGP(whitened)
    mll = gpytorch.mlls.VariationalELBO(model.likelihood, model, 20)
    opt = torch.optim.Adam(model.parameters(), lr=0.1)
    model.train()
    for _ in range(30):
        opt.zero_grad()
        loss = -mll(model(X), y)
        loss.backward()
        opt.step()
    model.eval()
    return model


def run(whitened):
    name = "VariationalStrategy" if whitened else "UnwhitenedVariationalStrategy"
    xt = torch.linspace(0.05, 0.95, 7).unsqueeze(-1)
    torch.manual_seed(1)
    xf = torch.rand(3, 1)
    yf = torch.sin(6 * xf.squeeze(-1))

    # ---- history (a): predict, backward, predict
    model = trained_model(whitened)
    model(xt)
    fm = model.get_fantasy_model(xf, yf)
    p1 = fm(xt)
    m1 = p1.mean.detach().clone()
    p1.mean.sum().backward()  # a backward pass through a non-detached prediction
    with torch.no_grad():
        m2 = fm(xt).mean.clone()
    d_a = (m1 - m2).abs().max().item()

    # ---- history (b): predict, train()/eval(), predict
    model = trained_model(whitened)
    model(xt)
    fm = model.get_fantasy_model(xf, yf)
    with torch.no_grad():
        m1b = fm(xt).mean.clone()
    state_before = {k: v.clone() for k, v in fm.state_dict().items()}
    fm.train()
    fm.eval()
    state_after = fm.state_dict()
    same_state = all(torch.equal(state_before[k], state_after[k]) for k in state_before)
    with torch.no_grad():
        m2b = fm(xt).mean.clone()
    d_b = (m1b - m2b).abs().max().item()

    # ---- reference: a second fantasy model created from the same variational GP (never touched)
    with torch.no_grad():
        ref = model.get_fantasy_model(xf, yf)(xt).mean.clone()

    print(f"[{name}]")
    print("  fantasy-model mean, first prediction      :", [round(v, 4) for v in m1.tolist()])
    print("  same object after one backward pass       :", [round(v, 4) for v in m2.tolist()])
    print("  same object after train()/eval()          :", [round(v, 4) for v in m2b.tolist()])
    print("  untouched second fantasy model (reference):", [round(v, 4) for v in ref.tolist()])
    print(f"  (a) max |before - after backward|      = {d_a:.3e}")
    print(f"  (b) max |before - after train()/eval()| = {d_b:.3e}   (state_dict unchanged: {same_state})")
    print(f"  first prediction vs reference           = {(m1b - ref).abs().max().item():.3e}")
    return max(d_a, d_b)


if __name__ == "__main__":
    worst = max(run(True), run(False))
    print(f"worst discrepancy = {worst:.3e}  (tolerance 1e-6)")
    if worst > 1e-6:
        print("VIOLATION: predictions of a variational fantasy model change after a backward pass / train()-eval()")
        sys.exit(1)
    print("no violation")
    sys.exit(0)
