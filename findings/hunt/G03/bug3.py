#!/usr/bin/env python3
"""
C03 violation 3: the caches of the exact-GP DefaultPredictionStrategy (mean_cache, covar_cache and the operator-level
root_inv_decomposition cache of lik_train_train_covar) are filled with whatever numerical settings are active at the
FIRST eval-mode call (max_cholesky_size, max_root_decomposition_size, max_cg_iterations ...) and are then reused by later
calls that run under different (here: the default) settings.

History 1 (covariance): eval() -> prediction under fast_pred_var + max_cholesky_size(0) + max_root_decomposition_size(5)
                        -> prediction under fast_pred_var alone.
History 2 (mean):       eval() -> prediction under max_cholesky_size(0) + max_cg_iterations(12) (a deliberately cheap
                        solve) -> prediction under the default settings.
Reference: a freshly constructed model with the same state_dict and data, called under the settings of the second call
(n = 150 <= max_cholesky_size = 800, so the fresh model uses an exact Cholesky factorisation) and the dense formula.

Exit code 1 if the violation is present, 0 otherwise.
"""
import sys
import warnings

import torch

import gpytorch
from gpytorch import settings as S

warnings.filterwarnings("ignore")
torch.set_default_dtype(torch.float64)


class GP(gpytorch.models.ExactGP):
    def __init__(self, X, y):
        super().__init__(X, y, gpytorch.likelihoods.GaussianLikelihood())
        self.mean_module = gpytorch.means.ConstantMean()
        self.covar_module = gpytorch.kernels.ScaleKernel(gpytorch.kernels.RBFKernel())

    def forward(self, x):
        return gpytorch.distributions.MultivariateNormal(self.mean_module(x), self.covar_module(x))


def make(X, y):
    m = GP(X, y)
    m.likelihood.initialize(noise=1e-3)
    m.covar_module.initialize(outputscale=1.3)
    m.covar_module.base_kernel.initialize(lengthscale=0.1)
    m.eval()
    return m


def dense_reference(m, X, y, xt):
    with torch.no_grad():
        K = m.covar_module(X).to_dense() + m.likelihood.noise * torch.eye(X.size(0))
        Ks = m.covar_module(xt, X).to_dense()
        Kss = m.covar_module(xt).to_dense()
        mu = m.mean_module.constant
        mean = mu + Ks @ torch.linalg.solve(K, (y - mu).unsqueeze(-1)).squeeze(-1)
        cov = Kss - Ks @ torch.linalg.solve(K, Ks.T)
    return mean, cov


if __name__ == "__main__":
    g = torch.Generator().manual_seed(0)
    X = torch.rand(150, 1, generator=g)
    y = torch.sin(6 * X.squeeze(-1)) + 0.1 * torch.randn(150, generator=g)
    xt = torch.linspace(0.05, 0.95, 7).unsqueeze(-1)

    # ---------------- history 1: predictive variances under fast_pred_var
    m = make(X, y)
    with S.fast_pred_var(), S.max_cholesky_size(0), S.max_root_decomposition_size(5):
        first = m(xt)
        first.mean, first.variance
    with S.fast_pred_var(), torch.no_grad():
        var = m(xt).variance.clone()
        fresh = make(X, y)
        fresh.load_state_dict(m.state_dict())
        var_fresh = fresh(xt).variance.clone()
    _, cov_dense = dense_reference(m, X, y, xt)
    d_var = (var - var_fresh).abs().max().item()
    print("history 1: fast_pred_var variances")
    print("  after a first call under max_cholesky_size(0)+max_root_decomposition_size(5):", var.tolist())
    print("  fresh model, same settings as the second call                              :", var_fresh.tolist())
    print("  dense formula                                                              :", cov_dense.diagonal().tolist())
    print(f"  max |var - fresh var| = {d_var:.3e}   (fresh vs dense: {(var_fresh - cov_dense.diagonal()).abs().max().item():.1e})")

    # ---------------- history 2: predictive mean under the default settings
    m = make(X, y)
    with S.max_cholesky_size(0), S.max_cg_iterations(12), S.max_lanczos_quadrature_iterations(5), S.max_preconditioner_size(0):
        with S.skip_posterior_variances():
            m(xt).mean
    with torch.no_grad():
        mean = m(xt).mean.clone()
        fresh = make(X, y)
        fresh.load_state_dict(m.state_dict())
        mean_fresh = fresh(xt).mean.clone()
    mean_dense, _ = dense_reference(m, X, y, xt)
    d_mean = (mean - mean_fresh).abs().max().item()
    print("history 2: predictive mean under the default settings")
    print("  after a first call under max_cholesky_size(0)+max_cg_iterations(12):", mean.tolist())
    print("  fresh model, default settings                                      :", mean_fresh.tolist())
    print("  dense formula                                                      :", mean_dense.tolist())
    print(f"  max |mean - fresh mean| = {d_mean:.3e}   (fresh vs dense: {(mean_fresh - mean_dense).abs().max().item():.1e})")

    worst = max(d_var, d_mean)
    print(f"worst discrepancy = {worst:.3e}  (tolerance 1e-4)")
    if worst > 1e-4:
        print("VIOLATION: numerical settings of the first eval-mode call leak into later predictions of an exact GP")
        sys.exit(1)
    print("no violation")
    sys.exit(0)
