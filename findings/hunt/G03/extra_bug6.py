#!/usr/bin/env python3
"""
C03 extra finding 6 (exception): get_fantasy_model of a multitask exact GP (MultitaskMean/MultitaskKernel/
MultitaskGaussianLikelihood) always raises in DefaultPredictionStrategy.get_fantasy_strategy although exact_gp.py and the
strategy carry explicit MultitaskMultivariateNormal branches: `targets - fant_mean` is (m x t) while `ftcm` is flat (m*t).
Exit code 1 if present.
"""
import sys, warnings
import torch, gpytorch
warnings.filterwarnings("ignore")
torch.set_default_dtype(torch.float64)


class MT(gpytorch.models.ExactGP):
    def __init__(self, X, Y):
        super().__init__(X, Y, gpytorch.likelihoods.MultitaskGaussianLikelihood(num_tasks=2))
        self.mean_module = gpytorch.means.MultitaskMean(gpytorch.means.ConstantMean(), num_tasks=2)
        self.covar_module = gpytorch.kernels.MultitaskKernel(gpytorch.kernels.RBFKernel(), num_tasks=2, rank=1)

    def forward(self, x):
        return gpytorch.distributions.MultitaskMultivariateNormal(self.mean_module(x), self.covar_module(x))


torch.manual_seed(0)
X = torch.rand(10, 1); Y = torch.stack([torch.sin(6 * X.squeeze(-1)), torch.cos(5 * X.squeeze(-1))], -1)
m = MT(X, Y); m.eval(); m(torch.rand(4, 1))
xf = torch.rand(3, 1); Yf = torch.stack([torch.sin(6 * xf.squeeze(-1)), torch.cos(5 * xf.squeeze(-1))], -1)
try:
    fm = m.get_fantasy_model(xf, Yf)
    print("get_fantasy_model ok"); sys.exit(0)
except RuntimeError as e:
    print("get_fantasy_model(xf [3x1], Yf [3x2]) raised:", e); print("VIOLATION"); sys.exit(1)
