"""
C09 / GridKernel on batched inputs.

A batch of b data sets that all live on the same grid (x of shape b x N x d, every batch member equal to the grid)
is given to GridKernel(RBFKernel(), grid) - a kernel WITHOUT batch_shape, i.e. hyper-parameters shared by the batch.
Every ordinary kernel broadcasts here (RBFKernel()(x_b) is b x N x N), and GridKernel.forward explicitly recognises
the case (it expands full_grid to x1's batch shape before the torch.equal test) - but the Kronecker/Toeplitz operator
it then returns has NO batch dimension, so the lazily evaluated kernel fails its shape check:
    RuntimeError: The expected shape of the kernel was torch.Size([3, 20, 20]), but got torch.Size([20, 20]).
    This is likely a bug in GPyTorch.
Consequently neither the kernel matrix, nor the marginal log likelihood, nor a prediction of such a batch GP can be
computed.  The dense meaning is simply RBF(x_b, x_b); the same call works if the base kernel has batch_shape=[b],
or if the inputs are not exactly the grid.
"""
import sys
import warnings

import torch

import gpytorch
from gpytorch.kernels import GridKernel, RBFKernel
from gpytorch.utils.grid import create_data_from_grid

warnings.simplefilter("ignore")
torch.set_default_dtype(torch.float64)
torch.manual_seed(0)

grid = [torch.linspace(0, 1, 5), torch.linspace(0, 2, 4)]
X = create_data_from_grid(grid)  # 20 x 2
N, b = X.shape[0], 3
Xb = X.expand(b, N, 2).contiguous()
yb = torch.randn(b, N)

failed = False


def attempt(label, fn, ref):
    global failed
    try:
        val = fn()
        err = (val - ref).abs().max().item()
        print(f"{label}: shape {tuple(val.shape)}, |lib - dense| = {err:.2e}")
        if err > 1e-8:
            failed = True
    except Exception as e:
        failed = True
        print(f"{label}: RAISES {type(e).__name__}: {e}")


for toeplitz in (True, False):
    with gpytorch.settings.use_toeplitz(toeplitz), torch.no_grad():
        base = RBFKernel()
        base.lengthscale = 0.6
        kern = GridKernel(base, grid)
        ref = base(Xb, Xb).to_dense()  # b x N x N, the dense meaning
        print(f"use_toeplitz={toeplitz}")
        # sanity: the un-batched call is exact
        attempt("  GridKernel(x)            x: 20 x 2    ", lambda: kern(X, X).to_dense(), ref[0])
        # sanity: batched inputs that are NOT the grid broadcast as for every other kernel
        Xoff = Xb + 0.01
        attempt("  GridKernel(x_b + 0.01)   x: 3 x 20 x 2", lambda: kern(Xoff, Xoff).to_dense(), base(Xoff, Xoff).to_dense())
        # the violation
        attempt("  GridKernel(x_b)          x: 3 x 20 x 2", lambda: kern(Xb, Xb).to_dense(), ref)


# the same thing through a model: batch GP with shared hyper-parameters on gridded data
class GridGP(gpytorch.models.ExactGP):
    def __init__(self, x, y, lik):
        super().__init__(x, y, lik)
        self.mean_module = gpytorch.means.ZeroMean()
        self.covar_module = GridKernel(RBFKernel(), grid)

    def forward(self, x):
        return gpytorch.distributions.MultivariateNormal(self.mean_module(x), self.covar_module(x))


lik = gpytorch.likelihoods.GaussianLikelihood()
model = GridGP(Xb, yb, lik)
mll = gpytorch.mlls.ExactMarginalLogLikelihood(lik, model)
with torch.no_grad():
    K = model.covar_module.base_kernel(Xb, Xb).to_dense() + lik.noise * torch.eye(N)
    ref_mll = torch.distributions.MultivariateNormal(torch.zeros(b, N), K).log_prob(yb) / N
    attempt("marginal log likelihood of the batch GP    ", lambda: mll(model(Xb), yb), ref_mll)

if failed:
    print("VIOLATION: GridKernel cannot be evaluated on a batch of gridded inputs unless its base kernel is batched too")
    sys.exit(1)
print("no violation")
sys.exit(0)
