"""
(extra, not one of the three main findings - same construct as the recorded ScaleKernel(InducingPointKernel) objective
finding, but a different failure)  ScaleKernel(InducingPointKernel(RBF)) cannot predict:
ScaleKernel.prediction_strategy hands the model to SGPRPredictionStrategy, whose exact_predictive_covar only accepts
a MatmulLinearOperator / LowRankRootAddedDiagLinearOperator and gets the ConstantMulLinearOperator of the ScaleKernel.
(ScaleKernel(GridInterpolationKernel) and ScaleKernel(RFFKernel) are unwrapped by their strategies.)
"""
import sys, warnings
import torch, gpytorch
from gpytorch.kernels import InducingPointKernel, RBFKernel, ScaleKernel
warnings.simplefilter("ignore")
torch.set_default_dtype(torch.float64)
torch.manual_seed(0)


class GP(gpytorch.models.ExactGP):
    def __init__(self, x, y, lik, k):
        super().__init__(x, y, lik)
        self.mean_module = gpytorch.means.ZeroMean()
        self.covar_module = k

    def forward(self, x):
        return gpytorch.distributions.MultivariateNormal(self.mean_module(x), self.covar_module(x))


x = torch.rand(20, 1); y = torch.sin(4 * x.squeeze(-1)); xs = torch.rand(5, 1)
lik = gpytorch.likelihoods.GaussianLikelihood()
k = ScaleKernel(InducingPointKernel(RBFKernel(), torch.rand(6, 1), lik))
model = GP(x, y, lik, k).eval(); lik.eval()
try:
    with torch.no_grad():
        out = model(xs)
        print("prediction ok", out.mean.shape)
    sys.exit(0)
except Exception as e:
    print(f"RAISES {type(e).__name__}: {e}")
    sys.exit(1)
