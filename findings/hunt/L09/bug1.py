"""
C09 / KISS-GP fantasy update under the settings of the quantifier (fast_pred_var, fast_pred_samples).

A KISS-GP model (GridInterpolationKernel, fixed grid_bounds) is conditioned on 5 more observations with
get_fantasy_model (InterpolatedPredictionStrategy.get_fantasy_strategy, the WISKI update).  The fantasy model is then
asked for its predictive distribution under the four combinations of fast_pred_var / fast_pred_samples.  The
reference is the dense conditional of the SAME approximate kernel matrix W K_UU W^T on the concatenated data.

Three combinations reproduce the dense conditional; fast_pred_samples(True) with fast_pred_var(False) raises
NotImplementedError inside InterpolatedPredictionStrategy.fantasy_covar_cache.
"""
import sys
import traceback
import warnings

import torch

import gpytorch
from gpytorch.kernels import GridInterpolationKernel, RBFKernel, ScaleKernel

warnings.simplefilter("ignore")
torch.set_default_dtype(torch.float64)


class KissGP(gpytorch.models.ExactGP):
    def __init__(self, x, y, lik):
        super().__init__(x, y, lik)
        self.mean_module = gpytorch.means.ConstantMean()
        self.covar_module = ScaleKernel(GridInterpolationKernel(RBFKernel(), grid_size=12, grid_bounds=[(0.0, 1.0)]))

    def forward(self, x):
        return gpytorch.distributions.MultivariateNormal(self.mean_module(x), self.covar_module(x))


def make():
    torch.manual_seed(0)
    x = torch.rand(30, 1)
    y = torch.sin(6 * x.squeeze(-1)) + 0.1 * torch.randn(30)
    lik = gpytorch.likelihoods.GaussianLikelihood()
    lik.noise = 0.05
    model = KissGP(x, y, lik)
    model.covar_module.base_kernel.base_kernel.lengthscale = 0.3
    model.covar_module.outputscale = 1.7
    model.mean_module.constant.data.fill_(0.3)
    model.eval()
    lik.eval()
    return model, x, y


torch.manual_seed(1)
xs = torch.rand(7, 1)
xf = torch.rand(5, 1)
yf = torch.randn(5)

# dense reference: conditional of the approximate kernel on the 35 points
model, x, y = make()
with torch.no_grad():
    xa, ya = torch.cat([x, xf]), torch.cat([y, yf])
    k = model.covar_module
    A = k(xa, xa).to_dense() + 0.05 * torch.eye(35)
    Ks, Kss = k(xs, xa).to_dense(), k(xs, xs).to_dense()
    ref_mean = 0.3 + Ks @ torch.linalg.solve(A, ya - 0.3)
    ref_cov = Kss - Ks @ torch.linalg.solve(A, Ks.T)

failed = False
for fpv in (False, True):
    for fps in (False, True):
        model, x, y = make()
        try:
            with torch.no_grad(), gpytorch.settings.fast_pred_var(fpv), gpytorch.settings.fast_pred_samples(fps):
                model(xs)  # fills the caches get_fantasy_model asks for
                fant = model.get_fantasy_model(xf, yf)
                out = fant(xs)
                mean, cov = out.mean, out.covariance_matrix
            e_mean = (mean - ref_mean).abs().max().item()
            e_cov = (cov - ref_cov).abs().max().item()
            ok = e_mean < 1e-5 and e_cov < 1e-5  # (fast_pred_samples adds a 1e-7 jitter to the root)
            print(f"fast_pred_var={fpv!s:5} fast_pred_samples={fps!s:5}: |mean - dense| = {e_mean:.2e}  |cov - dense| = {e_cov:.2e}"
                  f"  {'ok' if ok else 'MISMATCH'}")
            failed |= not ok
        except Exception as e:
            failed = True
            tb = traceback.extract_tb(e.__traceback__)
            where = [f for f in tb if "exact_prediction_strategies" in f.filename][-1]
            print(f"fast_pred_var={fpv!s:5} fast_pred_samples={fps!s:5}: RAISES {type(e).__name__}: {e}")
            print(f"    raised below {where.filename.split('/gpytorch/')[-1]}:{where.lineno} in {where.name}")

if failed:
    print("VIOLATION: the KISS-GP fantasy model cannot predict under fast_pred_samples(True) + fast_pred_var(False)")
    sys.exit(1)
print("no violation")
sys.exit(0)
