"""
(extra) b outputs that share the inputs x (n x d, not batched), the lengthscale and the structured kernel, but have
their own outputscale: ScaleKernel(GridInterpolationKernel(RBFKernel(), ...), batch_shape=[b]) resp.
ScaleKernel(RFFKernel(...), batch_shape=[b]), targets b x n.
ScaleKernel.forward multiplies the un-batched InterpolatedLinearOperator / LowRankRootLinearOperator by a b x 1 x 1
tensor, which densifies it; ScaleKernel.prediction_strategy nevertheless selects InterpolatedPredictionStrategy /
RFFPredictionStrategy, which then die with AttributeError (.left_interp_indices / .root of a DenseLinearOperator).
The default dense conditional of the very same kernel matrix is well defined (printed as reference check).
With inputs expanded to b x n x d the same model predicts correctly.
"""
import sys, warnings
import torch, gpytorch
from gpytorch.kernels import GridInterpolationKernel, RBFKernel, RFFKernel, ScaleKernel
warnings.simplefilter("ignore")
torch.set_default_dtype(torch.float64)


class GP(gpytorch.models.ExactGP):
    def __init__(self, x, y, lik, k):
        super().__init__(x, y, lik)
        self.mean_module = gpytorch.means.ZeroMean()
        self.covar_module = k

    def forward(self, x):
        return gpytorch.distributions.MultivariateNormal(self.mean_module(x), self.covar_module(x))


failed = False
for kind in ("kiss", "rff"):
    for batched_x in (True, False):
        torch.manual_seed(0)
        n, b = 20, 3
        x = torch.rand(n, 1); y = torch.randn(b, n); xs = torch.rand(5, 1)
        if batched_x:
            x, xs = x.expand(b, n, 1).contiguous(), xs.expand(b, 5, 1).contiguous()
        inner = (GridInterpolationKernel(RBFKernel(), grid_size=10, grid_bounds=[(0.0, 1.0)]) if kind == "kiss"
                 else RFFKernel(num_samples=6, num_dims=1))
        k = ScaleKernel(inner, batch_shape=torch.Size([b]))
        k.outputscale = torch.tensor([0.5, 1.0, 2.0])
        lik = gpytorch.likelihoods.GaussianLikelihood(); lik.noise = 0.05
        model = GP(x, y, lik, k).eval(); lik.eval()
        with torch.no_grad():
            A = k(x, x).to_dense() + 0.05 * torch.eye(n)
            Ks = k(xs, x).to_dense()
            ref = (Ks @ torch.linalg.solve(A, y.unsqueeze(-1))).squeeze(-1)
            try:
                out = model(xs)
                print(f"{kind} batched_x={batched_x}: |mean - dense conditional| = {(out.mean - ref).abs().max():.2e}")
            except Exception as e:
                failed = True
                print(f"{kind} batched_x={batched_x}: RAISES {type(e).__name__}: {e}   (dense reference exists, shape {tuple(ref.shape)})")
sys.exit(1 if failed else 0)
