"""C15 / bug 3: beta = 0.0 (a valid value of the "multiplicative factor for the KL divergence term", and the usual
starting point of a KL warm-up / annealing schedule) makes VariationalELBO and PredictiveLogLikelihood raise
ZeroDivisionError, because the KL term is computed as  kl.div(num_data / beta)  instead of  kl * beta / num_data.
By definition the objective for beta = 0 is just (1/B) sum_i E_q[log p(y_i|f_i)]  (+ priors), a finite number; the very
same call works for beta = 1e-12 and for beta = torch.tensor(0.).
"""
import math
import sys
import warnings

import torch

import gpytorch
from gpytorch.variational import CholeskyVariationalDistribution, VariationalStrategy

warnings.filterwarnings("ignore")
torch.set_default_dtype(torch.float64)
torch.manual_seed(0)


class SVGP(gpytorch.models.ApproximateGP):
    def __init__(self, Z):
        vd = CholeskyVariationalDistribution(Z.size(-2))
        super().__init__(VariationalStrategy(self, Z, vd))
        self.mean_module = gpytorch.means.ConstantMean()
        self.covar_module = gpytorch.kernels.ScaleKernel(gpytorch.kernels.RBFKernel())

    def forward(self, x):
        return gpytorch.distributions.MultivariateNormal(self.mean_module(x), self.covar_module(x))


n = 8
x, y = torch.randn(n, 2), torch.randn(n)
model = SVGP(torch.randn(5, 2))
lik = gpytorch.likelihoods.GaussianLikelihood()
model.train(), lik.train()
model(x)  # initialise q(u), then move it away from the prior so that KL > 0
with torch.no_grad():
    vd = model.variational_strategy._variational_distribution
    vd.variational_mean.add_(0.5 * torch.randn(5))
    vd.chol_variational_covar.mul_(0.7)
out = model(x)

with torch.no_grad():
    noise = lik.noise
    expected = (-0.5 * (((y - out.mean) ** 2 + out.variance) / noise + noise.log() + math.log(2 * math.pi))).sum() / n
    expected = expected.item()
print("definition for beta = 0 : (1/B) sum_i E_q[log p(y_i|f_i)] = %.6f" % expected)

failed = False
for cls in (gpytorch.mlls.VariationalELBO, gpytorch.mlls.PredictiveLogLikelihood):
    for beta in (1e-12, torch.tensor(0.0), 0.0):
        mll = cls(lik, model, num_data=n, beta=beta)
        try:
            val = mll(model(x), y).item()
            print("%-26s beta = %-12r -> %.6f" % (cls.__name__, beta, val))
        except Exception as exc:  # noqa
            print("%-26s beta = %-12r -> raises %s: %s" % (cls.__name__, beta, type(exc).__name__, exc))
            failed = True

# the annealing use case
mll = gpytorch.mlls.VariationalELBO(lik, model, num_data=n)
for epoch in range(3):
    mll.beta = epoch / 2  # 0.0, 0.5, 1.0
    try:
        print("warm-up epoch %d, beta = %.1f -> %.6f" % (epoch, mll.beta, mll(model(x), y).item()))
    except ZeroDivisionError as exc:
        print("warm-up epoch %d, beta = %.1f -> raises ZeroDivisionError: %s" % (epoch, mll.beta, exc))
        failed = True

print("VIOLATION PRESENT" if failed else "no violation")
sys.exit(1 if failed else 0)
