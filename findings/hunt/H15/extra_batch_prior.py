"""C15 / extra candidate (not counted among the three): in a batch of independent SVGP models every element of the
returned ELBO contains the log priors of ALL batch members (prior.log_prob(...).sum() in _ApproximateMarginalLogLikelihood
.forward), so ELBO[b] differs from the ELBO of a non-batch replica that has the b-th slice of every parameter.
"""
import sys
import warnings

import torch

import gpytorch
from gpytorch.priors import GammaPrior
from gpytorch.variational import CholeskyVariationalDistribution, VariationalStrategy

warnings.filterwarnings("ignore")
torch.set_default_dtype(torch.float64)
torch.manual_seed(0)


class SVGP(gpytorch.models.ApproximateGP):
    def __init__(self, Z, bs):
        vd = CholeskyVariationalDistribution(Z.size(-2), batch_shape=bs)
        super().__init__(VariationalStrategy(self, Z, vd, learn_inducing_locations=False))
        self.mean_module = gpytorch.means.ConstantMean(batch_shape=bs)
        self.covar_module = gpytorch.kernels.ScaleKernel(
            gpytorch.kernels.RBFKernel(batch_shape=bs, lengthscale_prior=GammaPrior(3.0, 6.0)),
            batch_shape=bs,
            outputscale_prior=GammaPrior(2.0, 0.15),
        )

    def forward(self, x):
        return gpytorch.distributions.MultivariateNormal(self.mean_module(x), self.covar_module(x))


n, N, B = 8, 8, 3
Z = torch.randn(5, 2)
x, y = torch.randn(n, 2), torch.randn(n)
bs = torch.Size([B])
model = SVGP(Z, bs)
lik = gpytorch.likelihoods.GaussianLikelihood(batch_shape=bs)
model.train(), lik.train()
model(x)
with torch.no_grad():
    for p in list(model.parameters()) + list(lik.parameters()):
        p.add_(0.3 * torch.randn_like(p))
batch_elbo = gpytorch.mlls.VariationalELBO(lik, model, num_data=N)(model(x), y).detach()

singles = []
for b in range(B):
    mb = SVGP(Z, torch.Size([]))
    lb = gpytorch.likelihoods.GaussianLikelihood()
    mb.train(), lb.train()
    mb(x)
    sd = {k: v[b] if v.dim() > 0 and v.shape[0] == B else v for k, v in model.state_dict().items()}
    mb.load_state_dict(sd)
    lb.load_state_dict({k: v[b] if v.dim() > 0 and v.shape[0] == B else v for k, v in lik.state_dict().items()})
    singles.append(gpytorch.mlls.VariationalELBO(lb, mb, num_data=N)(mb(x), y).detach())
singles = torch.stack(singles)
print("batch model ELBO[b]      :", batch_elbo.tolist())
print("non-batch replica ELBO   :", singles.tolist())
print("difference               :", (batch_elbo - singles).tolist())
err = (batch_elbo - singles).abs().max().item()
sys.exit(1 if err > 1e-6 else 0)
